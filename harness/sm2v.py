"""
sm2v -- fail-closed translator used by C08 and C23 (schema / ModifyColumn code) from a small Python subset to Gallina.

The deciding statements of the two properties are REGENERATED from /repo on every run (coq/gen/SchemaSync_gen.v,
coq/gen/ModifyColumn_gen.v) and bridged to the hand models by proved lemmas, so a semantic edit of those statements
breaks a proof obligation.  Everything outside the subset raises Untranslatable (reported as a broken tie).

A binding (dict) says how the free names of the translated text map to Coq:
  names      {python name: coq term}                       free variables / parameters / constants
  exprs      {unparsed python expression: coq term}        whole sub-expressions taken as given (e.g. 'table.row_ids')
  calls      {unparsed callee: template}                   template.format(*args) ; keyword arguments are part of the
                                                           key: 'schema.col_to_dict(include_id=False,include_default=True)'
  attrs      {attribute name: template}                    template.format(object)
  index      {unparsed container: template}                container[k] -> template.format(k)
  mutators   {unparsed callee: (variable, template)}       statement `callee(args)` rebinds variable
  noop       set of unparsed callees whose call statements have no effect on the modelled state
  dict_get   {variable: {key: template(default)}}          variable.get('key', default)
  dict_has   {variable: {key: coq bool term}}              'key' in variable
  records    {constructor name as unparsed callee: template}  (as calls)
  on_return  coq term for a bare `return` inside an `if`
Statements: assignment to a name, `x[const] = e` on a record-dict variable (binding 'setitem'), calls of mutators,
`for v in e:` (fold_left over the variables the body rebinds), `if`/`else` (optionally `not`), `continue` as the last
statement of a branch, bare `return` in an `if` at the top level of the translated range, `pass`.
"""
import ast


class Untranslatable(Exception):
  pass


def U(node):
  return ast.unparse(node)


def callee_key(call):
  """Key of a call in the binding: callee text plus keyword arguments, e.g. 'f(include_id=False)'."""
  k = U(call.func)
  if call.keywords:
    k += '(' + ','.join('%s=%s' % (kw.arg, U(kw.value)) for kw in call.keywords) + ')'
  return k


class Tr(object):
  def __init__(self, binding):
    self.b = binding
    self.locals = set()

  # ---------------------------------------------------------------- expressions
  def expr(self, n):
    b = self.b
    text = U(n)
    if text in b.get('exprs', {}):
      return b['exprs'][text]
    if isinstance(n, ast.Name):
      if n.id in self.locals:
        return n.id
      if n.id in b.get('names', {}):
        return b['names'][n.id]
      raise Untranslatable('unbound name %s' % n.id)
    if isinstance(n, ast.Constant):
      if n.value is None and 'None' in b.get('names', {}):
        return b['names']['None']
      if isinstance(n.value, bool):
        return 'true' if n.value else 'false'
      raise Untranslatable('constant %r' % (n.value,))
    if isinstance(n, ast.Attribute):
      if n.attr in b.get('attrs', {}):
        return '(' + b['attrs'][n.attr].format(self.expr(n.value)) + ')'
      raise Untranslatable('attribute .%s' % n.attr)
    if isinstance(n, ast.Subscript):
      c = U(n.value)
      if c in b.get('index', {}):
        return '(' + b['index'][c].format(self.expr(n.slice)) + ')'
      raise Untranslatable('subscript of %s' % c)
    if isinstance(n, ast.Call):
      # dict.get / `in` on record-dicts
      if isinstance(n.func, ast.Attribute) and n.func.attr == 'get' and isinstance(n.func.value, ast.Name) \
         and n.func.value.id in b.get('dict_get', {}) and not n.keywords and len(n.args) == 2 \
         and isinstance(n.args[0], ast.Constant):
        tbl = b['dict_get'][n.func.value.id]
        if n.args[0].value not in tbl:
          raise Untranslatable('key %r of %s' % (n.args[0].value, n.func.value.id))
        return '(' + tbl[n.args[0].value].format(self.expr(n.args[1])) + ')'
      sp = self.special_call(n)
      if sp is not None:
        return sp
      k = callee_key(n)
      if k in b.get('calls', {}):
        return '(' + b['calls'][k].format(*[self.expr(a) for a in n.args]) + ')'
      raise Untranslatable('call of %s' % k)
    if isinstance(n, ast.Tuple):
      return '(' + ', '.join(self.expr(e) for e in n.elts) + ')'
    if isinstance(n, ast.Lambda):
      args = [a.arg for a in n.args.args]
      saved = set(self.locals)
      self.locals |= set(args)
      body = self.expr(n.body)
      self.locals = saved
      return '(fun %s => %s)' % (' '.join(args), body)
    if isinstance(n, ast.UnaryOp) and isinstance(n.op, ast.Not):
      return '(negb %s)' % self.expr(n.operand)
    if isinstance(n, ast.BoolOp):
      op = 'andb' if isinstance(n.op, ast.And) else 'orb'
      parts = [self.truth(v) for v in n.values]
      out = parts[-1]
      for p in reversed(parts[:-1]):
        out = '(%s %s %s)' % (op, p, out)
      return out
    if isinstance(n, ast.Compare) and len(n.ops) == 1:
      op, l, r = n.ops[0], n.left, n.comparators[0]
      if isinstance(op, ast.In) and isinstance(l, ast.Name) and isinstance(r, ast.Name) and r.id in b.get('dict_haskey', {}):
        return '(' + b['dict_haskey'][r.id].format(self.expr(l)) + ')'
      if isinstance(op, (ast.Eq, ast.NotEq)):
        key = 'eq:' + U(l) + ':' + U(r)
        if key in b.get('compare', {}):
          t = '(' + b['compare'][key].format(self.expr(l), self.expr(r)) + ')'
          return t if isinstance(op, ast.Eq) else '(negb %s)' % t
      raise Untranslatable('comparison %s' % text)
    if isinstance(n, ast.Dict):
      return self.dict_literal(n)
    if isinstance(n, ast.DictComp):
      return self.dict_comp(n)
    if isinstance(n, ast.List) and not n.elts:
      return '[]'
    raise Untranslatable('expression %s' % type(n).__name__)

  def lam(self, n, arity=1):
    if not (isinstance(n, ast.Lambda) and len(n.args.args) == arity):
      raise Untranslatable('expected a lambda of %d argument(s): %s' % (arity, U(n)))
    return n

  def under(self, names, node):
    saved = set(self.locals)
    self.locals |= set(names)
    out = self.expr(node)
    self.locals = saved
    return out

  def special_call(self, n):
    """Library calls with a fixed Gallina counterpart (Model/SchemaCode.v)."""
    f = U(n.func)
    # sorted(l, key=lambda c: (k1, k2))  /  key=lambda c: k1
    if f == 'sorted' and len(n.args) == 1 and len(n.keywords) == 1 and n.keywords[0].arg == 'key':
      lm = self.lam(n.keywords[0].value)
      v = lm.args.args[0].arg
      if isinstance(lm.body, ast.Tuple) and len(lm.body.elts) == 2:
        k1, k2 = (self.under([v], e) for e in lm.body.elts)
      else:
        k1, k2 = self.under([v], lm.body), '0'
      return '(sorted_by2 (fun %s => %s) (fun %s => %s) %s)' % (v, k1, v, k2, self.expr(n.args[0]))
    # OrderedDict((k, v) for c in l)
    if f == 'OrderedDict' and len(n.args) == 1 and not n.keywords and isinstance(n.args[0], ast.GeneratorExp):
      g = n.args[0]
      if len(g.generators) != 1 or g.generators[0].ifs or not isinstance(g.generators[0].target, ast.Name) \
         or not (isinstance(g.elt, ast.Tuple) and len(g.elt.elts) == 2):
        raise Untranslatable('OrderedDict generator %s' % U(g))
      v = g.generators[0].target.id
      k, val = (self.under([v], e) for e in g.elt.elts)
      return '(od_of_list (map (fun %s => (%s, %s)) %s))' % (v, k, self.b.get('od_value', '{0}').format(val),
                                                            self.expr(g.generators[0].iter))
    # d.get(x) on a local dict built by a comprehension
    if isinstance(n.func, ast.Attribute) and n.func.attr == 'get' and isinstance(n.func.value, ast.Name) \
       and n.func.value.id in self.b.get('zdicts', ()) and len(n.args) == 1 and not n.keywords:
      return '(zdict_get %s %s)' % (self.expr(n.args[0]), self.expr(n.func.value))
    return None

  def truth(self, n):
    """Truthiness of an operand of `or`/`and`/`if`: the binding says how for non-boolean expressions."""
    t = U(n)
    if t in self.b.get('truthy', {}):
      return '(' + self.b['truthy'][t].format(self.expr(n)) + ')'
    return self.expr(n)

  def dict_literal(self, n):
    spec = self.b.get('record_dict')
    if not spec:
      raise Untranslatable('dict literal')
    given = {}
    for k, v in zip(n.keys, n.values):
      if not (isinstance(k, ast.Constant) and k.value in spec['keys']):
        raise Untranslatable('dict key %s' % U(k))
      given[k.value] = spec['wrap'][k.value].format(self.expr(v))
    return '{| ' + '; '.join('%s := %s' % (spec['keys'][k], given.get(k, 'None')) for k in spec['order']) + ' |}'

  def dict_comp(self, n):
    """{k: v for k, v in D.items() if k in X}  and  {k: D[k] for k in X if k in D}  on record-dicts:
    field-wise, the field of D is kept when both have the key."""
    if len(n.generators) != 1:
      raise Untranslatable('dict comprehension')
    g = n.generators[0]
    if not g.ifs and not g.is_async:
      # {t: list(cols) for t, cols in itertools.groupby(l, lambda r: key)}: the groups, as pairs
      if isinstance(g.iter, ast.Call) and U(g.iter.func) == 'itertools.groupby' and len(g.iter.args) == 2 \
         and isinstance(g.target, ast.Tuple) and len(g.target.elts) == 2 and isinstance(n.key, ast.Name) \
         and n.key.id == U(g.target.elts[0]) and U(n.value) == 'list(%s)' % U(g.target.elts[1]):
        lm = self.lam(g.iter.args[1])
        v = lm.args.args[0].arg
        return '(groupby_key (fun %s => %s) %s)' % (v, self.under([v], lm.body), self.expr(g.iter.args[0]))
      # {k: v for c in l}: the pairs in order (lookups take the last one: zdict_get)
      if isinstance(g.target, ast.Name):
        v = g.target.id
        return '(map (fun %s => (%s, %s)) %s)' % (v, self.under([v], n.key), self.under([v], n.value), self.expr(g.iter))
      raise Untranslatable('dict comprehension shape')
    spec = self.b.get('record_dict')
    if not spec:
      raise Untranslatable('dict comprehension')
    if len(g.ifs) != 1 or g.is_async:
      raise Untranslatable('dict comprehension filter')
    cond = g.ifs[0]
    if not (isinstance(cond, ast.Compare) and len(cond.ops) == 1 and isinstance(cond.ops[0], ast.In)
            and isinstance(cond.left, ast.Name) and isinstance(cond.comparators[0], ast.Name)):
      raise Untranslatable('dict comprehension condition %s' % U(cond))
    kname, other = cond.left.id, cond.comparators[0].id
    # form 1
    if isinstance(g.target, ast.Tuple) and len(g.target.elts) == 2 and isinstance(g.iter, ast.Call) \
       and isinstance(g.iter.func, ast.Attribute) and g.iter.func.attr == 'items' and not g.iter.args:
      k, v = g.target.elts
      if not (isinstance(n.key, ast.Name) and isinstance(n.value, ast.Name) and n.key.id == k.id == kname
              and n.value.id == v.id):
        raise Untranslatable('dict comprehension shape')
      src = self.expr(g.iter.func.value)
      filt = other
    # form 2
    elif isinstance(g.target, ast.Name) and isinstance(g.iter, ast.Name) and isinstance(n.key, ast.Name) \
         and n.key.id == g.target.id == kname and isinstance(n.value, ast.Subscript) \
         and isinstance(n.value.value, ast.Name) and n.value.value.id == other and U(n.value.slice) == kname:
      src = self.expr(n.value.value)
      filt = g.iter.id
    else:
      raise Untranslatable('dict comprehension shape')
    if filt not in self.b.get('dict_has', {}):
      raise Untranslatable('dict comprehension over %s' % filt)
    has = self.b['dict_has'][filt]
    fields = []
    for k in spec['order']:
      f = spec['keys'][k]
      fields.append('%s := if %s then %s src__ else None' % (f, has.get(k, 'false'), f))
    return '(let src__ := %s in {| %s |})' % (src, '; '.join(fields))

  # ---------------------------------------------------------------- statements
  def assigned(self, stmts):
    """Variables a block rebinds (assignment targets and mutated variables)."""
    out = []
    def add(v):
      if v not in out:
        out.append(v)
    for st in stmts:
      if isinstance(st, ast.Assign) and len(st.targets) == 1:
        t = st.targets[0]
        if isinstance(t, ast.Name):
          add(t.id)
          if isinstance(st.value, ast.Call) and callee_key(st.value) in self.b.get('assign_mutators', {}):
            add(self.b['assign_mutators'][callee_key(st.value)][0])
        elif isinstance(t, ast.Subscript):
          key = U(t.value)
          if key in self.b.get('setitem', {}):
            add(self.b['setitem'][key][0])
          else:
            raise Untranslatable('assignment to %s' % U(t))
        else:
          raise Untranslatable('assignment target %s' % U(t))
      elif isinstance(st, ast.Expr) and isinstance(st.value, ast.Call):
        k = callee_key(st.value)
        if k in self.b.get('mutators', {}):
          add(self.b['mutators'][k][0])
        elif k not in self.b.get('noop', ()):
          raise Untranslatable('statement call %s' % k)
      elif isinstance(st, ast.For):
        for v in self.assigned(st.body):
          add(v)
      elif isinstance(st, ast.If):
        for v in self.assigned(st.body) + self.assigned(st.orelse):
          add(v)
      elif isinstance(st, (ast.Pass, ast.Continue, ast.Return)):
        pass
      else:
        raise Untranslatable('statement %s' % type(st).__name__)
    return out

  def tup(self, vs):
    return vs[0] if len(vs) == 1 else '(' + ', '.join(vs) + ')'

  def pat(self, vs):
    return vs[0] if len(vs) == 1 else "'(" + ', '.join(vs) + ')'

  def block(self, stmts, outs, top=False):
    """Coq term for the values of `outs` after the statements."""
    if not stmts:
      return self.b.get('final', '{0}').format(self.tup(outs)) if top else self.tup(outs)
    st, rest = stmts[0], stmts[1:]
    if isinstance(st, ast.Pass):
      return self.block(rest, outs, top)
    if isinstance(st, ast.Continue):
      if rest:
        raise Untranslatable('code after continue')
      return self.tup(outs)
    if isinstance(st, ast.Assign):
      t = st.targets[0]
      if isinstance(t, ast.Name):
        am = self.b.get('assign_mutators', {})
        if isinstance(st.value, ast.Call) and callee_key(st.value) in am:
          var, vtmpl, etmpl = am[callee_key(st.value)]
          args = [self.expr(a) for a in st.value.args] + [var]
          val, eff = vtmpl.format(*args), etmpl.format(*args)
          self.locals |= {t.id, var}
          return 'let %s := %s in\nlet %s := %s in\n%s' % (t.id, val, var, eff, self.block(rest, outs, top))
        val = self.expr(st.value)
        self.locals.add(t.id)
        return 'let %s := %s in\n%s' % (t.id, val, self.block(rest, outs, top))
      key = U(t.value)
      var, tmpl = self.b['setitem'][key]
      if isinstance(tmpl, dict):
        if not (isinstance(t.slice, ast.Constant) and t.slice.value in tmpl):
          raise Untranslatable('item assignment %s' % U(t))
        val = tmpl[t.slice.value].format(self.expr(st.value), var)
      else:
        val = tmpl.format(self.expr(t.slice), self.expr(st.value), var)
      self.locals.add(var)
      return 'let %s := %s in\n%s' % (var, val, self.block(rest, outs, top))
    if isinstance(st, ast.Expr):
      k = callee_key(st.value)
      if k in self.b.get('noop', ()):
        return self.block(rest, outs, top)
      var, tmpl = self.b['mutators'][k]
      val = tmpl.format(*([self.expr(a) for a in st.value.args] + [var]))
      self.locals.add(var)
      return 'let %s := %s in\n%s' % (var, val, self.block(rest, outs, top))
    if isinstance(st, ast.For):
      if st.orelse or not isinstance(st.target, ast.Name):
        raise Untranslatable('for with else / tuple target')
      # loop-carried variables: rebound in the body and defined before the loop; the others are local to the body
      vs = [v for v in self.assigned(st.body) if v in self.locals or v in self.b.get('names', {})]
      if not vs:
        raise Untranslatable('loop without effect on the modelled state')
      it = self.expr(st.iter)
      saved = set(self.locals)
      self.locals |= set(vs) | {st.target.id}
      body = self.block(st.body, vs)
      self.locals = saved | set(vs)
      init = self.tup([v if v in saved else self.b['names'][v] for v in vs])
      return 'let %s := fold_left (fun st__ %s => let %s := st__ in\n%s) %s %s in\n%s' % (
        self.pat(vs), st.target.id, self.pat(vs), body, it, init, self.block(rest, outs, top))
    if isinstance(st, ast.If):
      test = self.truth(st.test)
      # `if c: ... return` at the top level: the rest of the range is the else branch
      if top and st.body and isinstance(st.body[-1], ast.Return) and st.body[-1].value is None and not st.orelse:
        pre = [x for x in st.body[:-1]]
        for x in pre:
          if not (isinstance(x, ast.Expr) and isinstance(x.value, ast.Call) and callee_key(x.value) in self.b.get('noop', ())):
            raise Untranslatable('statements before an early return')
        if 'on_return' not in self.b:
          raise Untranslatable('early return')
        return 'if %s then %s else\n%s' % (test, self.b['on_return'], self.block(rest, outs, top))
      vs = []
      for v in self.assigned(st.body) + self.assigned(st.orelse):
        if v not in vs:
          vs.append(v)
      saved = set(self.locals)
      a = self.block(st.body, vs)
      self.locals = set(saved)
      c = self.block(st.orelse, vs)
      self.locals = saved | set(vs)
      if not vs:
        return self.block(rest, outs, top)
      return 'let %s := if %s then %s else %s in\n%s' % (self.pat(vs), test, a, c, self.block(rest, outs, top))
    raise Untranslatable('statement %s' % type(st).__name__)


# ------------------------------------------------------------------------------------------------
def find_function(path, qualname):
  """The ast.FunctionDef of `Class.method` or `function` in the file."""
  with open(path) as f:
    tree = ast.parse(f.read())
  parts = qualname.split('.')
  body = tree.body
  node = None
  for p in parts:
    node = next((x for x in body if isinstance(x, (ast.FunctionDef, ast.ClassDef)) and x.name == p), None)
    if node is None:
      raise Untranslatable('%s not found in %s' % (qualname, path))
    body = node.body
  return node


def strip_doc(stmts):
  if stmts and isinstance(stmts[0], ast.Expr) and isinstance(stmts[0].value, ast.Constant) \
     and isinstance(stmts[0].value.value, str):
    return stmts[1:]
  return stmts


def split_range(fn, first_text, last_text):
  """(before, range, after) of the function body; the range starts at the statement whose unparsed text starts with
  first_text and ends with the one starting with last_text (both must be unique)."""
  body = strip_doc(fn.body)
  starts = [i for i, s in enumerate(body) if U(s).startswith(first_text)]
  ends = [i for i, s in enumerate(body) if U(s).startswith(last_text)]
  if len(starts) != 1 or len(ends) != 1 or ends[0] < starts[0]:
    raise Untranslatable('cannot locate the statements %r .. %r in %s' % (first_text, last_text, fn.name))
  return body[:starts[0]], body[starts[0]:ends[0] + 1], body[ends[0] + 1:]


def pin(stmts):
  """Canonical text of statements that are NOT translated: compared with the text the model was written from."""
  return '\n'.join(ast.dump(s, annotate_fields=False) for s in stmts)
