"""
One shared run of random histories against the real engine, evaluating the implementation-side oracles of the
history properties (C01 undo, C02 stored delta, C03 redo, C04 natural failures, C05 scratch recalculation,
C07 reload, C08 schema sync, C31 direct flags) after every bundle (DESIGN.md section 8, "history, K1").

Results are cached per (hash of /repo/sandbox/grist/**/*.py, seed, tier) so the checks sharing the run do not
each pay for it; a changed tree always invalidates the cache.
"""
import collections
import copy
import hashlib
import json
import os
import random
import time
import traceback

from harness import core
from harness import gristenv as G
from harness import histgen

import table_data_set   # noqa: E402


def tree_hash():
  h = hashlib.sha1()
  for dp, dn, fn in sorted(os.walk(core.GRIST)):
    dn.sort()
    for f in sorted(fn):
      if f.endswith('.py') or f.endswith('.data'):
        p = os.path.join(dp, f)
        h.update(p.encode())
        with open(p, 'rb') as fh:
          h.update(fh.read())
  for p in (os.path.join(core.VERIF, 'harness', x) for x in ('histrun.py', 'histgen.py', 'gristenv.py')):
    with open(p, 'rb') as fh:
      h.update(fh.read())
  return h.hexdigest()[:16]


class TdsMirror(object):
  """The independent doc-action interpreter (table_data_set.TableDataSet), fed with every stored action."""
  def __init__(self):
    self.tds = table_data_set.TableDataSet()

  def feed(self, stored):
    self.tds.apply_doc_actions([G.actions.action_from_repr(G.actions.get_action_repr(a)) for a in stored])

  def compare(self, e):
    """Differences between the mirror and the engine (tables, row ids, non-private cells incl. formulas)."""
    out = []
    snap = G.snapshot(e)
    for t, s in snap.items():
      td = self.tds.all_tables.get(t)
      if td is None:
        out.append('table %s missing in replayed stream' % t)
        continue
      if sorted(td.row_ids) != s['ids']:
        out.append('%s: row ids differ: replay %r engine %r' % (t, sorted(td.row_ids)[:10], s['ids'][:10]))
        continue
      order = {rid: i for i, rid in enumerate(td.row_ids)}
      for c, vals in s['cols'].items():
        if c not in td.columns:
          out.append('%s.%s missing in replayed stream' % (t, c))
          continue
        tv = [G.norm(G.objtypes.encode_object(td.columns[c][order[rid]])) for rid in s['ids']]
        if tv != vals:
          for rid, x, y in zip(s['ids'], tv, vals):
            if x != y:
              out.append('%s.%s[%s]: replay %r engine %r' % (t, c, rid, x, y))
              break
      for c in td.columns:
        if c not in s['cols'] and not c.startswith('#') and c != 'id' and not c.startswith('gristHelper_') \
           and c != 'manualSort':
          pass
    for t in self.tds.all_tables:
      if t not in snap:
        out.append('table %s only in replayed stream' % t)
    return out


def scratch_values(e):
  """Formula values computed by a fresh engine from metadata + data columns only (C05 oracle)."""
  f = G.new_engine()
  f.load_meta_tables(e.fetch_table('_grist_Tables'), e.fetch_table('_grist_Tables_column'))
  for t in e.tables:
    if t in ('_grist_Tables', '_grist_Tables_column'):
      continue
    f.load_table(e.fetch_table(t, formulas=False))
  f.load_done()
  G.apply(f, [['Calculate']])
  return f


def is_trigger_or_volatile(col):
  return False


def run_history(seed, nb, gen_kwargs=None, want=None, record=None):
  """
  Runs one history; returns (events, issues). issues: list of dict(prop, kind, what, replay).
  The replay of an issue is {'seed':..., 'history': [bundles so far], 'bundle': failing bundle}.
  """
  r = random.Random(seed)
  gen = histgen.HistGen(r, **(gen_kwargs or {}))
  e, out0 = G.new_doc()
  mirror = TdsMirror()
  mirror.feed(out0.stored)
  history = []
  issues = []
  stats = collections.Counter()

  def issue(prop, kind, what, bundle):
    issues.append({'prop': prop, 'kind': kind, 'what': what,
                   'replay': {'seed': seed, 'history': copy.deepcopy(history), 'bundle': copy.deepcopy(bundle)}})

  # document setup goes through the same oracles
  setup = []
  m = histgen.Meta(e)
  for _ in range(r.randint(1, 2)):
    setup.append([gen.gen_addtable(histgen.Meta(e))])
  plan = setup + [None] * nb
  for step in plan:
    bundle = step if step is not None else gen.bundle(e)
    before = G.snapshot(e)
    before_schema = G.engine_schema(e)
    try:
      out = G.apply(e, bundle)
    except Exception as ex:
      stats['failed_bundles'] += 1
      stats['fail:' + type(ex).__name__] += 1
      after = G.snapshot(e)
      if after != before:
        issue('C04', 'state-changed-after-failure',
              'bundle raised %s but tables differ: %s' % (type(ex).__name__, G.diff_snapshots(before, after)), bundle)
      if G.engine_schema(e) != before_schema:
        issue('C04', 'schema-changed-after-failure', 'engine schema differs after failed bundle', bundle)
      if G.engine_schema(e) != G.schema_of_meta(e):
        issue('C08', 'schema-mismatch-after-failure', 'engine.schema != build_schema(metadata) after failed bundle', bundle)
      try:
        o2 = G.apply(e, [['Calculate']])
        if o2.stored:
          issue('C04', 'calculate-emits-after-failure',
                'Calculate after failed bundle emitted %r' % (G.reprs(o2.stored)[:2],), bundle)
          mirror.feed(o2.stored)
      except Exception as ex2:
        issue('C04', 'unusable-after-failure', 'Calculate raised %r' % (ex2,), bundle)
      if any(i['prop'] == 'C04' and i['replay']['bundle'] == bundle for i in issues):
        # the failed bundle left a trace (a C04 matter): whatever follows in this history is not
        # attributable to any other property, so the history stops here
        stats['stopped_after_c04'] += 1
        return history, issues, stats
      # failed bundles are part of the replayable history (they must leave no trace, but a replay
      # has to go through them all the same)
      history.append(bundle)
      continue
    stats['ok_bundles'] += 1
    gen.after_bundle(e)
    after = G.snapshot(e)
    changed = after != before
    stats['changed' if changed else 'unchanged'] += 1
    # C31: stored and direct are parallel
    if len(out.stored) != len(out.direct):
      issue('C31', 'direct-not-parallel', 'len(stored)=%d len(direct)=%d' % (len(out.stored), len(out.direct)), bundle)
    # C02
    try:
      mirror.feed(out.stored)
      d = mirror.compare(e)
      if d:
        issue('C02', 'stored-not-delta', '; '.join(d[:4]), bundle)
        return history, issues, stats     # the mirror is out of sync from here on
    except Exception:
      issue('C02', 'stored-replay-raises', traceback.format_exc()[-400:], bundle)
      return history, issues, stats
    # C08
    if G.engine_schema(e) != G.schema_of_meta(e):
      issue('C08', 'schema-mismatch', 'engine.schema != build_schema(metadata)', bundle)
    # C05
    try:
      f = scratch_values(e)
      fs = G.snapshot(f)
      if fs != after:
        issue('C05', 'incremental-differs-from-scratch', '; '.join(G.diff_snapshots(after, fs)), bundle)
    except Exception:
      issue('C05', 'scratch-raises', traceback.format_exc()[-400:], bundle)
    # C01 / C03 on the same engine: undo, compare, redo, compare
    undo = G.reprs(out.undo)
    stored = G.reprs(out.stored)
    try:
      ou = G.apply(e, [['ApplyUndoActions', undo]])
      u = G.snapshot(e)
      if u != before:
        issue('C01', 'undo-does-not-restore', '; '.join(G.diff_snapshots(before, u)), bundle)
      if G.engine_schema(e) != before_schema:
        issue('C01', 'undo-schema-differs', 'engine schema after undo differs', bundle)
      mirror.feed(ou.stored)
      try:
        orr = G.apply(e, [['ApplyDocActions', stored]])
        rd = G.snapshot(e)
        if rd != after:
          issue('C03', 'redo-differs', '; '.join(G.diff_snapshots(after, rd)), bundle)
        mirror.feed(orr.stored)
        d = mirror.compare(e)
        if d:
          issue('C02', 'stored-not-delta-after-redo', '; '.join(d[:4]), bundle)
          return history, issues, stats
      except Exception:
        issue('C03', 'redo-raises', traceback.format_exc()[-400:], bundle)
        return history, issues, stats
    except Exception:
      issue('C01', 'undo-raises', traceback.format_exc()[-400:], bundle)
      return history, issues, stats
    history.append(bundle)
  return history, issues, stats


def shared_run(ctx_tier, seed, n_hist, nb):
  """Cached: list of issues + stats over n_hist histories."""
  key = '%s_%s_%d_%d_%d' % (tree_hash(), ctx_tier, seed, n_hist, nb)
  cdir = os.path.join(core.VERIF, 'work', 'histcache')
  os.makedirs(cdir, exist_ok=True)
  path = os.path.join(cdir, key + '.json')
  with core.flock(os.path.join(cdir, '.lock')):
    if os.path.exists(path):
      with open(path) as f:
        return json.load(f)
    t0 = time.time()
    all_issues = []
    stats = collections.Counter()
    hist_samples = []
    for i in range(n_hist):
      hs = seed * 100003 + i
      try:
        h, iss, st = run_history(hs, nb)
      except Exception:
        all_issues.append({'prop': 'HARNESS', 'kind': 'harness-exception', 'what': traceback.format_exc()[-800:],
                           'replay': {'seed': hs}})
        continue
      stats.update(st)
      stats['histories'] += 1
      stats['bundles'] += len(h)
      all_issues.extend(iss)
      if i < 3:
        hist_samples.append(h[:4])
    res = {'issues': all_issues, 'stats': dict(stats), 'samples': hist_samples, 'wall_s': time.time() - t0}
    with open(path + '.tmp', 'w') as f:
      json.dump(res, f, default=repr)
    os.rename(path + '.tmp', path)
    # keep the cache small
    files = sorted((os.path.getmtime(os.path.join(cdir, x)), x) for x in os.listdir(cdir) if x.endswith('.json'))
    for _, x in files[:-6]:
      os.remove(os.path.join(cdir, x))
    return res


if __name__ == '__main__':
  import sys
  n = int(sys.argv[1]) if len(sys.argv) > 1 else 20
  nb = int(sys.argv[2]) if len(sys.argv) > 2 else 10
  t0 = time.time()
  cnt = collections.Counter()
  ex = {}
  stats = collections.Counter()
  for s in range(n):
    try:
      h, iss, st = run_history(s, nb)
    except Exception:
      cnt['HARNESS'] += 1
      ex.setdefault('HARNESS', (s, traceback.format_exc()[-1500:]))
      continue
    stats.update(st)
    for i in iss:
      k = i['prop'] + ':' + i['kind']
      cnt[k] += 1
      ex.setdefault(k, (s, i['what'], i['replay']['bundle']))
  print('wall %.1fs' % (time.time() - t0))
  print(dict(stats))
  print(cnt)
  for k, v in ex.items():
    print('==', k, json.dumps(v, default=repr)[:1500])
