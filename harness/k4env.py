"""
Shared helpers of the K4 checks (C10, C11): encoding of reference-column state as Coq terms of
Grist.Model.RefIndex / Grist.Model.TwoWay, drivers for REAL ReferenceColumn / ReferenceListColumn objects,
snapshots of the reference columns of a running engine.
"""
import collections

from harness import core
from harness import gristenv as G

import column as column_mod        # noqa: E402   (the implementation, from core.GRIST)
import relation as relation_mod    # noqa: E402
import objtypes                    # noqa: E402


class Unrepresentable(Exception):
  """A Python value outside the modelled cell domain (None / int / list of ints / str)."""


def is_plain_int(v):
  return type(v) is int


def enc_cell(v):
  if v is None:
    return 'CNone'
  if is_plain_int(v):
    return '(CInt %s)' % core.zlit(v)
  if isinstance(v, str):
    return '(CStr %s)' % core.strlit(v)
  if isinstance(v, list) and all(is_plain_int(x) for x in v):
    return '(CList %s)' % core.zlist(v)
  raise Unrepresentable(repr(v)[:80])


def natlit(n):
  if not (0 <= n < 100000):
    raise Unrepresentable('row id %r' % (n,))
  return '%d%%nat' % n


def natlist(ns):
  return '[' + '; '.join(natlit(n) for n in ns) + ']'


def kind_of(col):
  if isinstance(col, column_mod.ReferenceListColumn):
    return 'KRefList'
  if isinstance(col, column_mod.ReferenceColumn):
    return 'KRef'
  raise core.TieBroken('not a reference column: %r' % (col,))


def enc_inv(inverse_map):
  """ReferenceRelation.inverse_map (dict target -> set of rows) in insertion order, sets sorted."""
  items = []
  for t, rows in inverse_map.items():
    if not is_plain_int(t):
      raise Unrepresentable('inverse_map key %r' % (t,))
    items.append('(%s, %s)' % (core.zlit(t), natlist(sorted(rows))))
  return core.coq_list(items)


def enc_col(col):
  """A real column object as a Coq refcol."""
  return '{| rc_kind := %s; rc_data := %s; rc_inv := %s |}' % (
    kind_of(col), core.coq_list([enc_cell(v) for v in col._data]), enc_inv(col._relation.inverse_map))


def enc_err(exc):
  """The model's error constructor for an exception of the modelled code, None for any other exception
  (recognised by the function that raised it, so that e.g. a KeyError for an unknown column is not mistaken)."""
  import traceback
  tb = traceback.extract_tb(exc.__traceback__)
  where = tb[-1].name if tb else ''
  if isinstance(exc, column_mod.UniqueReferenceError):
    return 'EUnique'
  if isinstance(exc, KeyError) and where == 'remove_reference':
    return 'EKeyError'
  if isinstance(exc, TypeError) and where in ('_raw_get_without', '<listcomp>'):
    return 'ETypeError'
  if isinstance(exc, AssertionError) and 'non-existent record' in str(exc):
    return 'ENoRow'
  return None


def hack_table(strings, rl_col):
  """Tabulates ReferenceListColumn._clean_up_value on the given strings (json.loads / RecordList.from_repr)."""
  items = []
  seen = set()
  for s in strings:
    if s in seen:
      continue
    seen.add(s)
    out = rl_col._clean_up_value(s)
    if isinstance(out, str):
      if out != s:
        raise core.TieBroken('_clean_up_value(%r) returned another string %r' % (s, out))
      continue
    if not (isinstance(out, list) and all(is_plain_int(x) for x in out)):
      raise Unrepresentable('_clean_up_value(%r) = %r' % (s, out))
    items.append('(%s, %s)' % (core.strlit(s), core.zlist(list(out))))
  return '(%s : list (list Z * list Z))' % core.coq_list(items)


def strings_in(values):
  return [v for v in values if isinstance(v, str)]


class Fixture(object):
  """An engine with T1(A) and T2(ref: Ref:T1, rl: RefList:T1, ref2, rl2); hands out its real column objects."""
  def __init__(self):
    self.e, _ = G.new_doc()
    G.apply(self.e, [
      ['AddTable', 'T1', [{'id': 'A', 'type': 'Text', 'isFormula': False}]],
      ['AddTable', 'T2', [{'id': 'ref', 'type': 'Ref:T1', 'isFormula': False},
                          {'id': 'rl', 'type': 'RefList:T1', 'isFormula': False},
                          {'id': 'ref2', 'type': 'Ref:T1', 'isFormula': False},
                          {'id': 'rl2', 'type': 'RefList:T1', 'isFormula': False}]]])

  def col(self, kind, second=False):
    name = {'KRef': 'ref', 'KRefList': 'rl'}[kind] + ('2' if second else '')
    c = self.e.tables['T2'].get_column(name)
    if kind_of(c) != kind:
      raise core.TieBroken('column class of T2.%s is %r' % (name, type(c)))
    return c

  def reset(self, c):
    """Back to the state of a freshly constructed column (what BaseColumn.__init__ leaves)."""
    c._data = []
    c.growto(1)
    c._relation.inverse_map = {}
    return c


def run_real_ops(fx, kind, ops):
  """Applies ops to a real column; returns ('ok', column) or ('err', coq error name)."""
  c = fx.reset(fx.col(kind))
  other = fx.reset(fx.col(kind, second=True))
  try:
    for op in ops:
      if op[0] == 'set':
        c.set(op[1], op[2])
      elif op[0] == 'unset':
        c.unset(op[1])
      elif op[0] == 'clear':
        c.clear()
      elif op[0] == 'grow':
        c.growto(op[1])
      elif op[0] == 'copy':
        other._data[:] = list(op[1])
        c.copy_from_column(other)
      else:
        raise ValueError(op)
  except Exception as ex:     # pylint: disable=broad-except
    name = enc_err(ex)
    if name is None:
      raise
    return 'err', name
  return 'ok', c


def enc_op(op):
  if op[0] == 'set':
    return '(OSet %s %s)' % (natlit(op[1]), enc_cell(op[2]))
  if op[0] == 'unset':
    return '(OUnset %s)' % natlit(op[1])
  if op[0] == 'clear':
    return 'OClear'
  if op[0] == 'grow':
    return '(OGrow %s)' % natlit(op[1])
  if op[0] == 'copy':
    return '(OCopy %s)' % core.coq_list([enc_cell(v) for v in op[1]])
  raise ValueError(op)


# ---- generators -----------------------------------------------------------------------------------
INTS = [0, 1, 1, 2, 2, 3, 3, 4, 5, -1, 2 ** 31 - 1, 2 ** 31, -2 ** 31, -2 ** 31 - 1]
STRS = ['a', '', '[1,2]', '[2, 3, 1]', '[0]', '[1, "a"]', '[]', 'RecordList([1, 2], group_by=None, sort_by=None)',
        'RecordList([3])', '[1.5]', '{"a":1}', '[-1]', 'x1', '[1,2', 'RecordList([a])']


def gen_value(r, kind=None):
  """A cell value of the modelled domain; mostly of the right type for `kind`."""
  x = r.random()
  if kind == 'KRef':
    if x < 0.75:
      return r.choice(INTS)
  elif kind == 'KRefList':
    if x < 0.15:
      return None
    if x < 0.35:
      # the same target more than once: adjacent, non-adjacent, all equal (the engine stores a RefList as given)
      a, b = r.sample([1, 2, 3, 4, 5], 2)
      return r.choice([[a, a], [a, a, a], [a, b, a], [a, a, b], [b, a, a], [a, b, b, a], [a, b, a, b, a]])
    if x < 0.75:
      return [r.choice(INTS[:9]) if r.random() < 0.9 else r.choice(INTS) for _ in range(r.choice([0, 1, 1, 2, 2, 3, 4]))]
  y = r.random()
  if y < 0.25:
    return None
  if y < 0.5:
    return r.choice(INTS)
  if y < 0.75:
    return [r.choice(INTS) for _ in range(r.randint(0, 3))]
  return r.choice(STRS)


def gen_ops(r, kind, n, with_clear=True):
  ops = []
  for _ in range(n):
    x = r.random()
    if x < 0.62:
      ops.append(('set', r.choice([0, 1, 1, 2, 2, 3, 3, 4, 5, 7]), gen_value(r, kind)))
    elif x < 0.77:
      ops.append(('unset', r.choice([0, 1, 2, 3, 4, 5, 7, 9])))
    elif x < 0.85:
      ops.append(('grow', r.randint(0, 9)))
    elif x < 0.94 or not with_clear:
      ops.append(('copy', [gen_value(r, kind) for _ in range(r.randint(0, 6))]))
    else:
      ops.append(('clear',))
  return ops


# ---- instrumentation of the real column classes (harness side; never edits /repo) ---------------------
class Recorder(object):
  """
  Logs, per live reference-column object, the sequence of state-changing calls it receives
  (set / clear / copy_from_column / growto), from its construction on.  Installed by monkeypatching the
  classes of the imported `column` module; restored by close().
  """
  POINTS = [('BaseReferenceColumn', '__init__'), ('BaseReferenceColumn', 'set'),
            ('BaseReferenceColumn', 'copy_from_column'), ('BaseColumn', 'clear'), ('BaseColumn', 'growto')]

  def __init__(self):
    self.saved = []
    self.depth = 0
    for cls_name, meth in self.POINTS:
      cls = getattr(column_mod, cls_name, None)
      if cls is None or meth not in cls.__dict__:
        raise core.TieBroken('instrumentation point column.%s.%s disappeared' % (cls_name, meth))
    rec = self
    B, R = column_mod.BaseColumn, column_mod.BaseReferenceColumn
    o_init, o_set, o_copy = R.__dict__['__init__'], R.__dict__['set'], R.__dict__['copy_from_column']
    o_clear, o_grow = B.__dict__['clear'], B.__dict__['growto']

    def nested(fn, *a):
      rec.depth += 1
      try:
        return fn(*a)
      finally:
        rec.depth -= 1

    def init(self, *a, **kw):
      nested(lambda: o_init(self, *a, **kw))
      self._k4_ops = []

    def set_(self, row_id, value):
      if rec.depth == 0 and hasattr(self, '_k4_ops'):
        self._k4_ops.append(('set', row_id, value))
      return nested(o_set, self, row_id, value)

    def copy(self, other):
      if rec.depth == 0 and hasattr(self, '_k4_ops'):
        self._k4_ops.append(('copy', list(other._data)))
      return nested(o_copy, self, other)

    def clear(self):
      if rec.depth == 0 and hasattr(self, '_k4_ops'):
        self._k4_ops.append(('clear',))
      return nested(o_clear, self)

    def grow(self, size):
      if rec.depth == 0 and hasattr(self, '_k4_ops'):
        self._k4_ops.append(('grow', size))
      return nested(o_grow, self, size)

    for cls, name, new in [(R, '__init__', init), (R, 'set', set_), (R, 'copy_from_column', copy),
                           (B, 'clear', clear), (B, 'growto', grow)]:
      self.saved.append((cls, name, cls.__dict__[name]))
      setattr(cls, name, new)

  def close(self):
    for cls, name, old in reversed(self.saved):
      setattr(cls, name, old)
    self.saved = []


def ref_columns(e, data_only=True):
  """All live Ref/RefList column objects of the engine: [(table_id, col_id, column)]."""
  out = []
  for tid in sorted(e.tables):
    t = e.tables[tid]
    for cid in sorted(t.all_columns):
      c = t.all_columns[cid]
      if isinstance(c, column_mod.BaseReferenceColumn) and not (data_only and c.is_formula()):
        out.append((tid, cid, c))
  return out


def index_exact(col):
  """None if the relation's inverse_map is exactly the reverse of the cells, else a description."""
  want = collections.defaultdict(set)
  for r, v in enumerate(col._data):
    for t in col._value_iterable(v):
      want[t].add(r)
  have = {t: set(rows) for t, rows in col._relation.inverse_map.items() if rows}
  if dict(want) == have:
    return None
  for t in sorted(set(want) | set(have), key=repr):
    if want.get(t, set()) != have.get(t, set()):
      return 'target %r: cells give %r, inverse_map has %r' % (t, sorted(want.get(t, ())), sorted(have.get(t, ())))
  return 'differs'


def target_id(col):
  return col.type_obj.table_id


def world_snapshot(e, table_id, names=None):
  """
  The removal world of table_id as a Coq `world` term plus the list of (table, col) names in it: the data
  Ref/RefList columns OF the table (own) and TARGETING it (back).  `names` fixes the columns (for the snapshot
  after the removal).
  """
  t = e.tables[table_id]
  cols = []
  got = []
  for tid, cid, c in ref_columns(e):
    own = tid == table_id
    back = target_id(c) == table_id
    if names is not None:
      if (tid, cid) not in names:
        continue
    elif not (own or back):
      continue
    got.append((tid, cid))
    cols.append('{| w_col := %s; w_rows := %s; w_own := %s; w_back := %s |}' % (
      enc_col(c), natlist(sorted(e.tables[tid].row_ids)), core.boollit(own), core.boollit(back)))
  if names is not None and got != list(names):
    raise Unrepresentable('columns changed during the removal')
  return '{| wd_rows := %s; wd_cols := %s |}' % (natlist(sorted(t.row_ids)), core.coq_list(cols)), got


def col_strings(e, names):
  out = []
  for tid, cid in names:
    out.extend(v for v in e.tables[tid].get_column(cid)._data if isinstance(v, str))
  return out


def any_rl_column():
  """A real ReferenceListColumn to tabulate _clean_up_value with (it does not depend on the column's state)."""
  global _FX
  try:
    return _FX.col('KRefList')
  except NameError:
    _FX = Fixture()
    return _FX.col('KRefList')
