"""ij2v, third part: what is translated from imports/import_json.py, with which types, and what is pinned by AST equality."""
import ast

from harness.ij2v import Tr, Untranslatable, fail, coq_ty, strlit, PYTYPES
from harness import ij2v_stmt  # noqa: F401  (attaches call/block to Tr)

OD_CELL = ('OD', 'cell')
FIELDS = ('L', ('P', 'str', 'json'))
DUMPED = ('T', (('L', ('T', ('str', 'str'))), ('L', ('L', 'dcell')), 'str'))     # column_metadata, table_data, table_name

# python name -> (coq name, leading arguments, parameter types, return type)
FUNCS = {
  '_is_included': ('gen_is_included', ['self_includes_opt', 'self_excludes_opt'], ['str'], 'bool'),
  'first_available_key': ('gen_first_available_key', [], [('OD', 'any'), 'str'], 'str'),
  '_grist_type': ('gen_grist_type', [], ['cell'], 'str'),
  '_dump_value': ('gen_dump_value', [], ['cell'], 'dcell'),
  '_transpose': ('gen_transpose', [], [('L', OD_CELL)], ('OD', 'gcol')),
  '_dictify': ('gen_dictify', [], ['json'], FIELDS),
  '_dump_table': ('gen_dump_table', [], ['str', ('L', 'grow')], DUMPED),
}
SELF_FIELDS = {'_includes_opt': ('L', 'str'), '_excludes_opt': ('L', 'str')}
GLOB = {'GRIST_TYPES': ('GRIST_TYPES', ('AL', 'pytype', 'str'))}
HINTS = {'_transpose': {'transpose': ('OD', 'gcol'), 'values': OD_CELL}}

# Glue that is not translated: it must still be, token for token, the text the hand-written composition
# (Model/JsonImport.v: import_log / rtables; Proofs/JsonImport_bridge.v: code_import) was written from.
PINNED = {
  'dumps': '''
def dumps(data, name = "", parse_options = DEFAULT_PARSE_OPTIONS):
  " Serializes `data` to a jgrist formatted object. "
  tables = Tables(parse_options)
  if not isinstance(data, list):
    # put simple record into a list
    data = [data]
  for val in data:
    tables.add_row(name, val)
  return {
    'tables': tables.dumps(),
    'parseOptions': parse_options
  }
''',
  'Tables.dumps': '''
def dumps(self):
  " Dumps tables in jgrist format "
  return [_dump_table(name, rows) for name, rows in self._tables.items()]
''',
  'Ref': "Ref = namedtuple('Ref', ['table_name', 'rowid'])",
  'Row': "Row = namedtuple('Row', ['values', 'parent', 'ref'])",
  'Col': "Col = namedtuple('Col', ['type', 'values'])",
}


def find(tree, qual):
  body = tree.body
  parts = qual.split('.')
  for p in parts[:-1]:
    body = next((n.body for n in body if isinstance(n, ast.ClassDef) and n.name == p), None)
    if body is None:
      raise Untranslatable('class %s not found' % p)
  for n in body:
    if isinstance(n, ast.FunctionDef) and n.name == parts[-1]:
      return n
    if isinstance(n, ast.Assign) and len(n.targets) == 1 and isinstance(n.targets[0], ast.Name) and \
       n.targets[0].id == parts[-1]:
      return n
  raise Untranslatable('%s not found' % qual)


def check_pinned(tree):
  for qual, text in PINNED.items():
    want = ast.dump(ast.parse(text.strip()).body[0])
    if ast.dump(find(tree, qual)) != want:
      raise Untranslatable('%s is not translated and no longer reads as the text the composition was written from' % qual)


def pure_function(tree, qual, params, fields=None):
  fn = find(tree, qual)
  name = qual.split('.')[-1]
  coqname, lead, ptys, rty = FUNCS[name]
  args = [a.arg for a in fn.args.args if a.arg != 'self']
  if args != [p for p in params] or fn.args.defaults or fn.args.vararg or fn.args.kwarg or len(args) != len(ptys):
    raise Untranslatable('signature of %s changed' % qual)
  tr = Tr(FUNCS, fields or {}, GLOB)
  tr.hints = HINTS.get(name, {})
  binders = ' '.join('(%s : %s)' % (l, coq_ty(SELF_FIELDS[l[4:]])) for l in lead)
  for a, t in zip(args, ptys):
    tr.env[a] = t
    binders += ' (v_%s : %s)' % (a, coq_ty(t))
  body = tr.block(fn.body, rty, None)
  return 'Definition %s %s : %s :=\n  %s.\n' % (coqname, binders.strip(), coq_ty(rty), body)


def grist_types(tree):
  a = find(tree, 'GRIST_TYPES')
  if not isinstance(a.value, ast.Dict):
    raise Untranslatable('GRIST_TYPES is not a dict literal')
  items = []
  for k, v in zip(a.value.keys, a.value.values):
    if not (isinstance(k, ast.Name) and k.id in PYTYPES and isinstance(v, ast.Constant) and isinstance(v.value, str)):
      fail(a, 'GRIST_TYPES entry')
    items.append('(%s, %s)' % (PYTYPES[k.id], strlit(v.value)))
  return 'Definition GRIST_TYPES : list (pytype * str) :=\n  [%s].\n' % ';\n   '.join(items)


class SubstOptions(ast.NodeTransformer):
  """parse_options['includes'] -> the parameter parse_options_includes"""
  def visit_Subscript(self, n):
    if isinstance(n.value, ast.Name) and n.value.id == 'parse_options' and isinstance(n.slice, ast.Constant) and \
       isinstance(n.slice.value, str):
      return ast.copy_location(ast.Name(id='parse_options_' + n.slice.value, ctx=ast.Load()), n)
    return self.generic_visit(n)


def init_options(tree):
  fn = find(tree, 'Tables.__init__')
  if [a.arg for a in fn.args.args] != ['self', 'parse_options']:
    raise Untranslatable('signature of Tables.__init__ changed')
  want_tables = ast.dump(ast.parse('self._tables = OrderedDict()').body[0])
  seen, out = set(), []
  for s in fn.body:
    if ast.dump(s) == want_tables:
      seen.add('_tables')
      continue
    if isinstance(s, ast.Assign) and len(s.targets) == 1 and isinstance(s.targets[0], ast.Attribute) and \
       isinstance(s.targets[0].value, ast.Name) and s.targets[0].value.id == 'self' and s.targets[0].attr in SELF_FIELDS:
      field = s.targets[0].attr
      key = {'_includes_opt': 'includes', '_excludes_opt': 'excludes'}[field]
      tr = Tr(FUNCS, {}, GLOB)
      tr.env['parse_options_' + key] = 'str'
      code, ty = tr.expr(SubstOptions().visit(ast.parse(ast.unparse(s.value), mode='eval').body))
      if ty != SELF_FIELDS[field]:
        fail(s, 'type of self.%s' % field)
      out.append('Definition gen_init%s (v_parse_options_%s : str) : list str :=\n  %s.\n' % (field, key, code))
      seen.add(field)
      continue
    fail(s, 'unexpected statement in Tables.__init__')
  if seen != {'_tables', '_includes_opt', '_excludes_opt'}:
    raise Untranslatable('Tables.__init__ no longer sets _tables, _includes_opt, _excludes_opt')
  return out


def first_available_key(tree):
  fn = find(tree, 'first_available_key')
  body = [s for s in fn.body if not (isinstance(s, ast.Expr) and isinstance(s.value, ast.Constant))]
  ok = [a.arg for a in fn.args.args] == ['dictionary', 'name'] and len(body) == 2 and \
       isinstance(body[0], ast.Assign) and isinstance(body[1], ast.Return)
  if ok:
    c = body[0].value
    r = body[1].value
    ok = isinstance(c, ast.Call) and isinstance(c.func, ast.Name) and c.func.id == 'chain' and len(c.args) == 2 and \
      isinstance(c.args[0], ast.List) and isinstance(c.args[1], ast.GeneratorExp) and \
      len(c.args[1].generators) == 1 and not c.args[1].generators[0].ifs and \
      isinstance(c.args[1].generators[0].iter, ast.Call) and \
      isinstance(c.args[1].generators[0].iter.func, ast.Name) and c.args[1].generators[0].iter.func.id == 'count' and \
      len(c.args[1].generators[0].iter.args) == 1 and isinstance(c.args[1].generators[0].target, ast.Name) and \
      isinstance(r, ast.Call) and isinstance(r.func, ast.Name) and r.func.id == 'next' and len(r.args) == 1 and \
      isinstance(r.args[0], ast.GeneratorExp) and len(r.args[0].generators) == 1 and \
      isinstance(r.args[0].generators[0].iter, ast.Name) and \
      r.args[0].generators[0].iter.id == body[0].targets[0].id and len(r.args[0].generators[0].ifs) == 1 and \
      isinstance(r.args[0].generators[0].target, ast.Name) and isinstance(r.args[0].elt, ast.Name) and \
      r.args[0].elt.id == r.args[0].generators[0].target.id
  if not ok:
    raise Untranslatable('first_available_key is no longer `names = chain([..], (.. for i in count(k))); '
                         'return next(n for n in names if ..)`')
  tr = Tr(FUNCS, {}, GLOB)
  tr.env.update({'dictionary': ('OD', 'any'), 'name': 'str'})
  heads = [tr.expr(e) for e in c.args[0].elts]
  if any(t != 'str' for _, t in heads):
    fail(fn, 'heads of the chain')
  g = c.args[1].generators[0]
  start, ts = tr.expr(g.iter.args[0])
  tr.env[g.target.id] = 'nat'
  fmt, tf = tr.expr(c.args[1].elt)
  del tr.env[g.target.id]
  n = r.args[0].generators[0].target.id
  tr.env[n] = 'str'
  cond = tr.truthy(r.args[0].generators[0].ifs[0])
  if ts != 'nat' or tf != 'str':
    fail(fn, 'types in first_available_key')
  return ('Definition gen_first_available_key {V} (v_dictionary : list (str * V)) (v_name : str) : str :=\n'
          '  py_next_chain [%s] (fun v_%s => %s) (fun v_%s => %s) %s (length v_dictionary).\n'
          % ('; '.join(c_ for c_, _ in heads), g.target.id, fmt, n, cond, start))
