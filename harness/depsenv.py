"""
C05/C30 helpers: dependency-soundness monitor on the REAL engine, export of the real dependency graph
(depend.Graph + relation objects) as data / Coq terms, scratch invalidation on the real graph.

Instrumentation points (core.TieBroken if one disappears): Engine._use_node, Engine._recompute_one_cell,
column.BaseColumn.get_cell_value, lookup._RelationTracker.update_relation_from_current_node,
depend.Graph.invalidate_deps, Graph._all_edges, ReferenceRelation.inverse_map, _LookupRelation._row_key_map,
(Sorted)LookupMapColumn._get_keys.
"""
import collections

from harness import core
from harness import gristenv as G

import column as column_mod       # noqa: E402
import depend                     # noqa: E402
import engine as engine_mod       # noqa: E402
import lookup as lookup_mod       # noqa: E402
import records as records_mod     # noqa: E402
import relation as relation_mod   # noqa: E402
import table as table_mod         # noqa: E402

POINTS = [
  (engine_mod.Engine, '_use_node'), (engine_mod.Engine, '_recompute_one_cell'),
  (column_mod.BaseColumn, 'get_cell_value'),
  (lookup_mod._RelationTracker, 'update_relation_from_current_node'),
  (depend.Graph, 'invalidate_deps'), (depend.Graph, 'clear_dependencies'),
  (relation_mod.ReferenceRelation, 'get_affected_rows'), (lookup_mod._LookupRelation, 'get_affected_rows'),
  (lookup_mod.LookupMapColumn, '_get_keys'), (lookup_mod.SortedLookupMapColumn, '_get_keys'),
  (table_mod.Table, 'lookup_records'), (records_mod.RecordSet, '_bisect_index'),
]


def check_points():
  for cls, name in POINTS:
    if not hasattr(cls, name):
      raise core.TieBroken('instrumentation point %s.%s is gone' % (cls.__name__, name))


class Frame(object):
  __slots__ = ('node', 'row', 'uses', 'gets', 'lookups', 'col', 'table', 'inlookup')

  def __init__(self, node, row, col, table):
    self.node, self.row, self.col, self.table = node, row, col, table
    self.uses = []      # (read node, relation object, tuple(row_ids))
    self.gets = []      # (column object, row) for every get_cell_value made while evaluating
    self.lookups = []   # (tracker's lookup map column, relation, key)
    self.inlookup = 0   # > 0 while inside Table.lookup_records / RecordSet._bisect_index (sort keys read
                        # cell values there; the dependency is the one on the (sorted) lookup map)


class Monitor(object):
  """Records, per formula cell, what its last COMPLETED evaluation read (one Monitor per engine)."""
  active = None     # the monitor whose engine is being driven (class-level switch for the wrappers)

  def __init__(self, e):
    self.e = e
    self.stack = []
    self.records = {}        # (node, row) -> Frame of the last completed evaluation
    self.evals = 0
    self.abandoned = 0

  # ---- wrappers (installed once, class level) --------------------------------------------
  _installed = False

  @classmethod
  def install(cls):
    if cls._installed:
      return
    check_points()
    cls._installed = True
    orig_use = engine_mod.Engine._use_node
    orig_one = engine_mod.Engine._recompute_one_cell
    orig_get = column_mod.BaseColumn.get_cell_value
    orig_upd = lookup_mod._RelationTracker.update_relation_from_current_node

    def use_node(self, node, relation, row_ids=[]):          # pylint: disable=dangerous-default-value
      m = cls.active
      if m is not None and m.e is self and m.stack and self._is_current_node_formula and not self._peeking:
        f = m.stack[-1]
        if f.node == self._current_node:
          f.uses.append((node, relation, tuple(row_ids)))
      return orig_use(self, node, relation, row_ids)

    def one_cell(self, table, col, row_id, cycle=False, node=None, record_attributes=None):
      m = cls.active
      if m is None or m.e is not self or node is None or record_attributes is not None:
        return orig_one(self, table, col, row_id, cycle=cycle, node=node, record_attributes=record_attributes)
      f = Frame(node, row_id, col, table)
      m.stack.append(f)
      try:
        res = orig_one(self, table, col, row_id, cycle=cycle, node=node, record_attributes=record_attributes)
      except BaseException:
        m.abandoned += 1          # OrderError / RequestingError: nothing was stored
        raise
      finally:
        m.stack.pop()
      m.evals += 1
      if col.is_formula():
        m.records[(node, row_id)] = f
      return res

    def get_cell_value(self, row_id, restore=False):
      m = cls.active
      if m is not None and m.stack:
        f = m.stack[-1]
        eng = m.e
        if eng._is_current_node_formula and not eng._peeking and eng._current_node == f.node and not f.inlookup:
          f.gets.append((self, row_id))
      return orig_get(self, row_id, restore)

    def upd_rel(self, key):
      m = cls.active
      rel = orig_upd(self, key)
      if m is not None and m.stack and rel is not None and m.e is self._engine:
        f = m.stack[-1]
        if f.node == self._engine._current_node:
          f.lookups.append((self._lookup_map, rel, key))
      return rel

    def bracket(orig):
      def wrapped(self, *a, **kw):
        m = cls.active
        f = m.stack[-1] if (m is not None and m.stack) else None
        if f is not None:
          f.inlookup += 1
        try:
          return orig(self, *a, **kw)
        finally:
          if f is not None:
            f.inlookup -= 1
      return wrapped

    table_mod.Table.lookup_records = bracket(table_mod.Table.lookup_records)
    records_mod.RecordSet._bisect_index = bracket(records_mod.RecordSet._bisect_index)
    engine_mod.Engine._use_node = use_node
    engine_mod.Engine._recompute_one_cell = one_cell
    column_mod.BaseColumn.get_cell_value = get_cell_value
    lookup_mod._RelationTracker.update_relation_from_current_node = upd_rel

  # ---- the dependency-soundness check (hypothesis of C05_incremental_eq_scratch on the implementation) ----
  def live(self, key, f):
    """'ok' | 'dirty' | 'gone' for a recorded evaluation."""
    node, row = key
    e = self.e
    t = e.tables.get(node.table_id)
    if t is None or t is not f.table or t.all_columns.get(node.col_id) is not f.col or not f.col.is_formula():
      return 'gone'
    if row not in t.row_ids:
      return 'gone'
    d = e.recompute_map.get(node)
    if d is not None and (d == depend.ALL_ROWS or row in d):
      return 'dirty'
    return 'ok'

  def check(self, limit=5, shapes_of=None):
    """Problems found on the real dep_graph for the recorded reads of every clean formula cell."""
    e = self.e
    out = []
    stats = collections.Counter()
    graph = e.dep_graph
    for key, f in list(self.records.items()):
      st = self.live(key, f)
      if st == 'gone':
        del self.records[key]
        continue
      if st == 'dirty':
        stats['skipped_dirty'] += 1
        continue
      node, row = key
      stats['cells'] += 1
      if shapes_of is not None:
        n_checked = sum(len(rows) or 1 for (_d, _r, rows) in f.uses) + len(f.lookups)
        for sh in shapes_of(node):
          stats['shape-cells:' + sh] += 1
          stats['shape-reads:' + sh] += n_checked
      for (dnode, rel, rows) in f.uses:
        stats['uses'] += 1
        if rel is None or depend.Edge(node, dnode, rel) not in graph._all_edges:
          out.append(('edge-missing', '%s[%s] read %s through %s but the graph has no such edge'
                      % (node, row, dnode, rel), (dnode, rows[0] if rows else None)))
          continue
        stats['rel:' + type(rel).__name__] += 1
        for q in rows:
          if q == 0:
            continue              # the empty record: not a row, never changes
          stats['reads'] += 1
          aff = rel.get_affected_rows([q])
          if aff != depend.ALL_ROWS and row not in aff:
            out.append(('relation-does-not-cover', '%s[%s] read %s[%s] through %s; get_affected_rows([%s]) = %r'
                        % (node, row, dnode, q, rel, q, sorted(aff)[:8]), (dnode, q), (node, rel)))
            continue
          scratch = {}
          graph.invalidate_deps(dnode, [q], scratch, include_self=False)
          got = scratch.get(node)
          if got is None or (got != depend.ALL_ROWS and row not in got):
            out.append(('invalidate-misses-reader', 'invalidating %s[%s] does not mark its reader %s[%s] dirty'
                        % (dnode, q, node, row), (dnode, q)))
      for (lmap, rel, lkey) in f.lookups:
        stats['lookups'] += 1
        try:
          registered = row in rel._row_key_map.lookup_right(lkey, ())
        except TypeError:
          stats['lookups_unhashable_key'] += 1
          continue
        if not registered:
          out.append(('lookup-not-registered', '%s[%s] looked up key %r in %s but the relation does not hold it'
                      % (node, row, lkey, lmap.node)))
          continue
        if depend.Edge(node, lmap.node, rel) not in graph._all_edges:
          out.append(('edge-missing', '%s[%s] looked up in %s but the graph has no such edge' % (node, row, lmap.node)))
          continue
        for t in e.tables[lmap.table_id].row_ids:
          try:
            has = lkey in lmap._get_keys(t)
          except Exception:
            continue
          if has:
            stats['lookup_targets'] += 1
            aff = rel.get_affected_rows([t])
            if aff != depend.ALL_ROWS and row not in aff:
              out.append(('lookup-relation-does-not-cover', '%s[%s] looked up %r; matching row %s of %s does not map back'
                          % (node, row, lkey, t, lmap.node)))
      # exactness (reset_rows before re-evaluation): the relation holds for this row exactly the keys its last
      # evaluation looked up
      by_rel = {}
      for (lmap, rel, lkey) in f.lookups:
        try:
          by_rel.setdefault(id(rel), (rel, set()))[1].add(lkey)
        except TypeError:
          by_rel.pop(id(rel), None)
          break
      for rel, keys in by_rel.values():
        try:
          held = set(rel._row_key_map.lookup_left(row, ()))
        except TypeError:
          continue
        if held - keys:
          stats['stale_registrations'] += 1
          out.append(('stale-lookup-registration', '%s[%s] last looked up %r in %s but the relation still holds %r'
                      % (node, row, sorted(map(repr, keys))[:4], rel, sorted(map(repr, held - keys))[:4])))
      for (col, q) in f.gets:
        stats['gets'] += 1
        cn = col.node
        if not any(dn == cn and (not rows or q in rows) for (dn, _r, rows) in f.uses):
          out.append(('read-without-dependency', '%s[%s] read the value of %s[%s] with no _use_node for it'
                      % (node, row, cn, q), (cn, q)))
      if len(out) >= limit:
        break
    return out, stats
