"""dep2v, part 4: generate(grist_dir) -> text of coq/gen/Deps_gen.v."""
import ast
import os

from harness.dep2v import find_func, params, fail
from harness.dep2v_gen import tr_simple, tr_state, tr_invalidate_deps, tr_use_node

HEADER = '''(* GENERATED on every run by harness/dep2v*.py from %s/{relation,lookup,depend,engine}.py -- do not edit. *)
From Coq Require Import ZArith List Bool.
Import ListNotations.
Require Import Grist.Model.Deps Grist.Model.DepsSpec Grist.Model.DepsExec Grist.Lib.DepsGenPrelude.
Open Scope Z_scope.

'''


def parse(grist, name):
  with open(os.path.join(grist, name)) as f:
    return ast.parse(f.read())


def expect_params(fn, want):
  if params(fn) != want:
    fail(fn, 'parameters %r expected' % (want,))


def generate(grist):
  rel, look, dep, eng = (parse(grist, n) for n in ('relation.py', 'lookup.py', 'depend.py', 'engine.py'))
  out = [HEADER % grist]
  rows = {'input_rows': 'input_rows'}

  f = find_func(rel, 'IdentityRelation', 'get_affected_rows')
  expect_params(f, ['self', 'input_rows'])
  out.append('(* relation.py IdentityRelation.get_affected_rows *)\n' +
             tr_simple(f, 'gen_identity_affected', '(input_rows : rowset) : rowset', rows, {}))
  f = find_func(rel, 'SingleRowsIdentityRelation', 'get_affected_rows')
  expect_params(f, ['self', 'input_rows'])
  out.append('(* relation.py SingleRowsIdentityRelation.get_affected_rows *)\n' +
             tr_simple(f, 'gen_single_affected', '(input_rows : rowset) : rowset', rows, {},
                       {'__empty_list_is_rows__': True}))
  f = find_func(rel, 'ComposedRelation', 'get_affected_rows')
  expect_params(f, ['self', 'input_rows'])
  out.append('(* relation.py ComposedRelation.get_affected_rows *)\n' +
             tr_simple(f, 'gen_composed_affected',
                       '(source_relation_affected target_relation_affected : rowset -> rowset) (input_rows : rowset) : rowset',
                       rows, {'self.source_relation': 'source_relation', 'self.target_relation': 'target_relation'}))
  f = find_func(rel, 'ComposedRelation', 'reset_rows')
  expect_params(f, ['self', 'referring_rows'])
  out.append('(* relation.py ComposedRelation.reset_rows *)\n' +
             tr_state(f, 'gen_composed_reset_rows',
                      '(source_relation_reset : relst -> rowset -> relst) (R : relst) (referring_rows : rowset) : relst',
                      {'referring_rows': 'referring_rows', 'R': 'R'}, {}, 'R'))
  f = find_func(rel, 'Relation', 'reset_all')
  expect_params(f, ['self'])
  out.append('(* relation.py Relation.reset_all *)\n' +
             tr_state(f, 'gen_reset_all', '(self_reset : relst -> rowset -> relst) (R : relst) : relst', {'R': 'R'}, {}, 'R'))

  f = find_func(look, '_LookupRelation', 'get_affected_rows_by_keys')
  expect_params(f, ['self', 'keys'])
  out.append('(* lookup.py _LookupRelation.get_affected_rows_by_keys *)\n' +
             tr_simple(f, 'gen_affected_by_keys', '(lookup_right : Z -> list row) (keys : list Z) : list row',
                       {'keys': 'keys'}, {}, {'__keys_not_none__': True}))
  f = find_func(look, '_LookupRelation', 'get_affected_rows')
  expect_params(f, ['self', 'target_row_ids'])
  out.append('(* lookup.py _LookupRelation.get_affected_rows *)\n' +
             tr_simple(f, 'gen_lookup_affected',
                       '(get_keys : row -> list Z) (lookup_right : Z -> list row) (target_row_ids : rowset) : rowset',
                       {'target_row_ids': 'target_row_ids'}, {}))
  f = find_func(look, '_LookupRelation', '_add_lookup')
  expect_params(f, ['self', 'referring_row_id', 'key'])
  out.append('(* lookup.py _LookupRelation._add_lookup (the row/key map as a list of pairs) *)\n' +
             tr_state(f, 'gen_add_lookup', '(rk : list (row * Z)) (referring_row_id : row) (key : Z) : list (row * Z)',
                      {'referring_row_id': 'referring_row_id', 'key': 'key', 'rk': 'rk'}, {}, 'rk'))

  f = find_func(dep, 'Graph', 'add_edge')
  expect_params(f, ['self', 'out_node', 'in_node', 'relation'])
  out.append('(* depend.py Graph.add_edge (the two index maps are views of the edge set) *)\n' +
             tr_state(f, 'gen_add_edge', '(E : list edge) (out_node in_node : node) (relation : rel) : list edge',
                      {'out_node': 'out_node', 'in_node': 'in_node', 'relation': 'relation', 'E': 'E'}, {}, 'E'))
  f = find_func(dep, 'Graph', 'clear_dependencies')
  expect_params(f, ['self', 'out_node'])
  out.append('(* depend.py Graph.clear_dependencies *)\n' +
             tr_state(f, 'gen_clear_dependencies', '(E : list edge) (R : relst) (out_node : node) : list edge * relst',
                      {'out_node': 'out_node', 'E': 'E', 'R': 'R'}, {}, '(E, R)'))
  f = find_func(dep, 'Graph', 'reset_dependencies')
  expect_params(f, ['self', 'node', 'dirty_rows'])
  out.append('(* depend.py Graph.reset_dependencies *)\n' +
             tr_state(f, 'gen_reset_dependencies', '(E : list edge) (R : relst) (node : node) (dirty_rows : rowset) : relst',
                      {'node': 'node', 'dirty_rows': 'dirty_rows', 'E': 'E', 'R': 'R'}, {}, 'R'))
  out.append('Definition g_clear (g : gst) (n : node) : gst :=\n'
             '  let er := gen_clear_dependencies (g_edges g) (g_rel g) n in mkG (fst er) (snd er) (g_map g) (g_nodes g).\n')
  out.append('(* depend.py Graph.invalidate_deps *)\n' + tr_invalidate_deps(find_func(dep, 'Graph', 'invalidate_deps')))
  out.append('(* engine.py Engine._use_node: the recording of the dependency edge *)\n' +
             tr_use_node(find_func(eng, 'Engine', '_use_node')))
  return '\n'.join(out)
