"""
ut2v -- fail-closed translator for the deciding code of property C22 (own module; the other translators are untouched).

Translates, from the CURRENT source tree, into coq/gen/Usertypes_gen.v:
  usertypes.py   do_convert and is_right_type of every column type class, BaseColumnType.convert,
                 the class hierarchy (which class's method a type object runs), _numeric_types/_numeric_or_none,
                 _truthy_values/_falsy_values
  objtypes.py    is_int_short

Python is dynamically typed, so is the output: every expression becomes a term `result value` over the value
universe V (Model/Values.v) built from the run-time functions of Model/ValuesPy.v (p_str, p_float, p_isinstance ...),
every test a `bool` / `result bool`, every statement block a `flow E` over the tuple E of the function's variables:
  x = e            fl_bind e ENV (fun v_x => rest)
  if / elif / else fl_seq (if c then .. else ..) (fun ENV => rest)
  return / raise   FRet / FExc
  try/except Exception   fl_try
  assert           FExc AssertionError
  generator expressions / list comprehensions over iterables     map_result / all_m over p_iter
Library entry points (moment.*, json.loads, objtypes.safe_repr, RecordList.from_repr, RecordList(...), the OrderedDict
de-duplication idiom) map to named run-time functions; their call shapes are matched exactly.
Anything else -- another statement or expression kind, an unknown name, attribute or call -- raises Untranslatable:
the tie is reported as broken instead of being guessed.
"""
import ast
import os


class Untranslatable(Exception):
  pass


def fail(msg, node=None):
  raise Untranslatable('%s%s' % (msg, ' (line %d)' % node.lineno if node is not None and hasattr(node, 'lineno') else ''))


CLASSES = {'bytes': 'C_bytes', 'float': 'C_float', 'str': 'C_str', 'int': 'C_int', 'bool': 'C_bool', 'list': 'C_list',
           'tuple': 'C_tuple', 'dict': 'C_dict', 'set': 'C_set', 'frozenset': 'C_frozenset', 'NoneType': 'C_NoneType',
           'AltText': 'C_AltText', 'Record': 'C_Record', 'RecordSet': 'C_RecordSet',
           'datetime.datetime': 'C_datetime', 'datetime.date': 'C_date', 'objtypes.RecordList': 'C_RecordList',
           'objtypes.RaisedException': 'C_RaisedException'}


def dotted(node):
  if isinstance(node, ast.Name):
    return node.id
  if isinstance(node, ast.Attribute):
    b = dotted(node.value)
    return None if b is None else b + '.' + node.attr
  return None


def strlit(s):
  if s and all(32 <= ord(c) < 127 and c != '"' for c in s):
    return '(Str "%s")' % s
  return '[' + '; '.join('%d' % ord(c) for c in s) + ']'


def zlit(n):
  return '(%d)' % n if n < 0 else '%d' % n


def const_int(node):
  """constant folding of the int expressions the code writes: 2 ** 53, 1<<31, -(1<<31)"""
  if isinstance(node, ast.Constant) and type(node.value) is int:
    return node.value
  if isinstance(node, ast.UnaryOp) and isinstance(node.op, ast.USub):
    v = const_int(node.operand)
    return None if v is None else -v
  if isinstance(node, ast.BinOp) and isinstance(node.op, (ast.Pow, ast.LShift)):
    a, b = const_int(node.left), const_int(node.right)
    if a is None or b is None or b < 0 or b > 64:
      return None
    return a ** b if isinstance(node.op, ast.Pow) else a << b
  return None


class Module(object):
  """module-level facts the functions refer to"""
  def __init__(self, tree):
    self.tree = tree
    self.classes = dict((n.name, n) for n in tree.body if isinstance(n, ast.ClassDef))
    self.consts = {}
    for n in tree.body:
      if isinstance(n, ast.Assign) and len(n.targets) == 1 and isinstance(n.targets[0], ast.Name):
        self.consts[n.targets[0].id] = n.value

  def class_tuple(self, node):
    """classes of an isinstance / type-in test"""
    if isinstance(node, ast.Tuple):
      return [c for e in node.elts for c in self.class_tuple(e)]
    d = dotted(node)
    if d in CLASSES:
      return [CLASSES[d]]
    if isinstance(node, ast.Name) and node.id in self.consts and isinstance(self.consts[node.id], ast.Tuple):
      return self.class_tuple(self.consts[node.id])
    fail('unknown class in isinstance/type test: %s' % ast.dump(node), node)

  def str_set(self, name, node):
    v = self.consts.get(name)
    if not (isinstance(v, ast.Set) and all(isinstance(e, ast.Constant) and type(e.value) is str for e in v.elts)):
      fail('%s is not a set of string constants' % name, node)
    return sorted(e.value for e in v.elts)

  def method(self, cname, mname):
    """the FunctionDef cname.mname resolves to, and the class that defines it (single inheritance by name)"""
    seen = set()
    while cname in self.classes and cname not in seen:
      seen.add(cname)
      c = self.classes[cname]
      for n in c.body:
        if isinstance(n, ast.FunctionDef) and n.name == mname:
          return cname, n
      if len(c.bases) != 1 or not isinstance(c.bases[0], ast.Name):
        fail('class %s: expected exactly one named base' % cname, c)
      cname = c.bases[0].id
    fail('method %s not found' % mname)


class Fn(object):
  """translation of one function body"""
  def __init__(self, mod, cls, fdef, self_fields):
    self.mod, self.cls, self.fdef, self.self_fields = mod, cls, fdef, self_fields
    args = [a.arg for a in fdef.args.args]
    if fdef.args.vararg or fdef.args.kwarg or fdef.args.kwonlyargs or fdef.args.defaults:
      fail('unsupported parameters', fdef)
    self.selfname = args[0] if cls else None
    self.params = args[1:] if cls else args
    names = list(self.params)
    for n in ast.walk(fdef):
      if isinstance(n, ast.Name) and isinstance(n.ctx, ast.Store) and n.id not in names and not self.is_comp_var(n):
        names.append(n.id)
    self.names = names
    self.bound = set()       # comprehension variables in scope
    self.defined = set(self.params)   # variables definitely assigned at the current statement
    self.defs = []                    # continuation definitions emitted by top_block

  def is_comp_var(self, name):
    for n in ast.walk(self.fdef):
      if isinstance(n, (ast.GeneratorExp, ast.ListComp)):
        for g in n.generators:
          if any(t is name for t in ast.walk(g.target)):
            return True
    return False

  def env(self):
    return '(' + ', '.join('v_' + n for n in self.names) + ')' if len(self.names) > 1 else 'v_' + self.names[0]

  def envpat(self):
    return "'" + self.env() if len(self.names) > 1 else self.env()

  # ---- value expressions: (term, pure)  pure: term : value, else term : result value ----
  def ev(self, node):
    if isinstance(node, ast.Constant):
      v = node.value
      if v is None:
        return 'PNone', True
      if v is True or v is False:
        return '(PBool %s)' % ('true' if v else 'false'), True
      if type(v) is int:
        return '(PInt false %s)' % zlit(v), True
      if type(v) is str:
        return '(PStr false %s)' % strlit(v), True
      fail('constant %r' % (v,), node)
    ci = const_int(node)
    if ci is not None:
      return '(PInt false %s)' % zlit(ci), True
    if isinstance(node, ast.Name):
      if node.id in self.bound or (node.id in self.names and node.id in self.defined):
        return 'v_' + node.id, True
      fail('unknown name %s' % node.id, node)
    if isinstance(node, ast.IfExp):
      c = self.cond_r(node.test)
      a, b = self.ev_r(node.body), self.ev_r(node.orelse)
      return 'bind %s (fun c_ : bool => if c_ then %s else %s)' % (c, a, b), False
    if isinstance(node, ast.BinOp) and isinstance(node.op, ast.Mod) and isinstance(node.left, ast.Constant) \
        and node.left.value == '%.15g':
      return self.call1('p_fmt15g orc', node.right), False
    if isinstance(node, ast.Attribute) and node.attr == 'id' and isinstance(node.value, ast.Name):
      return self.call1('p_rec_id', node.value), False
    if isinstance(node, ast.ListComp):
      return 'bind %s (fun l_ => Ok (PList LPlain l_))' % self.seq(node), False
    if isinstance(node, (ast.Compare, ast.BoolOp)) or (isinstance(node, ast.UnaryOp) and isinstance(node.op, ast.Not)):
      return 'bind %s (fun b_ : bool => Ok (PBool b_))' % self.cond_r(node), False
    if isinstance(node, ast.Call):
      return self.call(node)
    fail('expression %s' % type(node).__name__, node)

  def ev_r(self, node):
    t, pure = self.ev(node)
    return '(Ok %s)' % t if pure else '(%s)' % t

  def call1(self, fn, arg, extra=''):
    """fn applied to one evaluated argument"""
    t, pure = self.ev(arg)
    if pure:
      return '%s %s%s' % (fn, t, extra)
    return 'bind (%s) (fun a_ => %s a_%s)' % (t, fn, extra)

  def zone(self, node, what):
    if dotted(node) != '%s.timezone' % self.selfname or 'timezone' not in self.self_fields:
      fail('%s: second argument must be self.timezone' % what, node)
    return 'zone'

  # ---- calls ----
  def call(self, node):
    f, args = node.func, node.args
    d = dotted(f)
    kw = dict((k.arg, k.value) for k in node.keywords)
    if d in ('str', 'int', 'abs') and len(args) == 1 and not kw:
      return self.call1({'str': 'p_str orc', 'int': 'p_int orc', 'abs': 'p_abs'}[d], args[0]), False
    if d == 'float' and len(args) == 1 and not kw:
      if isinstance(args[0], ast.Constant) and args[0].value == 'inf':
        return '(PFloat false (FInf false))', True
      return self.call1('p_float orc', args[0]), False
    if d == 'objtypes.safe_repr' and len(args) == 1 and not kw:
      t, pure = self.ev(args[0])
      if not pure:
        fail('safe_repr of a compound expression', node)
      return '(p_safe_repr orc %s)' % t, True
    if d == 'json.loads' and len(args) == 1 and not kw:
      return self.call1('p_json_loads orc', args[0]), False
    if d == 'tuple' and len(args) == 1 and not kw:
      return 'bind %s (fun l_ => Ok (PTuple l_))' % self.seq(args[0]), False
    if d == 'moment.date_to_ts' and not kw and len(args) in (1, 2):
      z = ' None' if len(args) == 1 else ' (Some %s)' % self.zone(args[1], d)
      return self.call1('p_date_to_ts orc', args[0], z), False
    if d == 'moment.dt_to_ts' and not kw and len(args) == 2:
      return self.call1('p_dt_to_ts orc', args[0], ' (Some %s)' % self.zone(args[1], d)), False
    if d == 'moment.parse_iso_date' and not kw and len(args) == 1:
      return self.call1('p_parse_iso_date orc', args[0]), False
    if d == 'moment.parse_iso' and not kw and len(args) == 2:
      return self.call1('p_parse_iso orc', args[0], ' %s' % self.zone(args[1], d)), False
    if d == 'objtypes.RecordList.from_repr' and not kw and len(args) == 1:
      return self.call1('p_reclist_from_repr orc', args[0]), False
    if d == 'objtypes.RecordList' and len(args) == 1 and sorted(kw) == ['group_by', 'sort_by', 'sort_key']:
      v = dotted(args[0])
      if v and v.endswith('._row_ids') and all(dotted(kw[k]) == v[:-len('_row_ids')] + '_' + k for k in kw):
        return self.call1('p_recordlist_of', ast.Name(id=v.split('.')[0], ctx=ast.Load())), False
      fail('RecordList(...) is not built from one record set', node)
    if d == 'list' and len(args) == 1 and not kw:          # list(OrderedDict((el, None) for el in X).keys())
      a = args[0]
      if isinstance(a, ast.Call) and isinstance(a.func, ast.Attribute) and a.func.attr == 'keys' and not a.args \
          and isinstance(a.func.value, ast.Call) and dotted(a.func.value.func) == 'OrderedDict' and len(a.func.value.args) == 1:
        g = a.func.value.args[0]
        if isinstance(g, ast.GeneratorExp) and len(g.generators) == 1 and not g.generators[0].ifs \
            and isinstance(g.elt, ast.Tuple) and len(g.elt.elts) == 2 and isinstance(g.elt.elts[1], ast.Constant) \
            and g.elt.elts[1].value is None and isinstance(g.generators[0].target, ast.Name) \
            and isinstance(g.elt.elts[0], ast.Name) and g.elt.elts[0].id == g.generators[0].target.id:
          return 'bind %s (fun l_ => bind (p_dedup l_) (fun d_ => Ok (PList LPlain d_)))' % self.iter_of(g.generators[0].iter), False
      fail('list(...) is not the OrderedDict de-duplication idiom', node)
    if isinstance(f, ast.Attribute) and not kw:
      if f.attr == 'decode' and len(args) == 1 and isinstance(args[0], ast.Constant) and args[0].value == 'utf8':
        return self.call1('p_decode_utf8 orc', f.value), False
      if f.attr == 'lower' and not args:
        return self.call1('p_lower orc', f.value), False
      if f.attr == 'date' and not args:
        return self.call1('p_dt_date', f.value), False
      if f.attr == 'do_convert' and len(args) == 1:
        if isinstance(f.value, ast.Name) and f.value.id == self.selfname:
          return self.call1('do_convert_', args[0]), False        # BaseColumnType.convert: the type's own do_convert
        if isinstance(f.value, ast.Name) and f.value.id in self.mod.classes:
          owner, _ = self.mod.method(f.value.id, 'do_convert')
          return self.call1('gen_%s_do_convert' % owner, args[0]), False
    fail('call %s' % (d or ast.dump(f)), node)

  # ---- sequences: term : result (list value) ----
  def iter_of(self, node):
    if isinstance(node, ast.Attribute) and node.attr == '_row_ids' and isinstance(node.value, ast.Name):
      return '(%s)' % self.call1('p_row_ids', node.value)
    t, pure = self.ev(node)
    return '(p_iter orc %s)' % t if pure else '(bind (%s) (fun i_ => p_iter orc i_))' % t

  def seq(self, node):
    if isinstance(node, ast.Call) and dotted(node.func) == 'sorted' and len(node.args) == 1 and not node.keywords:
      return '(bind %s (p_sorted_strs))' % self.seq(node.args[0])
    if isinstance(node, (ast.GeneratorExp, ast.ListComp)):
      gens = node.generators
      if any(g.ifs or g.is_async or not isinstance(g.target, ast.Name) for g in gens) or len(gens) not in (1, 2):
        fail('comprehension shape', node)
      names = [g.target.id for g in gens]
      outer = self.iter_of(gens[0].iter)
      self.bound.add(names[0])
      if len(gens) == 1:
        body = self.ev_r(node.elt)
        res = '(bind %s (fun l_ => map_result (fun v_%s => %s) l_))' % (outer, names[0], body)
      else:                                                 # [e for a in X for b in f(a)]
        inner = self.iter_of(gens[1].iter)
        self.bound.add(names[1])
        body = self.ev_r(node.elt)
        res = ('(bind %s (fun l_ => bind (map_result (fun v_%s => bind %s (fun m_ => map_result (fun v_%s => %s) m_)) l_) '
               '(fun ll_ => Ok (List.concat ll_))))' % (outer, names[0], inner, names[1], body))
      for n in names:
        self.bound.discard(n)
      return res
    fail('iterable %s' % type(node).__name__, node)

  # ---- tests: (term, pure)  pure: term : bool, else term : result bool ----
  def cond(self, node):
    if isinstance(node, ast.UnaryOp) and isinstance(node.op, ast.Not):
      t, pure = self.cond(node.operand)
      return ('(negb %s)' % t, True) if pure else ('(r_not %s)' % t, False)
    if isinstance(node, ast.BoolOp):
      parts = [self.cond(v) for v in node.values]
      if all(p for _, p in parts):
        op = ' && ' if isinstance(node.op, ast.And) else ' || '
        return '(' + op.join(t for t, _ in parts) + ')', True
      fn = 'r_and' if isinstance(node.op, ast.And) else 'r_or'
      terms = ['(Ok %s)' % t if p else t for t, p in parts]
      acc = terms[-1]
      for t in reversed(terms[:-1]):
        acc = '(%s %s %s)' % (fn, t, acc)
      return acc, False
    if isinstance(node, ast.Compare):
      return self.compare(node)
    if isinstance(node, ast.Call):
      d = dotted(node.func)
      if d == 'isinstance' and len(node.args) == 2:
        t, pure = self.ev(node.args[0])
        if not pure:
          fail('isinstance of a compound expression', node)
        return '(p_isinstance [%s] %s)' % ('; '.join(self.mod.class_tuple(node.args[1])), t), True
      if d == 'all' and len(node.args) == 1 and isinstance(node.args[0], ast.GeneratorExp):
        g = node.args[0]
        if len(g.generators) != 1 or g.generators[0].ifs or not isinstance(g.generators[0].target, ast.Name):
          fail('all(...) shape', node)
        name = g.generators[0].target.id
        it = self.iter_of(g.generators[0].iter)
        self.bound.add(name)
        body = self.cond_r(g.elt)
        self.bound.discard(name)
        return '(bind %s (fun l_ => all_m (fun v_%s => %s) l_))' % (it, name, body), False
      if d in ('math.isinf', 'math.isnan') and len(node.args) == 1:
        return '(%s)' % self.call1('p_' + d[5:], node.args[0]), False
      if d == 'is_int_short' and len(node.args) == 1:
        return '(%s)' % self.call1('gen_is_int_short', node.args[0]), False
      if isinstance(node.func, ast.Attribute) and node.func.attr == 'startswith' and len(node.args) == 1 \
          and isinstance(node.args[0], ast.Constant) and type(node.args[0].value) is str:
        return '(%s)' % self.call1('p_startswith', node.func.value, ' %s' % strlit(node.args[0].value)), False
      if isinstance(node.func, ast.Attribute) and node.func.attr == 'is_right_type' and len(node.args) == 1 \
          and isinstance(node.func.value, ast.Name) and node.func.value.id in self.mod.classes:
        owner, _ = self.mod.method(node.func.value.id, 'is_right_type')
        return '(%s)' % self.call1('gen_%s_is_right_type' % owner, node.args[0]), False
    t, pure = self.ev(node)                         # any other value used as a test: its truth value
    return '(%s)' % ('p_truth orc %s' % t if pure else 'bind (%s) (p_truth orc)' % t), False

  def cond_r(self, node):
    t, pure = self.cond(node)
    return '(Ok %s)' % t if pure else t

  def compare(self, node, pre_names=None):
    ops, comps = node.ops, node.comparators
    left = node.left
    if len(ops) == 1 and isinstance(ops[0], (ast.Is, ast.IsNot)):
      neg = isinstance(ops[0], ast.IsNot)
      if isinstance(comps[0], ast.Constant) and comps[0].value is None:
        t, pure = self.ev(left)
        if not pure:
          fail('`is None` of a compound expression', node)
        r = '(p_is_none %s)' % t
      elif isinstance(left, ast.Call) and dotted(left.func) == 'type' and len(left.args) == 1:
        t, pure = self.ev(left.args[0])
        if not pure:
          fail('type() of a compound expression', node)
        r = '(p_type_in [%s] %s)' % ('; '.join(self.mod.class_tuple(comps[0])), t)
      else:
        fail('`is` comparison', node)
      return ('(negb %s)' % r if neg else r), True
    if len(ops) == 1 and isinstance(ops[0], (ast.In, ast.NotIn)):
      neg = isinstance(ops[0], ast.NotIn)
      c = comps[0]
      if isinstance(left, ast.Call) and dotted(left.func) == 'type' and len(left.args) == 1:
        t, pure = self.ev(left.args[0])
        if not pure:
          fail('type() of a compound expression', node)
        r = '(p_type_in [%s] %s)' % ('; '.join(self.mod.class_tuple(c)), t)
        return ('(negb %s)' % r if neg else r), True
      if isinstance(c, ast.Tuple) and all(isinstance(e, ast.Constant) for e in c.elts):
        consts = [self.ev(e)[0] for e in c.elts]
      elif isinstance(c, ast.Name) and c.id not in self.names:
        consts = ['(PStr false %s)' % strlit(s) for s in self.mod.str_set(c.id, node)]
      else:
        fail('`in` over something that is not a tuple/set of constants', node)
      t, pure = self.ev(left)
      lst = '[%s]' % '; '.join(consts)
      if pure:
        r = '(p_in %s %s)' % (t, lst)
        return ('(negb %s)' % r if neg else r), True
      r = '(bind (%s) (fun a_ => Ok (%sp_in a_ %s))))' % (t, 'negb (' if neg else '(', lst)
      return r, False
    if len(ops) == 1 and isinstance(ops[0], ast.Eq) and (dotted(left) or '').endswith('._table.table_id') \
        and dotted(comps[0]) == '%s.table_id' % self.selfname and 'table_id' in self.self_fields:
      return '(%s)' % self.call1('p_table_is', ast.Name(id=dotted(left).split('.')[0], ctx=ast.Load()), ' table'), False
    # ordering / equality, possibly chained: every operand must be pure so that it is evaluated once
    operands = [(n, True) for n in pre_names] if pre_names is not None else [self.ev(x) for x in [left] + comps]
    if len(ops) == 1 and not all(p for _, p in operands):     # a op b: a then b are evaluated, then compared
      pre, names = '', []
      for i, (t, pure) in enumerate(operands):
        if pure:
          names.append(t)
        else:
          pre += 'bind (%s) (fun o%d_ => ' % (t, i)
          names.append('o%d_' % i)
      inner, _ = self.compare(ast.Compare(left=ast.Name(id='\0', ctx=ast.Load()), ops=ops, comparators=[ast.Name(id='\1', ctx=ast.Load())]), names)
      return '(' + pre + inner + ')' * pre.count('(fun o') + ')', False
    if not all(p for _, p in operands):
      fail('chained comparison of compound expressions', node)
    if pre_names is not None:
      operands = [(n, True) for n in pre_names]
    terms = []
    for op, (a, _), (b, _) in zip(ops, operands, operands[1:]):
      if isinstance(op, ast.Lt):
        terms.append('(p_lt %s %s)' % (a, b))
      elif isinstance(op, ast.LtE):
        terms.append('(p_le %s %s)' % (a, b))
      elif isinstance(op, ast.Gt):
        terms.append('(p_gt %s %s)' % (a, b))
      elif isinstance(op, ast.Eq):
        terms.append('(Ok (p_eq %s %s))' % (a, b))
      else:
        fail('comparison operator %s' % type(op).__name__, node)
    acc = terms[-1]
    for t in reversed(terms[:-1]):
      acc = '(r_and %s %s)' % (t, acc)
    return acc, False

  # ---- statements: term : flow E ----
  def ety(self):
    return '(' + ' * '.join(['value'] * len(self.names)) + ')%type'

  def top_block(self, stmts, name, fparams, fargs, idx=0):
    """Like block, but the statements after each top-level if/try become a named continuation `name_k<i>`
    (a Definition of its own), so that proofs can speak about the tail of a long function."""
    if stmts and isinstance(stmts[0], (ast.If, ast.Try)) and stmts[1:]:
      head = self.block([stmts[0]])
      kname = '%s_k%d' % (name, idx + 1)
      kterm = self.top_block(stmts[1:], name, fparams, fargs, idx + 1)
      self.defs.append('Definition %s%s (env_ : %s) : flow %s :=\n  let %s := env_ in %s.\n' % (
        kname, fparams, self.ety(), self.ety(), self.envpat(), kterm))
      return '(fl_seq %s (fun env_ => %s%s env_))' % (head, kname, fargs)
    return self.block(stmts)

  def block(self, stmts):
    return '(' + self.block_(stmts) + ')'

  def block_(self, stmts):
    if not stmts:
      return 'FFall %s' % self.env()
    s, rest = stmts[0], stmts[1:]
    if isinstance(s, ast.Pass) or (isinstance(s, ast.Expr) and isinstance(s.value, ast.Constant) and isinstance(s.value.value, str)):
      return self.block(rest)
    if isinstance(s, ast.Return):
      if rest:
        fail('statements after return', s)
      if s.value is None:
        return 'FRet PNone'
      t, pure = self.ev(s.value)
      return 'FRet %s' % t if pure else 'fl_bind (%s) %s (fun r_ => FRet r_)' % (t, self.env())
    if isinstance(s, ast.Raise):
      if rest or s.cause is not None or not isinstance(s.exc, ast.Call):
        fail('raise shape', s)
      name = (dotted(s.exc.func) or '').split('.')[-1]
      if not name or not name[0].isupper() or any(not isinstance(a, ast.Constant) for a in s.exc.args):
        fail('raise shape', s)
      return 'FExc %s %s' % (strlit(name), self.env())
    if isinstance(s, ast.Assign):
      if len(s.targets) != 1 or not isinstance(s.targets[0], ast.Name) or s.targets[0].id not in self.names:
        fail('assignment target', s)
      t, pure = self.ev(s.value)
      name = s.targets[0].id
      self.defined.add(name)
      k = self.block(rest)
      if pure:
        return 'let v_%s := %s in %s' % (name, t, k)
      return 'fl_bind (%s) %s (fun v_%s => %s)' % (t, self.env(), name, k)
    if isinstance(s, ast.Assert):
      if s.msg is not None:
        fail('assert with message', s)
      c = self.cond_r(s.test)
      return 'fl_bind %s %s (fun c_ : bool => if c_ then %s else FExc (Str "AssertionError") %s)' % (
        c, self.env(), self.block(rest), self.env())
    if isinstance(s, ast.If):
      c, pure = self.cond(s.test)
      before = set(self.defined)
      a = self.block(s.body)
      da = self.defined
      self.defined = set(before)
      b = self.block(s.orelse)
      self.defined = before | (da & self.defined)
      ite = 'if c_ then %s else %s' % (a, b)
      head = ('let c_ := %s in %s' % (c, ite)) if pure else 'fl_bind %s %s (fun c_ : bool => %s)' % (c, self.env(), ite)
      if not rest:
        return head
      return 'fl_seq (%s) (fun %s => %s)' % (head, self.envpat(), self.block(rest))
    if isinstance(s, ast.Try):
      if s.orelse or s.finalbody or len(s.handlers) != 1:
        fail('try shape', s)
      h = s.handlers[0]
      if h.type is not None and dotted(h.type) != 'Exception':
        fail('only `except Exception` is translated', s)
      if h.name and any(isinstance(n, ast.Name) and n.id == h.name for b in h.body for n in ast.walk(b)):
        fail('the caught exception is used', s)
      before = set(self.defined)
      body = self.block(s.body)
      self.defined = set(before)
      handler = self.block(h.body)
      self.defined = set(before)
      head = 'fl_try (%s) (fun %s => %s)' % (body, self.envpat(), handler)
      if not rest:
        return head
      return 'fl_seq (%s) (fun %s => %s)' % (head, self.envpat(), self.block(rest))
    fail('statement %s' % type(s).__name__, s)


# ---- module assembly ------------------------------------------------------------------------------------------

HEADER = '''(* GENERATED by harness/ut2v.py from sandbox/grist/usertypes.py and objtypes.py -- do not edit.
   Regenerated on every run of ./check C22; Proofs/Usertypes_bridge.v proves these definitions equal to the hand
   model of Model/Values.v, so a semantic edit of the source breaks a proof obligation. *)
From Coq Require Import ZArith List Bool String.
Import ListNotations.
Require Import Grist.Lib.PyFloat Grist.Model.Values Grist.Model.ValuesPy.
Open Scope Z_scope.

Section Gen.
Variable orc : oracles.
'''

# ctype constructor pattern, Python class, how the owner's self field is supplied
CTYPES = [('TText', 'Text'), ('TBlob', 'Blob'), ('TAny', 'Any'), ('TBool', 'Bool'), ('TInt', 'Int'), ('TNumeric', 'Numeric'),
          ('TDate', 'Date'), ('TDateTime z', 'DateTime'), ('TChoice', 'Choice'), ('TChoiceList', 'ChoiceList'),
          ('TPositionNumber', 'PositionNumber'), ('TManualSortPos', 'ManualSortPos'), ('TId', 'Id'), ('TRef t', 'Reference'),
          ('TRefList t', 'ReferenceList'), ('TAttachments', 'Attachments')]
FIELDS = {'DateTime': ('timezone',), 'ReferenceList': ('table_id',)}       # self fields the methods of a class may read
FIELD_PARAM = {'timezone': '(zone : str)', 'table_id': '(table : str)'}
SPLIT = {'gen_ReferenceList_do_convert'}      # long functions whose top-level tails get names of their own

# glue that is not translated: its AST must be what the dispatch below assumes
PINNED = {
  ('DateTime', '__init__'): '''
def __init__(self, timezone="America/New_York", default=_use_type_default):
  super(DateTime, self).__init__(default)

  try:
    self.timezone = moment.Zone(timezone)
  except KeyError:
    self.timezone = moment.Zone('UTC')
''',
  ('Reference', '__init__'): '''
def __init__(self, table_id, reverse_of=None):
  super(Reference, self).__init__()
  self.table_id = table_id
  self._reverse_col_id = reverse_of
''',
  ('ReferenceList', '__init__'): '''
def __init__(self, table_id, reverse_of=None):
  super(ReferenceList, self).__init__()
  self.table_id = table_id
  self._reverse_col_id = reverse_of
''',
  ('Attachments', '__init__'): '''
def __init__(self):
  super(Attachments, self).__init__('_grist_Attachments')
''',
}


def check_pinned(mod):
  for (cname, mname), text in PINNED.items():
    c = mod.classes.get(cname)
    f = [n for n in (c.body if c else []) if isinstance(n, ast.FunctionDef) and n.name == mname]
    want = ast.dump(ast.parse(text.strip() + '\n').body[0])
    if len(f) != 1 or ast.dump(f[0]) != want:
      fail('%s.%s is not the text the dispatch was written from' % (cname, mname))


def emit_fn(mod, cls, fdef, fields, name, extra_params=''):
  fn = Fn(mod, cls, fdef, fields)
  body = [s for s in fdef.body if not (isinstance(s, ast.Expr) and isinstance(s.value, ast.Constant))]
  params = ''.join(' ' + FIELD_PARAM[f] for f in fields) + extra_params + ''.join(' (v_%s : value)' % p for p in fn.params)
  if fdef.name in ('is_right_type', 'is_int_short'):
    if len(body) != 1 or not isinstance(body[0], ast.Return) or body[0].value is None:
      fail('%s: expected a single return' % name, fdef)
    return 'Definition %s%s : result bool :=\n  %s.\n' % (name, params, fn.cond_r(body[0].value))
  fparams = ''.join(' ' + FIELD_PARAM[f] for f in fields) + extra_params
  fargs = ''.join(' ' + FIELD_PARAM[f].split()[0][1:] for f in fields) + (' do_convert_' if extra_params else '')
  term = fn.top_block(body, name, fparams, fargs) if name in SPLIT else fn.block(body)
  inits = ''.join('let v_%s := PNone in ' % n for n in fn.names if n not in fn.params)
  return ''.join(d + '\n' for d in fn.defs) + 'Definition %s%s : result value :=\n  %s@run_flow %s (%s).\n' % (
    name, params, inits, fn.ety(), term)


def translate(grist_dir):
  ut = Module(ast.parse(open(os.path.join(grist_dir, 'usertypes.py')).read()))
  ot = Module(ast.parse(open(os.path.join(grist_dir, 'objtypes.py')).read()))
  check_pinned(ut)
  out = [HEADER]
  short = [n for n in ot.tree.body if isinstance(n, ast.FunctionDef) and n.name == 'is_int_short']
  if len(short) != 1:
    fail('objtypes.is_int_short not found')
  out.append(emit_fn(ot, None, short[0], (), 'gen_is_int_short'))
  owners = {'do_convert': {}, 'is_right_type': {}}
  for cname in [n.name for n in ut.tree.body if isinstance(n, ast.ClassDef)]:
    try:
      ut.method(cname, 'convert')
    except Untranslatable:
      continue                                      # not a column type class
    for mname in ('is_right_type', 'do_convert'):
      f = [n for n in ut.classes[cname].body if isinstance(n, ast.FunctionDef) and n.name == mname]
      if f:
        out.append(emit_fn(ut, cname, f[0], FIELDS.get(cname, ()), 'gen_%s_%s' % (cname, mname)))
  cowner, cdef = ut.method('BaseColumnType', 'convert')
  for c, _ in [(c, p) for p, c in CTYPES]:
    if ut.method(c, 'convert')[0] != 'BaseColumnType':
      fail('%s overrides convert' % c)
  out.append(emit_fn(ut, 'BaseColumnType', cdef, (), 'gen_convert', ' (do_convert_ : value -> result value)'))
  att = ast.parse(PINNED[('Attachments', '__init__')].strip()).body[0].body[0].value.args[0].value
  for mname, ret in (('do_convert', 'result value'), ('is_right_type', 'result bool')):
    lines = []
    for pat, cname in CTYPES:
      owner, _ = ut.method(cname, mname)
      arg = ''
      for f in FIELDS.get(owner, ()):
        if f == 'timezone':
          arg = ' (effective_zone orc z)' if cname == 'DateTime' else fail('%s has no zone' % cname)
        elif f == 'table_id':
          arg = ' t' if cname == 'ReferenceList' else (' %s' % strlit(att) if cname == 'Attachments' else fail('%s has no table' % cname))
      lines.append('  | %s => gen_%s_%s%s v' % (pat.replace(' t', ' t' if cname == 'ReferenceList' else ' _'), owner, mname, arg))
    out.append('Definition gen_%s (T : ctype) (v : value) : %s :=\n  match T with\n%s\n  end.\n' % (mname, ret, '\n'.join(lines)))
  out.append('Definition gen_convert_T (T : ctype) (v : value) : result value := gen_convert (gen_do_convert T) v.\n')
  out.append('End Gen.\n')
  return '\n'.join(out)


if __name__ == '__main__':
  import sys
  print(translate(sys.argv[1] if len(sys.argv) > 1 else '/repo/sandbox/grist'))
