"""C05 helpers: history generator over-representing dependency shapes, scratch oracle, directed streams."""
import copy
import random

from harness import gristenv as G
from harness import histgen
from harness import histrun

import depend   # noqa: E402

WEIGHTS = {
  'addrec': 10, 'updrec': 16, 'rmrec': 6, 'tempids': 2,
  'addcol': 3, 'addformula': 12, 'rmcol': 3, 'rencol': 3, 'modtype': 3, 'modformula': 8,
  'toformula': 2, 'todata': 2, 'addtable': 3, 'rmtable': 1, 'rentable': 2, 'addref': 8, 'addreverse': 1,
  'summary': 4, 'summaryformula': 5, 'updsummary': 2, 'label': 1, 'renamechoices': 1, 'upsert': 1, 'invalid': 1,
}


class Gen05(histgen.HistGen):
  """Same vocabulary as the shared generator; formulas drawn mostly from the shapes C05 names."""
  def __init__(self, rng):
    super(Gen05, self).__init__(rng, weights=WEIGHTS, max_tables=3)

  def formula(self, meta, tref, level):
    r = self.r
    base = super(Gen05, self).formula(meta, tref, level)
    if r.random() < 0.35:
      return base
    own = self.lower_cols(meta, tref, level)
    t2 = r.choice(meta.user_tables())
    tid2 = t2['tableId']
    cols2 = self.lower_cols(meta, t2['id'], level)
    c1 = r.choice(own)['colId'] if own else 'id'
    k = r.choice(cols2)['colId'] if cols2 else 'id'
    k2 = r.choice(cols2)['colId'] if cols2 else 'id'
    k3 = r.choice(cols2)['colId'] if cols2 else 'id'
    out = [
      'len(%s.lookupRecords(%s=$%s))' % (tid2, k, c1),
      '[r.id for r in %s.lookupRecords(%s=$%s, order_by="%s")]' % (tid2, k, c1, k2),
      '[r.%s for r in %s.lookupRecords(%s=$%s, order_by=("-%s", "%s"))]' % (k3, tid2, k, c1, k2, k3),
      '%s.lookupOne(%s=$%s, order_by="-%s").%s' % (tid2, k, c1, k2, k3),
      'list(%s.lookupRecords(%s=$%s).%s)' % (tid2, k, c1, k3),
      'sum(x for x in %s.lookupRecords(%s=$%s).%s if isinstance(x, (int, float)) and not isinstance(x, bool))'
      % (tid2, k, c1, k3),
      '[r.id for r in %s.lookupRecords(%s=$%s, %s=$id)]' % (tid2, k, c1, k2),
      'PREVIOUS(rec, order_by="%s").id' % c1,
      'NEXT(rec, order_by="-%s").id' % c1,
      'RANK(rec, order_by="%s", order="desc")' % c1,
      'PREVIOUS(rec, group_by="%s", order_by="%s").%s' % (c1, r.choice(own)['colId'] if own else 'id', c1),
      'len(%s.all)' % tid2,
      '[r.%s for r in %s.all]' % (k, tid2),
    ]
    lists = [c for c in cols2 if c['type'] == 'ChoiceList' or c['type'].startswith('RefList:')]
    if lists:
      lc = r.choice(lists)['colId']
      out += ['[r.id for r in %s.lookupRecords(%s=CONTAINS($%s))]' % (tid2, lc, c1),
              'len(%s.lookupRecords(%s=CONTAINS($%s, match_empty=0)))' % (tid2, lc, c1),
              '[r.id for r in %s.lookupRecords(%s=CONTAINS($%s), order_by="-%s")]' % (tid2, lc, c1, k2)]
    for rc in [c for c in own if c['type'].startswith('Ref:')]:
      tt = rc['type'].split(':', 1)[1]
      if tt in meta.table_by_id:
        tc = self.lower_cols(meta, meta.table_by_id[tt]['id'], level)
        for _ in range(2):
          if tc:
            x = r.choice(tc)
            out.append('$%s.%s' % (rc['colId'], x['colId']))
            if x['type'].startswith('Ref:') and x['type'].split(':', 1)[1] in meta.table_by_id:
              t3 = self.lower_cols(meta, meta.table_by_id[x['type'].split(':', 1)[1]]['id'], level)
              if t3:      # cross-table chain
                out.append('$%s.%s.%s' % (rc['colId'], x['colId'], r.choice(t3)['colId']))
    for rc in [c for c in own if c['type'].startswith('RefList:')]:
      tt = rc['type'].split(':', 1)[1]
      if tt in meta.table_by_id:
        tc = self.lower_cols(meta, meta.table_by_id[tt]['id'], level)
        if tc:
          out.append('list($%s.%s)' % (rc['colId'], r.choice(tc)['colId']))
          out.append('[x.%s for x in $%s]' % (r.choice(tc)['colId'], rc['colId']))
    return r.choice(out)

  def value(self, ctype, meta=None):
    # references to rows that do not exist (yet): supported by the engine ("dangling" references)
    base = ctype.split(':')[0]
    if base in ('Ref', 'RefList') and meta is not None and self.r.random() < 0.12:
      rows = self._target_rows(meta, ctype)
      ghost = (max(rows) if rows else 0) + self.r.randint(1, 3)
      return ghost if base == 'Ref' else ['L', ghost]
    return super(Gen05, self).value(ctype, meta)

  def gen(self, kind, meta):
    if kind == 'addrec' and self.r.random() < 0.15:
      t = self.pick_table(meta)
      if t is not None:
        rows = meta.rows(t['tableId'])
        first = (max(rows) if rows else 0) + 1
        ids = list(range(first, first + self.r.randint(1, 3)))
        return ['BulkAddRecord', t['tableId'], ids, {}]      # explicit row ids (may resolve dangling references)
    if kind == 'summaryformula':
      st = self.pick_table(meta, summary=True)
      src = meta.tables.get(st['summarySourceTable']) if st else None
      if st is not None and src is not None and self.r.random() < 0.7:
        sc = meta.visible_cols(src['id'])
        x = self.r.choice(sc)['colId'] if sc else 'id'
        f = self.r.choice([
          'SUM(x for x in $group.%s if isinstance(x, (int, float)) and not isinstance(x, bool))' % x,
          'len($group)', 'list($group.%s)' % x, '[r.id for r in $group]', 'MAX($group.id)',
          'sorted(str(v) for v in $group.%s)' % x])
        return ['AddColumn', st['tableId'], self.r.choice(['total', 'n', 'S', 'agg', 'lst']),
                {'type': 'Any', 'isFormula': True, 'formula': f}]
    return super(Gen05, self).gen(kind, meta)


def scratch_diff(e):
  """None if every table of e equals what a fresh engine computes from metadata + data columns."""
  f = histrun.scratch_values(e)
  a, b = G.snapshot(e), G.snapshot(f)
  if a != b:
    return G.diff_snapshots(a, b)
  return None


def apply_or_clean(e, bundle, gen=None):
  try:
    out = G.apply(e, bundle)
    if gen is not None:
      gen.after_bundle(e)
    return out
  except Exception:
    G.clean(e)
    return None


def run_bundles(bundles):
  """Fresh document, the bundles in order (a failing bundle is followed by Calculate); returns the engine."""
  e, _ = G.new_doc()
  for b in bundles:
    apply_or_clean(e, copy.deepcopy(b))
  return e


def cyclic_through_lookup(e):
  """Nodes that lie on a dependency cycle passing through a '#lookup' node of the real dep_graph."""
  succ = {}
  for ed in e.dep_graph._all_edges:
    succ.setdefault(ed.out_node, set()).add(ed.in_node)
  out = set()
  for start in [n for n in succ if n.col_id.startswith('#lookup')]:
    seen, stack = set(), [start]
    while stack:
      n = stack.pop()
      for m in succ.get(n, ()):
        if m not in seen:
          seen.add(m)
          stack.append(m)
    if start in seen:       # start reaches itself: everything on a path start -> x -> start
      for x in seen:
        s2, st2 = set(), [x]
        while st2:
          n = st2.pop()
          for m in succ.get(n, ()):
            if m not in s2:
              s2.add(m)
              st2.append(m)
        if start in s2:
          out.add(x)
  return out


DIRECTED_FORMULAS = [
  '$R.A', '$R.R.A', '$R.F1', 'list($L.A)', '[x.R.A for x in $L]', 'len(U.lookupRecords(R=$id))',
  'T.lookupOne(A=$B).B', '[r.id for r in T.lookupRecords(A=$B, order_by="-B")]',
  '[r.id for r in T.lookupRecords(L=CONTAINS($R))]', 'sum(r.B or 0 for r in U.lookupRecords(R=$R))',
  'PREVIOUS(rec, order_by="B").id', 'RANK(rec, group_by="A", order_by="B")', 'NEXT(rec, order_by="-A").B',
  'list(T.lookupRecords(A=$B).L)', 'T.lookupOne(B=$A, order_by=("A", "-id")).R.A', '$R.L.A',
  'len(T.all)', '[r.B for r in U.lookupRecords(A=$A, B=$B)]', 'U.lookupOne(A=$R.A).id',
  # reads through references of a column that may not exist (yet) / whose type changes: rows with a BLANK
  # reference see the target column's type default, or AttributeError while the column is missing
  '$R.N', 'list($L.N)', '[x.N for x in $L]', '$R.B', 'str($R.A) + "|" + str($R.B)', '$R.R.B',
  # two hops whose MIDDLE hop is a set of records: record_set.RefCol.X (table.py _get_col_obj_subset)
  'list($L.R.A)', 'list($L.R.B)', 'list(T.lookupRecords(A=$B).R.B)', 'list(U.lookupRecords(B=$A, order_by="-A").R.A)',
]


def target_schema_edit(rng):
  """One or two bundles editing the schema of a column of the TARGET table T (the table R and L point to)."""
  c = rng.choice(['A', 'B', 'N', 'A', 'B'])
  k = rng.random()
  ty = lambda: rng.choice(['Text', 'Int', 'Numeric', 'Bool', 'Any', 'Date', 'Choice'])
  if k < 0.4:
    return [[['ModifyColumn', 'T', c, {'type': ty()}]]]
  if k < 0.55:
    return [[['AddColumn', 'T', 'N', {'type': ty(), 'isFormula': False}]]]
  if k < 0.7:
    return [[['RemoveColumn', 'T', c]], [['AddColumn', 'T', c, {'type': ty(), 'isFormula': False}]]]
  if k < 0.8:
    return [[['RemoveColumn', 'T', c], ['AddColumn', 'T', c, {'type': ty(), 'isFormula': False}]]]
  if k < 0.92:
    return [[['RenameColumn', 'T', c, c + '9']], [['RenameColumn', 'T', c + '9', c]]]
  return [[['ModifyColumn', 'T', c, {'isFormula': True, 'formula': '$id * 2'}]], [['ModifyColumn', 'T', c, {'isFormula': False}]]]


def blankref_history(rng):
  """U reads T through Ref/RefList columns; some rows of U hold BLANK references; then schema edits of T's columns."""
  hist = [[['AddTable', 'T', [{'id': 'A', 'type': rng.choice(['Text', 'Int', 'Numeric']), 'isFormula': False},
                              {'id': 'B', 'type': rng.choice(['Text', 'Int', 'Bool']), 'isFormula': False}]]],
          [['AddTable', 'U', [{'id': 'R', 'type': 'Ref:T', 'isFormula': False}, {'id': 'L', 'type': 'RefList:T', 'isFormula': False}]]]]
  forms = ['$R.A', '$R.B', '$R.N', 'list($L.A)', '[x.N for x in $L]', 'str($R.A) + "|" + str($R.B)', 'len($L.B)',
           'U.lookupOne(R=$R).R.A', '[r.R.A for r in U.lookupRecords(L=CONTAINS($R))]']
  for i in range(rng.randint(2, 4)):
    hist.append([['AddColumn', 'U', 'G%d' % i, {'type': rng.choice(['Any', 'Any', 'Text', 'Int']), 'isFormula': True,
                                                 'formula': rng.choice(forms)}]])
  hist.append([['BulkAddRecord', 'T', [None, None], {'A': [1, 2], 'B': [3, 4]}]])
  n = rng.randint(2, 4)
  hist.append([['BulkAddRecord', 'U', [None] * n, {'R': [rng.choice([0, 0, 1, 2]) for _ in range(n)],
                                                   'L': [rng.choice([None, None, ['L', 1], ['L', 2, 1]]) for _ in range(n)]}]])
  for _ in range(rng.randint(3, 7)):
    if rng.random() < 0.75:
      hist.extend(target_schema_edit(rng))
    else:
      hist.append([['UpdateRecord', 'U', rng.randint(1, n), {'R': rng.choice([0, 1, 2])}]])
  return hist


def directed_history(rng):
  """Two small tables T, U (A, B ints; R: Ref:T, L: RefList:T; F1 = $A + 1) with 2-3 formula columns drawn from the
  dependency shapes, then many small edits: data, references (shared targets, dangling ids), rows added/removed,
  a summary table, a formula change."""
  def cols():
    return [{'id': 'A', 'type': 'Int', 'isFormula': False}, {'id': 'B', 'type': 'Int', 'isFormula': False},
            {'id': 'R', 'type': 'Ref:T', 'isFormula': False}, {'id': 'L', 'type': 'RefList:T', 'isFormula': False},
            {'id': 'F1', 'type': 'Any', 'isFormula': True, 'formula': '$A + 1'}]
  hist = [[['AddTable', 'T', cols()]], [['AddTable', 'U', cols()]]]
  for i in range(rng.randint(2, 3)):
    hist.append([['AddColumn', rng.choice(['T', 'U']), 'G%d' % i,
                  {'type': 'Any', 'isFormula': True, 'formula': rng.choice(DIRECTED_FORMULAS)}]])
  nrows = {'T': 0, 'U': 0}
  def refval():
    return rng.choice([0, 1, 1, 2, 2, 3, nrows['T'] + 1])
  def rec():
    return {'A': rng.randint(0, 2), 'B': rng.randint(0, 2), 'R': refval(),
            'L': rng.choice([None, ['L', refval()], ['L', 1, 2], ['L', 2, refval()]])}
  for t in ('T', 'U'):
    n = rng.randint(2, 4)
    rows = [rec() for _ in range(n)]
    hist.append([['BulkAddRecord', t, [None] * n, {k: [r[k] for r in rows] for k in ('A', 'B', 'R', 'L')}]])
    nrows[t] = n
  for _ in range(rng.randint(6, 14)):
    t = rng.choice(['T', 'U'])
    k = rng.random()
    row = rng.randint(1, max(1, nrows[t]))
    if k < 0.45:
      c = rng.choice(['A', 'B', 'R', 'L'])
      hist.append([['UpdateRecord', t, row, {c: rec()[c]}]])
    elif k < 0.6:
      r = rec()
      hist.append([['AddRecord', t, None, r]])
      nrows[t] += 1
    elif k < 0.72:
      hist.append([['RemoveRecord', t, row]])
    elif k < 0.8:
      hist.append([['AddRecord', 'T', nrows['T'] + rng.randint(1, 2), {'A': rng.randint(0, 2)}]])
      nrows['T'] += 2
    elif k < 0.84:
      hist.append([['ModifyColumn', t, 'G0', {'formula': rng.choice(DIRECTED_FORMULAS)}]])
    elif k < 0.91:
      hist.extend(target_schema_edit(rng))
    elif k < 0.95:
      hist.append([['BulkUpdateRecord', t, [1, 2], {'R': [refval(), refval()], 'A': [rng.randint(0, 2), rng.randint(0, 2)]}]])
    else:
      hist.append([['CreateViewSection', 1 if t == 'T' else 2, 0, 'record', [rng.choice([2, 3])] if t == 'T' else [9], None]])
  return hist


CYCLIC_FORMULAS = [
  ('F', 'T.lookupOne(F=$A).id'),
  ('F', 'len(T.lookupRecords(F=$A))'),
  ('F', '[r.id for r in T.lookupRecords(G=$A)]'),
  ('F', 'T.lookupOne(A=$A, order_by="F").id'),
]


def cyclic_history(rng):
  """A document whose column F is (transitively) the key / sort key of its own lookup, and data edits."""
  col, f = rng.choice(CYCLIC_FORMULAS)
  cols = [{'id': 'A', 'type': 'Int', 'isFormula': False}, {'id': col, 'type': 'Any', 'isFormula': True, 'formula': f}]
  if 'G=' in f:
    cols.append({'id': 'G', 'type': 'Any', 'isFormula': True, 'formula': 'len($F)'})
  n = rng.randint(2, 4)
  hist = [[['AddTable', 'T', cols]], [['BulkAddRecord', 'T', [None] * n, {'A': [rng.randint(0, 3) for _ in range(n)]}]]]
  for _ in range(rng.randint(1, 4)):
    hist.append([['UpdateRecord', 'T', rng.randint(1, n), {'A': rng.randint(0, 3)}]])
  return hist


def shape_tour():
  """A fixed document with one formula column per dependency shape the property names, and a few edits of each kind;
  replayed under the dependency monitor on every run so that no shape has zero coverage."""
  cols = [{'id': 'A', 'type': 'Int', 'isFormula': False}, {'id': 'B', 'type': 'Int', 'isFormula': False},
          {'id': 'R', 'type': 'Ref:T', 'isFormula': False}, {'id': 'L', 'type': 'RefList:T', 'isFormula': False},
          {'id': 'C', 'type': 'ChoiceList', 'isFormula': False}]
  forms = ['$A + 1', '$R.A', '$R.R.B', 'list($L.A)', '[x.R.A for x in $L]', 'len($L)',
           'len(T.lookupRecords(A=$B))', 'T.lookupOne(A=$B).B', '[r.id for r in T.lookupRecords(C=CONTAINS("x"))]',
           '[r.id for r in T.lookupRecords(A=$A, order_by="-B")]', '[r.id for r in T.lookupRecords(A=$A, B=$B)]',
           'len(T.all)', 'PREVIOUS(rec, order_by="B").id', 'NEXT(rec, group_by="A", order_by="B").id',
           'RANK(rec, order_by="B", order="desc")', 'list(T.lookupRecords(A=$A).L)', 'T.lookupOne(B=$A, sort_by="-A").R.A',
           'list($L.R.B)', 'list(T.lookupRecords(A=$B).R.A)']
  hist = [[['AddTable', 'T', cols]]]
  for i, f in enumerate(forms):
    hist.append([['AddColumn', 'T', 'S%d' % i, {'type': 'Any', 'isFormula': True, 'formula': f}]])
  hist.append([['BulkAddRecord', 'T', [None] * 4, {'A': [1, 2, 1, 0], 'B': [2, 1, 1, 2], 'R': [2, 3, 0, 1],
                                                  'L': [['L', 2, 3], None, ['L', 1], ['L', 4, 1]],
                                                  'C': [['L', 'x'], ['L', 'y'], None, ['L', 'x', 'y']]}]])
  hist.append([['CreateViewSection', 1, 0, 'record', [2], None]])
  hist.append([['AddColumn', 'T_summary_A', 'tot', {'type': 'Any', 'isFormula': True, 'formula': 'SUM($group.B)'}]])
  hist.append([['AddColumn', 'T_summary_A', 'refs', {'type': 'Any', 'isFormula': True, 'formula': 'list($group.L)'}]])
  hist.append([['AddColumn', 'T_summary_A', 'far', {'type': 'Any', 'isFormula': True, 'formula': 'list($group.R.B)'}]])
  hist += [[['UpdateRecord', 'T', 1, {'A': 2}]], [['UpdateRecord', 'T', 2, {'R': 1, 'L': ['L', 4]}]],
           [['UpdateRecord', 'T', 3, {'B': 5, 'C': ['L', 'x']}]], [['AddRecord', 'T', None, {'A': 1, 'B': 0, 'R': 5}]],
           [['RemoveRecord', 'T', 4]], [['ModifyColumn', 'T', 'B', {'type': 'Numeric'}]]]
  return hist


TWOHOP_FORMULAS = [
  'list($RL.R.X)', '[x for x in $RL.R.X]', 'sum(x or 0 for x in $RL.R.X)', 'list($RL.R.Y)',
  'list(Mid.lookupRecords(K=$B).R.X)', 'sum(x or 0 for x in Mid.lookupRecords(K=$B, order_by="-A").R.X)',
  'list(Mid.lookupRecords(K=$B).R.Y)', '[r.X for r in $RL.R]', 'list(Mid.lookupRecords(K=$B).R.R2.X)',
  'len($RL.R)', 'list($RL.R.R2.Y)',
]


def twohop_history(rng):
  """Three tables: Far (X, Y; R2: Ref:Far), Mid (R: Ref:Far, K, A), Form (RL: RefList:Mid, B) whose formulas go
  through a SET of Mid records to fields of Far ($RL.R.X, Mid.lookupRecords(..).R.X), plus a summary of Mid by K with
  list($group.R.X).  Row ids are arranged so that the formula rows (Form: ids from 21; summary: 1, 2, ...) do not
  coincide with the Mid rows (ids 4..9) that refer to the edited Far rows.  Edits touch mostly the far-end fields."""
  far = [{'id': 'X', 'type': 'Int', 'isFormula': False}, {'id': 'Y', 'type': 'Text', 'isFormula': False},
         {'id': 'R2', 'type': 'Ref:Far', 'isFormula': False}]
  mid = [{'id': 'R', 'type': 'Ref:Far', 'isFormula': False}, {'id': 'K', 'type': 'Int', 'isFormula': False},
         {'id': 'A', 'type': 'Int', 'isFormula': False}]
  form = [{'id': 'RL', 'type': 'RefList:Mid', 'isFormula': False}, {'id': 'B', 'type': 'Int', 'isFormula': False}]
  hist = [[['AddTable', 'Far', far]], [['AddTable', 'Mid', mid]], [['AddTable', 'Form', form]]]
  for i, f in enumerate(rng.sample(TWOHOP_FORMULAS, rng.randint(2, 4))):
    hist.append([['AddColumn', 'Form', 'G%d' % i, {'type': 'Any', 'isFormula': True, 'formula': f}]])
  nfar = rng.randint(3, 5)
  hist.append([['BulkAddRecord', 'Far', [None] * nfar, {'X': [rng.randint(0, 9) for _ in range(nfar)],
                                                        'Y': [rng.choice(['a', 'b', 'c']) for _ in range(nfar)],
                                                        'R2': [rng.randint(0, nfar) for _ in range(nfar)]}]])
  nmid = 9
  hist.append([['BulkAddRecord', 'Mid', [None] * nmid, {'R': [rng.randint(1, nfar) for _ in range(nmid)],
                                                        'K': [rng.randint(0, 2) for _ in range(nmid)],
                                                        'A': [rng.randint(0, 5) for _ in range(nmid)]}]])
  hist.append([['BulkRemoveRecord', 'Mid', [1, 2, 3]]])          # Mid rows are now 4..9
  nform = rng.randint(2, 3)
  ids = list(range(21, 21 + nform))
  hist.append([['BulkAddRecord', 'Form', ids, {'B': [rng.randint(0, 2) for _ in ids],
                                               'RL': [['L'] + rng.sample(range(4, 10), rng.randint(1, 3)) for _ in ids]}]])
  if rng.random() < 0.7:                                          # summary of Mid by K (column ref of K found by name)
    hist.append([['CreateViewSection', 2, 0, 'record', [7], None]])   # Far: 1-4, Mid: manualSort=5 R=6 K=7 A=8
    hist.append([['AddColumn', 'Mid_summary_K', 'far', {'type': 'Any', 'isFormula': True,
                                                        'formula': rng.choice(['list($group.R.X)', 'sum(x or 0 for x in $group.R.X)',
                                                                               'list($group.R.Y)', 'list($group.R.R2.X)'])}]])
  for _ in range(rng.randint(5, 10)):
    k = rng.random()
    if k < 0.7:                                                   # only the far-end field
      hist.append([['UpdateRecord', 'Far', rng.randint(1, nfar), {rng.choice(['X', 'X', 'Y']): rng.choice([11, 12, 13, 'q', 0])}]])
    elif k < 0.8:
      hist.append([['UpdateRecord', 'Far', rng.randint(1, nfar), {'R2': rng.randint(0, nfar)}]])
    elif k < 0.9:
      hist.append([['UpdateRecord', 'Mid', rng.randint(4, 9), {'R': rng.randint(1, nfar)}]])
    else:
      hist.append([['UpdateRecord', 'Form', rng.choice(ids), {'RL': ['L'] + rng.sample(range(4, 10), rng.randint(1, 3))}]])
  return hist


def unhashable_key_histories():
  """Fixed documents (always run): a lookup key column of type Any whose value goes hashable -> unhashable (list,
  dict) -> hashable again while lookupRecords / lookupOne / len() / two-column lookups already matched the row.
  (a) the key is an Any FORMULA ([$Name] / {"k": $Name} / $Name by a mode cell); (b) the key is an Any DATA cell that
  receives a list / dict value."""
  dst = [{'id': 'Want', 'type': 'Text', 'isFormula': False},
         {'id': 'N', 'type': 'Any', 'isFormula': True, 'formula': 'len(Src.lookupRecords(Key=$Want))'},
         {'id': 'Ids', 'type': 'Any', 'isFormula': True,
          'formula': '[r.id for r in Src.lookupRecords(Key=$Want, order_by="-Name")]'},
         {'id': 'One', 'type': 'Any', 'isFormula': True, 'formula': 'Src.lookupOne(Key=$Want).Name'},
         {'id': 'Two', 'type': 'Any', 'isFormula': True, 'formula': 'len(Src.lookupRecords(Key=$Want, Name=$Want))'},
         {'id': 'Names', 'type': 'Any', 'isFormula': True, 'formula': 'list(Src.lookupRecords(Key=$Want).Name)'}]
  out = []
  # (a) formula key
  src = [{'id': 'Name', 'type': 'Text', 'isFormula': False}, {'id': 'Wrap', 'type': 'Int', 'isFormula': False},
         {'id': 'Key', 'type': 'Any', 'isFormula': True,
          'formula': '[$Name] if $Wrap == 1 else ({"k": $Name} if $Wrap == 2 else $Name)'}]
  h = [[['AddTable', 'Src', copy.deepcopy(src)]], [['AddTable', 'Dst', copy.deepcopy(dst)]],
       [['BulkAddRecord', 'Src', [1, 2, 3], {'Name': ['a', 'b', 'a'], 'Wrap': [0, 0, 0]}]],
       [['BulkAddRecord', 'Dst', [1, 2], {'Want': ['a', 'b']}]]]
  h += [[['UpdateRecord', 'Src', 1, {'Wrap': 1}]], [['UpdateRecord', 'Src', 3, {'Wrap': 2}]],
        [['UpdateRecord', 'Dst', 2, {'Want': 'a'}]], [['UpdateRecord', 'Src', 1, {'Wrap': 0}]],
        [['UpdateRecord', 'Src', 2, {'Wrap': 1, 'Name': 'a'}]], [['UpdateRecord', 'Src', 3, {'Wrap': 0}]],
        [['AddRecord', 'Src', None, {'Name': 'a', 'Wrap': 1}]], [['UpdateRecord', 'Src', 2, {'Wrap': 2}]],
        [['RemoveRecord', 'Src', 2]], [['UpdateRecord', 'Src', 4, {'Wrap': 0}]]]
  out.append(h)
  # (b) data key
  src = [{'id': 'Name', 'type': 'Text', 'isFormula': False}, {'id': 'Key', 'type': 'Any', 'isFormula': False}]
  h = [[['AddTable', 'Src', copy.deepcopy(src)]], [['AddTable', 'Dst', copy.deepcopy(dst)]],
       [['BulkAddRecord', 'Src', [1, 2, 3], {'Name': ['a', 'b', 'a'], 'Key': ['a', 'b', 'a']}]],
       [['BulkAddRecord', 'Dst', [1, 2], {'Want': ['a', 'b']}]]]
  h += [[['UpdateRecord', 'Src', 1, {'Key': ['L', 'a']}]], [['UpdateRecord', 'Src', 3, {'Key': ['O', {'k': 'a'}]}]],
        [['UpdateRecord', 'Dst', 2, {'Want': 'a'}]], [['UpdateRecord', 'Src', 1, {'Key': 'a'}]],
        [['BulkUpdateRecord', 'Src', [2, 3], {'Key': [['L', 'a', 'b'], 'a']}]],
        [['AddRecord', 'Src', None, {'Name': 'a', 'Key': ['L', 'a']}]], [['UpdateRecord', 'Src', 4, {'Key': 'a'}]],
        [['UpdateRecord', 'Src', 2, {'Key': 'b'}]], [['RemoveRecord', 'Src', 1]]]
  out.append(h)
  return out
