"""
History generator for the K4 checks (C10, C11): documents with Ref / RefList columns (one-way, two-way,
self-references) and bundles that edit either side, remove records, switch Ref<->RefList, create and remove links.
Builds on the shared generator (harness/histgen.py) by subclassing; does not change it.
"""
import collections
import copy

from harness import gristenv as G
from harness import histgen

REF_WEIGHTS = collections.OrderedDict([
  ('addrec', 6), ('updrec', 2), ('rmrec', 9), ('tempids', 2),
  ('addcol', 1), ('addformula', 0), ('rmcol', 1), ('rencol', 1), ('modtype', 1), ('modformula', 0),
  ('toformula', 0), ('todata', 0),
  ('addtable', 2), ('rmtable', 1), ('rentable', 1), ('addref', 7), ('addreverse', 5),
  ('summary', 0), ('summaryformula', 0), ('updsummary', 0), ('label', 0), ('renamechoices', 0), ('upsert', 0),
  ('invalid', 1),
  # kinds of this module
  ('refupd', 14), ('refswitch', 4), ('unlink', 2), ('rmrecs_many', 3), ('refadd', 6),
  ('dupupd', 0), ('replacedata', 0), ('bothsides', 0), ('metarm', 1), ('rmreferenced', 9), ('addrefformula', 5), ('metareflist', 3), ('rmdepcol', 3),
])


class RefGen(histgen.HistGen):
  def __init__(self, rng, weights=None, **kw):
    w = collections.OrderedDict(REF_WEIGHTS)
    if weights:
      w.update(weights)
    histgen.HistGen.__init__(self, rng, weights=w, **kw)
    for k in w:                      # kinds unknown to the base class
      self.w[k] = w[k]

  # ---- helpers
  def ref_cols(self, meta, tref=None, two_way=None):
    out = []
    for t in meta.user_tables():
      if tref is not None and t['id'] != tref:
        continue
      for c in meta.data_cols(t['id']):
        if c['type'].split(':')[0] in ('Ref', 'RefList'):
          if two_way is None or bool(c.get('reverseCol')) == two_way:
            out.append((t, c))
    return out

  def ref_value(self, meta, ctype, rows=None):
    r = self.r
    tid = ctype.split(':', 1)[1]
    rows = meta.rows(tid) if tid in meta.e.tables else []
    if ctype.startswith('Ref:'):
      x = r.random()
      if x < 0.12 or not rows:
        return r.choice([0, None])
      if x < 0.16:
        return r.choice([99, 'zz', -3])          # dangling / alt text / unknown temp id
      return r.choice(rows)
    x = r.random()
    if x < 0.15 or not rows:
      return r.choice([None, ['L']])
    if x < 0.19:
      return r.choice([['L', 99], 'zz', ['L', rows[0], rows[0]], '[%d]' % rows[0]])
    if x < 0.34:
      # the same target more than once: adjacent, non-adjacent, all equal (a RefList is stored as given)
      a = r.choice(rows)
      b = r.choice(rows)
      return ['L'] + r.choice([[a, a], [a, a, a], [a, b, a], [a, a, b], [b, a, a], [a, b, b, a]])
    k = r.randint(1, min(3, len(rows)))
    return ['L'] + r.sample(rows, k)

  def init_doc(self, e, n_tables=None):
    r = self.r
    names = r.sample(['T', 'Foo', 'People', 'items', 'R2'], r.choice([1, 2, 2, 3]))
    for n in names:
      self._do(e, [['AddTable', n, [{'id': 'A', 'type': 'Text', 'isFormula': False},
                                     {'id': 'N', 'type': 'Int', 'isFormula': False}]]])
    for n in names:
      k = r.randint(1, 4)
      self._do(e, [['BulkAddRecord', n, [None] * k, {'A': [r.choice('abc') for _ in range(k)]}]])
    for _ in range(r.randint(1, 3)):
      a = self.gen('addref', histgen.Meta(e))
      if a:
        self._do(e, [a])
    for _ in range(r.randint(1, 3)):
      a = self.gen('refupd', histgen.Meta(e))
      if a:
        self._do(e, [a])
    if r.random() < 0.6:
      a = self.gen('addreverse', histgen.Meta(e))
      if a:
        self._do(e, [a])
    if r.random() < 0.6 and self.w.get('addrefformula', 0) > 0:
      # data reference columns carrying a default / trigger formula, filled by new records
      for _ in range(r.randint(1, 2)):
        a = self.gen('addrefformula', histgen.Meta(e))
        if a:
          self._do(e, [a])
          self._do(e, [['BulkAddRecord', a[1], [None] * r.randint(1, 3), {}]])
    return e

  # ---- the extra kinds
  def gen(self, kind, meta):
    r = self.r
    if kind == 'refupd' or kind == 'dupupd':
      cols = self.ref_cols(meta)
      if not cols:
        return None
      t, c = r.choice(cols)
      rows = meta.rows(t['tableId'])
      if not rows:
        return None
      n = r.randint(1, min(3, len(rows)))
      rs = r.sample(rows, n)
      if kind == 'dupupd':
        rs = rs + [r.choice(rs)]
        r.shuffle(rs)
      vals = {c['colId']: [self.ref_value(meta, c['type']) for _ in rs]}
      if r.random() < 0.2:
        vals['A'] = [r.choice('abc') for _ in rs]
      if r.random() < 0.15:
        others = [c2 for (t2, c2) in self.ref_cols(meta, tref=t['id']) if c2['id'] != c['id']]
        if others and kind != 'dupupd':
          c2 = r.choice(others)
          if not (c2.get('reverseCol') == c['id']):
            vals[c2['colId']] = [self.ref_value(meta, c2['type']) for _ in rs]
      return ['BulkUpdateRecord', t['tableId'], rs, vals]
    if kind == 'bothsides':
      pairs = [(t, c) for (t, c) in self.ref_cols(meta, two_way=True)
               if meta.cols.get(c['reverseCol'], {}).get('parentId') == t['id'] and c['reverseCol'] != c['id']]
      if not pairs:
        return None
      t, c = r.choice(pairs)
      c2 = meta.cols[c['reverseCol']]
      rows = meta.rows(t['tableId'])
      if not rows:
        return None
      rs = r.sample(rows, r.randint(1, min(2, len(rows))))
      return ['BulkUpdateRecord', t['tableId'], rs,
              {c['colId']: [self.ref_value(meta, c['type']) for _ in rs],
               c2['colId']: [self.ref_value(meta, c2['type']) for _ in rs]}]
    if kind == 'refadd':
      cols = self.ref_cols(meta)
      if not cols:
        return None
      t, c = r.choice(cols)
      n = r.randint(1, 2)
      return ['BulkAddRecord', t['tableId'], [None] * n, {c['colId']: [self.ref_value(meta, c['type']) for _ in range(n)]}]
    if kind == 'refswitch':
      cols = self.ref_cols(meta)
      if not cols:
        return None
      t, c = r.choice(cols)
      base, target = c['type'].split(':', 1)
      return ['ModifyColumn', t['tableId'], c['colId'], {'type': ('RefList:' if base == 'Ref' else 'Ref:') + target}]
    if kind == 'unlink':
      cols = self.ref_cols(meta, two_way=True)
      if not cols:
        return None
      t, c = r.choice(cols)
      if r.random() < 0.5:
        return ['RemoveColumn', t['tableId'], c['colId']]
      return ['ModifyColumn', t['tableId'], c['colId'], {'reverseCol': 0}]
    if kind == 'rmrecs_many':
      t = self.pick_table(meta)
      if t is None:
        return None
      rows = meta.rows(t['tableId'])
      if not rows:
        return None
      rs = r.sample(rows, r.randint(1, len(rows)))
      if r.random() < 0.1:
        rs.append(r.choice([77, rs[0]]))
      return ['BulkRemoveRecord', t['tableId'], rs]
    if kind == 'rmreferenced':
      cols = self.ref_cols(meta)
      if not cols:
        return None
      t, c = r.choice(cols)
      target = c['type'].split(':', 1)[1]
      if target not in meta.e.tables:
        return None
      col = meta.e.tables[t['tableId']].get_column(c['colId'])
      hit = sorted({x for row in meta.rows(t['tableId']) for x in col._value_iterable(col.raw_get(row))
                    if x in meta.e.tables[target].row_ids})
      if not hit:
        return None
      rs = r.sample(hit, r.randint(1, min(2, len(hit))))
      return ['BulkRemoveRecord', target, rs] if len(rs) > 1 or r.random() < 0.5 else ['RemoveRecord', target, rs[0]]
    if kind == 'replacedata':
      t = self.pick_table(meta)
      if t is None:
        return None
      rows = meta.rows(t['tableId'])
      keep = [x for x in rows if r.random() < 0.6]
      if r.random() < 0.4:
        keep.append((max(rows) if rows else 0) + 1)
      vals = {}
      for c in meta.data_cols(t['id']):
        if c['type'].split(':')[0] in ('Ref', 'RefList') and r.random() < 0.8:
          vals[c['colId']] = [self.ref_value(meta, c['type']) for _ in keep]
      return ['ReplaceTableData', t['tableId'], keep, vals]
    if kind == 'metarm':
      # removal of metadata records (columns / tables by their metadata rows): cascades through the metadata
      t = self.pick_table(meta)
      if t is None:
        return None
      cols = meta.visible_cols(t['id'])
      if cols and r.random() < 0.7:
        return ['BulkRemoveRecord', '_grist_Tables_column', [r.choice(cols)['id']]]
      if len(meta.user_tables()) >= 2:
        return ['BulkRemoveRecord', '_grist_Tables', [t['id']]]
      return None
    if kind == 'metareflist':
      # a metadata RefList (_grist_Tables_column.recalcDeps, sometimes .rules) holding a column ref more than once;
      # RemoveColumn / removal of the column records then has to take every copy out
      t = self.pick_table(meta)
      if t is None:
        return None
      cols = meta.visible_cols(t['id'])
      if len(cols) < 2:
        return None
      owner = r.choice(cols)
      others = [c for c in cols if c['id'] != owner['id']]
      a = r.choice(others)['id']
      b = r.choice(others)['id']
      val = ['L'] + r.choice([[a, a], [a, a, a], [a, b, a], [b, a, a], [a, b, b, a]])
      field = 'recalcDeps' if r.random() < 0.8 else 'rules'
      return ['UpdateRecord', '_grist_Tables_column', owner['id'], {field: val}]
    if kind == 'rmdepcol':
      # remove a column that a metadata RefList mentions (possibly more than once)
      rep = G.actions.get_action_repr(meta.e.fetch_table('_grist_Tables_column'))
      mentioned = set()
      for field in ('recalcDeps', 'rules'):
        for v in rep[3][field]:
          if isinstance(v, list):
            mentioned.update(x for x in v[1:] if isinstance(x, int))
      cands = [c for c in meta.cols.values() if c['id'] in mentioned and not c['colId'].startswith('gristHelper_')
               and c['colId'] != 'manualSort' and c['parentId'] in meta.tables
               and not meta.tables[c['parentId']]['summarySourceTable']]
      if not cands:
        return None
      c = r.choice(cands)
      if r.random() < 0.5:
        return ['RemoveColumn', meta.tables[c['parentId']]['tableId'], c['colId']]
      return ['BulkRemoveRecord', '_grist_Tables_column', [c['id']]]
    if kind == 'addrefformula':
      # a DATA Ref/RefList column that also carries a formula: a default formula (recalcWhen DEFAULT, no deps) or a
      # trigger formula (DEFAULT with recalcDeps / NEVER / MANUAL_UPDATES); its cells are stored like any data cell
      t = self.pick_table(meta)
      if t is None:
        return None
      target = self.pick_table(meta)['tableId'] if r.random() < 0.8 else t['tableId']
      cid = r.choice(['assignee', 'watchers', 'dflt', 'trig'])
      is_list = r.random() < 0.5
      if is_list:
        f = r.choice(['[x.id for x in %s.all if x.id != $id][:2]' % target, '%s.lookupRecords(id=$id)' % target,
                      '[x.id for x in %s.all][-2:]' % target])
      else:
        f = r.choice(['%s.lookupOne(id=$id)' % target, '%s.lookupOne(id=($id %% 3) + 1)' % target,
                      'max([x.id for x in %s.all] or [0])' % target])
      info = {'type': ('RefList:' if is_list else 'Ref:') + target, 'isFormula': False, 'formula': f}
      mode = r.choice(['default', 'deps', 'never', 'manual'])
      plain = [c for c in meta.data_cols(t['id']) if c['type'] in ('Text', 'Int')]
      if mode == 'deps' and plain:
        info['recalcWhen'] = 0
        # (a plain list: AddColumn does not decode its col_info; an encoded ['L', ...] would be stored as alt text
        # and then break Engine._maybe_update_trigger_dependencies for every later bundle)
        info['recalcDeps'] = [c['id'] for c in r.sample(plain, r.randint(1, min(2, len(plain))))]
      elif mode == 'never':
        info['recalcWhen'] = 1
      elif mode == 'manual':
        info['recalcWhen'] = 2
      self.pend(t['tableId'], cid, 0)
      return ['AddColumn', t['tableId'], cid, info]
    if kind == 'addref':
      t = self.pick_table(meta)
      if t is None:
        return None
      target = self.pick_table(meta)['tableId'] if r.random() < 0.75 else t['tableId']
      cid = r.choice(['ref', 'ref2', 'parent', 'links', 'kids'])
      self.pend(t['tableId'], cid, 0)
      return ['AddColumn', t['tableId'], cid, {'type': r.choice(['Ref:', 'RefList:']) + target, 'isFormula': False}]
    return histgen.HistGen.gen(self, kind, meta)


UNDO = '@UndoPrevious'


def apply_entry(e, bundle, last_out):
  """Applies one history entry: a bundle of user actions, or [[UNDO]] = undo of the last successful bundle."""
  if bundle and bundle[0][0] == UNDO:
    if last_out is None:
      raise ValueError('nothing to undo')
    return G.apply(e, [['ApplyUndoActions', G.reprs(last_out.undo)]])
  return G.apply(e, copy.deepcopy(bundle))


def run_history(seed_rng, nb, weights=None, after_bundle=None, before_bundle=None, max_len=2, undo_prob=0.0):
  """
  Runs one history on a fresh document.  before_bundle(e, bundle) -> token; after_bundle(e, bundle, out_or_None,
  token, history, exc) is called after every bundle (out is None when the bundle failed; the document is then
  cleaned).  Returns (engine, history, generator); history is the list of entries applied (successful or not).
  """
  gen = RefGen(seed_rng, weights=weights)
  e, _ = G.new_doc()
  history = []
  last = [None]

  def do(bundle):
    tok = before_bundle(e, bundle) if before_bundle else None
    exc = None
    try:
      out = apply_entry(e, bundle, last[0])
      gen.after_bundle(e)
      last[0] = None if (bundle and bundle[0][0] == UNDO) else out
    except Exception as ex:      # pylint: disable=broad-except
      out = None
      exc = ex
      G.clean(e)
    history.append(copy.deepcopy(bundle))
    if after_bundle:
      return after_bundle(e, bundle, out, tok, history, exc)
    return None

  orig_do = gen._do
  gen._do = lambda e_, bundle: do(bundle)
  gen.init_doc(e)
  gen._do = orig_do
  for _ in range(nb):
    if last[0] is not None and seed_rng.random() < undo_prob:
      bundle = [[UNDO]]
    else:
      bundle = gen.bundle(e, max_len=max_len)
    if do(bundle) == 'stop':
      break
  return e, history, gen


def replay_history(history, before_bundle=None, after_bundle=None):
  """Re-applies a recorded history on a fresh document with the same hooks; returns the engine."""
  e, _ = G.new_doc()
  last = None
  done = []
  for bundle in history:
    tok = before_bundle(e, bundle) if before_bundle else None
    exc = None
    try:
      out = apply_entry(e, bundle, last)
      last = None if (bundle and bundle[0][0] == UNDO) else out
    except Exception as ex:      # pylint: disable=broad-except
      out = None
      exc = ex
      G.clean(e)
    done.append(bundle)
    if after_bundle and after_bundle(e, bundle, out, tok, done, exc) == 'stop':
      break
  return e
