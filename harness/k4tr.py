"""
k4tr -- fail-closed translator (Python AST -> Gallina) for the small methods that decide C10/C11:
relation.ReferenceRelation.{get_affected_rows, add_reference, remove_reference, clear}, column.BaseReferenceColumn.
{_update_references, set, clear, copy_from_column, get_updates_for_removed_target_rows, _raw_get_without,
recalc_from_reverse_values}, BaseColumn.unset, Reference(List)Column.{_raw_get_without, _list_to_value} and the skip
condition of the clean-up loop of useractions.doBulkRemoveRecord.  Output: coq/gen/K4_gen.v over the primitives of
Model/K4Support.v; Proofs/K4_bridge.v proves every generated function equal to the hand model.  The specs (which
function, parameter types, state variable) are in harness/k4tr_specs.py.

Typed, continuation-passing: `if` duplicates the rest of the block into both branches, a loop becomes fold_left over the
ONE variable its body changes, a call that may raise makes the function monadic (`res`).  Values that are the very set
object stored in inverse_map are tracked (type 'alias'): they may be iterated or merged into a new set, never returned
as if new.  Anything else raises Untranslatable.
"""
import ast

from harness.py2v import Untranslatable


def fail(node, msg):
  raise Untranslatable('line %s: %s' % (getattr(node, 'lineno', '?'), msg))


def dotted(e):
  """a.b.c for Name/Attribute chains, else None."""
  if isinstance(e, ast.Name):
    return e.id
  if isinstance(e, ast.Attribute):
    d = dotted(e.value)
    return d + '.' + e.attr if d else None
  return None


def is_call(e, name, nargs=None):
  return isinstance(e, ast.Call) and dotted(e.func) == name and not e.keywords and (nargs is None or len(e.args) == nargs)


def is_super_call(e, meth):
  return (isinstance(e, ast.Call) and isinstance(e.func, ast.Attribute) and e.func.attr == meth and not e.keywords
          and isinstance(e.func.value, ast.Call) and dotted(e.func.value.func) == 'super')


class Tr(object):
  def __init__(self, spec):
    self.spec = spec
    self.state = spec['state']          # coq name of the state variable ('m' or 'c') or None
    self.monadic = spec['monadic']
    self.ret_type = spec['ret']

  def ret(self, x):
    return '(Ok %s)' % x if self.monadic else x

  def inv(self):
    return 'm' if self.state == 'm' else '(rc_inv c)'

  # ---- expressions: returns (coq, type); types: cell zlist nset alias optalias aset nat Z bool int pairs rowsarg
  #      celllist col opaque; 'M:<t>' marks a term of type res <t>
  def expr(self, e, env):
    if isinstance(e, ast.Name):
      if e.id not in env:
        fail(e, 'unbound name %s' % e.id)
      return env[e.id]
    if isinstance(e, ast.Constant):
      if e.value is None:
        return 'CNone', 'cell'
      if type(e.value) is int:
        return str(e.value), 'int'
      fail(e, 'constant %r' % (e.value,))
    if isinstance(e, ast.Tuple):
      if len(e.elts) == 0:
        return '[]', 'nset'
      if len(e.elts) == 1:
        a, t = self.expr(e.elts[0], env)
        if t == 'Z':
          return '[%s]' % a, 'zlist'
        if t == 'nat':
          return '[Z.of_nat %s]' % a, 'zlist'
        fail(e, 'one-tuple of %s' % t)
      fail(e, 'tuple')
    if is_call(e, 'set', 0):
      return '[]', 'nset'
    if is_call(e, 'len', 1):
      a, t = self.expr(e.args[0], env)
      if t in ('zlist', 'nset', 'nlist'):
        return '(length %s)' % a, 'nat'
      fail(e, 'len of %s' % t)
    if is_call(e, 'sorted', 1):
      a, t = self.expr(e.args[0], env)
      if t == 'nset':
        return a, 'nset'
      fail(e, 'sorted of %s' % t)
    if is_call(e, 'list', 1):
      a, t = self.expr(e.args[0], env)
      if t == 'cell':
        return '(cell_iter %s)' % a, 'M:zlist'
      if t == 'zlist':
        return a, 'zlist'
      fail(e, 'list() of %s' % t)
    if is_call(e, '_adjustments_to_action', 2) and dotted(e.args[0]) == 'reverse_col.node':
      return self.expr(e.args[1], env)          # (the wrapping into a BulkUpdateRecord is pinned glue)
    if is_call(e, 'enumerate', 1) and dotted(e.args[0]) == 'self._data' and self.state == 'c':
      return '(enumerate (rc_data c))', 'celllist_enum'
    d = dotted(e)
    if d == 'self.inverse_map' and self.state == 'm':
      return '(inv_keys m)', 'zlist'            # a dict used as a collection: its keys
    if d == 'self._target_table.row_ids' and 'rows_b' in self.spec.get('extra', ()):
      return 'rows_b', 'nlist'
    if d == 'depend.ALL_ROWS':
      return 'AllRows', 'rowsarg'
    if isinstance(e, ast.Call) and isinstance(e.func, ast.Attribute):
      f = dotted(e.func)
      args = e.args
      if e.keywords:
        fail(e, 'keyword arguments')
      if f == 'self.inverse_map.get' and self.state == 'm':
        k, kt = self.expr(args[0], env)
        if kt != 'Z':
          fail(e, 'key type %s' % kt)
        if len(args) == 2 and isinstance(args[1], ast.Tuple) and not args[1].elts:
          return '(inv_get %s m)' % k, 'alias'
        if len(args) == 1:
          return '(inv_get_opt %s m)' % k, 'optalias'
        fail(e, 'inverse_map.get form')
      if self.state == 'c':
        one = lambda: self.expr(args[0], env)
        if f == 'self._value_iterable' and len(args) == 1 and one()[1] == 'cell':
          return '(value_iterable (rc_kind c) %s)' % one()[0], 'zlist'
        if f in ('self.safe_get', 'self.raw_get') and len(args) == 1 and one()[1] == 'nat':
          return '(%s c %s)' % (f.split('.')[1], one()[0]), 'cell'
        if f == 'self.getdefault' and not args:
          return '(default (rc_kind c))', 'cell'
        if f == 'self.type_obj.is_right_type' and len(args) == 1 and one()[1] == 'cell':
          return '(right_type (rc_kind c) %s)' % one()[0], 'bool'
        if f == 'self._clean_up_value' and len(args) == 1 and one()[1] == 'cell':
          return '(clean_up hack (rc_kind c) %s)' % one()[0], 'cell'
        if f == 'self._relation.get_affected_rows' and len(args) == 1:
          a, t = self.expr(args[0], env)
          if t != 'zlist':
            fail(e, 'get_affected_rows of %s' % t)
          return '(ar_rows (gen_get_affected_rows (rc_inv c) (Rows %s)))' % a, 'nset'
        if f == 'self._raw_get_without' and len(args) == 2:
          (a, ta), (b, tb) = self.expr(args[0], env), self.expr(args[1], env)
          if (ta, tb) != ('nat', 'zlist'):
            fail(e, '_raw_get_without argument types')
          return '(gen_raw_get_without c %s %s)' % (a, b), 'M:cell'
        if f == 'reverse_col._list_to_value' and len(args) == 1 and env.get('reverse_col', ('', ''))[1] == 'opaque':
          a, t = self.expr(args[0], env)
          if t != 'nset':
            fail(e, '_list_to_value of %s' % t)
          return '(gen_list_to_value kb %s)' % a, 'M:cell'
      fail(e, 'call %s' % f)
    if isinstance(e, ast.Compare) and len(e.ops) == 1:
      op = e.ops[0]
      (a, ta), (b, tb) = self.expr(e.left, env), self.expr(e.comparators[0], env)
      if isinstance(op, (ast.In, ast.NotIn)) and ta == 'Z' and tb == 'zlist':
        t = '(memZ %s %s)' % (a, b)
        return (t if isinstance(op, ast.In) else '(negb %s)' % t), 'bool'
      if ta == 'nat' and tb == 'int':
        c = {ast.Eq: '(Nat.eqb %s %s)', ast.NotEq: '(negb (Nat.eqb %s %s))', ast.Gt: '(Nat.ltb %s %s)'}.get(type(op))
        if c:
          return (c % ((b, a) if isinstance(op, ast.Gt) else (a, b))), 'bool'
      fail(e, 'comparison %s %s %s' % (ta, type(op).__name__, tb))
    if isinstance(e, ast.BoolOp):
      parts = [self.expr(v, env) for v in e.values]
      if isinstance(e.op, ast.Or) and len(parts) == 2:
        (a, ta), (b, tb) = parts
        if ta == 'optalias' and (b, tb) == ('[]', 'nset'):
          return '(opt_set_or_fresh %s)' % a, 'aset'
        if ta == 'zlist' and (b, tb) == ('CNone', 'cell'):
          return '(zlist_or_none %s)' % a, 'cell'
        if ta == 'nset' and (b, tb) == ('CNone', 'cell'):
          return '(nlist_or_none %s)' % a, 'cell'
        if ta == 'M:zlist' and (b, tb) == ('CNone', 'cell'):
          return '(bind %s (fun l => Ok (zlist_or_none l)))' % a, 'M:cell'
      bs = [self.truth(p, v) for p, v in zip(parts, e.values)]
      return '(' + (' && ' if isinstance(e.op, ast.And) else ' || ').join(bs) + ')', 'bool'
    if isinstance(e, ast.UnaryOp) and isinstance(e.op, ast.Not):
      return '(negb %s)' % self.truth(self.expr(e.operand, env), e.operand), 'bool'
    if isinstance(e, ast.ListComp) and len(e.generators) == 1 and not e.generators[0].is_async:
      return self.listcomp(e, env)
    if isinstance(e, ast.IfExp):
      return self.ifexp(e, env)
    fail(e, 'expression %s' % type(e).__name__)

  def truth(self, at, node):
    a, t = at
    if t == 'bool':
      return a
    if t == 'cell':
      return '(truthy %s)' % a
    if t in ('zlist', 'nset'):
      return '(match %s with [] => false | _ => true end)' % a
    fail(node, 'truth value of %s' % t)

  def listcomp(self, e, env):
    g = e.generators[0]
    src, st = self.expr(g.iter, env)
    # [x for x in CELL-or-list if x not in T]
    if isinstance(g.target, ast.Name) and isinstance(e.elt, ast.Name) and e.elt.id == g.target.id and len(g.ifs) <= 1 \
       and st in ('cell', 'zlist'):
      env2 = dict(env)
      env2[g.target.id] = (g.target.id, 'Z')
      cond = self.truth(self.expr(g.ifs[0], env2), g.ifs[0]) if g.ifs else 'true'
      flt = '(filter (fun %s => %s) %%s)' % (g.target.id, cond)
      if st == 'zlist':
        return flt % src, 'zlist'
      return '(bind (cell_iter %s) (fun l => Ok %s))' % (src, flt % 'l'), 'M:zlist'
    # [(x, CALL(x)) for x in ROWS]  /  [(a, CALL(b)) for (a, b) in PAIRS]
    if isinstance(e.elt, ast.Tuple) and len(e.elt.elts) == 2 and not g.ifs:
      env2 = dict(env)
      if isinstance(g.target, ast.Name) and st in ('nset', 'nlist'):
        var = g.target.id
        env2[var] = (var, 'nat')
        lets = ''
      elif isinstance(g.target, ast.Tuple) and len(g.target.elts) == 2 and st == 'pairs_nset':
        var = 'x'
        a, b = [t.id for t in g.target.elts]
        env2[a], env2[b] = (a, 'nat'), (b, 'nset')
        lets = 'let %s := fst x in let %s := snd x in ' % (a, b)
      else:
        fail(e, 'comprehension over %s' % st)
      k, kt = self.expr(e.elt.elts[0], env2)
      v, vt = self.expr(e.elt.elts[1], env2)
      if kt != 'nat' or vt != 'M:cell':
        fail(e, 'comprehension element (%s, %s)' % (kt, vt))
      return '(mapM (fun %s => %sbind %s (fun v => Ok (%s, v))) %s)' % (var, lets, v, k, src), 'M:pairs'
    fail(e, 'list comprehension')

  def coerce(self, at, want, node):
    a, t = at
    if t == want:
      return a
    if want == 'cell' and t == 'nat':
      return '(nat_cell %s)' % a
    if want == 'cell' and t == 'int':
      return '(CInt %s%%Z)' % a
    if want == 'ar' and t == 'rowsarg' and a == 'AllRows':
      return 'ARAll'
    if want == 'ar' and t == 'nset':
      return '(ARSet (Fresh %s))' % a
    if want == 'ar' and t == 'aset':
      return '(ARSet %s)' % a
    if want == 'ar' and t in ('alias', 'optalias'):
      fail(node, 'returns the set object stored in inverse_map itself')
    fail(node, 'a value of type %s where %s is needed' % (t, want))

  def ifexp(self, e, env):
    # L[0] if L else D   (L a list of rows)
    if isinstance(e.body, ast.Subscript) and isinstance(e.test, ast.Name) and dotted(e.body.value) == e.test.id:
      idx = e.body.slice
      idx = idx.value if isinstance(idx, getattr(ast, 'Index', ())) else idx
      l, lt = self.expr(e.test, env)
      if isinstance(idx, ast.Constant) and idx.value == 0 and lt == 'nset':
        d = self.coerce(self.expr(e.orelse, env), 'cell', e)
        return '(match %s with x :: _ => nat_cell x | [] => %s end)' % (l, d), 'cell'
    fail(e, 'conditional expression')

  # ---- statements, continuation-passing; `fin(env)` gives the term for falling off the end of the block
  def block(self, stmts, env, fin):
    if not stmts:
      return fin(env)
    s, rest = stmts[0], stmts[1:]
    nxt = lambda env2: self.block(rest, env2, fin)
    if isinstance(s, ast.Expr) and isinstance(s.value, ast.Constant) and isinstance(s.value.value, str):
      return nxt(env)                                             # docstring
    if isinstance(s, ast.Return):
      if getattr(self, 'in_loop', False):
        fail(s, 'return inside a loop')
      if s.value is None:
        fail(s, 'bare return')
      at = self.expr(s.value, env)
      if at[1].startswith('M:'):
        if not self.monadic or at[1][2:] != self.ret_type:
          fail(s, 'returns %s' % at[1])
        return at[0]
      return self.ret(self.coerce(at, self.ret_type, s))
    if isinstance(s, ast.Raise):
      if self.monadic and isinstance(s.exc, ast.Call) and dotted(s.exc.func) == 'UniqueReferenceError':
        return '(Err EUnique)'
      fail(s, 'raise')
    if isinstance(s, ast.Assign) and len(s.targets) == 1:
      return self.assign(s, env, nxt)
    if isinstance(s, ast.If):
      return self.if_(s, env, nxt)
    if isinstance(s, ast.For):
      return self.for_(s, env, nxt)
    if isinstance(s, ast.Expr) and isinstance(s.value, ast.Call):
      var, term, mon = self.effect(s.value, env)
      return self.rebind(var, term, mon, env, nxt, s)
    fail(s, 'statement %s' % type(s).__name__)

  def rebind(self, var, term, mon, env, nxt, node):
    if mon:
      if not self.monadic:
        fail(node, 'a call that may raise in a function translated as total')
      return '(bind %s (fun %s => %s))' % (term, var, nxt(env))
    return '(let %s := %s in %s)' % (var, term, nxt(env))

  def assign(self, s, env, nxt):
    t = s.targets[0]
    if isinstance(t, ast.Tuple) or dotted(s.value) in self.spec.get('opaque_values', ()) or \
       (isinstance(s.value, ast.Call) and dotted(s.value.func) in self.spec.get('opaque_calls', ())):
      names = [x.id for x in t.elts] if isinstance(t, ast.Tuple) else [t.id]
      env2 = dict(env)
      for n in names:
        env2[n] = (n, 'opaque')
      return nxt(env2)
    if not isinstance(t, ast.Name):
      fail(s, 'assignment target')
    if isinstance(s.value, ast.List) and not s.value.elts:
      ty = self.spec.get('empty_lists', {}).get(t.id)
      if not ty:
        fail(s, 'empty list of unknown type')
      a, ty = '[]', ty
    else:
      a, ty = self.expr(s.value, env)
    env2 = dict(env)
    if ty.startswith('M:'):
      env2[t.id] = (t.id, ty[2:])
      return self.rebind(t.id, a, True, env2, nxt, s)
    if ty == 'int':
      fail(s, 'integer local')
    env2[t.id] = (t.id, ty)
    return '(let %s := %s in %s)' % (t.id, a, nxt(env2))

  def if_(self, s, env, nxt):
    t = s.test
    if isinstance(t, ast.Compare) and len(t.ops) == 1 and isinstance(t.ops[0], ast.Eq) and isinstance(t.left, ast.Name) \
       and env.get(t.left.id, ('', ''))[1] == 'rowsarg' and dotted(t.comparators[0]) == 'depend.ALL_ROWS':
      n = t.left.id
      env_else = dict(env)
      env_else[n] = (n + '_l', 'zlist')
      return '(match %s with AllRows => %s | Rows %s_l => %s end)' % (
        env[n][0], self.block(s.body, env, nxt), n, self.block(s.orelse, env_else, nxt))
    cond = self.truth(self.expr(t, env), t)
    return '(if %s then %s else %s)' % (cond, self.block(s.body, env, nxt), self.block(s.orelse, env, nxt))

  def mutated(self, stmts, env):
    out = []
    for s in stmts:
      if isinstance(s, ast.Expr) and isinstance(s.value, ast.Call) and isinstance(s.value.func, ast.Attribute):
        base = s.value.func.value
        if isinstance(base, ast.Name) and base.id in env and base.id != 'self':
          out.append(base.id)
        else:
          out.append(self.state)
      elif isinstance(s, ast.Assign) and len(s.targets) == 1 and isinstance(s.targets[0], ast.Name):
        if s.targets[0].id in env:
          out.append(s.targets[0].id)
      elif isinstance(s, ast.If):
        out.extend(self.mutated(s.body, env) + self.mutated(s.orelse, env))
      elif isinstance(s, ast.For):
        out.extend(self.mutated(s.body, env))
      else:
        fail(s, 'statement %s inside a loop or branch' % type(s).__name__)
    return out

  def for_(self, s, env, nxt):
    if s.orelse:
      fail(s, 'for-else')
    it, ity = self.expr(s.iter, env)
    elem_t = {'zlist': 'Z', 'nset': 'nat', 'nlist': 'nat', 'alias': 'nat'}.get(ity)
    if len(s.body) == 1 and isinstance(s.body[0], ast.Return) and isinstance(s.target, ast.Name) and elem_t:
      env2 = dict(env)
      env2[s.target.id] = (s.target.id, elem_t)             # `for x in xs: return E`: the first element, if any
      return '(match %s with %s :: _ => %s | [] => %s end)' % (
        it, s.target.id, self.block(s.body, env2, nxt), nxt(env))
    env2 = dict(env)
    lets = ''
    if isinstance(s.target, ast.Name) and elem_t:
      x = s.target.id
      env2[x] = (x, elem_t)
    elif isinstance(s.target, ast.Tuple) and len(s.target.elts) == 2 and ity == 'celllist_enum':
      x = 'x'
      a, b = [t.id for t in s.target.elts]
      env2[a], env2[b] = (a, 'nat'), (b, 'cell')
      lets = 'let %s := fst x in let %s := snd x in ' % (a, b)
    else:
      fail(s, 'loop over %s' % ity)
    mut = set(self.mutated(s.body, env))
    if len(mut) != 1 or None in mut:
      fail(s, 'loop body changes %r' % sorted(map(str, mut)))
    v = mut.pop()
    vname = env[v][0] if v in env else v
    saved, self.in_loop = getattr(self, 'in_loop', False), True
    try:
      if self.monadic:
        body = self.block(s.body, env2, lambda e_: '(Ok %s)' % vname)
      else:
        body = self.block(s.body, env2, lambda e_: vname)
    finally:
      self.in_loop = saved
    if self.monadic:
      return '(bind (fold_left (fun acc %s => bind acc (fun %s => %s%s)) %s (Ok %s)) (fun %s => %s))' % (
        x, vname, lets, body, it, vname, vname, nxt(env))
    return '(let %s := fold_left (fun %s %s => %s%s) %s %s in %s)' % (vname, vname, x, lets, body, it, vname, nxt(env))

  def effect(self, c, env):
    """An expression statement: (variable it changes, its new value, may raise)."""
    f = dotted(c.func)
    a = c.args
    if c.keywords:
      fail(c, 'keyword arguments')
    ex = lambda i, want: self.coerce(self.expr(a[i], env), want, c)
    if isinstance(c.func, ast.Attribute) and isinstance(c.func.value, ast.Name) and c.func.value.id in env \
       and c.func.value.id != 'self':
      v, (vn, vt) = c.func.value.id, env[c.func.value.id]
      m = c.func.attr
      if m == 'update' and vt == 'nset' and len(a) == 1:
        s, st = self.expr(a[0], env)
        if st in ('alias', 'nset'):
          return vn, '(set_union %s %s)' % (vn, s), False
      if m == 'remove' and vt == 'zlist' and len(a) == 1:
        return vn, '(zlist_remove_first %s %s)' % (ex(0, 'Z'), vn), False
      if m in ('add', 'discard') and vt == 'nset' and len(a) == 1:
        return vn, '(%s %s %s)' % ('set_add' if m == 'add' else 'set_discard', ex(0, 'nat'), vn), False
      if m == 'append' and vt == 'pairs_nset' and len(a) == 1 and isinstance(a[0], ast.Tuple) and len(a[0].elts) == 2:
        k = self.coerce(self.expr(a[0].elts[0], env), 'nat', c)
        s = self.coerce(self.expr(a[0].elts[1], env), 'nset', c)
        return vn, '(%s ++ [(%s, %s)])' % (vn, k, s), False
      fail(c, 'method %s on a %s' % (m, vt))
    if self.state == 'm':
      # self.inverse_map.setdefault(K, set()).add(V)
      if isinstance(c.func, ast.Attribute) and c.func.attr == 'add' and len(a) == 1 and \
         is_call(c.func.value, 'self.inverse_map.setdefault', 2) and is_call(c.func.value.args[1], 'set', 0):
        k = self.coerce(self.expr(c.func.value.args[0], env), 'Z', c)
        return 'm', '(inv_put %s (set_add %s (inv_get %s m)) m)' % (k, ex(0, 'nat'), k), False
      # self.inverse_map[K].discard(V)
      if isinstance(c.func, ast.Attribute) and c.func.attr == 'discard' and len(a) == 1 and \
         isinstance(c.func.value, ast.Subscript) and dotted(c.func.value.value) == 'self.inverse_map':
        idx = c.func.value.slice
        idx = idx.value if isinstance(idx, getattr(ast, 'Index', ())) else idx
        k = self.coerce(self.expr(idx, env), 'Z', c)
        return 'm', '(bind (inv_getitem %s m) (fun s => Ok (inv_put %s (set_discard %s s) m)))' % (k, k, ex(0, 'nat')), True
      if f == 'self.inverse_map.clear' and not a:
        return 'm', '([] : invmap)', False
    if self.state == 'c':
      if f == 'self._relation.remove_reference' and len(a) == 2:
        return 'c', '(bind (gen_remove_reference (rc_inv c) %s %s) (fun m => Ok (with_inv c m)))' % (ex(0, 'nat'), ex(1, 'Z')), True
      if f == 'self._relation.add_reference' and len(a) == 2:
        return 'c', '(with_inv c (gen_add_reference (rc_inv c) %s %s))' % (ex(0, 'nat'), ex(1, 'Z')), False
      if f == 'self._relation.clear' and not a:
        return 'c', '(with_inv c (gen_rel_clear (rc_inv c)))', False
      if is_super_call(c, 'set') and len(a) == 2:
        return 'c', '(base_set c %s %s)' % (ex(0, 'nat'), ex(1, 'cell')), False
      if is_super_call(c, 'clear') and not a:
        return 'c', '(base_clear c)', False
      if is_super_call(c, 'copy_from_column') and len(a) == 1:
        return 'c', '(base_copy c %s)' % ex(0, 'celllist'), False
      if f == 'self._update_references' and len(a) == 3:
        return 'c', '(gen_update_references c %s %s %s)' % (ex(0, 'nat'), ex(1, 'cell'), ex(2, 'cell')), True
      if f == 'self.set' and len(a) == 2:
        return 'c', '(gen_set hack c %s %s)' % (ex(0, 'nat'), ex(1, 'cell')), True
    fail(c, 'call %s' % (f or ast.dump(c.func)[:60]))

  def function(self, fn):
    spec = self.spec
    args = [x.arg for x in fn.args.args]
    if args != ['self'] + [p[0] for p in spec['params']] or fn.args.defaults or fn.args.vararg or fn.args.kwarg:
      fail(fn, 'signature %r' % (args,))
    env = {p[0]: (p[0], p[1]) for p in spec['params']}
    if spec.get('procedure'):
      fin = lambda e_: self.ret(self.state)
    else:
      fin = lambda e_: fail(fn, 'falls off the end')
    stmts = list(fn.body)
    for g in spec.get('skip_guards', ()):
      while stmts and isinstance(stmts[0], ast.Expr) and isinstance(stmts[0].value, ast.Constant):
        stmts = stmts[1:]
      if not stmts or ast.dump(stmts[0]) != ast.dump(ast.parse(g).body[0]):
        fail(fn, 'leading guard differs from %r' % g)
      stmts = stmts[1:]
    body = self.block(stmts, env, fin)
    return 'Definition %s %s : %s :=\n  %s.\n' % (spec['coq'], spec['sig'], spec['type'], body)
# END-PART-2
