"""C33 -- JSON import reconstructs the input (imports/import_json.py: Tables.add_row, _dump_table, _transpose)."""
import json
import math
import os
import struct
import tempfile

from harness import core

ID = 'C33'
TITLE = 'JSON import reconstructs the input'
PROPS = ['Props/C33']
RULE = ('random JSON values (nesting <= 6, <= ~60 nodes) over a small shared key pool (so that sibling records share '
        'keys, the same key is a scalar in one record and an object/array in another, and table names collide: key '
        '"a_b" next to "a"->"b", "" next to non-dict items), empty arrays/objects, top-level scalar/dict/list, all '
        'scalar kinds (int incl. > 2**64, float incl. -0.0/nan/inf, bool, str incl. non-ASCII and ";" "_", null), and in '
        '~45% of the cases includes/excludes built from paths of the document, their prefixes, and junk separators; '
        'fixed corpus = the documents of import_json_test.py and the findings; some cases go through parse_file on a '
        'temporary file; a few wide documents per run (arrays, record lists and objects of 33-257 entries); thorough '
        'adds all pairs of 18 small documents in three shapes. A case is non-trivial when the import makes at least two '
        'tables or filters something.')
TRUSTED = ['translator harness/ij2v*.py: Python subset -> Gallina; on every run it regenerates coq/gen/JsonImport_gen.v from '
           'imports/import_json.py (GRIST_TYPES, option parsing, _is_included, first_available_key, _grist_type, _dump_value, '
           '_transpose, _dump_table, _dictify, Tables.add_row) and is validated by evaluating the generated definitions with '
           'vm_compute against the running functions (whole pipeline on every generated document + direct arguments)',
           'Model/JsonImportPy.v: the Python primitives the generated code is written in (str/list/OrderedDict operations, '
           'type(), the bounded search standing for next(... count(2))), and the encoding of the object state of add_row '
           '(self._tables and the Row objects mutated after they were appended) as an event log decoded by rtables; '
           'dumps()/Tables.dumps()/the namedtuples are not translated but pinned by AST equality',
           'Model/JsonImport.v is hand-written; bridged to the generated functions by proofs (C33_bridge_*) and also compared '
           'on every run with import_json.dumps / Tables._tables on the generated documents',
           'json.loads (CPython): the model starts from the Python value it returns (dict keys unique)']
ASSUMPTIONS = ['dict keys are pairwise different (wf_json: true of every Python dict)',
               'floats are carried as their IEEE-754 bit pattern; the importer only copies them',
               'theorems about table contents are stated on the tables before _dump_value (references still carry '
               'their table); what _dump_value/_grist_type lose is stated separately (C33_refuted_rowless, '
               'C33_refuted_column_type and the positive decodability theorems)']
TECHNIQUE = ('Coq proof over a hand-written executable model bridged by proof to the functions regenerated from source on every '
             'run (ij2v) + differential cases (vm_compute) + reconstruction oracle on the implementation')
LEVEL_TEXT = ('Kernel-checked theorems, by induction on the JSON value (no bound on depth or width), about an executable '
              'model of Tables.add_row/_transpose/_dump_table: columns are rectangular, top-level items are the rows of '
              'the main table, nested objects are referenced from their parent cell, array elements point back to their '
              'parent row, and the multiset of (table, key, scalar) of the document equals that of the scalar cells, '
              'under include/exclude filtering. The deciding functions are regenerated from import_json.py on every run and '
              'proved pointwise equal to the model (C33_bridge_*), rectangularity and the parent back-reference are restated '
              'about the generated functions (C33_code_*); the model is also compared with the running importer on generated '
              'documents and a reconstruction oracle is run on the implementation.')
LEVEL_NOTE = ('Trusted: Coq kernel, the translator ij2v and its Python primitives/state encoding (validated differentially '
              'each run), the pinned glue dumps()/Tables.dumps(), json.loads. Two defects of '
              'the unchanged code are proved as refutations and registered as known findings: tables without columns '
              'lose their row count; a column type is taken from one cell only, so reference cells of another table (or in a '
              'scalar-typed column) lose their target.')

US = '_'


# --------------------------------------------------------------------------------------------- implementation side

def run_impl(data, name, incs, excs):
  """Runs the real importer.  Returns (dumped tables, Tables._tables as {name: rows}) ."""
  from imports import import_json
  opts = {'includes': incs, 'excludes': excs}
  out = import_json.dumps(data, name, opts)['tables']
  tables = import_json.Tables(opts)
  items = data if isinstance(data, list) else [data]
  for v in items:
    tables.add_row(name, v)
  return out, tables._tables


def run_parse_file(data, name, incs, excs):
  from imports import import_json
  d = tempfile.mkdtemp(prefix='c33_')
  try:
    with open(os.path.join(d, 'f.json'), 'w') as f:
      json.dump(data, f)
    old = os.environ.get('IMPORTDIR')
    os.environ['IMPORTDIR'] = d
    try:
      return import_json.parse_file({'path': 'f.json', 'origName': name + '.json'},
                                    {'includes': incs, 'excludes': excs, 'SCHEMA': []})['tables']
    finally:
      if old is None:
        del os.environ['IMPORTDIR']
      else:
        os.environ['IMPORTDIR'] = old
  finally:
    for fn in os.listdir(d):
      os.remove(os.path.join(d, fn))
    os.rmdir(d)


# --------------------------------------------------------------------------------------------- Coq literals

def fbits(x):
  return struct.unpack('<Q', struct.pack('<d', x))[0]


def coq_scalar(v):
  if v is None:
    return 'SNull'
  if v is True or v is False:
    return '(SBool %s)' % core.boollit(v)
  if isinstance(v, int):
    return '(SInt %s)' % core.zlit(v)
  if isinstance(v, float):
    return '(SFloat %s)' % core.zlit(fbits(v))
  if isinstance(v, str):
    return '(SStr %s)' % core.strlit(v)
  raise TypeError(repr(v))


def coq_json(v):
  if isinstance(v, dict):
    return '(JObj %s)' % core.coq_list(['(%s, %s)' % (core.strlit(k), coq_json(x)) for k, x in v.items()])
  if isinstance(v, list):
    return '(JArr %s)' % core.coq_list([coq_json(x) for x in v])
  return '(JS %s)' % coq_scalar(v)


def coq_dcell(v):
  if v is None:
    return 'DNone'
  if v is True or v is False:
    return '(DBool %s)' % core.boollit(v)
  if isinstance(v, int):
    return '(DInt %s)' % core.zlit(v)
  if isinstance(v, float):
    return '(DFloat %s)' % core.zlit(fbits(v))
  if isinstance(v, str):
    return '(DStr %s)' % core.strlit(v)
  raise TypeError('cell %r is not a dumped value' % (v,))


def coq_dtable(t):
  if len(t['column_metadata']) != len(t['table_data']):
    raise TypeError('column_metadata and table_data differ in length')
  cols = ['(%s, %s, %s)' % (core.strlit(m['id']), core.strlit(m['type']), core.coq_list([coq_dcell(c) for c in col]))
          for m, col in zip(t['column_metadata'], t['table_data'])]
  return '(%s, %s)' % (core.strlit(t['table_name']), core.coq_list(cols))


def coq_case(data, name, incs, excs, out, nrows):
  return '(%s, %s, %s, %s, %s, %s)' % (
    core.strlit(incs), core.strlit(excs), core.strlit(name), coq_json(data),
    core.coq_list([coq_dtable(t) for t in out]),
    core.coq_list(['(%s, %s)' % (core.strlit(n), core.zlit(k)) for n, k in nrows]))


# --------------------------------------------------------------------------------------------- the property's oracle

def skey(v):
  """Type-aware identity of a scalar (True != 1 != 1.0, nan == nan)."""
  if isinstance(v, float):
    return ('float', fbits(v))
  return (type(v).__name__, v)


def included(path, incs, excs):
  """The documented filter: a path is kept iff it starts with one of the includes (when there are any) and with none
  of the excludes."""
  inc = [s for s in incs.split(';') if s]
  exc = [s for s in excs.split(';') if s]
  return (not inc or any(path.startswith(i) for i in inc)) and not any(path.startswith(e) for e in exc)


def freeze(tree):
  scal, objs, arrs = tree
  return (tuple(sorted((k, skey(v)) for k, v in scal.items())),
          tuple(sorted((k, freeze(t)) for k, t in objs.items())),
          tuple(sorted((k, tuple(freeze(t) for t in ts)) for k, ts in arrs.items())))


def expected_forest(data, name, incs, excs):
  """What the property promises, computed from the input alone: every item (top-level item, nested object, array
  element) whose table path is kept is a tree (scalars, objects under keys, arrays under keys); a tree hangs under its
  parent when the parent is kept too, otherwise it is a root of its table.  Returns ({table: [frozen root trees]},
  [frozen trees of the top-level items or None])."""
  roots = {}
  def walk(v, T):
    fields = v if isinstance(v, dict) else {'': v}
    me = ({}, {}, {}) if included(T, incs, excs) else None
    for k, x in fields.items():
      sub = T + US + k
      if isinstance(x, dict):
        t = walk(x, sub)
        if t is not None:
          if me is not None:
            me[1][k] = t
          else:
            roots.setdefault(sub, []).append(t)
      elif isinstance(x, list):
        ts = [walk(e, sub) for e in x]
        ts = [t for t in ts if t is not None]
        if ts:
          if me is not None:
            me[2][k] = ts
          else:
            roots.setdefault(sub, []).extend(ts)
      elif x is not None and me is not None and included(sub, incs, excs):
        me[0][k] = x
    return me
  tops = [walk(v, name) for v in (data if isinstance(data, list) else [data])]
  for t in tops:
    if t is not None:
      roots.setdefault(name, []).append(t)
  return ({T: [freeze(t) for t in ts] for T, ts in roots.items()}, [None if t is None else freeze(t) for t in tops])


def reconstruct(tables):
  """Rebuilds the forest from Tables._tables (typed rows).  Returns (roots per table, main rows in order) or raises
  ValueError with the reason the tables do not describe a forest."""
  from imports import import_json
  Ref = import_json.Ref
  used = {}
  children = {}
  for T, rows in tables.items():
    for i, row in enumerate(rows):
      if row.ref != Ref(T, i + 1):
        raise ValueError('row %d of %r carries ref %r' % (i + 1, T, row.ref))
      for k, val in row.values.items():
        if isinstance(val, Ref):
          used[val] = used.get(val, 0) + 1
      if row.parent is not None:
        used[row.ref] = used.get(row.ref, 0) + 1
        children.setdefault(row.parent.ref, []).append(row.ref)
  def get(ref):
    rows = tables.get(ref.table_name)
    if rows is None or not (1 <= ref.rowid <= len(rows)):
      raise ValueError('dangling reference %r' % (ref,))
    return rows[ref.rowid - 1]
  def build(ref, depth=0):
    if depth > 200:
      raise ValueError('reference cycle through %r' % (ref,))
    row = get(ref)
    scal, objs, arrs = {}, {}, {}
    for k, val in row.values.items():
      if isinstance(val, Ref):
        if val.table_name != ref.table_name + US + k:
          raise ValueError('cell %r.%r of row %d refers to table %r' % (ref.table_name, k, ref.rowid, val.table_name))
        objs[k] = build(val, depth + 1)
      elif val is not None:
        scal[k] = val
    for c in children.get(ref, []):
      if not c.table_name.startswith(ref.table_name + US):
        raise ValueError('row %r points back to a row of table %r' % (c, ref.table_name))
      arrs.setdefault(c.table_name[len(ref.table_name) + 1:], []).append(build(c, depth + 1))
    return (scal, objs, arrs)
  for ref, n in used.items():
    get(ref)
    if n > 1:
      raise ValueError('row %r is used %d times' % (ref, n))
  roots = {}
  for T, rows in tables.items():
    for row in rows:
      if row.ref not in used:
        roots.setdefault(T, []).append(freeze(build(row.ref)))
  return roots


def dump_consistency(out, tables):
  """The dumped tables say what Tables._tables holds: same tables in the same order; the data columns are exactly the
  keys of the rows, each holding row.get(key) per row (references as row ids); one more column for the parent pointers
  iff some row has a parent, under a new id derived from the parent's table."""
  from imports import import_json
  Ref = import_json.Ref
  dv = lambda v: v.rowid if isinstance(v, Ref) else v
  if [t['table_name'] for t in out] != list(tables.keys()):
    return 'tables %r dumped for %r' % ([t['table_name'] for t in out], list(tables.keys()))
  for t in out:
    rows = tables[t['table_name']]
    ids = [m['id'] for m in t['column_metadata']]
    if len(ids) != len(t['table_data']):
      return 'table %r: %d column ids for %d columns' % (t['table_name'], len(ids), len(t['table_data']))
    if len(set(ids)) != len(ids):
      return 'table %r: duplicate column id' % (t['table_name'],)
    for col in t['table_data']:
      if len(col) != len(rows):
        return 'table %r: a column has %d entries for %d rows' % (t['table_name'], len(col), len(rows))
    keys = set()
    for r in rows:
      keys.update(r.values.keys())
    has_parent = any(r.parent is not None for r in rows)
    data_ids = ids[:-1] if has_parent else ids
    if set(data_ids) != keys:
      return 'table %r: data columns %r for row keys %r' % (t['table_name'], data_ids, sorted(keys))
    for cid, col in zip(data_ids, t['table_data']):
      want = [dv(r.values.get(cid)) for r in rows]
      if [skey(x) for x in col] != [skey(x) for x in want]:
        return 'table %r column %r: %r, rows hold %r' % (t['table_name'], cid, col, want)
    if has_parent:
      if not ids:
        return 'table %r: rows have parents but there is no parent column' % (t['table_name'],)
      first = next(r.parent.ref for r in rows if r.parent is not None)
      want = [r.parent.ref.rowid if r.parent is not None else None for r in rows]
      if t['table_data'][-1] != want:
        return 'table %r: parent column %r, rows hold %r' % (t['table_name'], t['table_data'][-1], want)
      pid = ids[-1]
      if not (pid == first.table_name or (pid.startswith(first.table_name) and pid[len(first.table_name):].isdigit())):
        return 'table %r: parent column is called %r for parent table %r' % (t['table_name'], pid, first.table_name)
  return None


def decodability(out, tables):
  """Can the dumped form be read back?  Returns (kind, description) of the first obstacle or None.
  rowless-table: a table is dumped without any column, so the number of its rows is not in the output.
  column-type-mismatch: a reference cell sits in a column whose type is not 'Ref:<its table>' or a scalar sits in a
  'Ref:' column, so the reader of the output takes a row id for a number / for a row of another table."""
  from imports import import_json
  Ref = import_json.Ref
  for t in out:
    if not t['column_metadata']:
      return ('rowless-table', 'table %r has %d row(s) but is dumped without columns'
              % (t['table_name'], len(tables.get(t['table_name'], []))))
  for t in out:
    rows = tables.get(t['table_name'], [])
    has_parent = any(r.parent is not None for r in rows)
    for j, m in enumerate(t['column_metadata']):
      if has_parent and j == len(t['column_metadata']) - 1:
        cells = [r.parent.ref if r.parent is not None else None for r in rows]
      else:
        cells = [r.values.get(m['id']) for r in rows]
      for i, c in enumerate(cells):
        if isinstance(c, Ref) and m['type'] != 'Ref:' + c.table_name:
          return ('column-type-mismatch', 'table %r column %r has type %r but row %d holds a reference to table %r'
                  % (t['table_name'], m['id'], m['type'], i + 1, c.table_name))
        if c is not None and not isinstance(c, Ref) and m['type'].startswith('Ref:'):
          return ('column-type-mismatch', 'table %r column %r has type %r but row %d holds the scalar %r'
                  % (t['table_name'], m['id'], m['type'], i + 1, c))
  return None


def oracle(data, name, incs, excs):
  """Returns a list of (kind, description): every way in which the import of `data` fails the property."""
  try:
    out, tables = run_impl(data, name, incs, excs)
  except Exception as e:
    return [('exception', 'import_json raised %r' % (e,))]
  res = []
  desc = dump_consistency(out, tables)
  if desc:
    res.append(('dump-mismatch', desc))
  want_roots, want_tops = expected_forest(data, name, incs, excs)
  try:
    got_roots = reconstruct(tables)
  except ValueError as e:
    res.append(('reconstruction', str(e)))
    got_roots = None
  if got_roots is not None:
    for T in sorted(set(want_roots) | set(got_roots)):
      w, g = want_roots.get(T, []), got_roots.get(T, [])
      if sorted(w) != sorted(g):
        res.append(('reconstruction', 'table %r: the rows rebuild %d item(s) that differ from the %d item(s) of the '
                    'document at that path' % (T, len(g), len(w))))
        break
    else:
      # top-level items are the rows of the main table, in order
      if included(name, incs, excs):
        rows = tables.get(name, [])
        if len(rows) != len(want_tops):
          res.append(('reconstruction', 'main table has %d rows for %d top-level items' % (len(rows), len(want_tops))))
        elif got_roots.get(name, []) != want_tops:
          res.append(('reconstruction', 'rows of the main table are not the top-level items in order'))
  d = decodability(out, tables)
  if d:
    res.append(d)
  return res


# --------------------------------------------------------------------------------------------- generators

KEYS = ['a', 'b', 'c', 'a_b', 'b_c', '', '_', 'a2', 'T', 'é', 'a_', 'T_a']
NAMES = ['T', 'T', 'T', '', 'Hello', 'T_a', 'a']
SCALARS = [None, None, True, False, 0, 1, 1, 2, -4, 7, 2 ** 70, -2 ** 64, 1.0, 1.5, -0.0, 3.14, 1e300, float('inf'),
           float('nan'), '', 'x', 'x', 'foo', 'a;b', 'T_a', '1', 'é中', 'True']

FIXED = [
  ([{'a': [1, 2]}, {'a': []}], 'T', '', ''),
  ([{'a': [1, 2]}], 'T', '', ''),
  ([{}], 'T', '', ''), ([{}, {}], 'T', '', ''), ([], 'T', '', ''), ({}, 'T', '', ''), (5, 'T', '', ''), (None, 'T', '', ''),
  ({'a': {'b': [2]}, 'a_b': [1]}, 'T', '', ''),
  ([{'a': 1}, {'a': {'b': 2}}], 'T', '', ''), ([{'a': {'b': 2}}, {'a': 1}], 'T', '', ''),
  ([{'a': None}, {'a': {'b': 2}}], 'T', '', ''),
  ([[1, [2, 3]], {'': 5}], 'T', '', ''),
  ({'T': [1], 'T2': 5}, 'T', '', ''),
  ([{'a': 1, 'b': 'baba'}, {'a': 4, 'b': 'abab'}], '', '', ''),
  ([{'a': 1}, {'b': 'abab'}, {'a': 4}], '', '', ''),
  (['apple', 'pear', {'a': 'some cucumbers'}, 'banana'], '', '', ''),
  ([{'a': {'b': 2, 'd': {'a': 'sugar'}}, 'c': 'foo'}], 'Hello', '', ''),
  ([{'a': ['ES', 'FR', 'US']}, {'a': ['FR']}], 'Hello', '', ''),
  ([{'a': [{'b': 1}, {'b': 4}]}, {'c': 2}], 'Hello', '', ''),
  ([['FR', 'US'], ['ES', 'CH']], 'Hello', '', ''),
  ({'foo': [{'a': 1, 'b': 'santa'}, {'a': 4, 'b': 'cats'}], 'bar': [{'c': 2, 'd': 'ducks'}, {'c': 5, 'd': 'dogs'}],
    'status': {'success': True, 'time': '5s'}}, 'Hello', '', ''),
  ({'a': 3, 'b': 3.14, 'c': True, 'd': 'name', 'e': -4, 'f': '3.14', 'g': None}, 'Hello', '', ''),
  ([{'a': 'some text'}, {'a': 3}], '', '', ''),
  # a child table whose own column is called like the parent table: first_available_key
  ({'a': [{'T': 1, 'T2': 2}, {'T3': 3}]}, 'T', '', ''),
  ({'a': [{'T': 1, 'T2': 2, 'T3': 3, 'T4': 4, 'T5': 5, 'T6': 6, 'T7': 7, 'T8': 8, 'T9': 9, 'T10': 10, 'T11': 0}]}, 'T', '', ''),
]
_foobar = {"foos": [{'foo': 1, 'link': [1, 2]}, {'foo': 2, 'link': [1, 2]}], "bar": {'hi': 'santa'}}
for _i, _e in [('', ''), ('FooBar_foos', ''), ('FooBar_foos_link', ''), ('', 'FooBar_foos'),
               ('FooBar_foos', 'FooBar_foos_link'), ('', 'FooBar_foos_foo'), ('FooBar_bar;FooBar_foos_l', ';;'),
               ('X', ''), ('', 'FooBar'), ('FooBar;', 'FooBar_foos_link;FooBar_bar_hi')]:
  FIXED.append((_foobar, 'FooBar', _i, _e))


def gen_value(rng, depth, budget):
  """budget: [remaining nodes]"""
  budget[0] -= 1
  r = rng.random()
  if depth <= 0 or budget[0] <= 0 or r < 0.42:
    return rng.choice(SCALARS)
  if r < 0.72:
    n = rng.choice([0, 1, 1, 2, 2, 3, 4])
    keys = rng.sample(KEYS, n)
    return {k: gen_value(rng, depth - 1, budget) for k in keys}
  n = rng.choice([0, 1, 2, 2, 3, 4])
  return [gen_value(rng, depth - 1, budget) for _ in range(n)]


def gen_records(rng, depth, budget):
  """A list of records over the same few keys; a key is a scalar in some records and an object/array in others."""
  keys = rng.sample(KEYS, rng.randint(1, 3))
  out = []
  for _ in range(rng.randint(1, 5)):
    if rng.random() < 0.15:
      out.append(gen_value(rng, depth - 1, budget))
      continue
    rec = {}
    for k in keys:
      if rng.random() < 0.8:
        rec[k] = gen_value(rng, depth - 1, budget)
    out.append(rec)
  return out


def gen_chain(rng):
  """One deep path (depth 6) alternating objects and arrays."""
  v = rng.choice(SCALARS)
  for _ in range(6):
    k = rng.choice(KEYS)
    v = {k: v, rng.choice(KEYS): rng.choice(SCALARS)} if rng.random() < 0.5 else [v, rng.choice(SCALARS)]
  return v


def paths_of(data, name):
  out = []
  def walk(v, T):
    out.append(T)
    for k, x in (v if isinstance(v, dict) else {'': v}).items():
      if isinstance(x, dict):
        walk(x, T + US + k)
      elif isinstance(x, list):
        for e in x:
          walk(e, T + US + k)
      else:
        out.append(T + US + k)
  for v in (data if isinstance(data, list) else [data]):
    walk(v, name)
  return sorted(set(out))


def gen_opts(rng, data, name):
  if rng.random() < 0.55:
    return '', ''
  paths = paths_of(data, name) or [name]
  def pick():
    r = rng.random()
    p = rng.choice(paths)
    if r < 0.5:
      return p
    if r < 0.8:
      return p[:rng.randint(0, len(p))]
    return rng.choice(['X', name, name + US, US, 'T_a', 'T_a_b', 'T_b'])
  def lst():
    n = rng.choice([0, 1, 1, 2, 3])
    parts = [pick() for _ in range(n)]
    if rng.random() < 0.3:
      parts.insert(rng.randint(0, len(parts)), '')
    s = ';'.join(parts)
    if rng.random() < 0.2:
      s += ';'
    return s
  return lst(), lst()


def gen_case(rng):
  name = rng.choice(NAMES)
  r = rng.random()
  budget = [rng.choice([8, 15, 30, 60])]
  if r < 0.45:
    data = gen_records(rng, rng.randint(1, 5), budget)
  elif r < 0.85:
    data = gen_value(rng, rng.randint(0, 6), budget)
  elif r < 0.93:
    data = gen_chain(rng)
  else:
    data = {rng.choice(KEYS): gen_records(rng, 3, budget), rng.choice(KEYS): gen_value(rng, 3, budget)}
  data = json.loads(json.dumps(data))       # exactly a value json.loads can return
  incs, excs = gen_opts(rng, data, name)
  return data, name, incs, excs


def depth_of(v):
  if isinstance(v, dict):
    return 1 + max([depth_of(x) for x in v.values()] or [0])
  if isinstance(v, list):
    return 1 + max([depth_of(x) for x in v] or [0])
  return 0


def gen_wide(rng):
  """Width: long arrays and many records (the theorems have no bound on width; keep the comparison honest there)."""
  n = rng.choice([33, 64, 100, 101, 130, 257])
  r = rng.random()
  if r < 0.35:
    data = {'a': [rng.choice([1, 'x', None, 2.5, {'b': i}]) for i in range(n)], 'c': 1}
  elif r < 0.7:
    data = [{'a': i, 'b': ([i] if i % 7 == 0 else {'c': i} if i % 5 == 0 else 'v%d' % i)} for i in range(n)]
  else:
    data = {('k%d' % i): (i if i % 3 else [i, i + 1]) for i in range(n)}     # wide object, keys sort as strings
  name = rng.choice(['T', 'Hello'])
  incs, excs = ('', '') if rng.random() < 0.7 else gen_opts(rng, data, name)
  return data, name, incs, excs


def cases(ctx):
  cs = list(FIXED)
  for _ in range(ctx.n(500, 40000)):
    cs.append(gen_case(ctx.rng))
  for _ in range(ctx.n(6, 60)):
    cs.append(gen_wide(ctx.rng))
  if ctx.tier == 'thorough':
    # exhaustive: all documents built from <= 2 levels over keys {a, a_b, ''} and scalars {1, null}
    small = [None, 1, {}, [], {'a': 1}, {'a': None}, [1], [{}], {'a': {}}, {'a': []}, {'a': [1]}, {'a': {'b': 1}},
             {'a_b': [1]}, {'a': {'b': [1]}}, {'': 1}, [[1]], {'a': 1, 'a_b': [1]}, {'a': {'b': [1]}, 'a_b': [2]}]
    for x in small:
      for y in small:
        cs.append(([x, y], 'T', '', ''))
        cs.append(({'a': x, 'b': y}, 'T', '', ''))
        cs.append(({'a': x, 'a_b': y}, 'T', 'T_a', 'T_a_b'))
    ctx.extra['exhaustive_space'] = 'all pairs of 18 small documents as [x,y], {a:x,b:y}, {a:x,a_b:y} (the last with filtering)'
  return cs


# --------------------------------------------------------------------------------------------- the tie to the source

GEN_IMPORTS = ['Grist.Model.JsonImportPy', 'GristGen.JsonImport_gen', 'Grist.Model.JsonImportCode']
CODE_CASE_DEFS = ''


def regenerate(ctx):
  """coq/gen/JsonImport_gen.v from the import_json.py of the tree under check (fail closed)."""
  from harness import ij2v, ij2v_walk
  try:
    text = ij2v_walk.generate(os.path.join(core.GRIST, 'imports', 'import_json.py'))
  except ij2v.Untranslatable as e:
    raise core.TieBroken('imports/import_json.py is outside the translated subset or its pinned glue changed: %s' % e)
  core.write_if_changed(os.path.join(core.COQ, 'gen', 'JsonImport_gen.v'), text)
  ctx.extra['regenerated'] = ('GRIST_TYPES, Tables.__init__ (option strings), Tables._is_included, first_available_key, '
                              '_grist_type, _dump_value, _transpose, _dump_table, _dictify, Tables.add_row; pinned by AST '
                              'equality: dumps, Tables.dumps, Ref/Row/Col')


def coq_cell(v):
  from imports import import_json
  if isinstance(v, import_json.Ref):
    return '(CR (%s, %d%%nat))' % (core.strlit(v.table_name), v.rowid)
  return '(CS %s)' % coq_scalar(v)


def direct_cases(ctx):
  """The generated first_available_key, _is_included (with the option parsing), _grist_type and _dump_value evaluated by
  vm_compute on generated arguments against the running functions."""
  from imports import import_json
  rng = ctx.rng
  n = ctx.n(150, 1500)
  fak, inc, typ = [], [], []
  for _ in range(n):
    base = rng.choice(['T', 'a', '', 'T_a', 'é'])
    keys = list(dict.fromkeys([base + s for s in rng.sample(['', '2', '3', '4', '5', '02', '1', '10', '11', 'x', '22'],
                                                            rng.randint(0, 8))] + rng.sample(KEYS, rng.randint(0, 3))))
    if rng.random() < 0.15:
      keys = list(dict.fromkeys(keys + [base] + [base + str(i) for i in range(2, rng.randint(3, 14))]))
    rng.shuffle(keys)
    want = import_json.first_available_key({k: 1 for k in keys}, base)
    fak.append('(%s, %s, %s)' % (core.coq_list([core.strlit(k) for k in keys]), core.strlit(base), core.strlit(want)))
    data, name, incs, excs = gen_case(rng)
    if rng.random() < 0.5:
      incs, excs = gen_opts(rng, data, name)
    path = rng.choice(paths_of(data, name) or [name]) + rng.choice(['', '', '_a', 'x'])
    t = import_json.Tables({'includes': incs, 'excludes': excs})
    inc.append('(%s, %s, %s, %s)' % (core.strlit(incs), core.strlit(excs), core.strlit(path),
                                     core.boollit(t._is_included(path))))
    v = rng.choice(SCALARS + [import_json.Ref(rng.choice(['T', 'T_a', '']), rng.randint(1, 300))] * 6)
    typ.append('(%s, %s, %s)' % (coq_cell(v), core.strlit(import_json._grist_type(v)),
                                 coq_dcell(import_json._dump_value(v))))
  imports = ['Grist.Model.JsonImport'] + GEN_IMPORTS
  bad = {
    'first_available_key': ctx.run_cases(
      'fak', imports, 'fun c => str_eqb (gen_first_available_key (map (fun k => (k, tt)) (fst (fst c))) (snd (fst c))) (snd c)',
      fak, shard=2000),
    '_is_included': ctx.run_cases(
      'inc', imports, 'fun c => Bool.eqb (gen_is_included (gen_init_includes_opt (fst (fst (fst c)))) '
      '(gen_init_excludes_opt (snd (fst (fst c)))) (snd (fst c))) (snd c)', inc, shard=2000),
    '_grist_type/_dump_value': ctx.run_cases(
      'typ', imports, 'fun c => str_eqb (gen_grist_type (fst (fst c))) (snd (fst c)) && '
      'dcell_eqb (gen_dump_value (fst (fst c))) (snd c)', typ, shard=2000),
  }
  for fn, idx in bad.items():
    if idx:
      ctx.broken('translator:generated %s differs from the running function' % fn, 'on %d of %d arguments' % (len(idx), n))
  return {'direct_cases_per_function': n, 'direct_disagreements': {k: len(v) for k, v in bad.items()}}


# --------------------------------------------------------------------------------------------- protocol

def correspond(ctx):
  cs = cases(ctx)
  ctx._c33_cases = cs
  coq, kept = [], []
  for k, (data, name, incs, excs) in enumerate(cs):
    try:
      out, tables = run_impl(data, name, incs, excs)
      if k % 25 == 0 and name and '.' not in name:
        out2 = run_parse_file(data, name, incs, excs)
        if json.dumps(out2, sort_keys=True) != json.dumps(out, sort_keys=True):
          ctx.violation('parse-file', 'parse_file and dumps disagree', witness(data, name, incs, excs))
        ctx.bump('via parse_file')
      lit = coq_case(data, name, incs, excs, out, [(n, len(rows)) for n, rows in tables.items()])
    except Exception as e:
      ctx.violation('exception', 'import_json raised %r' % (e,), witness(data, name, incs, excs))
      continue
    coq.append(lit)
    kept.append((data, name, incs, excs))
    filtered = bool(incs.replace(';', '') or excs.replace(';', ''))
    ctx.count((json.dumps(data, sort_keys=True), name, incs, excs), nontrivial=len(out) >= 2 or (filtered and bool(out)),
              sample={'data': data if len(json.dumps(data)) < 200 else '...', 'name': name, 'includes': incs, 'excludes': excs,
                      'tables': [t['table_name'] for t in out]},
              kind='depth%d' % min(depth_of(data), 7))
    ctx.bump('tables%d' % min(len(out), 6))
    if filtered:
      ctx.bump('with includes/excludes')
  # one pass evaluates both the hand model and the pipeline of generated functions on every case
  shard = ctx.n(120, 500)
  gen_ok = True
  try:
    both = ctx.run_cases('import', ['Grist.Model.JsonImport'] + GEN_IMPORTS, 'fun c => case_ok c && code_case_ok c', coq,
                         shard=shard, timeout=900, extra_defs=CODE_CASE_DEFS)
    bad = ctx.run_cases('model', ['Grist.Model.JsonImport'], 'case_ok', [coq[i] for i in both], shard=shard) if both else []
    bad = [both[i] for i in bad]
    badgen = ctx.run_cases('code', ['Grist.Model.JsonImport'] + GEN_IMPORTS, 'code_case_ok', [coq[i] for i in both], shard=shard,
                           extra_defs=CODE_CASE_DEFS) if both else []
    badgen = [both[i] for i in badgen]
  except core.TieBroken as e:
    gen_ok = False
    ctx.log('generated functions not evaluable (%s); comparing the hand model only' % str(e)[-300:].replace('\n', ' '))
    bad = ctx.run_cases('import', ['Grist.Model.JsonImport'], 'case_ok', coq, shard=shard, timeout=900)
    badgen = []
  for i in bad[:5]:
    data, name, incs, excs = kept[i]
    ctx.broken('correspondence:Model/JsonImport.v import_json differs from imports/import_json.py',
               'case %s' % json.dumps(witness(data, name, incs, excs)))
  for i in badgen[:5]:
    data, name, incs, excs = kept[i]
    ctx.broken('translator:the functions generated by harness/ij2v.py differ from the running import_json.py',
               'case %s' % json.dumps(witness(data, name, incs, excs)))
  ctx._c33_bad = [kept[i] for i in bad]
  tv = {'pipeline_cases': len(coq) if gen_ok else 0, 'pipeline_disagreements': len(badgen)}
  if gen_ok:
    tv.update(direct_cases(ctx))
  ctx.extra['translator_validation'] = tv


def witness(data, name, incs, excs):
  return {'data': data, 'name': name, 'includes': incs, 'excludes': excs}


def search(ctx):
  cs = getattr(ctx, '_c33_cases', None) or cases(ctx)
  seen = {}
  for data, name, incs, excs in cs:
    for kind, desc in oracle(data, name, incs, excs):
      ctx.bump('oracle:' + kind)
      size = len(json.dumps(data))
      if kind not in seen or size < seen[kind][0]:
        seen[kind] = (size, desc, witness(data, name, incs, excs))
  for kind, (_size, desc, w) in sorted(seen.items()):
    ctx.violation(kind, desc, w)


def replay(ctx, w):
  res = oracle(w['data'], w['name'], w.get('includes', ''), w.get('excludes', ''))
  if not res:
    return None
  return '; '.join('%s: %s' % kd for kd in res)
