"""C37 -- Text patches map back to the right source positions (textbuilder.py)."""
import itertools
import re

import os

from harness import core, tb2v

ID = 'C37'
TITLE = 'Text patches map back to the right source positions'
PROPS = ['Props/C37']
RULE = ('random nestings (depth <= 3) of Text / Replacer / Combiner over short texts; patch sets are sorted '
        'non-overlapping cuts of the inner text with deletions, insertions, empty patches and adjacent patches '
        'over-represented, given to Replacer in shuffled order; a separate malformed stream (overlapping, wrong '
        'old_text, out-of-range and negative positions); queries = output ranges incl. ranges ending at every '
        'offset-table entry, at part boundaries, empty ranges, whole text, wrong old_text, out of range; '
        'thorough adds every range of every builder and an exhaustive space of single Replacers over a 4-char text; '
        'translation check: each generated function on random texts/patch sets/positions incl. ranges ending at '
        'offset-table entries, with stub builders around it; '
        'a case is non-trivial when the builder holds a length-changing patch or a Combiner of >= 2 parts and at '
        'least one query was mapped back to a Text')
TRUSTED = ['harness/tb2v.py: fail-closed translator textbuilder.py -> coq/gen/TextBuilder_gen.v (make_patch, validate_patch, '
           'Text.get_text/map_back_patch, Replacer.__init__/get_text/get_input_pos/map_back_patch/map_back_offset, '
           'Combiner.__init__/get_text/map_back_patch), regenerated on every run; every translated function is run '
           'against the running function or method on generated inputs (other builders replaced by stubs on both sides)',
           'Model/TextBuilder.v primitives used by the generated code: Python slicing and list indexing, bisect_right '
           '(the binary search), sorted() on patch tuples, the result monad; plus the composition of the generated '
           'methods along the object graph (g_render/g_map_back/g_offset in Proofs/TextBuilder_bridge.v); both are '
           'compared with the real classes on every run (get_text, map_back_patch results and exceptions, '
           'map_back_offset, the _input_offsets/_output_offsets arrays)',
           're.finditer (behind make_regexp_patches) returns in-range, ordered, non-overlapping matches: monitored']
ASSUMPTIONS = ['patch sets are valid for the inner text, sorted() order is non-overlapping (hypothesis wf_builder)',
               'Combiner parts are str or Builder (bytes parts are not modelled)',
               'map_back_commutes: re-derived patch lists keep their sorted() order (automatic unless the '
               'replacement text is empty and two insertions meet)']
ALPHABET = 'ab$ \n.x'


# ------------------------------------------------------------------------------------------------
# builder specs: ('T', text, value) | ('R', spec, [patch tuples]) | ('C', [str | spec])

def build(spec):
  import textbuilder
  if spec[0] == 'T':
    return textbuilder.Text(spec[1], spec[2])
  if spec[0] == 'R':
    return textbuilder.Replacer(build(spec[1]), [textbuilder.Patch(*p) for p in spec[2]])
  return textbuilder.Combiner([p if isinstance(p, str) else build(p) for p in spec[1]])


def outcome(fn):
  """('ok', value) or ('ValueError',) / ('AssertionError',) / ('other', repr)."""
  try:
    return ('ok', fn())
  except ValueError:
    return ('ValueError',)
  except AssertionError:
    return ('AssertionError',)
  except Exception as e:          # pylint: disable=broad-except
    return ('other', repr(e))


def rand_text(rng, lo=0, hi=8):
  return ''.join(rng.choice(ALPHABET) for _ in range(rng.randint(lo, hi)))


def gen_patches(rng, text):
  """Non-overlapping patches of `text` (in random order)."""
  n = len(text)
  out = []
  pos = 0
  while pos <= n and len(out) < 6:
    if rng.random() < 0.35:
      pos += rng.randint(1, 3)                  # leave some text untouched
      continue
    kind = rng.choice(['del', 'del', 'del', 'ins', 'ins', 'empty', 'same', 'grow', 'shrink'])
    if kind in ('ins', 'empty'):
      s = e = pos
      new = '' if kind == 'empty' else rand_text(rng, 1, 3)
    else:
      s = pos
      e = min(n, pos + rng.randint(1, 3))
      if e == s:
        break
      new = {'del': '', 'same': rand_text(rng, e - s, e - s),
             'grow': rand_text(rng, e - s + 1, e - s + 3), 'shrink': rand_text(rng, 0, e - s - 1)}[kind]
    if s > n:
      break
    out.append((s, e, text[s:e], new))
    pos = e if rng.random() < 0.5 else e + rng.randint(0, 2)     # adjacent patches are frequent
    if kind in ('ins', 'empty') and pos == s and rng.random() < 0.7:
      pos += 1                                   # two insertions at one place only sometimes
  rng.shuffle(out)
  return out


def gen_bad_patches(rng, text):
  ps = gen_patches(rng, text)
  n = len(text)
  for _ in range(rng.randint(1, 2)):
    k = rng.choice(['overlap', 'old', 'range', 'neg', 'dup'])
    if k == 'overlap' and n >= 2:
      s = rng.randint(0, n - 1)
      e = rng.randint(s, n)
      ps.append((s, e, text[s:e], rand_text(rng, 0, 2)))
    elif k == 'old':
      s = rng.randint(0, n)
      e = rng.randint(s, n)
      ps.append((s, e, text[s:e] + 'q', 'z'))
    elif k == 'range':
      s = rng.randint(0, n + 2)
      e = s + rng.randint(0, 3)
      ps.append((s, e, text[s:e], rand_text(rng, 0, 2)))
    elif k == 'neg' and n:
      s = -rng.randint(1, n)
      e = rng.choice([s, s + 1, n, -1])
      ps.append((s, e, text[s:e], rand_text(rng, 0, 2)))
    elif ps:
      ps.append(rng.choice(ps))
  rng.shuffle(ps)
  return ps


class Gen(object):
  def __init__(self, rng, bad=0.0):
    self.rng = rng
    self.bad = bad
    self.leaf = 0

  def spec(self, depth):
    rng = self.rng
    r = rng.random()
    if depth <= 0 or r < 0.15:
      self.leaf += 1
      return ('T', rand_text(rng, 0, 8), self.leaf)
    if r < 0.65:
      inner = self.spec(depth - 1)
      t = outcome(lambda: build(inner).get_text())
      text = t[1] if t[0] == 'ok' else ''
      ps = gen_bad_patches(rng, text) if rng.random() < self.bad else gen_patches(rng, text)
      return ('R', inner, ps)
    parts = []
    for _ in range(rng.choice([0, 1, 2, 2, 3, 3, 4])):
      parts.append(rand_text(rng, 0, 3) if rng.random() < 0.4 else self.spec(depth - 1))
    return ('C', parts)


def replacers(obj):
  """All Replacer objects inside a built builder (outermost first)."""
  import textbuilder
  out = []
  stack = [obj]
  while stack:
    o = stack.pop()
    if isinstance(o, textbuilder.Replacer):
      out.append(o)
      stack.append(o._in_builder)
    elif isinstance(o, textbuilder.Combiner):
      stack.extend(p for p in o._parts if not isinstance(p, str))
  return out


def gen_queries(rng, obj, text, all_ranges=False):
  """Output ranges (s, e, old_text, new_text) to map back."""
  import textbuilder
  n = len(text)
  qs = set()
  if all_ranges:
    for s in range(n + 1):
      for e in range(s, n + 1):
        qs.add((s, e))
  else:
    for _ in range(4):
      s = rng.randint(0, n)
      qs.add((s, rng.randint(s, n)))
    qs.add((0, n))
    # ranges that end (or start) exactly at an offset-table entry / a part boundary
    marks = set()
    if isinstance(obj, textbuilder.Replacer):
      marks.update(obj._output_offsets)
    if isinstance(obj, textbuilder.Combiner):
      marks.update(obj._offsets)
      for off, p in zip(obj._offsets, obj._parts):
        if isinstance(p, textbuilder.Replacer):
          marks.update(off + o for o in p._output_offsets)
    for m in sorted(marks):
      if 0 <= m <= n:
        qs.add((rng.randint(0, m), m))
        qs.add((m, rng.randint(m, n)))
        qs.add((m, m))
        if m >= 1:
          qs.add((m - 1, m))
  out = []
  for (s, e) in sorted(qs):
    out.append((s, e, text[s:e], rand_text(rng, 0, 2)))
  if not all_ranges:
    r = rng.random()
    if r < 0.15:
      s = rng.randint(0, n)
      out.append((s, min(n, s + 1), text[s:s + 1] + 'q', 'z'))      # does not validate
    elif r < 0.3:
      s = rng.randint(0, n + 2)
      e = s + rng.randint(0, 3)
      out.append((s, e, text[s:e], 'z'))                             # may reach past the end
    elif r < 0.4 and n:
      s = -rng.randint(1, n)
      e = rng.choice([s + 1, n, -1, s])
      out.append((s, e, text[s:e], 'z'))                             # negative positions
  return out


# ------------------------------------------------------------------------------------------------
# Coq literals

def patch_lit(p):
  return '(%s, %s, %s, %s)' % (core.zlit(p[0]), core.zlit(p[1]), core.strlit(p[2]), core.strlit(p[3]))


def spec_lit(spec):
  if spec[0] == 'T':
    return '(BText %s %s)' % (core.strlit(spec[1]), core.zlit(spec[2]))
  if spec[0] == 'R':
    return '(BReplacer %s %s)' % (spec_lit(spec[1]), core.coq_list([patch_lit(p) for p in spec[2]]))
  term = 'PNil'
  for p in reversed(spec[1]):
    term = '(PLit %s %s)' % (core.strlit(p), term) if isinstance(p, str) else '(PSub %s %s)' % (spec_lit(p), term)
  return '(BCombiner %s)' % term


def res_lit(o, f):
  if o[0] == 'ok':
    return '(Ok %s)' % f(o[1])
  return {'ValueError': 'ValueError', 'AssertionError': 'AssertionError'}[o[0]]


def mapped_lit(m):
  if m is None:
    return 'None'
  text, value, p = m
  return '(Some (%s, %s, %s))' % (core.strlit(text), core.zlit(value), patch_lit(tuple(p)))


# ------------------------------------------------------------------------------------------------
# Reference implementation with provenance (the oracle): every character is a cell
# [char, leaf value or None, index in the leaf]; cells keep their identity through the levels.

class Ref(object):
  def __init__(self, spec):
    self.spec = spec
    self.kind = spec[0]
    self.kids = []
    if self.kind == 'T':
      self.cells = [[c, spec[2], i] for i, c in enumerate(spec[1])]
    elif self.kind == 'R':
      inner = Ref(spec[1])
      self.kids = [inner]
      cells = inner.cells
      out = []
      pos = 0
      for (s, e, old, new) in sorted(spec[2]):
        assert 0 <= pos <= s <= e <= len(cells) and ''.join(c[0] for c in cells[s:e]) == old, 'not well-formed'
        out.extend(cells[pos:s])
        out.extend([c, None, None] for c in new)
        pos = e
      out.extend(cells[pos:])
      self.cells = out
    else:
      self.cells = []
      for p in spec[1]:
        if isinstance(p, str):
          self.cells.extend([c, None, None] for c in p)
        else:
          k = Ref(p)
          self.kids.append(k)
          self.cells.extend(k.cells)
    self.text = ''.join(c[0] for c in self.cells)

  def leaf_text(self, value):
    if self.kind == 'T':
      return self.spec[1] if self.spec[2] == value else None
    for k in self.kids:
      t = k.leaf_text(value)
      if t is not None:
        return t
    return None


def well_formed(spec):
  try:
    Ref(spec)
    return True
  except AssertionError:
    return False


# ------------------------------------------------------------------------------------------------
# correspondence: model vs the real classes

WITNESS = {'spec': ['R', ['T', 'ab', 1], [[1, 2, 'b', '']]], 'query': [0, 1, 'a', 'Q']}


def to_spec(j):
  """JSON form (lists) -> spec (tuples)."""
  if isinstance(j, str):
    return j
  if j[0] == 'T':
    return ('T', j[1], j[2])
  if j[0] == 'R':
    return ('R', to_spec(j[1]), [tuple(p) for p in j[2]])
  return ('C', [to_spec(p) for p in j[1]])


def impl_is_repaired():
  """Does the running textbuilder already have the proposed repair (then the model is run with fixed=true)?"""
  import textbuilder
  o = outcome(lambda: build(to_spec(WITNESS['spec'])).map_back_patch(textbuilder.Patch(*WITNESS['query'])))
  return o[0] == 'ok' and o[1] is not None and tuple(o[1][2])[:2] == (0, 1)


def has_mechanism(spec):
  if spec[0] == 'T':
    return False
  if spec[0] == 'R':
    return any(len(p[3]) != p[1] - p[0] for p in spec[2]) or has_mechanism(spec[1])
  return len(spec[1]) >= 2 or any(has_mechanism(p) for p in spec[1] if not isinstance(p, str))


def shape(spec):
  if spec[0] == 'T':
    return 'T'
  if spec[0] == 'R':
    return 'R(' + shape(spec[1]) + ')'
  return 'C'


def gen_specs(ctx):
  """[(spec, all_ranges)] for this run."""
  rng = ctx.rng
  out = []
  g = Gen(rng, bad=0.0)
  gb = Gen(rng, bad=0.5)
  for i in range(ctx.n(400, 6000)):
    src = gb if i % 6 == 5 else g
    out.append((src.spec(rng.choice([1, 2, 2, 3, 3])), ctx.tier == 'thorough' and i % 4 == 0))
  # the unit-test shapes and the witness of the known finding
  out.append((to_spec(WITNESS['spec']), True))
  out.append((('C', ['[', ('R', ('T', 'To be or', 1), [(0, 2, 'To', 'TOTO'), (3, 5, 'be', 'BEBE')]),
                     ('T', 'That', 2), ']']), True))
  if ctx.tier == 'thorough':
    # exhaustive: every cut of "abca" into at most 3 patches with new text in {'', 'x', 'xy'}, all ranges
    text = 'abca'
    cuts = [(s, e) for s in range(5) for e in range(s, 5)]
    for k in (1, 2, 3):
      for combo in itertools.combinations(cuts, k):
        if any(a[1] > b[0] for a, b in zip(combo, combo[1:])):
          continue
        for news in itertools.product(['', 'x', 'xy'], repeat=k):
          if k == 3 and 'xy' in news:
            continue
          out.append((('R', ('T', text, 1), [(s, e, text[s:e], nw) for (s, e), nw in zip(combo, news)]), True))
    ctx.extra['exhaustive'] = True
    ctx.extra['exhaustive_space'] = ('single Replacer over "abca": all non-overlapping sets of <= 3 patches '
                                     '(new text "", "x", "xy"; <= 2 patches with "xy"), every output range')
  return out


def run_impl(ctx, spec, all_ranges):
  """Runs the real classes on one spec; returns a record used by correspond and search."""
  import textbuilder
  rec = {'spec': spec, 'obj': None, 'queries': [], 'offsets': [], 'tables': None}
  built = outcome(lambda: build(spec))
  if built[0] != 'ok':
    rec['text'] = built
    return rec
  obj = built[1]
  rec['obj'] = obj
  text = obj.get_text()
  rec['text'] = ('ok', text)
  for q in gen_queries(ctx.rng, obj, text, all_ranges):
    rec['queries'].append((q, outcome(lambda: obj.map_back_patch(textbuilder.Patch(*q)))))
  if isinstance(obj, textbuilder.Replacer):
    rec['tables'] = (list(obj._input_offsets), list(obj._output_offsets))
    for pos in sorted(set([0, len(text)] + [ctx.rng.randint(0, len(text)) for _ in range(3)] +
                          list(obj._output_offsets))):
      rec['offsets'].append((pos, outcome(lambda: obj.map_back_offset(pos))))
  return rec


def case_lit(rec):
  qs = [(q, o) for q, o in rec['queries'] if o[0] != 'other']
  offs = [(p, o) for p, o in rec['offsets'] if o[0] != 'other']
  tabs = 'None' if rec['tables'] is None else '(Some (%s, %s))' % (core.zlist(rec['tables'][0]),
                                                                    core.zlist(rec['tables'][1]))
  return '(%s, %s, %s, %s, %s)' % (
    spec_lit(rec['spec']), res_lit(rec['text'], core.strlit),
    core.coq_list(['(%s, %s)' % (patch_lit(q), res_lit(o, mapped_lit)) for q, o in qs]),
    core.coq_list(['(%s, %s)' % (core.zlit(p), res_lit(o, core.zlit)) for p, o in offs]), tabs)


def records(ctx):
  if getattr(ctx, '_c37_records', None) is None:
    ctx._c37_records = [run_impl(ctx, spec, allr) for spec, allr in gen_specs(ctx)]
  return ctx._c37_records


def correspond(ctx):
  fixed = impl_is_repaired()
  ctx.extra['model_variant'] = 'map_back true (proposed repair present in the source)' if fixed else \
                               'map_back false (unchanged source)'
  recs = records(ctx)
  coq = []
  for rec in recs:
    others = [o for _q, o in rec['queries'] + rec['offsets'] if o[0] == 'other']
    if rec['text'][0] == 'other' or others:
      ctx.bump('exception outside the model')
      ctx.broken('correspondence:textbuilder raised an exception the model does not have',
                 '%r: %r' % (rec['spec'], (others or [rec['text']])[0]))
      continue
    mapped = sum(1 for _q, o in rec['queries'] if o[0] == 'ok' and o[1] is not None)
    wf = well_formed(rec['spec'])
    ctx.count(rec['spec'], nontrivial=has_mechanism(rec['spec']) and mapped > 0,
              sample={'spec': rec['spec'], 'text': rec['text'][-1], 'queries': len(rec['queries'])},
              kind=('wf ' if wf else 'malformed ') + shape(rec['spec'])[:12])
    for _q, o in rec['queries']:
      ctx.bump('query ' + ('literal part' if o[0] == 'ok' and o[1] is None else
                           'mapped' if o[0] == 'ok' else o[0]))
    coq.append(case_lit(rec))
  bad = ctx.run_cases('tb', ['Grist.Model.TextBuilder'], 'check_case %s' % core.boollit(fixed), coq, shard=100)
  for i in bad[:5]:
    ctx.broken('correspondence:Model/TextBuilder.v differs from textbuilder.py', 'case %s' % coq[i][:1500])
  monitor_regexp(ctx)
  validate_translation(ctx)


def monitor_regexp(ctx):
  """The assumed facts about re.finditer behind make_regexp_patches: in range, ordered, non-overlapping,
  and the patches it makes are valid for the text."""
  import textbuilder
  rng = ctx.rng
  regexps = [re.compile(r) for r in (r'\$', r'a*', r'^', r'ab|b', r'(?m)^[ \t]*', r'\b', r'x?', r'[ab]+', r'$')]
  for _ in range(ctx.n(200, 2000)):
    text = rand_text(rng, 0, 12)
    rx = rng.choice(regexps)
    ps = textbuilder.make_regexp_patches(text, rx, rng.choice(['', 'R', lambda m: m.group(0) * 2]))
    ok = all(0 <= p.start <= p.end <= len(text) and text[p.start:p.end] == p.old_text for p in ps) and \
         all(a.end <= b.start and (a.start, a.end) != (b.start, b.end) for a, b in zip(ps, ps[1:]))
    ctx.bump('finditer monitor')
    if not ok:
      ctx.broken('monitor:make_regexp_patches returned an invalid or overlapping patch list',
                 '%r %r -> %r' % (text, rx.pattern, ps))
      break


# ------------------------------------------------------------------------------------------------
# search: the property's oracle (provenance reference) on the implementation

def has_cell(node, cell):
  return any(c is cell for c in node.cells)


def index_of(node, cell):
  for i, c in enumerate(node.cells):
    if c is cell:
      return i
  raise KeyError


def deletion_follows(node, last):
  """Is there a level at which a patch that deletes text starts right after the range's last character?"""
  if node.kind == 'T':
    return False
  if node.kind == 'R':
    q = index_of(node.kids[0], last)
    if any(s == q + 1 and e > s and new == '' for (s, e, _o, new) in node.spec[2]):
      return True
    return deletion_follows(node.kids[0], last)
  for k in node.kids:
    if has_cell(k, last):
      return deletion_follows(k, last)
  return False


def repaired_map_back(obj, q):
  """map_back_patch over the real objects and their real offset arrays, with the proposed repair of in_end."""
  import textbuilder
  s, e, old, new = q
  if isinstance(obj, textbuilder.Text):
    return (obj._text, obj._value, (s, e, old, new))
  if isinstance(obj, textbuilder.Replacer):
    a, b = obj.get_input_pos(s), obj.get_input_pos(e)
    if e > s:
      b = min(b, obj.get_input_pos(e - 1) + 1)
    return repaired_map_back(obj._in_builder, (a, b, obj._in_builder.get_text()[a:b], new))
  k = max(i for i, off in enumerate(obj._offsets) if off <= s)
  if k != max(i for i, off in enumerate(obj._offsets) if off <= e - 1):
    raise ValueError('spans')
  off = obj._offsets[k]
  return repaired_map_back(obj._parts[k], (s - off, e - off, old, new))


class Tie(Exception):
  pass


def rebuild(node, first, last, new_leaf_text, newlen):
  """The builder re-derived after the source edit: the patches of every Replacer before the range stay,
  those after it move by the change of length at that level, those inside it (they edited replaced text) go."""
  if node.kind == 'T':
    return ('T', new_leaf_text, node.spec[2])
  if node.kind == 'R':
    inner = node.kids[0]
    a, b = index_of(inner, first), index_of(inner, last) + 1
    delta = newlen - (b - a)
    ps = sorted(node.spec[2])
    moved = [p for p in ps if p[1] <= a] + [(p[0] + delta, p[1] + delta, p[2], p[3]) for p in ps if p[0] >= b]
    if sorted(moved) != moved:
      raise Tie()
    return ('R', rebuild(inner, first, last, new_leaf_text, newlen), moved)
  parts = []
  kids = iter(node.kids)
  for p in node.spec[1]:
    if isinstance(p, str):
      parts.append(p)
    else:
      k = next(kids)
      parts.append(rebuild(k, first, last, new_leaf_text, newlen) if has_cell(k, first) else p)
  return ('C', parts)


def top_part(ref, k):
  """Index of the top-level Combiner part holding output character k, and whether it is a str."""
  pos = 0
  kids = iter(ref.kids)
  for idx, p in enumerate(ref.spec[1]):
    n = len(p) if isinstance(p, str) else len(next(kids).cells)
    if pos <= k < pos + n:
      return idx, isinstance(p, str)
    pos += n
  raise KeyError


def judge(ref, q, o, obj=None):
  """Returns (kind, description) when the implementation's outcome `o` for query `q` on the well-formed
  builder `ref` contradicts the property, else (class-of-query, None)."""
  s, e, old, new = q
  n = len(ref.cells)
  if not (0 <= s < e <= n and ref.text[s:e] == old):
    return 'not-a-range', None
  first, last = ref.cells[s], ref.cells[e - 1]
  if ref.kind == 'C':
    (ps, lit_s), (pe, _l) = top_part(ref, s), top_part(ref, e - 1)
    if ps != pe:
      if o[0] != 'ValueError':
        return 'spanning-accepted', 'range %r spans parts %d..%d of a Combiner but gave %r' % ((s, e), ps, pe, o)
      return 'spanning', None
    if lit_s:
      if o != ('ok', None):
        return 'literal-part', 'range %r inside a str part gave %r, not None' % ((s, e), o)
      return 'literal', None
  if first[1] is None or last[1] is None:
    return 'generated-endpoint', None
  if first[1] != last[1]:
    if o[0] == 'ok':
      return 'spanning-accepted', 'range %r runs from Text %r to Text %r but was mapped: %r' % (
        (s, e), first[1], last[1], o[1])
    return 'spanning', None
  leaf = ref.leaf_text(first[1])
  i, j = first[2], last[2] + 1
  exact = all(c[1] == first[1] and c[2] == i + k for k, c in enumerate(ref.cells[s:e]))
  want = (leaf, first[1], (i, j, leaf[i:j], new))
  got = (o[1][0], o[1][1], tuple(o[1][2])) if o[0] == 'ok' and o[1] is not None else o
  if got != want:
    # the known failure mode, recognised narrowly: a deleting patch starts right after the range's last character
    # at some level, the range end alone went too far (or so far that a Combiner refused it), and the same
    # objects mapped with the proposed repair give exactly the expected patch
    too_far = (o[0] == 'ok' and o[1] is not None and got[:2] == want[:2] and got[2][0] == i and got[2][1] > j)
    if ((too_far or o[0] == 'ValueError') and obj is not None and deletion_follows(ref, last)
        and outcome(lambda: repaired_map_back(obj, q)) == ('ok', want)):
      return 'deletion-end', ('range %r = %r of the output comes from [%d,%d) of Text %r but maps back to %s: '
                              'the text deleted right after it is covered too' % (
                                (s, e), old, i, j, leaf,
                                '[%d,%d)' % got[2][:2] if too_far else 'ValueError (runs into the next part)'))
    return 'wrong-range', 'range %r of the output comes from [%d,%d) of Text %r, map_back_patch gave %r' % (
      (s, e), i, j, leaf, got)
  # commutation: edit the source with the returned patch, re-derive the builders, compare the texts
  try:
    spec2 = rebuild(ref, first, last, leaf[:i] + new + leaf[j:], len(new))
  except Tie:
    return ('exact' if exact else 'endpoints') + ' (sorted() tie, commutation skipped)', None
  t2 = outcome(lambda: build(spec2).get_text())
  if t2 != ('ok', ref.text[:s] + new + ref.text[e:]):
    return 'commutes', 'after applying the mapped patch to the source the output is %r, expected %r' % (
      t2, ref.text[:s] + new + ref.text[e:])
  return ('exact' if exact else 'endpoints'), None


def search(ctx):
  for rec in records(ctx):
    if rec['obj'] is None or not well_formed(rec['spec']):
      continue
    ref = Ref(rec['spec'])
    if rec['text'] != ('ok', ref.text):
      ctx.violation('text', 'get_text() = %r, applying the patches directly gives %r' % (rec['text'], ref.text),
                    {'spec': rec['spec'], 'query': None})
      continue
    if shape(rec['spec']).startswith('R') and 'C' not in shape(rec['spec']):
      # map_back_offset through a series of Replacers over a Text: a copied character maps to its source index
      for pos, o in rec['offsets']:
        if 0 <= pos < len(ref.cells) and ref.cells[pos][1] is not None:
          ctx.bump('oracle offset')
          if o != ('ok', ref.cells[pos][2]):
            ctx.violation('offset', 'map_back_offset(%d) = %r, the character is character %d of the Text' % (
              pos, o, ref.cells[pos][2]), {'spec': rec['spec'], 'query': None, 'offset': pos})
    for q, o in rec['queries']:
      kind, desc = judge(ref, q, o, rec['obj'])
      ctx.bump('oracle ' + kind)
      if desc:
        ctx.violation(kind, desc, {'spec': rec['spec'], 'query': list(q)})
    if sum(1 for v in ctx.violations if v['kind'] != 'deletion-end') > 50:
      break


def replay(ctx, w):
  import textbuilder
  spec = to_spec(w['spec'])
  if not well_formed(spec):
    return None
  ref = Ref(spec)
  built = outcome(lambda: build(spec))
  if built[0] != 'ok':
    return 'constructor raised %r' % (built,)
  if built[1].get_text() != ref.text:
    return 'get_text() = %r, applying the patches directly gives %r' % (built[1].get_text(), ref.text)
  if w.get('offset') is not None:
    o = outcome(lambda: built[1].map_back_offset(w['offset']))
    want = ref.cells[w['offset']][2]
    return None if o == ('ok', want) else 'map_back_offset(%d) = %r, expected %r' % (w['offset'], o, want)
  if not w.get('query'):
    return None
  q = tuple(w['query'])
  return judge(ref, q, outcome(lambda: built[1].map_back_patch(textbuilder.Patch(*q))), built[1])[1]


TECHNIQUE = ('Coq proof over code translated from textbuilder.py on every run (tb2v), bridged pointwise to an executable '
             'model; differential cases (vm_compute) of the translation and of the model against the real classes; '
             'provenance-tracking reference oracle on the implementation')
LEVEL_TEXT = ('Kernel-checked theorems for all texts, valid non-overlapping patch sets and nestings of '
              'Text/Replacer/Combiner: the Replacer text is the patches applied directly; with the proposed repair a '
              'range whose first and last characters are copied from one Text maps back to exactly their source '
              'range and editing the source with the mapped patch commutes with editing the output; the unchanged '
              'code is refuted at a deletion boundary (C37_refuted_deletion_end) and proved correct whenever no '
              'offset-table entry sits at the range end; Combiner refuses ranges spanning parts and returns None for '
              'str parts.')
LEVEL_NOTE = ('Trusted: Coq kernel, the tb2v translator and the Python primitives it targets (slices, bisect_right, '
              'sorted), both validated differentially each run; re.finditer facts (monitored). The bridging lemmas '
              'C37_gen_* / C37_code_* make the theorems statements about the regenerated code. Finding '
              'C37-deletion-end was repaired in the source (f1e7132); C37_refuted_deletion_end records the old code.')


# ------------------------------------------------------------------------------------------------
# the arithmetic core regenerated from the source on every run (harness/tb2v.py), and its differential check

def regenerate(ctx):
  try:
    text = tb2v.generate(os.path.join(core.GRIST, 'textbuilder.py'))
  except tb2v.Untranslatable as e:
    raise core.TieBroken('textbuilder.py is outside the translated subset: %s' % e)
  os.makedirs(os.path.join(core.COQ, 'gen'), exist_ok=True)
  core.write_if_changed(os.path.join(core.COQ, 'gen', 'TextBuilder_gen.v'), text)
  ctx.extra['regenerated'] = [sp.name for sp in tb2v.SPECS]


GEN_DEFS = '''Require Import Grist.Lib.TbPrelude GristGen.TextBuilder_gen.
Inductive tcase :=
| TMake (t : list Z) (s e : Z) (n : list Z) (exp : patch)
| TValidate (t : list Z) (p : patch) (exp : res unit)
| TText (t : list Z) (v : Z) (p : patch) (exp : res mapped)
| TInit (t : list Z) (ps : list patch) (exp : res (list Z * list Z * list Z))
| TPos (io oo : list Z) (k exp : Z)
| TMapBack (io oo out t : list Z) (p : patch) (exp : res mapped)
| TOffset (io oo : list Z) (flag : bool) (k : Z) (exp : res Z)
| TCInit (gps : list gpart) (exp : res (list Z * list Z))
| TCMap (txt offs : list Z) (strs : list bool) (p : patch) (exp : res mapped).
Definition unit_eqb (a b : unit) := true.
Definition init_eqb (a b : list Z * list Z * list Z) :=
  zlist_eqb (fst (fst a)) (fst (fst b)) && zlist_eqb (snd (fst a)) (snd (fst b)) && zlist_eqb (snd a) (snd b).
Definition cinit_eqb (a b : list Z * list Z) := zlist_eqb (fst a) (fst b) && zlist_eqb (snd a) (snd b).
Definition stub_part (strs : list bool) (i : Z) : gmpart :=
  if nth (Z.to_nat i) strs true then GMStr else GMBuilder (fun q => Ok (Some ([], i, q))).
Definition tcheck (c : tcase) : bool :=
  match c with
  | TMake t s e n exp => patch_eqb (gen_make_patch t s e n) exp
  | TValidate t p exp => res_eqb unit_eqb (gen_validate_patch t p) exp
  | TText t v p exp => res_eqb mapped_eqb (gen_text_map_back t v p) exp
  | TInit t ps exp => res_eqb init_eqb (gen_replacer_init t ps) exp
  | TPos io oo k exp => gen_get_input_pos io oo k =? exp
  | TMapBack io oo out t p exp =>
      res_eqb mapped_eqb (gen_replacer_map_back io oo out t (fun q => Ok (Some ([], 0, q))) p) exp
  | TOffset io oo flag k exp => res_eqb Z.eqb (gen_map_back_offset io oo flag (fun x => Ok (x + 1000)) k) exp
  | TCInit gps exp => res_eqb cinit_eqb (gen_combiner_init gps) exp
  | TCMap txt offs strs p exp => res_eqb mapped_eqb (gen_combiner_map_back txt offs (stub_part strs) p) exp
  end.
'''


def validate_translation(ctx):
  """Every translated function against the running function / method on generated inputs.  Other builders are
  replaced by stubs, so each method is exercised on its own (the Coq side gets the same stubs)."""
  import textbuilder
  rng = ctx.rng
  P = textbuilder.Patch

  class StubText(object):
    def __init__(self, text):
      self.text = text
    def get_text(self):
      return self.text
    def map_back_patch(self, patch):
      return ('', 0, patch)

  class StubReplacer(textbuilder.Replacer):          # isinstance(.., Replacer) is what map_back_offset asks
    def __init__(self, text):                        # pylint: disable=super-init-not-called
      self.text = text
    def get_text(self):
      return self.text
    def map_back_offset(self, out_pos):
      return out_pos + 1000

  class StubPart(object):
    def __init__(self, text, idx):
      self.text, self.idx = text, idx
    def get_text(self):
      return self.text
    def map_back_patch(self, patch):
      return ('', self.idx, patch)

  S, Zl = core.strlit, core.zlist
  cases = []
  def add(kind, term, out):
    ctx.bump('translation ' + kind)
    if out[0] != 'other':
      cases.append(term)
    else:
      ctx.bump('translation case skipped (exception outside the model)')
  rand_patch = lambda t: (lambda s: (s, rng.randint(s, len(t) + 1), t[s:rng.randint(s, len(t) + 1)] if rng.random() < .3
                                     else None, rand_text(rng, 0, 2)))(rng.randint(-1, len(t) + 1))
  def some_patch(t):
    s, e, old, new = rand_patch(t)
    return (s, e, t[s:e] if old is None else old, new)
  for _ in range(ctx.n(120, 1500)):
    t = rand_text(rng, 0, 9)
    s, e, new = rng.randint(-2, len(t) + 2), rng.randint(-2, len(t) + 2), rand_text(rng, 0, 2)
    add('make_patch', '(TMake %s %s %s %s %s)' % (S(t), core.zlit(s), core.zlit(e), S(new),
                                                 patch_lit(tuple(textbuilder.make_patch(t, s, e, new)))), ('ok',))
    p = some_patch(t)
    o = outcome(lambda: textbuilder.validate_patch(t, P(*p)))
    add('validate_patch', '(TValidate %s %s %s)' % (S(t), patch_lit(p), res_lit(o, lambda _x: 'tt')), o)
    o = outcome(lambda: textbuilder.Text(t, 5).map_back_patch(P(*p)))
    add('Text.map_back_patch', '(TText %s 5%%Z %s %s)' % (S(t), patch_lit(p), res_lit(o, mapped_lit)), o)
    # Replacer over a stub input builder
    ps = gen_bad_patches(rng, t) if rng.random() < 0.25 else gen_patches(rng, t)
    flag = rng.random() < 0.5
    built = outcome(lambda: textbuilder.Replacer((StubReplacer if flag else StubText)(t), [P(*q) for q in ps]))
    init_lit = lambda r: '(%s, %s, %s)' % (Zl(r._input_offsets), Zl(r._output_offsets), S(r._output_text))
    add('Replacer.__init__', '(TInit %s %s %s)' % (S(t), core.coq_list([patch_lit(q) for q in ps]),
                                                  res_lit(built, init_lit)), built)
    if built[0] == 'ok':
      r = built[1]
      io, oo, out = Zl(r._input_offsets), Zl(r._output_offsets), r._output_text
      for k in sorted(set([rng.randint(0, len(out) + 1) for _ in range(3)] + r._output_offsets)):
        add('get_input_pos', '(TPos %s %s %s %s)' % (io, oo, core.zlit(k), core.zlit(r.get_input_pos(k))), ('ok',))
        o = outcome(lambda: r.map_back_offset(k))
        add('map_back_offset', '(TOffset %s %s %s %s %s)' % (io, oo, core.boollit(flag), core.zlit(k),
                                                             res_lit(o, core.zlit)), o)
      if not flag:
        for _k in range(4):
          q = some_patch(out)
          if rng.random() < 0.5 and r._output_offsets[1:]:
            m = rng.choice(r._output_offsets[1:])             # a range ending at an offset-table entry
            if 0 < m <= len(out):
              s0 = rng.randint(0, m - 1)
              q = (s0, m, out[s0:m], 'z')
          o = outcome(lambda: r.map_back_patch(P(*q)))
          add('Replacer.map_back_patch', '(TMapBack %s %s %s %s %s %s)' % (
            io, oo, S(out), S(t), patch_lit(q), res_lit(o, mapped_lit)), o)
    # Combiner over str parts and stub builders
    parts = [rand_text(rng, 0, 3) if rng.random() < 0.5 else StubPart(rand_text(rng, 0, 4), i)
             for i in range(rng.randint(0, 4))]
    c = textbuilder.Combiner(parts)
    gps = core.coq_list(['(GStr %s)' % S(x) if isinstance(x, str) else '(GBuilder %s)' % S(x.text) for x in parts])
    add('Combiner.__init__', '(TCInit %s (Ok (%s, %s)))' % (gps, Zl(c._offsets), S(c._text)), ('ok',))
    for _k in range(4):
      q = some_patch(c._text)
      o = outcome(lambda: c.map_back_patch(P(*q)))
      add('Combiner.map_back_patch', '(TCMap %s %s %s %s %s)' % (
        S(c._text), Zl(c._offsets), core.coq_list([core.boollit(isinstance(x, str)) for x in parts]),
        patch_lit(q), res_lit(o, mapped_lit)), o)
  bad = ctx.run_cases('gen', ['Grist.Model.TextBuilder'], 'tcheck', cases, shard=400, extra_defs=GEN_DEFS)
  for i in bad[:5]:
    ctx.broken('translation:code generated by tb2v differs from the running textbuilder.py', cases[i][:1200])
