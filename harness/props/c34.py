"""C34 -- Time zone conversions round-trip (moment.py: Zone, TzInfo, ts_to_dt, dt_to_ts, date_to_ts; tzdata.data)."""
import datetime as _dt
import math
import os
import re

from harness import core, py2v

ID = 'C34'
TITLE = 'Time zone conversions round-trip'
PROPS = ['Props/C34']
DISABLED = True
PROOF_TIMEOUT = 1500

NSHARDS = 8
US = _dt.timedelta(microseconds=1)

# ---------------------------------------------------------------------------------------------
# translation of the integer core of moment.Zone (py2v), and of the zone data

Z = 'Z'
LZ = ('L', 'Z')
OZ = ('O', 'Z')
ZONE = ('R', 'zone')
_COMMON = {
  'records': {'zone': {'untils': ('z_untils', LZ), 'offsets': ('z_offsets', LZ),
                       'offset_untils': ('z_offset_untils', LZ)}},
  'getitem': 'py_getitem oob__',
  'allow_defaults': True,
  'funcs': {
    'bisect.bisect_right': ('py_bisect_right', [LZ, Z], Z),
    'utc_to_ts_ms': ('py_utc_to_ts_ms', [Z], Z),
    'timedelta(minutes)': ('py_timedelta_minutes', [Z], Z),
    'self._index_dt': ('zone_index_dt oob__ self', [Z, OZ], Z),
    'self._index': ('zone_index oob__ self', [Z], Z),
  },
}
OOB = [('oob__', Z)]


def _b(**kw):
  d = dict(_COMMON)
  d.update(kw)
  return d


TRANSLATED = [
  ('Zone._index', _b(params=[('self', ZONE), ('timestamp', Z)], returns=Z, coq_name='zone_index', extra_params=OOB)),
  ('Zone._index_dt', _b(params=[('self', ZONE), ('dt', Z), ('favor_offset', OZ)], returns=Z,
                        coq_name='zone_index_dt', extra_params=OOB)),
  ('Zone.offset', _b(params=[('self', ZONE), ('timestamp_ms', Z)], returns=Z, coq_name='zone_offset',
                     extra_params=OOB)),
  ('Zone.dt_offset', _b(params=[('self', ZONE), ('dt', Z), ('favor_offset', OZ)], returns=Z,
                        coq_name='zone_dt_offset', extra_params=OOB)),
]


def translate_code():
  src = os.path.join(core.GRIST, 'moment.py')
  parts = [(py2v.PRELUDE % {'src': src + ': Zone.__init__ (offset_untils), _index, _index_dt, offset, dt_offset'})
           .replace('Require Import Grist.Lib.PyPrelude.',
                    'Require Import Grist.Lib.PyPrelude Grist.Lib.PyList Grist.Model.Moment.')]
  try:
    parts.append(py2v.translate_assign_value(
      src, 'Zone.__init__', 'self.offset_untils',
      _b(params=[('self', ZONE)], returns=LZ, coq_name='zone_init_offset_untils')))
    for qual, binding in TRANSLATED:
      parts.append(py2v.translate_body(src, qual, binding))
  except py2v.Untranslatable as e:
    raise core.TieBroken('moment.py is outside the translated subset: %s' % e)
  except SyntaxError as e:
    raise core.TieBroken('moment.py does not parse: %s' % e)
  return '\n'.join(parts)


def coq_name(zone_name):
  s = zone_name.replace('+', 'p').replace('-', 'm')
  return 'tz_' + re.sub(r'[^A-Za-z0-9]', '_', s)


class ZoneData(object):
  """What the running code uses for one zone, as exact integers (ms), or TieBroken if it is not integral."""
  def __init__(self, name, moment):
    z = moment.Zone(name)
    self.name = name
    self.zone = z
    n = len(z.untils)
    if len(z.offsets) != n + 1:
      raise core.TieBroken('%s: %d offsets for %d untils' % (name, len(z.offsets), n))
    self.untils = []
    for u in z.untils:
      if isinstance(u, float) and (math.isinf(u) or math.isnan(u) or u != int(u)):
        raise core.TieBroken('%s: until %r is not a whole number of ms' % (name, u))
      if abs(u) >= 2 ** 41:
        raise core.TieBroken('%s: until %r beyond 2^41 ms (float comparisons no longer exact to 1 us)' % (name, u))
      self.untils.append(int(u))
    self.offsets = []        # ms, positive = west (the sign convention of the data)
    for o in z.offsets:
      td = _dt.timedelta(minutes=-o)        # what Zone.offset / dt_offset return
      us = td // US
      if us % 1000:
        raise core.TieBroken('%s: offset %r is not a whole number of ms' % (name, o))
      self.offsets.append(-us // 1000)
    # the float expressions of the code must evaluate to exactly the integers of the model
    for k in range(n):
      if z.offset_untils[k] != self.untils[k] - self.offsets[k]:
        raise core.TieBroken('%s: offset_untils[%d] = %r, integer model has %r' % (
          name, k, z.offset_untils[k], self.untils[k] - self.offsets[k]))
      if z.untils[k] - z.offsets[k + 1] * 60000 != self.untils[k] - self.offsets[k + 1]:
        raise core.TieBroken('%s: untils[%d] - offsets[%d]*60000 is not integral' % (name, k, k + 1))


_ZONES = {}


def zone_data(reload=False):
  """All bundled zones in name order."""
  key = core.GRIST
  if key not in _ZONES or reload:
    import moment
    names = sorted(moment.get_tz_data())
    seen = {}
    for nm in names:
      c = coq_name(nm)
      if c in seen:
        raise core.TieBroken('zone names %r and %r collide' % (nm, seen[c]))
      seen[c] = nm
    _ZONES[key] = [ZoneData(nm, moment) for nm in names]
  return _ZONES[key]


def regenerate(ctx):
  gen = os.path.join(core.COQ, 'gen')
  os.makedirs(gen, exist_ok=True)
  core.write_if_changed(os.path.join(gen, 'Moment_gen.v'), translate_code())
  zones = zone_data(reload=True)
  total = sum(len(z.untils) + 8 for z in zones)
  shards = [[] for _ in range(NSHARDS)]
  acc = 0
  for z in zones:
    shards[min(NSHARDS - 1, acc * NSHARDS // total)].append(z)
    acc += len(z.untils) + 8
  head = ('(* GENERATED by /verif/harness/props/c34.py from %s -- do not edit; regenerated on every run.\n'
          '   Per zone: untils and offsets in ms (offsets positive = west, as in the data), as the running\n'
          '   moment.Zone object holds them. *)\n'
          'From Coq Require Import ZArith List.\nImport ListNotations.\n'
          'Require Import Grist.Model.Moment Grist.Model.MomentTz.\nOpen Scope Z_scope.\n\n'
          % os.path.join(core.GRIST, 'tzdata.data'))
  for k, part in enumerate(shards, 1):
    lines = [head]
    for z in part:
      lines.append('(* %s *)\nDefinition %s : zone := tz_of_ms\n  %s\n  %s.\n' % (
        z.name, coq_name(z.name), core.zlist(z.untils), core.zlist(z.offsets)))
    lines.append('Definition zones_shard_%d : list zone :=\n  [%s].\n' % (
      k, ';\n   '.join(coq_name(z.name) for z in part)))
    core.write_if_changed(os.path.join(gen, 'Tzdata_gen%d.v' % k), '\n'.join(lines))
  imports = ' '.join('GristGen.Tzdata_gen%d' % k for k in range(1, NSHARDS + 1))
  agg = (head.replace('Require Import Grist.Model.Moment Grist.Model.MomentTz.',
                      'Require Import Grist.Model.Moment Grist.Model.MomentTz.\nRequire Export %s.' % imports) +
         'Definition bundled_zones : list zone :=\n  %s.\n\nDefinition bundled_zone_count : Z := %d.\n'
         'Definition bundled_transition_count : Z := %d.\n' % (
           ' ++ '.join('zones_shard_%d' % k for k in range(1, NSHARDS + 1)), len(zones),
           sum(len(z.untils) for z in zones)))
  core.write_if_changed(os.path.join(gen, 'Tzdata_gen.v'), agg)
  ctx.extra['zones'] = len(zones)
  ctx.extra['transitions'] = sum(len(z.untils) for z in zones)
