"""C34 -- Time zone conversions round-trip (moment.py: Zone, TzInfo, ts_to_dt, dt_to_ts, date_to_ts; tzdata.data)."""
import datetime as _dt
import math
import os
import re

from harness import core, mo2v, py2v

ID = 'C34'
TITLE = 'Time zone conversions round-trip'
PROPS = ['Props/C34']
PROOF_TIMEOUT = 1500
RULE = ('instants at -2h, -1h-1us, -1h, -1s, -1us, 0, +1us, +1s, +1h-1us, +1h, +2h around transitions (every transition of '
        'every zone in the thorough tier; all of America/New_York plus 200 random transitions in quick), random '
        'instants 1900-2040 and far instants (years 2, 9998, +-2^31 s) for every zone; local times at -2h, -1s, -1us, 0, '
        '+1us, +1s, +2h around both local breakpoints of those transitions (local end of the old interval, local start '
        'of the new one) and the middle of the gap/overlap, each with favor None, old offset, new offset (sometimes an '
        'unrelated one); the dates around those transitions and random dates, with and without zone. A case is '
        'non-trivial when it lies within 2 h (instants) / 26 h (random local times) of a transition; date cases are '
        'counted non-trivial because they are taken at transitions.')
TRUSTED = ['translators harness/py2v.py (Zone._index, _index_dt, offset, dt_offset, offset_untils expression) and '
           'harness/mo2v.py (utc_to_ts_ms, TzInfo.utcoffset, TzInfo.fromutc, ts_to_dt, dt_to_ts, ts_to_date, date_to_ts): '
           'fail-closed, run on every run, validated on every run by evaluating the GENERATED definitions (vm_compute) '
           'and the running functions on the same arguments',
           'Model/MomentDt.v + the CPython glue emitted by mo2v: datetime/timedelta/date arithmetic over integer ticks '
           '(replace, +, -, date(), utcoffset() dispatch, astimezone = fromutc of (self - utcoffset); the shortcut '
           '`tz is self.tzinfo` of astimezone and naive.astimezone are not modelled), compared with real datetime '
           'objects on every run; module constants and caching glue (EPOCH, EPOCH_UTC, TZ_UTC, get_zone, tzinfo, '
           'get_tzinfo, TzInfo.__init__, signatures) are pinned by AST equality',
           'Model/MomentTz.v (hand model) is no longer trusted: every function in it is proved pointwise equal to the '
           'generated one (Proofs/Moment_bridge.v) and the property is restated about the generated functions',
           'Lib/PyList.v: py_bisect_right is CPython\'s bisect_right loop; py_getitem yields an arbitrary value `oob` '
           'where Python raises IndexError (theorems hold for every oob, and C34_subscripts_in_range shows guarded '
           'subscripts are in range)',
           'time is exact integers (unit 1/60 us): float rounding of timedelta(seconds=ts)/total_seconds() and of '
           'utc_to_ts_ms (below 1 us for |t| < 2^32 s, exact at whole seconds) is outside the model; the generator '
           'refuses data whose untils/offsets are not whole ms or whose float expressions are not exact',
           'correspondence cases are written as Coq primitive 63-bit integers (Uint63) and converted to Z inside '
           'vm_compute; no theorem depends on them']
ASSUMPTIONS = ['zoned date round trip: the date exists in the zone (decidable date_exists; false only for the whole days '
               'skipped at date-line changes, where no instant has that date)',
               'zone data = the 594 zones of tzdata.data as moment.Zone holds them at run time (regenerated each run)',
               'timestamps are exact multiples of 1 us; every integer instant is covered, no range bound']
TECHNIQUE = ('Coq proof over code translated from source on every run (py2v: Zone core; mo2v: datetime level, bridged '
             'pointwise to the hand model) and zone data regenerated from tzdata.data on every '
             'run (vm_compute over all zones) + differential cases against real datetime objects + impl oracle')
LEVEL_TEXT = ('Kernel-checked theorems: every bundled zone passes a boolean interval check (vm_compute over the regenerated '
              'data) that is proved to imply dt_to_ts(ts_to_dt(ts, zone)) = ts for ALL integer instants, that every local '
              'time (ambiguous, skipped, any favor) gets the offset in effect at the instant it is mapped to or, when '
              'skipped, the offset starting at the transition whose gap it falls in, the UTC date round trip, and the zoned '
              'date round trip (date_to_ts after fix 8feac94) for every bundled zone and every date that exists in the zone '
              '(a second boolean per-zone check, vm_compute over the data); 7 zone/date pairs are whole skipped days.')
LEVEL_NOTE = ('Trusted: Coq kernel + vm_compute, the two translators and the CPython datetime primitives (validated '
              'differentially each run), float rounding outside the integer model.')

NSHARDS = 8
US = _dt.timedelta(microseconds=1)

# ---------------------------------------------------------------------------------------------
# translation of the integer core of moment.Zone (py2v), and of the zone data

Z = 'Z'
LZ = ('L', 'Z')
OZ = ('O', 'Z')
ZONE = ('R', 'zone')
_COMMON = {
  'records': {'zone': {'untils': ('z_untils', LZ), 'offsets': ('z_offsets', LZ),
                       'offset_untils': ('z_offset_untils', LZ)}},
  'getitem': 'py_getitem oob__',
  'allow_defaults': True,
  'funcs': {
    'bisect.bisect_right': ('py_bisect_right', [LZ, Z], Z),
    'utc_to_ts_ms': ('py_utc_to_ts_ms', [Z], Z),
    'timedelta(minutes)': ('py_timedelta_minutes', [Z], Z),
    'self._index_dt': ('zone_index_dt oob__ self', [Z, OZ], Z),
    'self._index': ('zone_index oob__ self', [Z], Z),
  },
}
OOB = [('oob__', Z)]


def _b(**kw):
  d = dict(_COMMON)
  d.update(kw)
  return d


TRANSLATED = [
  ('Zone._index', _b(params=[('self', ZONE), ('timestamp', Z)], returns=Z, coq_name='zone_index', extra_params=OOB)),
  ('Zone._index_dt', _b(params=[('self', ZONE), ('dt', Z), ('favor_offset', OZ)], returns=Z,
                        coq_name='zone_index_dt', extra_params=OOB)),
  ('Zone.offset', _b(params=[('self', ZONE), ('timestamp_ms', Z)], returns=Z, coq_name='zone_offset',
                     extra_params=OOB)),
  ('Zone.dt_offset', _b(params=[('self', ZONE), ('dt', Z), ('favor_offset', OZ)], returns=Z,
                        coq_name='zone_dt_offset', extra_params=OOB)),
]


def translate_code():
  src = os.path.join(core.GRIST, 'moment.py')
  parts = [(py2v.PRELUDE % {'src': src + ': Zone.__init__ (offset_untils), _index, _index_dt, offset, dt_offset'})
           .replace('Require Import Grist.Lib.PyPrelude.',
                    'Require Import Grist.Lib.PyPrelude Grist.Lib.PyList Grist.Model.Moment.')]
  try:
    parts.append(py2v.translate_assign_value(
      src, 'Zone.__init__', 'self.offset_untils',
      _b(params=[('self', ZONE)], returns=LZ, coq_name='zone_init_offset_untils')))
    for qual, binding in TRANSLATED:
      parts.append(py2v.translate_body(src, qual, binding))
  except py2v.Untranslatable as e:
    raise core.TieBroken('moment.py is outside the translated subset: %s' % e)
  except SyntaxError as e:
    raise core.TieBroken('moment.py does not parse: %s' % e)
  return '\n'.join(parts)


def coq_name(zone_name):
  s = zone_name.replace('+', 'p').replace('-', 'm')
  return 'tz_' + re.sub(r'[^A-Za-z0-9]', '_', s)


class ZoneData(object):
  """
  What the running code uses for one zone, as exact integers (ms).  `problems` lists what keeps the integer model
  from being exact for this zone (regenerate/correspond then report a broken tie; search still runs).
  """
  def __init__(self, name, moment):
    z = moment.Zone(name)
    self.name = name
    self.zone = z
    self.problems = []
    n = len(z.untils)
    if len(z.offsets) != n + 1:
      self.problems.append('%s: %d offsets for %d untils' % (name, len(z.offsets), n))
    self.untils = []
    for u in z.untils:
      if isinstance(u, float) and (math.isinf(u) or math.isnan(u)):
        self.problems.append('%s: until %r' % (name, u))
        continue
      if u != int(u):
        self.problems.append('%s: until %r is not a whole number of ms' % (name, u))
      if abs(u) >= 2 ** 41:
        self.problems.append('%s: until %r beyond 2^41 ms (float comparisons no longer exact to 1 us)' % (name, u))
      self.untils.append(int(u))
    self.offsets = []        # ms, positive = west (the sign convention of the data)
    for o in z.offsets:
      td = _dt.timedelta(minutes=-o)        # what Zone.offset / dt_offset return
      us = td // US
      if us % 1000:
        self.problems.append('%s: offset %r is not a whole number of ms' % (name, o))
      self.offsets.append(-us // 1000)
    # the float expressions of the code must evaluate to exactly the integers of the model
    for k in range(min(n, len(self.untils), len(self.offsets) - 1, len(z.offset_untils))):
      if z.offset_untils[k] != self.untils[k] - self.offsets[k]:
        self.problems.append('%s: offset_untils[%d] = %r, integer model has %r' % (
          name, k, z.offset_untils[k], self.untils[k] - self.offsets[k]))
      if z.untils[k] - z.offsets[k + 1] * 60000 != self.untils[k] - self.offsets[k + 1]:
        self.problems.append('%s: untils[%d] - offsets[%d]*60000 is not integral' % (name, k, k + 1))
    if len(z.offset_untils) != n:
      self.problems.append('%s: %d offset_untils for %d untils' % (name, len(z.offset_untils), n))


def data_problems(zones):
  return [p for z in zones for p in z.problems]


_ZONES = {}


def zone_data(reload=False):
  """All bundled zones in name order."""
  key = core.GRIST
  if key not in _ZONES or reload:
    import moment
    names = sorted(moment.get_tz_data())
    seen = {}
    for nm in names:
      c = coq_name(nm)
      if c in seen:
        raise core.TieBroken('zone names %r and %r collide' % (nm, seen[c]))
      seen[c] = nm
    _ZONES[key] = [ZoneData(nm, moment) for nm in names]
  return _ZONES[key]


def regenerate(ctx):
  gen = os.path.join(core.COQ, 'gen')
  os.makedirs(gen, exist_ok=True)
  core.write_if_changed(os.path.join(gen, 'Moment_gen.v'), translate_code())
  try:
    text = mo2v.translate_module(os.path.join(core.GRIST, 'moment.py'))
  except mo2v.Untranslatable as e:
    raise core.TieBroken('moment.py (datetime level) is outside the translated subset: %s' % e)
  core.write_if_changed(os.path.join(gen, 'MomentDt_gen.v'), text)
  zones = zone_data(reload=True)
  if data_problems(zones):
    raise core.TieBroken('zone data outside the exact integer model: ' + '; '.join(data_problems(zones)[:5]))
  total = sum(len(z.untils) + 8 for z in zones)
  shards = [[] for _ in range(NSHARDS)]
  acc = 0
  for z in zones:
    shards[min(NSHARDS - 1, acc * NSHARDS // total)].append(z)
    acc += len(z.untils) + 8
  head = ('(* GENERATED by /verif/harness/props/c34.py from %s -- do not edit; regenerated on every run.\n'
          '   Per zone: untils and offsets in ms (offsets positive = west, as in the data), as the running\n'
          '   moment.Zone object holds them. *)\n'
          'From Coq Require Import ZArith List.\nImport ListNotations.\n'
          'Require Import Grist.Model.Moment Grist.Model.MomentTz.\nOpen Scope Z_scope.\n\n'
          % os.path.join(core.GRIST, 'tzdata.data'))
  for k, part in enumerate(shards, 1):
    lines = [head]
    for z in part:
      lines.append('(* %s *)\nDefinition %s : zone := tz_of_ms\n  %s\n  %s.\n' % (
        z.name, coq_name(z.name), core.zlist(z.untils), core.zlist(z.offsets)))
    lines.append('Definition zones_shard_%d : list zone :=\n  [%s].\n' % (
      k, ';\n   '.join(coq_name(z.name) for z in part)))
    core.write_if_changed(os.path.join(gen, 'Tzdata_gen%d.v' % k), '\n'.join(lines))
  imports = ' '.join('GristGen.Tzdata_gen%d' % k for k in range(1, NSHARDS + 1))
  agg = (head.replace('Require Import Grist.Model.Moment Grist.Model.MomentTz.',
                      'Require Import Grist.Model.Moment Grist.Model.MomentTz.\nRequire Export %s.' % imports) +
         'Definition bundled_zones : list zone :=\n  %s.\n\nDefinition bundled_zone_count : Z := %d.\n'
         'Definition bundled_transition_count : Z := %d.\n' % (
           ' ++ '.join('zones_shard_%d' % k for k in range(1, NSHARDS + 1)), len(zones),
           sum(len(z.untils) for z in zones)))
  core.write_if_changed(os.path.join(gen, 'Tzdata_gen.v'), agg)
  ctx.extra['zones'] = len(zones)
  ctx.extra['transitions'] = sum(len(z.untils) for z in zones)


# ---------------------------------------------------------------------------------------------
# the implementation, driven with real datetime/timedelta objects; all values exact integers (microseconds)

def _m():
  import moment
  return moment


def td_us(td):
  return None if td is None else td // US


def naive_us(dt):
  return (dt.replace(tzinfo=None) - _m().EPOCH) // US


def us_naive(us):
  return _m().EPOCH + _dt.timedelta(microseconds=us)


def ts_value(t_us):
  """The timestamp (seconds) to hand to ts_to_dt for the instant t_us: int when whole, else the float."""
  if t_us % 1000000 == 0:
    return t_us // 1000000
  ts = t_us / 1e6
  return ts if _dt.timedelta(seconds=ts) == _dt.timedelta(microseconds=t_us) else None


def impl_utc(zd, t_us):
  """ts_to_dt / dt_to_ts of the implementation at the instant t_us. Returns a dict of exact integers."""
  m = _m()
  zone = zd.zone
  ts = ts_value(t_us)
  if ts is not None:
    dt = m.ts_to_dt(ts, zone)
  else:      # float seconds cannot express this instant: same steps as ts_to_dt with an exact timedelta
    dt = (m.EPOCH_UTC + _dt.timedelta(microseconds=t_us)).astimezone(zone.get_tzinfo(None))
  off = dt.utcoffset()
  back = dt.replace(tzinfo=None) - off - m.EPOCH      # dt_to_ts's expression before .total_seconds()
  real_back = m.dt_to_ts(dt)
  favor = getattr(dt.tzinfo, '_favor_offset', None)
  return {'ts': ts, 'local': naive_us(dt), 'favor': td_us(favor), 'off': td_us(off), 'back': back // US,
          'back_seconds_ok': real_back == back.total_seconds(), 'real_back': real_back,
          'index': zone._index(m.utc_to_ts_ms(us_naive(t_us)))}


def impl_local(zd, l_us, favor_us):
  """Zone._index_dt / dt_offset / TzInfo.utcoffset / dt_to_ts for the naive local time l_us with a favor."""
  m = _m()
  zone = zd.zone
  favor = None if favor_us is None else _dt.timedelta(microseconds=favor_us)
  naive = us_naive(l_us)
  idx = zone._index_dt(naive, favor)
  off = zone.dt_offset(naive, favor)
  aware = naive.replace(tzinfo=zone.get_tzinfo(favor))
  off2 = aware.utcoffset()
  ts = m.dt_to_ts(aware) if favor is not None else m.dt_to_ts(naive, zone)
  exact = naive - off - m.EPOCH
  return {'index': idx, 'off': td_us(off), 'off_tzinfo': td_us(off2), 'ts_us': exact // US,
          'ts_ok': ts == exact.total_seconds()}


# ---------------------------------------------------------------------------------------------
# independent oracle from the raw tzdata records (linear scans, exact integers; no moment.Zone code)

class Raw(object):
  def __init__(self, name):
    rec = _m().get_tz_data()[name]
    self.untils = [int(u) * 1000 for u in rec.untils if not math.isinf(u)]      # us
    self.east = []                                                                # us, east positive
    for o in rec.offsets:
      s = round(o * 60)
      if abs(o * 60 - s) > 1e-6:
        raise core.TieBroken('%s: offset %r minutes is not a whole number of seconds' % (name, o))
      self.east.append(-s * 1000000)
    self.n = len(self.untils)

  def index(self, t_us):
    k = 0
    while k < self.n and self.untils[k] <= t_us:
      k += 1
    return k

  def local_candidates(self, l_us):
    """Intervals k in which some instant renders as the local time l_us."""
    out = []
    for k in range(self.n + 1):
      t = l_us - self.east[k]
      if (k == 0 or self.untils[k - 1] <= t) and (k == self.n or t < self.untils[k]):
        out.append(k)
    return out

  def date_exists(self, days):
    """Some instant renders on the local date `days` (false when the zone skipped the whole day)."""
    lo, hi = days * 86400 * 1000000, (days + 1) * 86400 * 1000000
    for k in range(self.n + 1):
      a = -float('inf') if k == 0 else self.untils[k - 1] + self.east[k]
      b = float('inf') if k == self.n else self.untils[k] + self.east[k]
      if a < hi and lo < b and a < b:
        return True
    return False

  def gap_of(self, l_us):
    """Transition g whose gap holds the skipped local time l_us (local end of g <= l < local start of g+1)."""
    for g in range(self.n):
      if self.untils[g] + self.east[g] <= l_us < self.untils[g] + self.east[g + 1]:
        return g
    return None


_RAW = {}


def raw(name):
  key = (core.GRIST, name)
  if key not in _RAW:
    _RAW[key] = Raw(name)
  return _RAW[key]


def oracle_roundtrip(zd, t_us):
  """ts -> ts_to_dt -> dt_to_ts on the implementation, with the very functions and a real timestamp."""
  m = _m()
  ts = ts_value(t_us)
  if ts is None:
    return None
  back = m.dt_to_ts(m.ts_to_dt(ts, zd.zone))
  if back != ts:
    return 'dt_to_ts(ts_to_dt(%r, %s)) = %r' % (ts, zd.name, back)
  return None


def oracle_local(zd, l_us, favor_us):
  """The offset assigned to a local time is one the zone uses around it (raw data, linear scan)."""
  m = _m()
  r = raw(zd.name)
  favor = None if favor_us is None else _dt.timedelta(microseconds=favor_us)
  off = td_us(us_naive(l_us).replace(tzinfo=zd.zone.get_tzinfo(favor)).utcoffset())
  cands = r.local_candidates(l_us)
  if cands:
    allowed = sorted({r.east[k] for k in cands})
    if off not in allowed:
      return 'local %s in %s (favor %r) gets offset %r us; the instants rendering as it have %r' % (
        us_naive(l_us), zd.name, favor_us, off, allowed)
    return None
  g = r.gap_of(l_us)
  if g is None:
    return 'local %s in %s is neither a local time of an interval nor in a gap (oracle)' % (us_naive(l_us), zd.name)
  if off not in (r.east[g], r.east[g + 1]):
    return 'skipped local %s in %s gets offset %r us; the transition has %r -> %r' % (
      us_naive(l_us), zd.name, off, r.east[g], r.east[g + 1])
  return None


# the failure mode of the finding repaired by 8feac94 (entry C34-date-to-ts-zone-offset, now 'fixed': it
# suppresses nothing, so a regression is a VIOLATION again)
KNOWN_DATE_KIND = 'date-zone:offset-taken-at-utc-midnight'


def oracle_date_zone(zd, days):
  """date -> date_to_ts(date, zone) -> ts_to_dt(.., zone).date(). Returns (kind, description) or None."""
  m = _m()
  d = m.DATE_EPOCH + _dt.timedelta(days=days)
  ts = m.date_to_ts(d, zd.zone)
  got = m.ts_to_dt(ts, zd.zone)
  if got.date() == d:
    return None
  r = raw(zd.name)
  if not r.date_exists(days):
    return None          # the zone skipped this whole day (date line change): no instant has this date
  mid = days * 86400 * 1000000
  e_mid = r.east[r.index(mid)]
  t_us = round(ts * 1000000)
  what = 'date_to_ts(%s, %s) = %r which is %s local' % (d, zd.name, ts, got.replace(tzinfo=None))
  if t_us == mid - e_mid and r.east[r.index(t_us)] != e_mid:
    # exactly the known mechanism: the offset in effect at UTC midnight is not the one at the result
    return KNOWN_DATE_KIND, what
  return 'date-zone:other', what


def oracle_date_utc(days):
  m = _m()
  d = m.DATE_EPOCH + _dt.timedelta(days=days)
  ts = m.date_to_ts(d)
  if ts != days * 86400:
    return 'date_to_ts(%s) = %r' % (d, ts)
  for extra in ((0, 1, 43200, 86399, 86399.999999) if abs(days) < 40000 else (0, 1, 43200, 86399)):
    if m.ts_to_date(ts + extra) != d:
      return 'ts_to_date(date_to_ts(%s) + %r) = %s' % (d, extra, m.ts_to_date(ts + extra))
  return None


# ---------------------------------------------------------------------------------------------
# case generation

H = 3600 * 1000000
UTC_DELTAS = [-2 * H, -H - 1, -H, -1000000, -1, 0, 1, 1000000, H - 1, H, 2 * H]
LOCAL_DELTAS = [-2 * H, -1000000, -1, 0, 1, 1000000, 2 * H]
FEATURED = ['America/New_York', 'America/Los_Angeles', 'Australia/Sydney', 'Europe/London', 'UTC',
            'Africa/Abidjan', 'America/Caracas', 'Australia/Lord_Howe', 'Asia/Kathmandu', 'Pacific/Apia',
            'America/Sao_Paulo', 'Asia/Beirut', 'Europe/Dublin', 'Africa/Casablanca', 'Antarctica/Troll']


def pick_transitions(ctx, zones):
  """(zone, k) pairs: every transition in the thorough tier; featured zones + a random sample in quick."""
  allp = [(zd, k) for zd in zones for k in range(len(zd.untils))]
  if ctx.tier == 'thorough':
    return allp
  feat = [(zd, k) for zd in zones if zd.name in FEATURED[:1] for k in range(len(zd.untils))]
  rest = ctx.rng.sample(allp, min(len(allp), 200))
  return feat + rest


def utc_instants(ctx, zones, trans):
  """[(zone, t_us, near)]: around every picked transition, plus random and far instants for every zone."""
  out = []
  for zd, k in trans:
    u = zd.untils[k] * 1000
    for d in UTC_DELTAS:
      out.append((zd, u + d, True))
  lo, hi = -2208988800 * 1000000, 2208988800 * 1000000        # 1900 .. 2040
  for zd in zones:
    for _ in range(ctx.n(2, 20)):
      t = ctx.rng.randrange(lo, hi)
      if ctx.rng.random() < 0.5:
        t -= t % 1000000
      out.append((zd, t, near_transition(zd, t)))
    for t in (-62135596800 + 86400 * 400, 253402300799 - 86400 * 400, 0, 2 ** 31, -2 ** 31):
      out.append((zd, t * 1000000, near_transition(zd, t * 1000000)))
  return out


def near_transition(zd, t_us, width=2 * H):
  import bisect
  us = zd.untils
  i = bisect.bisect_left(us, (t_us - width) // 1000)
  return i < len(us) and us[i] * 1000 <= t_us + width


def local_instants(ctx, zones, trans):
  """[(zone, l_us, favor_us, near)]: around both local breakpoints of every picked transition."""
  out = []
  rnd = ctx.rng
  for zd, k in trans:
    u = zd.untils[k] * 1000
    e0, e1 = -zd.offsets[k] * 1000, -zd.offsets[k + 1] * 1000        # us east
    ends = sorted({u + e0, u + e1})
    pts = set()
    for b in ends:
      for d in LOCAL_DELTAS:
        pts.add(b + d)
    pts.add((ends[0] + ends[-1]) // 2)
    for l in sorted(pts):
      favors = [None, e0, e1] if min(abs(l - b) for b in ends) <= H else [None]
      if rnd.random() < 0.1:
        favors.append(rnd.choice([0, 3600 * 1000000, -5 * 3600 * 1000000, 1800 * 1000000]))
      for f in favors:
        out.append((zd, l, f, True))
  lo, hi = -2208988800 * 1000000, 2208988800 * 1000000
  for zd in zones:
    for _ in range(ctx.n(1, 10)):
      l = rnd.randrange(lo, hi)
      f = rnd.choice([None] + [-o * 1000 for o in zd.offsets])
      out.append((zd, l, f, near_transition(zd, l, width=26 * H)))
  return out


# witnesses of repaired findings and other named dates, always run (first)
DATE_CORPUS = [('Australia/Sydney', 20002),      # fixed 8feac94: came back as 2024-10-05 23:00
               ('America/Sao_Paulo', 17454), ('Asia/Beirut', 19446), ('Africa/Abidjan', -21185),   # skipped midnights
               ('Kwajalein', 8633), ('Pacific/Apia', 15338), ('Pacific/Kiritimati', 9130),          # skipped days
               ('Europe/London', 19447), ('America/New_York', 19793)]


def date_cases(ctx, zones, trans):
  """[(zone, day)]: the regression corpus, the dates around every picked transition, plus random dates."""
  out = set()
  for zd, k in trans:
    day = zd.untils[k] // 86400000
    for d in (day - 1, day, day + 1):
      out.add((zd.name, d))
  byname = {zd.name: zd for zd in zones}
  for zd in zones:
    for _ in range(ctx.n(1, 6)):
      out.add((zd.name, ctx.rng.randrange(-25567, 25567)))
  corpus = [(n, d) for n, d in DATE_CORPUS if n in byname]
  return [(byname[n], d) for n, d in corpus + sorted(out - set(corpus))]


# ---------------------------------------------------------------------------------------------
# correspondence: the model (translated core + Model/MomentTz.v + regenerated data) vs the running code

IMPORTS = ['Grist.Lib.PyPrelude', 'Grist.Lib.PyList', 'Grist.Model.Moment', 'GristGen.Moment_gen',
           'Grist.Model.MomentTz', 'Grist.Model.MomentDt', 'GristGen.MomentDt_gen', 'GristGen.Tzdata_gen']
EXTRA_DEFS = '''
From Coq Require Import Uint63.
(* numerals of the cases are written as primitive 63-bit ints (parsed ~6x faster than Z numerals) *)
Definition p (x : int) : Z := Uint63.to_Z x.
Definition n (x : int) : Z := Z.opp (Uint63.to_Z x).
Definition us (x : Z) : Z := x * 60.
Definition ous (x : option Z) : option Z := option_map us x.
(* the functions evaluated are the GENERATED ones (GristGen.MomentDt_gen / Moment_gen): this validates the
   translators (mo2v, py2v) against the running code *)
Definition chk_utc (z : zone) (c : Z * Z * option Z * Z * Z * Z) : bool :=
  let '(ts, loc, fav, off, back, idx) := c in
  let d := moment_ts_to_dt 7 (us ts) z None in
  andb (d_naive d =? us loc)
  (andb (match d_tz d with Some t => py_opt_eqb Z.eqb (tz_favor t) (ous fav) | None => false end)
  (andb (match py_dt_utcoffset 7 d with Some o => o =? us off | None => false end)
  (andb (moment_dt_to_ts 7 d None =? us back)
        (zone_index 7 z (moment_utc_to_ts_ms 7 (mk_dt (us ts) None)) =? idx)))).
Definition chk_local (z : zone) (c : Z * option Z * Z * Z * Z) : bool :=
  let '(l, fav, idx, off, ts) := c in
  let d := mk_dt (us l) (Some (py_get_tzinfo z (ous fav))) in
  andb (zone_index_dt 7 z (us l) (ous fav) =? idx)
  (andb (match py_dt_utcoffset 7 d with Some o => o =? us off | None => false end)
  (andb (moment_dt_to_ts 7 d None =? us ts)
        (match fav with None => moment_dt_to_ts 7 (mk_dt (us l) None) (Some z) =? us ts | Some _ => true end))).
Definition chk_date (z : zone) (c : Z * Z * Z) : bool :=
  let '(d, ts, back) := c in
  andb (moment_date_to_ts 7 d (Some z) =? us ts)
  (andb (py_dt_date (moment_ts_to_dt 7 (moment_date_to_ts 7 d (Some z)) z None) =? back)
  (andb (moment_date_to_ts 7 d None =? us (d * 86400000000))
        (moment_ts_to_date 7 (moment_date_to_ts 7 d None + us 86399999999) =? d))).
Definition chk_zone (c : zone * list Z * list Z * list Z) : bool :=
  let '(z, u, o, ou) := c in
  andb (py_list_eqb Z.eqb (z_untils z) (map (fun x => x * 60000) u))
  (andb (py_list_eqb Z.eqb (z_offsets z) o) (py_list_eqb Z.eqb (z_offset_untils z) (map (fun x => x * 60000) ou))).
Inductive acase :=
| CU (z : zone) (l : list (Z * Z * option Z * Z * Z * Z))
| CL (z : zone) (l : list (Z * option Z * Z * Z * Z))
| CD (z : zone) (l : list (Z * Z * Z)).
Definition chk_any (c : acase) : bool :=
  match c with
  | CU z l => forallb (chk_utc z) l
  | CL z l => forallb (chk_local z) l
  | CD z l => forallb (chk_date z) l
  end.
Close Scope Z_scope.
Open Scope uint63_scope.
'''
GROUP = 40


def zl(n):
  if abs(n) >= 2 ** 62:
    raise core.TieBroken('value %d does not fit a 63-bit literal' % n)
  return '(n %d)' % -n if n < 0 else '(p %d)' % n


def zll(ns):
  return core.coq_list([zl(n) for n in ns])


def _opt(x):
  return core.optlit(x, zl)


def _tuple(*xs):
  return '(' + ', '.join(xs) + ')'


CTOR = {'utc': 'CU', 'local': 'CL', 'dates': 'CD'}


def run_grouped(ctx, name, check, items, describe):
  """items: [(zone_data, coq_tuple_text, payload)]: grouped per zone and queued; evaluate_groups runs them all."""
  cur = None
  for zd, text, payload in sorted(items, key=lambda it: it[0].name):
    if cur is None or cur[1] is not zd or len(cur[2]) >= GROUP:
      cur = (name, zd, [], [], describe)
      ctx._c34['groups'].append(cur)
    cur[2].append(text)
    cur[3].append(payload)
  ctx.bump('coq-cases:' + name, len(items))


def evaluate_groups(ctx):
  groups = ctx._c34['groups']
  term = lambda g, texts: '%s %s %s' % (CTOR[g[0]], coq_name(g[1].name), core.coq_list(texts))
  bad = ctx.run_cases('all', IMPORTS, 'chk_any', [term(g, g[2]) for g in groups], shard=min(300, max(40, len(groups) // 8 + 1)),
                      timeout=1800, extra_defs=EXTRA_DEFS)
  if not bad:
    return
  # second pass: the failing groups one case at a time
  singles = []
  for gi in bad[:6]:
    g = groups[gi]
    for t, p in zip(g[2], g[3]):
      singles.append((term(g, [t]), g, p))
  bad2 = ctx.run_cases('single', IMPORTS, 'chk_any', [c for c, _, _ in singles], shard=250, timeout=900,
                       extra_defs=EXTRA_DEFS)
  for i in bad2[:5]:
    _, g, p = singles[i]
    ctx.broken('correspondence:%s: model differs from moment.py' % g[0], g[4](g[1], p))
  if not bad2:
    ctx.broken('correspondence:groups', 'groups %r fail but no single case does' % (bad[:6],))


def correspond(ctx):
  zones = zone_data()
  if len(zones) != ctx.extra.get('zones', len(zones)):
    raise core.TieBroken('zone list changed between regenerate and correspond')
  if data_problems(zones):
    raise core.TieBroken('zone data outside the exact integer model: ' + '; '.join(data_problems(zones)[:5]))
  trans = pick_transitions(ctx, zones)
  ctx._c34 = {'trans': trans, 'groups': []}
  # the model and the data must be compiled even when a proof above them no longer checks
  rc, out = core.coq_make(['theories/Model/MomentTz.vo', 'gen/MomentDt_gen.vo', 'gen/Tzdata_gen.vo'], timeout=900)
  if rc != 0:
    raise core.TieBroken('model/data do not compile: ' + out[-1500:])

  # the zone objects themselves (offset_untils as the running Zone computed it)
  zsel = zones if ctx.tier == 'thorough' else [z for z in zones if z.name in FEATURED] + ctx.rng.sample(zones, 60)
  zcases = ['(%s, %s, %s, %s)' % (coq_name(z.name), zll(z.untils), zll(z.offsets),
                                   zll([int(x) for x in z.zone.offset_untils])) for z in zsel]
  bad = ctx.run_cases('zones', IMPORTS, 'chk_zone', zcases, shard=80, timeout=900, extra_defs=EXTRA_DEFS)
  for i in bad[:5]:
    ctx.broken('correspondence:zone data: model zone differs from moment.Zone', zsel[i].name)
  ctx.bump('coq-cases:zones', len(zcases))

  ctx.log('zone objects compared (%d)' % len(zcases))
  # instants: ts_to_dt, fromutc's favor, utcoffset, dt_to_ts, _index
  utc = utc_instants(ctx, zones, trans)
  ctx._c34['utc'] = utc
  items = []
  for zd, t, near in utc:
    try:
      r = impl_utc(zd, t)
    except Exception as e:
      ctx.violation('exception', 'ts_to_dt/dt_to_ts raised %r' % (e,), {'kind': 'roundtrip', 'zone': zd.name, 't_us': t})
      continue
    if not r['back_seconds_ok']:
      ctx.broken('correspondence:dt_to_ts', 'dt_to_ts differs from its own expression at %s %d' % (zd.name, t))
    items.append((zd, _tuple(zl(t), zl(r['local']), _opt(r['favor']), zl(r['off']),
                             zl(r['back']), zl(r['index'])), (t, r)))
    ctx.count(('utc', zd.name, t), nontrivial=near, kind='instant-near-transition' if near else 'instant-far',
              sample={'zone': zd.name, 't_us': t, 'local_us': r['local'], 'utcoffset_us': r['off'],
                      'back_us': r['back']})
  ctx.log('utc instants: %d implementation runs done' % len(items))
  run_grouped(ctx, 'utc', 'chk_utc', items,
              lambda zd, p: 'zone %s instant %d us: implementation gives %r' % (zd.name, p[0], p[1]))

  # local times: _index_dt, dt_offset, TzInfo.utcoffset, dt_to_ts of naive + zone
  loc = local_instants(ctx, zones, trans)
  ctx._c34['local'] = loc
  items = []
  for zd, l, f, near in loc:
    try:
      r = impl_local(zd, l, f)
    except Exception as e:
      ctx.violation('exception', 'dt_offset raised %r' % (e,),
                    {'kind': 'local', 'zone': zd.name, 'local_us': l, 'favor_us': f})
      continue
    if r['off'] != r['off_tzinfo'] or not r['ts_ok']:
      ctx.broken('correspondence:utcoffset', 'TzInfo.utcoffset/dt_to_ts differ from Zone.dt_offset at %s %d %r: %r' % (
        zd.name, l, f, r))
    items.append((zd, _tuple(zl(l), _opt(f), zl(r['index']), zl(r['off']), zl(r['ts_us'])),
                  (l, f, r)))
    ctx.count(('local', zd.name, l, f), nontrivial=near, kind='local-near-transition' if near else 'local-far')
  ctx.log('local times: %d implementation runs done' % len(items))
  run_grouped(ctx, 'local', 'chk_local', items,
              lambda zd, p: 'zone %s local %d us favor %r: implementation gives %r' % (zd.name, p[0], p[1], p[2]))

  # dates with a zone
  m = _m()
  dcs = date_cases(ctx, zones, trans)
  ctx._c34['dates'] = dcs
  items = []
  for zd, day in dcs:
    d = m.DATE_EPOCH + _dt.timedelta(days=day)
    try:
      ts = m.date_to_ts(d, zd.zone)
      got = m.ts_to_dt(ts, zd.zone)
    except Exception as e:
      ctx.violation('exception', 'date_to_ts raised %r' % (e,), {'kind': 'date-zone', 'zone': zd.name, 'day': day})
      continue
    t_us = round(ts * 1000000)
    back = (got.date() - m.DATE_EPOCH).days
    items.append((zd, _tuple(zl(day), zl(t_us), zl(back)), (day, ts, back)))
    ctx.count(('date', zd.name, day), nontrivial=True, kind='date')
  ctx.log('dates: %d implementation runs done' % len(items))
  run_grouped(ctx, 'dates', 'chk_date', items,
              lambda zd, p: 'zone %s day %d: implementation gives ts %r, date %d' % (zd.name, p[0], p[1], p[2]))
  evaluate_groups(ctx)
  ctx.extra['translator_validation'] = {
    'translators': 'harness/py2v.py (Zone._index, _index_dt, offset, dt_offset, offset_untils) and harness/mo2v.py '
                   '(utc_to_ts_ms, TzInfo.utcoffset, TzInfo.fromutc, ts_to_dt, dt_to_ts, ts_to_date, date_to_ts)',
    'generated_definitions_evaluated_vs_running_code': {
      k[len('coq-cases:'):]: v for k, v in ctx.hist.items() if k.startswith('coq-cases:')},
    'disagreements': len([b for b in ctx.brokens if b['name'].startswith('correspondence')]),
  }
  # CPython's astimezone returns self when the target tzinfo IS the datetime's own (the cached UTC zone): same
  # instant and offset as the modelled path through fromutc
  utc_cached, utc_fresh = m.get_zone('UTC'), m.Zone('UTC')
  for ts in (0, 1, -1, 1426291200, 2 ** 31, 1548118059.219071):
    a, b = m.ts_to_dt(ts, utc_cached), m.ts_to_dt(ts, utc_fresh)
    if (a.replace(tzinfo=None), a.utcoffset(), m.dt_to_ts(a)) != (b.replace(tzinfo=None), b.utcoffset(), m.dt_to_ts(b)):
      ctx.broken('correspondence:astimezone shortcut', 'ts_to_dt(%r, UTC) differs between cached and fresh zone' % ts)


# ---------------------------------------------------------------------------------------------
# search: the property's own oracle on the implementation

def search(ctx):
  ctx.log('correspondence done; search starts')
  zones = zone_data()
  st = getattr(ctx, '_c34', None) or {}
  trans = st.get('trans') or pick_transitions(ctx, zones)
  nviol = 0
  for zd, t, near in st.get('utc') or utc_instants(ctx, zones, trans):
    try:
      desc = oracle_roundtrip(zd, t)
    except Exception as e:
      desc = 'raised %r' % (e,)
    ctx.bump('oracle:roundtrip')
    if desc:
      ctx.violation('roundtrip', desc, {'kind': 'roundtrip', 'zone': zd.name, 't_us': t})
      nviol += 1
      if nviol > 30:
        break
  nviol = 0
  for zd, l, f, near in st.get('local') or local_instants(ctx, zones, trans):
    try:
      desc = oracle_local(zd, l, f)
    except Exception as e:
      desc = 'raised %r' % (e,)
    ctx.bump('oracle:local-offset')
    if desc:
      ctx.violation('local-offset', desc, {'kind': 'local', 'zone': zd.name, 'local_us': l, 'favor_us': f})
      nviol += 1
      if nviol > 30:
        break
  nviol = 0
  known = 0
  for zd, day in st.get('dates') or date_cases(ctx, zones, trans):
    try:
      res = oracle_date_zone(zd, day)
    except Exception as e:
      res = ('date-zone:other', 'raised %r' % (e,))
    ctx.bump('oracle:date-zone')
    if res:
      if res[0] == KNOWN_DATE_KIND:
        known += 1
        if known > 3:          # one finding; keep a few instances
          continue
      ctx.violation(res[0], res[1], {'kind': 'date-zone', 'zone': zd.name, 'day': day})
      nviol += 1
      if nviol > 30:
        break
  ctx.extra['date_zone_known_instances'] = known
  for day in sorted({d for _, d in (st.get('dates') or [])} | {0, -1, 1, 20002, -25567, 2932896, -719162}):
    try:
      desc = oracle_date_utc(day)
    except Exception as e:
      desc = 'raised %r' % (e,)
    ctx.bump('oracle:date-utc')
    if desc:
      ctx.violation('date-utc', desc, {'kind': 'date-utc', 'day': day})
      break


def replay(ctx, w):
  zones = {z.name: z for z in zone_data()}
  kind = w.get('kind')
  try:
    if kind == 'roundtrip':
      return oracle_roundtrip(zones[w['zone']], w['t_us'])
    if kind == 'local':
      return oracle_local(zones[w['zone']], w['local_us'], w.get('favor_us'))
    if kind == 'date-zone':
      res = oracle_date_zone(zones[w['zone']], w['day'])
      return res and '%s [%s]' % (res[1], res[0])
    if kind == 'date-utc':
      return oracle_date_utc(w['day'])
  except Exception as e:
    return 'raised %r' % (e,)
  return None
