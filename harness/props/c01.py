"""C01 -- Undo restores the exact prior document (kernel K1: docactions.py, action_summary.py, action_obj.py,
ApplyUndoActions)."""
import copy
import json

from harness import core

ID = 'C01'
TITLE = 'Undo restores the exact prior document'
PROPS = ['Props/C01']
PROP = 'C01'
RULE = ('random histories from harness/histgen.py (two weightings: default, and one over-representing renames, '
        'removals, formula/type changes, summary tables); every successful bundle is recorded as an event trace '
        '(doc action + undo actions it appended; calc delta batches; per-column flushes) and replayed by the Coq model; '
        'a case is non-trivial when the bundle changed the document; traces with a rename/removal between a calc '
        'delta and the flush are counted separately (histogram key pending-structure)')
TRUSTED = ['regenerated on every run (harness/da2v.py -> coq/gen/DocActions_gen.v, fail closed): the effect program of every '
           'docactions.DocActions method (undo actions appended, summary calls, mutations, returns, guards, in source order) '
           'and, statement by statement, ActionSummary._changes_to_actions, Engine._get_undo_checkpoint/_undo_to_checkpoint '
           'and UserActions.doModifyColumn; bridged by reflexivity to the tables the model was written from '
           '(C01_code_effects_bridge, C01_code_glue_bridge) and apply_doc is proved to follow one path of the regenerated '
           'effect program for every doc action (C01_code_undo_paths); the value computations of docactions.py and '
           'Engine._recompute_step are pinned by a comment/rename-invariant AST hash (harness/da2v_pins.json); the undo '
           'constructors the engine appends per doc action are compared with the regenerated programs on every recorded '
           'trace (stats gen-effects:*)',
           'Model/ActionLog.v is hand-written from docactions.py / action_summary.py / action_obj.py and tied to the running '
           'code by the event-trace check on every run (model accepts every event, appends the same undo actions, ends '
           'with the same stored/undo lists and the same tables)',
           'cell values are modelled by their Grist encoding (Model/ActionLogEnc.v); Column.set normalisation per column '
           'class as read from the running column/usertypes modules; str values written into ChoiceList/RefList columns, '
           'ints >= 2^53 and formula-side rollbacks (Engine._undo_to_checkpoint inside a successful bundle) are outside '
           'the value model and counted',
           'the encode/decode round trip of ApplyUndoActions (actions.get_action_repr / action_from_repr) is not modelled: '
           'cells are their encodings']
ASSUMPTIONS = ['ValLaws (equal_encoding is an equivalence, strict_equal implies it, Column.set is idempotent, compatible with it and '
               'leaves type defaults alone) is a hypothesis of the generic theorems and is PROVED for the encoded-value model '
               'the tie uses (EOps_laws; C01_undo_restores_encoded_values_partial), given tt_ok of the type table (defaults '
               'are fixed points of their column class), which the trace check evaluates on the table read from the running '
               'usertypes/column modules (laws monitor)',
               'proved class (C01_undo_restores_stage3_partial, hypothesis bundle_ok3, a computable check evaluated on every '
               'recorded trace; it contains the stage-2 class bundle_ok2 of C01_undo_restores_docs_calcs_partial = doc actions, '
               'then calc deltas, then the flush): start document well formed and free of names with the reserved "-" prefix; '
               'then, in any order and number: calc deltas that name existing rows and whose first `before` equals the current '
               'cell up to encoding (SC2); RenameColumn/RenameTable whatever is pending; any lossless doc action (no formula '
               'column with values removed, no ReplaceTableData on a table with formula columns, no ModifyColumn changing the '
               'type) that does not write or create a cell with a pending delta (SC1) -- BulkRemoveRecord, RemoveColumn (data '
               'column) and RemoveTable MAY remove cells with a pending delta; the doModifyColumn triple ModifyColumn / '
               'conversion delta / per-column flush, type changes included, also on a column that already has a pending delta, '
               'provided (per row) the popped delta starts from the value before, changed rows hold the converted value and all '
               'other rows survive the type round trip; and, at the end, every restore that the final flush inserts at the FRONT '
               'of the undo list writes values of the start document into existing cells of the start document and covers the '
               'removed cells (fronts_okb, computed from the final summary)',
               'NOT proved: writes (BulkUpdateRecord, BulkAddRecord, ReplaceTableData) to cells that have a pending delta, '
               'front-inserted restores that do not carry the start value (the bundle wrote the cell before the recalculation: '
               'known finding), data->formula ModifyColumn with a type change, lossy doc actions inside a bundle with their '
               'summary-side restores; these are covered by the event-trace tie and the implementation oracles only. The full '
               'statement is false of the faithful model: '
               'C01_refuted_to_formula_type_change, C01_refuted_front_restore_written_cell (each replayed on the engine: known '
               'findings; the latter is rejected by bundle_ok3 exactly at the final check: C01_refuted_witness_outside_class); '
               'the former third witness (removed table with rows added in the bundle) was repaired in /repo '
               '(b239974), the model follows the repaired code and keeps it as C01_regression_removed_table_new_row']
TECHNIQUE = ('Coq proofs over a hand-written executable model of the action log (per-action inverse lemmas, congruence with '
             'exception sets carried through renames, ActionSummary invariants: created cells / presence maps / LabelRenames, '
             'flush analysis) + event-trace refinement against the running engine (vm_compute) + undo / whole-history undo '
             'oracles on the implementation')
LEVEL_TEXT = ('Kernel-checked for all documents and all bundles that pass the computable side conditions bundle_ok3 (doc actions, '
              'calc deltas, renames after calc deltas, the ModifyColumn / conversion delta / per-column flush triples of '
              'doModifyColumn incl. type changes and pending deltas, any lossless doc action that keeps off the cells with a '
              'pending delta, removals of records / data columns / tables with pending deltas whose front-inserted restores '
              'carry start values): replaying the undo list in reverse restores tables, schema, '
              'row ids and every cell up to encoding; every doc action kind is inverted by its own undo (exact exception '
              'sets); undo of whole histories bundle by bundle; well-formedness preserved. The full statement over arbitrary '
              'interleavings is refuted by two kernel-checked witnesses, which are real engine defects (known findings). '
              'The model is compared with the running engine on recorded event traces of random histories on every run, and '
              'the share of real traces that satisfy the hypotheses of the proved theorem is reported.')
LEVEL_NOTE = ('kernel strength: the theorems are about the action log (docactions/action_summary/action_obj), not about '
              'useractions.py. Stage 3 is proved for renames, the per-column flushes of doModifyColumn, doc actions that keep '
              'off the pending cells and removals of cells with a pending delta (under the computable final check on the '
              'front-inserted restores); writes to cells with a pending delta and lossy actions are _partial: validated by '
              'trace refinement and oracles only.')
PROOF_TIMEOUT = 900


def regenerate(ctx):
  """coq/gen/DocActions_gen.v from /repo: the effect programs of docactions.py and the skeletons of the K1 glue; the pinned
  rest (value computations of docactions.py, Engine._recompute_step) is compared by normalised AST hash.  Fail closed."""
  from harness import da2v
  da2v.regenerate(ctx)


def _k1():
  from harness import k1check
  return k1check


def sizes(ctx):
  return ctx.n(18, 120), ctx.n(8, 12)


def correspond(ctx):
  K = _k1()
  nh, nb = sizes(ctx)
  for what in K.check_glue_pins():
    ctx.broken('pin: useractions.doModifyColumn (K1 glue, not visible in event traces): ' + what, '')
  res = K.traced_run(ctx, nh, nb)
  ctx._k1 = res
  ctx.log('traced run: %d traces, record %.1fs, total %.1fs' % (len(res['codes']), res['wall_record_s'], res['wall_s']))
  ctx.extra['k1_stats'] = res['stats']
  ctx.extra['k1_wall_s'] = res['wall_s']
  for p in res['problems'][:5]:
    ctx.broken('instrumentation:K1', json.dumps(p, default=repr)[:800])
  hard = K.B_ACCEPT | K.B_UNDO_INC | K.B_UNDO | K.B_STATE
  broken_kinds = set()
  n_sc = 0
  for meta, code in zip(res['metas'], res['codes']):
    ctx.count(('trace', json.dumps(meta['bundle'], default=repr)), nontrivial=meta['n_events'] > 0,
              sample=None, kind='pending-structure' if meta['pending'] else ('calc' if 'calc' in meta['kinds'] else 'doc-only'))
    for k in meta['kinds']:
      ctx.bump('event:' + k)
    if code & hard:
      broken_kinds.update(meta['kinds'])
      bits = [n for b, n in ((1, 'model rejects an event'), (2, 'undo actions appended differ'), (8, 'final undo list differs'),
                             (16, 'final tables differ')) if code & b]
      ctx.broken('correspondence:K1 model vs engine trace (%s)' % ', '.join(bits),
                 json.dumps({'history': meta['history'], 'bundle': meta['bundle']}, default=repr)[:1500])
    if code & K.B_LAWS:
      ctx.broken('monitor: ValLaws (reflexivity / idempotence of Column.set / strict_equal implies equal_encoding / '
                 'defaults are fixed points) fails on a value of a recorded trace',
                 json.dumps({'bundle': meta['bundle']}, default=repr)[:800])
    if code & (K.B_SC1 | K.B_SC2):
      n_sc += 1
      ctx.bump('side-condition-violated:' + ('SC1' if code & K.B_SC1 else '') + ('SC2' if code & K.B_SC2 else ''))
    ctx.bump('theorem-hypotheses-hold' if not code & K.B_NOTHM else 'outside-proved-class')
    if code & K.B_NOTHM and not code & K.B_NOTHM2:
      ctx.broken('monitor: bundle_ok2 accepts a recorded trace that bundle_ok3 rejects (the stage-3 class must contain '
                 'the stage-2 class)', json.dumps({'bundle': meta['bundle']}, default=repr)[:800])
    if not code & K.B_NOTHM and code & K.B_NOTHM2:
      ctx.bump('theorem-hypotheses-hold:stage3-only')
    if not code & K.B_NOTHM and code & K.B_MUNDO:
      # C01_undo_restores_docs_calcs_partial applies to this very trace and the model agrees with the engine on it,
      # yet replaying the engine's undo list does not restore: impossible unless model and engine outputs differ
      ctx.broken('theorem contradicted on a recorded trace', json.dumps({'bundle': meta['bundle']}, default=repr)[:800])
    if code & K.B_MUNDO:
      # the model, replaying the ENGINE's undo list, does not get back to the start: the engine oracle must agree
      eng = [i for i in res['issues'] if i['prop'] == 'C01' and i['replay'].get('bundle') == meta['bundle']]
      uses_replace = 'ReplaceTableData' in meta['kinds']
      if not eng and not uses_replace and code & K.B_MUNDO_DATA:
        # the undo list, as plain doc actions, does not even restore schema / row ids / data cells, yet the engine
        # ends in the start document (formula cells alone may be repaired by the recalculation after the undo)
        ctx.broken('correspondence:model undo replay fails on data cells where the engine undo succeeds',
                   json.dumps({'history': meta['history'], 'bundle': meta['bundle']}, default=repr)[:1500])
      ctx.bump('model-undo-replay-differs' + ('' if code & K.B_MUNDO_DATA else ':formula-cells-only(recalculated by the engine)'))
  if broken_kinds:
    # the tie broke: look for a concrete failing input around the kinds of doc actions of the disagreeing bundles
    for kind, what, rep in K.focused_search(broken_kinds, PROP):
      ctx.violation(kind, what, rep)
  for s in res['samples'][:3]:
    ctx.samples.append(s)
  if n_sc:
    ctx.notes.append('%d recorded traces violate SC1/SC2 as monitored (doModifyColumn conversion deltas and the RenameTable '
                     'Ref->Int->Ref detour write cells that have a pending delta); none of them fails the undo oracle' % n_sc)


def report_issue(ctx, issue, shrink=True):
  K = _k1()
  rep = issue['replay']
  kind, what = issue['kind'], issue['what']
  if rep.get('whole_history') and rep.get('history') is not None and shrink:
    try:
      rep = {'history': K.shrink_history_issue(rep['history'], kind), 'whole_history': True, 'kind': kind}
    except Exception:
      pass
  elif rep.get('history') is not None and rep.get('bundle') is not None and shrink:
    try:
      by_code = kind.endswith((':recalculation-after-undo', ':formula-cells-only'))
      h, b = K.shrink_issue(rep['history'], rep['bundle'], issue['prop'],
                               ('undo-does-not-restore', 'undo-does-not-restore:formula-cells-only') if by_code else kind)
      if by_code:
        issues3, _ = K.check_bundle(K.build(h), copy.deepcopy(b))
        kinds3 = {k3 for p3, k3, _w in issues3 if p3 == PROP}
        if not kinds3 & {'undo-does-not-restore', 'undo-does-not-restore:formula-cells-only'}:
          h, b = rep['history'], rep['bundle']
      rep = {'history': h, 'bundle': b, 'kind': kind}
    except Exception:
      pass
  ctx.violation(kind, what, rep)


def search(ctx):
  K = _k1()
  from harness import histrun
  # corpus, run first: the witnesses of the defects that were repaired in /repo (kind 'fixed' in known_findings.json);
  # if one fails again it is a plain VIOLATION (fixed entries suppress nothing)
  for k in core.load_known():
    if k['property'] == PROP and k.get('kind') == 'fixed' and k.get('witness'):
      desc = K.replay_witness(k['witness'], PROP, ctx)
      ctx.count(('corpus', k['id']), nontrivial=True, kind='corpus-witness')
      if desc:
        ctx.violation(k['witness'].get('kind') or 'regression', 'regression of %s (%s): %s' % (k['id'], k.get('commit'), desc),
                      k['witness'])
  # fixed templates, always run: value-dependent (counter) trigger formulas read by a formula column whose id sorts
  # before / after them; edits and adds of the dependency, an explicit value for the trigger cell, a removed row
  for kind, what, rep in K.template_search(PROP):
    ctx.count(('template', kind), nontrivial=True, kind='template')
    ctx.violation(kind, what, rep)
  res = getattr(ctx, '_k1', None) or K.traced_run(ctx, *sizes(ctx))
  seen = set()
  budget = 6
  for issue in res['issues']:
    if issue['prop'] != PROP:
      continue
    if issue['kind'] in seen and budget <= 0:
      continue
    seen.add(issue['kind'])
    budget -= 1
    report_issue(ctx, issue, shrink=budget >= 0)
  ctx.log('traced-run issues reported')
  shared = histrun.shared_run(ctx.tier, ctx.seed, ctx.n(20, 150), 10)
  ctx.log('shared run available')
  ctx.extra['shared_run_stats'] = shared.get('stats')
  for issue in shared['issues']:
    if issue['prop'] != PROP:
      continue
    # refine the kind with this module's classification (histrun reports the raw failure)
    rep = issue['replay']
    w = {'history': rep.get('history', []), 'bundle': rep.get('bundle')}
    refined = None
    try:
      issues2, _ = K.check_bundle(K.build(w['history']), copy.deepcopy(w['bundle']))
      for p, k, what in issues2:
        if p == PROP:
          if k in ('undo-does-not-restore', 'undo-does-not-restore:formula-cells-only'):
            probe = {'kind': k}
            K.refine_with_code(probe, K.code_of_bundle(ctx, w['history'], w['bundle']))
            k = probe['kind']
          refined = (k, what)
          break
    except Exception:
      pass
    if refined is None and 'CircularRefError' in issue['what']:
      ctx.bump('shared-run-issue-skipped:cyclic-formula-program')     # history-dependent values (C18/C05), outside C01
      continue
    kind, what = refined if refined else (issue['kind'], issue['what'])
    report_issue(ctx, {'prop': PROP, 'kind': kind, 'what': what, 'replay': w}, shrink=True)
  ctx.count(('shared_run', ctx.tier, ctx.seed), nontrivial=True, kind='shared-history-run')


def replay(ctx, w):
  return _k1().replay_witness(w, PROP, ctx)


def _removed_table_new_row(violation, entry):
  return violation.get('kind') == 'undo-raises:removed-table-new-row'


def _recalculation(violation, entry):
  return violation.get('kind') in ('undo-does-not-restore:recalculation-after-undo', 'undo-does-not-restore:formula-cells-only',
                                   'history-undo-differs:formula-cells-only')


MATCHERS = {'removed_table_new_row': _removed_table_new_row, 'recalculation': _recalculation}
