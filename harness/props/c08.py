"""C08 -- Internal schema always matches the metadata (schema.build_schema vs Engine.schema)."""
import collections
import copy
import random
import struct
import sys
import traceback

from harness import core

ID = 'C08'
TITLE = 'Internal schema always matches the metadata'
PROPS = ['Props/C08']
RULE = ('histories of user actions from harness/histgen.py with schema operations and metadata-only paths '
        'over-represented (direct UpdateRecord on _grist_Tables_column colId/type/formula/isFormula/label/'
        'untieColIdFromLabel/widgetOptions/parentPos, _grist_Tables tableId, summary tables, AddReverseColumn, '
        'undo/redo of every bundle, failing bundles, table-level schema actions whose doc action raises half-way (AddTable '
        'with an unknown column type or an unencodable formula) after successful actions, display-helper columns of several tables made unused in one bundle (auto-removal) and '
        'interleaved BulkRemoveRecord of column records); a user action is non-trivial when it applied at least one '
        'schema doc action or one record action on _grist_Tables/_grist_Tables_column; build_schema cases are real '
        'metadata plus random record sets (duplicate positions, shuffled rows, tables without columns, dangling '
        'reverseCol); the oracle compares Engine.schema with build_schema(metadata) and checks stray columns '
        'after every bundle and after every failed bundle')
TRUSTED = ['Model/SchemaSync.v is hand-written; tied on every run: (a) its build_schema is evaluated on real and '
           'random metadata rows and compared (ordered) with schema.build_schema, (b) every recorded user action of '
           'real histories is parsed into coupled steps, the model derives the schema doc actions from the metadata '
           'change and must reproduce the recorded schema doc actions exactly and reach the engine\'s schema '
           '(ordered) and metadata rows',
           'instrumentation points Engine.apply_doc_action, Engine._apply_one_user_action, '
           'UserActions.doBulkUpdateFromPairs (harness-side wrappers)',
           'parentPos floats enter the model through an order-preserving integer key']
ASSUMPTIONS = ['record actions applied directly to _grist_Tables/_grist_Tables_column are not coupled steps: in the model they '
               'break the invariant (C08_uncoupled_*_breaks_inv); since b79769b the engine runs its consistency assertion '
               'after them, so the oracle requires that such an edit keeps schema == metadata or fails without a trace',
               'coupled steps are taken with the preconditions cop_pre (established by earlier phases of the same '
               'user action: reverse pointers cleared before a column disappears, reverse column tagged on rename, '
               'no parentId change); cop_pre is evaluated on every recorded step',
               'the witnesses of the four repaired direct-edit defects stay in the corpus and are replayed first']
TECHNIQUE = ('Coq proof of an inductive invariant over a hand-written model of build_schema and of the coupled '
             'schema/metadata steps + trace tie on real histories (vm_compute) + implementation oracle')
LEVEL_TEXT = ('Kernel-checked: every coupled step of useractions (AddColumn, RemoveColumns, column record updates incl. '
              'rename/modify/reverse, AddTable, RemoveTables, table renames with the Int detour) preserves '
              '"Engine.schema is build_schema(metadata) as dicts, no stray column record", hence every history of '
              'coupled steps; rollback/undo restore it. The model is compared with the engine on every recorded user '
              'action and build_schema on real and random metadata.')
LEVEL_NOTE = ('Kernel strength: useractions phases before the coupled step (formula renames, summary bookkeeping) are '
              'environment; their outputs (the update pairs) are taken from the run and checked against cop_pre. '
              'Direct record actions on the two metadata tables are rejected by the engine since b79769b (witnesses kept in the corpus).')


FIELDS = ('parentId', 'parentPos', 'colId', 'type', 'isFormula', 'formula', 'reverseCol')
TIE_FIELDS = ('parentId', 'colId', 'type', 'isFormula', 'formula', 'reverseCol')
META = ('_grist_Tables', '_grist_Tables_column')


# ------------------------------------------------------------------------------------------------
# engine access (imported lazily so that core.GRIST is honoured)

def G():
  from harness import gristenv
  return gristenv


def pos_key(x):
  """Order-preserving integer key of a float (parentPos)."""
  if x is None:
    x = 0.0
  x = float(x)
  if x != x:
    raise core.TieBroken('parentPos is NaN')
  k = struct.unpack('>q', struct.pack('>d', x))[0]
  if k < 0:
    k = -(k & 0x7fffffffffffffff)
  return k


def snap(e):
  """(schema ordered, table rows, column rows) of the user part of the document, as plain data."""
  import schema as schema_mod
  base = getattr(snap, '_base', None)
  if base is None:
    base = snap._base = set(t.table_id for t in schema_mod.schema_create_actions())
  sch = []
  for tid, st in e.schema.items():
    if tid in base:
      continue
    cols = []
    for key, c in st.columns.items():
      if key != c.colId or st.tableId != tid:
        raise core.TieBroken('schema key differs from the SchemaColumn/SchemaTable id: %r %r' % (tid, key))
      cols.append((key, (c.type, bool(c.isFormula), c.formula, c.reverseColId)))
    sch.append((tid, cols))
  return sch, meta_rows(e)


def meta_rows(e):
  t = e.fetch_table('_grist_Tables')
  c = e.fetch_table('_grist_Tables_column')
  trows = [(rid, t.columns['tableId'][i]) for i, rid in enumerate(t.row_ids)]
  crows = []
  for i, rid in enumerate(c.row_ids):
    g = lambda f: c.columns[f][i]
    crows.append((rid, int(g('parentId')), pos_key(g('parentPos')), g('colId'), g('type'), bool(g('isFormula')),
                  g('formula'), int(g('reverseCol') or 0)))
  return trows, crows


class Recorder(object):
  """Records, per user action, the schema doc actions, the record actions on the two metadata tables and the
  update pairs handed to doBulkUpdateFromPairs, with the state before and after."""
  def __init__(self):
    self.groups = []      # dict(name, pre, post, events, failed)
    self.cur = None
    self.installed = False

  def install(self):
    import engine, useractions, actions
    self.engine, self.useractions, self.actions = engine, useractions, actions
    for cls, name in ((engine.Engine, 'apply_doc_action'), (engine.Engine, '_apply_one_user_action'),
                      (useractions.UserActions, 'doBulkUpdateFromPairs')):
      if not hasattr(cls, name):
        raise core.TieBroken('instrumentation point %s.%s is gone' % (cls.__name__, name))
    rec = self
    self.orig = (engine.Engine.apply_doc_action, engine.Engine._apply_one_user_action,
                 useractions.UserActions.doBulkUpdateFromPairs)
    o_apply, o_ua, o_pairs = self.orig

    def apply_doc_action(eng, da):
      name = type(da).__name__
      interesting = name in actions.schema_actions or getattr(da, 'table_id', None) in META
      if interesting and rec.cur is None:
        rec.begin(eng, '<outside user action>')
      ret = o_apply(eng, da)
      if interesting:
        rec.cur['events'].append(rec.event(eng, name, da))
      return ret

    def _apply_one_user_action(eng, ua):
      rec.end(eng)
      rec.begin(eng, type(ua).__name__)
      try:
        return o_ua(eng, ua)
      finally:
        rec.end(eng)

    def doBulkUpdateFromPairs(uaself, table_id, pairs):
      pairs = list(pairs)
      if table_id in META:
        if rec.cur is None:
          rec.begin(uaself._engine, '<outside user action>')
        caller = sys._getframe(1).f_code.co_name
        rec.cur['events'].append(('P', table_id, caller,
                                  [(int(r), dict(v)) for (r, v) in pairs]))
      return o_pairs(uaself, table_id, pairs)

    engine.Engine.apply_doc_action = apply_doc_action
    engine.Engine._apply_one_user_action = _apply_one_user_action
    useractions.UserActions.doBulkUpdateFromPairs = doBulkUpdateFromPairs
    self.installed = True

  def uninstall(self):
    if self.installed:
      self.engine.Engine.apply_doc_action, self.engine.Engine._apply_one_user_action, \
        self.useractions.UserActions.doBulkUpdateFromPairs = self.orig
      self.installed = False

  def begin(self, eng, name):
    self.cur = {'name': name, 'pre': snap(eng), 'events': [], 'post': None}

  def end(self, eng):
    if self.cur is not None:
      if self.cur['events']:
        self.cur['post'] = snap(eng)
        self.groups.append(self.cur)
      self.cur = None

  def event(self, eng, name, da):
    rep = self.actions.get_action_repr(da)
    if name in self.actions.schema_actions:
      return ('S', name, rep[1:])
    rows = rep[2] if isinstance(rep[2], list) else [rep[2]]
    return ('M', name, da.table_id, list(rows), meta_rows(eng))

  def take(self, eng):
    self.end(eng)
    g, self.groups = self.groups, []
    return g


# ------------------------------------------------------------------------------------------------
# Coq literals

S = core.strlit
Z = core.zlit
B = core.boollit


def ostr(x):
  return 'None' if x is None else '(Some %s)' % S(x)


def colinfo_lit(ci):
  ty, isf, formula, rev = ci
  return '{| ci_type := %s; ci_isf := %s; ci_formula := %s; ci_rev := %s |}' % (S(ty), B(isf), S(formula), ostr(rev))


def cols_lit(cols):
  return core.coq_list(['(%s, %s)' % (S(k), colinfo_lit(ci)) for k, ci in cols])


def schema_lit(sch):
  return core.coq_list(['(%s, %s)' % (S(t), cols_lit(cols)) for t, cols in sch])


def trec_lit(t):
  return '{| t_id := %s; t_tableId := %s |}' % (Z(t[0]), S(t[1]))


def crec_lit(c):
  return ('{| c_id := %s; c_parent := %s; c_pos := %s; c_colId := %s; c_type := %s; c_isf := %s; c_formula := %s; '
          'c_rev := %s |}') % (Z(c[0]), Z(c[1]), Z(c[2]), S(c[3]), S(c[4]), B(c[5]), S(c[6]), Z(c[7]))


def meta_lit(m):
  return '{| m_tables := %s; m_cols := %s |}' % (core.coq_list([trec_lit(t) for t in m[0]]),
                                                core.coq_list([crec_lit(c) for c in m[1]]))


def state_lit(s):
  return '{| st_schema := %s; st_meta := %s |}' % (schema_lit(s[0]), meta_lit(s[1]))


def opt(x, f):
  return 'None' if x is None else '(Some %s)' % f(x)


def cpatch_lit(v):
  """v: dict of the metadata fields of one update pair."""
  g = lambda k: v[k] if k in v else None
  has = lambda k: k in v
  return ('{| u_parent := %s; u_pos := %s; u_colId := %s; u_type := %s; u_isf := %s; u_formula := %s; u_rev := %s |}'
          % (opt(int(v['parentId']) if has('parentId') else None, Z),
             opt(pos_key(v['parentPos']) if has('parentPos') else None, Z),
             opt(tostr(v['colId']) if has('colId') else None, S),
             opt(tostr(v['type']) if has('type') else None, S),
             opt(bool(v['isFormula']) if has('isFormula') else None, B),
             opt(tostr(v['formula']) if has('formula') else None, S),
             opt(int(v['reverseCol'] or 0) if has('reverseCol') else None, Z)))


def tostr(x):
  if not isinstance(x, str):
    raise Unparsed('non-string value %r in a metadata string field' % (x,))
  return x


def colpatch_lit(info):
  has = lambda k: k in info
  rev = 'None'
  if has('reverseColId'):
    rev = '(Some %s)' % ostr(info['reverseColId'])
  return '{| p_type := %s; p_isf := %s; p_formula := %s; p_rev := %s |}' % (
    opt(info['type'] if has('type') else None, S), opt(bool(info['isFormula']) if has('isFormula') else None, B),
    opt(info['formula'] if has('formula') else None, S), rev)


def info_lit(info):
  return colinfo_lit((info['type'], bool(info['isFormula']), info['formula'], info.get('reverseColId')))


def sev_lit(ev):
  _, name, a = ev
  if name == 'AddColumn':
    return '(SAddColumn %s %s %s)' % (S(a[0]), S(a[1]), info_lit(a[2]))
  if name == 'RemoveColumn':
    return '(SRemoveColumn %s %s)' % (S(a[0]), S(a[1]))
  if name == 'RenameColumn':
    return '(SRenameColumn %s %s %s)' % (S(a[0]), S(a[1]), S(a[2]))
  if name == 'ModifyColumn':
    return '(SModifyColumn %s %s %s)' % (S(a[0]), S(a[1]), colpatch_lit(a[2]))
  if name == 'AddTable':
    return '(SAddTable %s %s)' % (S(a[0]), core.coq_list(['(%s, %s)' % (S(c['id']), info_lit(c)) for c in a[1]]))
  if name == 'RemoveTable':
    return '(SRemoveTable %s)' % S(a[0])
  if name == 'RenameTable':
    return '(SRenameTable %s %s)' % (S(a[0]), S(a[1]))
  raise Unparsed('schema action %s' % name)


class Unparsed(Exception):
  pass


def mev_lit(ev, before):
  """A recorded record action on a metadata table as a raw model event; `before` = metadata rows before it."""
  _, name, table, rows, after = ev
  a_t, a_c = dict((r[0], r) for r in after[0]), dict((r[0], r) for r in after[1])
  b_t, b_c = dict((r[0], r) for r in before[0]), dict((r[0], r) for r in before[1])
  if name in ('AddRecord', 'BulkAddRecord'):
    if table == '_grist_Tables':
      return '(MAddTables %s)' % core.coq_list([trec_lit(a_t[r]) for r in rows])
    return '(MAddCols %s)' % core.coq_list([crec_lit(a_c[r]) for r in rows])
  if name in ('RemoveRecord', 'BulkRemoveRecord'):
    return '(%s %s)' % ('MRemoveTables' if table == '_grist_Tables' else 'MRemoveCols', core.zlist(rows))
  if name in ('UpdateRecord', 'BulkUpdateRecord'):
    if table == '_grist_Tables':
      return '(MUpdateTables %s)' % core.coq_list(
        ['(%s, %s)' % (Z(r), ostr(a_t[r][1] if a_t[r][1] != b_t[r][1] else None)) for r in rows])
    out = []
    for r in rows:
      d = {}
      for k, f in enumerate(('id',) + FIELDS):
        if k and a_c[r][k] != b_c[r][k]:
          d[f] = a_c[r][k]
      out.append('(%s, %s)' % (Z(r), cpatch_lit_raw(d)))
    return '(MUpdateCols %s)' % core.coq_list(out)
  raise Unparsed('record action %s on %s' % (name, table))


def cpatch_lit_raw(d):
  """From already-normalised row values (parentPos is a key already)."""
  has = lambda k: k in d
  return ('{| u_parent := %s; u_pos := %s; u_colId := %s; u_type := %s; u_isf := %s; u_formula := %s; u_rev := %s |}'
          % (opt(d.get('parentId'), Z), opt(d.get('parentPos'), Z), opt(d.get('colId'), S), opt(d.get('type'), S),
             opt(d.get('isFormula'), B), opt(d.get('formula'), S), opt(d.get('reverseCol'), Z)))


# ------------------------------------------------------------------------------------------------
# parsing one recorded user action into coupled steps

RAW_ACTIONS = ('ApplyUndoActions', 'ApplyDocActions')


def parse_group(g):
  """Returns (list of Coq cop terms, list of kinds, uncovered): uncovered lists events no coupled step explains."""
  evs = g['events']
  raw_mode = g['name'] in RAW_ACTIONS
  cops, kinds, uncovered = [], [], []
  meta_before = [g['pre'][1]]       # metadata rows before the event being looked at

  def meta_after(ev):
    return ev[4]

  def raw(ev):
    if ev[0] == 'S':
      cops.append('(CRaw (ES %s))' % sev_lit(ev))
    else:
      cops.append('(CRaw (EM %s))' % mev_lit(ev, meta_before[0]))
      meta_before[0] = meta_after(ev)
    kinds.append('raw')

  def is_m(ev, names, table):
    return ev[0] == 'M' and ev[1] in names and ev[2] == table

  ADD, REM, UPD = ('AddRecord', 'BulkAddRecord'), ('RemoveRecord', 'BulkRemoveRecord'), ('UpdateRecord', 'BulkUpdateRecord')
  i, n = 0, len(evs)

  def parse_update(i, pending_s):
    """evs[i] is a P event; pending_s: schema events seen since the last step (they belong to this update).
    Returns the next index."""
    ev = evs[i]
    _, table, caller, pairs = ev
    j = i + 1
    if table == '_grist_Tables_column':
      cops.append('(CUpdateColumns %s)' % core.coq_list(
        ['(%s, %s)' % (Z(r), cpatch_lit({k: v for k, v in vals.items() if k in TIE_FIELDS})) for r, vals in pairs]))
      kinds.append('CUpdateColumns')
      if j < n and is_m(evs[j], UPD, table):
        meta_before[0] = meta_after(evs[j])
        j += 1
      return j
    # _grist_Tables: the table-rename step; its column part follows (schema events, then a P on columns)
    tupds = ['(%s, %s)' % (Z(r), ostr(tostr(vals['tableId']) if 'tableId' in vals else None)) for r, vals in pairs]
    if j < n and is_m(evs[j], UPD, table):
      meta_before[0] = meta_after(evs[j])
      j += 1
    cupds = []
    if caller == '_updateTableRecords':
      k = j
      while k < n and evs[k][0] == 'S' and evs[k][1] == 'ModifyColumn':
        k += 1
      if k < n and evs[k][0] == 'P' and evs[k][1] == '_grist_Tables_column' and evs[k][2] == '_updateTableRecords':
        cupds = ['(%s, %s)' % (Z(r), cpatch_lit({kk: v for kk, v in vals.items() if kk in TIE_FIELDS}))
                 for r, vals in evs[k][3]]
        j = k + 1
        if j < n and is_m(evs[j], UPD, '_grist_Tables_column'):
          meta_before[0] = meta_after(evs[j])
          j += 1
    cops.append('(CUpdateTables %s %s)' % (core.coq_list(tupds), core.coq_list(cupds)))
    kinds.append('CUpdateTables')
    return j

  while i < n:
    ev = evs[i]
    if raw_mode:
      if ev[0] != 'P':
        raw(ev)
      i += 1
      continue
    if ev[0] == 'S' and ev[1] == 'AddColumn' and i + 1 < n and is_m(evs[i + 1], ADD, '_grist_Tables_column') \
       and len(evs[i + 1][3]) == 1:
      row = dict((r[0], r) for r in meta_after(evs[i + 1])[1])[evs[i + 1][3][0]]
      cops.append('(CAddColumn %s %s %s %s %s %s %s)' % (Z(row[0]), Z(row[1]), Z(row[2]), S(row[3]), S(row[4]),
                                                        B(row[5]), S(row[6])))
      kinds.append('CAddColumn')
      meta_before[0] = meta_after(evs[i + 1])
      i += 2
      continue
    if ev[0] == 'S' and ev[1] == 'AddTable' and i + 1 < n and is_m(evs[i + 1], ADD, '_grist_Tables') \
       and len(evs[i + 1][3]) == 1:
      trow = dict((r[0], r) for r in meta_after(evs[i + 1])[0])[evs[i + 1][3][0]]
      j = i + 2
      crows = []
      if j < n and is_m(evs[j], ADD, '_grist_Tables_column'):
        byid = dict((r[0], r) for r in meta_after(evs[j])[1])
        crows = [byid[r] for r in evs[j][3]]
        j += 1
      cops.append('(CAddTable %s %s)' % (trec_lit(trow), core.coq_list([crec_lit(c) for c in crows])))
      kinds.append('CAddTable')
      meta_before[0] = meta_after(evs[j - 1])
      i = j
      continue
    if is_m(ev, REM, '_grist_Tables_column'):
      # nested updates (back-references to the removed rows) come before the schema actions / the table removal
      removed = ev[3]
      after_removal = meta_after(ev)
      saved_before = meta_before[0]
      meta_before[0] = after_removal
      j = i + 1
      nested_from = len(cops)
      pend = []
      while j < n:
        e2 = evs[j]
        if e2[0] == 'P':
          j = parse_update(j, pend)
          pend = []
          continue
        if e2[0] == 'S' and e2[1] in ('ModifyColumn', 'RenameColumn'):
          pend.append(e2)
          j += 1
          continue
        break
      if j < n and is_m(evs[j], REM, '_grist_Tables'):
        trows = evs[j][3]
        k = j + 1
        cnt = 0
        while k < n and evs[k][0] == 'S' and evs[k][1] == 'RemoveTable' and cnt < len(trows):
          k += 1
          cnt += 1
        cops.append('(CRemoveTables %s)' % core.zlist(trows))
        kinds.append('CRemoveTables')
        meta_before[0] = meta_after(evs[j])
        i = k
        continue
      k = j
      cnt = 0
      while k < n and evs[k][0] == 'S' and evs[k][1] == 'RemoveColumn' and cnt < len(removed):
        k += 1
        cnt += 1
      if cnt == len(removed):
        cops.append('(CRemoveColumns %s)' % core.zlist(removed))
        kinds.append('CRemoveColumns')
        i = k
        continue
      # not a coupled removal
      del cops[nested_from:]
      del kinds[nested_from:]
      meta_before[0] = saved_before
      uncovered.append(('record removal without its schema actions', ev[:4]))
      raw(ev)
      i += 1
      continue
    if ev[0] == 'S' and ev[1] in ('ModifyColumn', 'RenameColumn', 'RenameTable'):
      # schema events of an update step: find the P they belong to
      j = i
      while j < n and evs[j][0] == 'S' and evs[j][1] in ('ModifyColumn', 'RenameColumn', 'RenameTable'):
        j += 1
      if j < n and evs[j][0] == 'P':
        i = parse_update(j, evs[i:j])
        continue
      uncovered.append(('schema action without a metadata update', ev[:3]))
      raw(ev)
      i += 1
      continue
    if ev[0] == 'P':
      i = parse_update(i, [])
      continue
    if is_m(ev, UPD, '_grist_Tables_column') and meta_after(ev) == meta_before[0]:
      i += 1          # only parentPos (or an unrelated field) changed: a position adjustment of other rows
      continue
    uncovered.append(('doc action outside every coupled step', ev[:4] if ev[0] == 'M' else ev[:3]))
    raw(ev)
    i += 1
  return cops, kinds, uncovered


def strip_pos(state):
  sch, (trows, crows) = state
  return sch, (trows, [(c[0], c[1], 0) + tuple(c[3:]) for c in crows])


def group_case(g):
  """The tie ignores parentPos (the invariant compares schemas as dicts; the order is covered by build_check)."""
  g = dict(g)
  g['pre'], g['post'] = strip_pos(g['pre']), strip_pos(g['post'])
  g['events'] = [ev[:4] + (strip_pos((None, ev[4]))[1],) if ev[0] == 'M' else ev for ev in g['events']]
  cops, kinds, uncovered = parse_group(g)
  rec_s = [sev_lit(ev) for ev in g['events'] if ev[0] == 'S']
  term = '(%s, %s, %s, %s)' % (state_lit(g['pre']), core.coq_list(cops), core.coq_list(rec_s), state_lit(g['post']))
  return term, kinds, uncovered


# ------------------------------------------------------------------------------------------------
# histories

WEIGHTS = {'addrec': 5, 'updrec': 4, 'rmrec': 1, 'tempids': 1, 'addcol': 6, 'addformula': 5, 'rmcol': 5, 'rencol': 6,
           'modtype': 5, 'modformula': 4, 'toformula': 2, 'todata': 2, 'addtable': 3, 'rmtable': 2, 'rentable': 4,
           'addref': 5, 'addreverse': 4, 'summary': 4, 'summaryformula': 3, 'updsummary': 3, 'label': 3,
           'renamechoices': 0, 'upsert': 1, 'invalid': 2,
           # metadata-only paths
           'metacol': 8, 'metatable': 3, 'metabulk': 3, 'rmcolrec': 2, 'rmtablerec': 1, 'detach': 1, 'emptytable': 1,
           'duptable': 1, 'rmreverse': 2}


def make_gen(rng):
  from harness import histgen
  Gm = G()

  class C08Gen(histgen.HistGen):
    def gen(self, kind, meta):
      r = self.r
      if kind not in ('metacol', 'metatable', 'metabulk', 'rmcolrec', 'rmtablerec', 'detach', 'emptytable',
                      'duptable', 'rmreverse'):
        return histgen.HistGen.gen(self, kind, meta)
      anyt = r.random() < 0.25
      ts = meta.user_tables(summary=False) + (meta.user_tables(summary=True) if anyt else [])
      if not ts:
        return None
      t = r.choice(ts)
      tid, tref = t['tableId'], t['id']
      vcols = meta.visible_cols(tref)
      if kind == 'emptytable':
        return ['AddEmptyTable', r.choice([None, 'T', 'New'])]
      if kind == 'duptable':
        return ['DuplicateTable', tid, r.choice(histgen.TABLE_NAMES), r.random() < 0.5]
      if kind == 'metatable':
        return ['UpdateRecord', '_grist_Tables', tref, {'tableId': r.choice(histgen.TABLE_NAMES + ['t 2', 'if'])}]
      if kind == 'rmtablerec':
        if len(meta.user_tables()) < 2:
          return None
        return ['RemoveRecord', '_grist_Tables', tref]
      if kind == 'detach':
        st = self.pick_table(meta, summary=True)
        sec = self._section_of(meta, st['id']) if st else None
        return ['DetachSummaryViewSection', sec] if sec else None
      if not vcols:
        return None
      c = r.choice(vcols)
      if kind == 'rmcolrec':
        return ['RemoveRecord', '_grist_Tables_column', c['id']]
      if kind == 'rmreverse':
        rc = [x for x in vcols if x.get('reverseCol')]
        if not rc:
          return None
        x = r.choice(rc)
        return r.choice([['RemoveColumn', tid, x['colId']],
                         ['UpdateRecord', '_grist_Tables_column', x['id'], {'reverseCol': 0}],
                         ['RenameColumn', tid, x['colId'], r.choice(histgen.COL_NAMES)],
                         ['ModifyColumn', tid, x['colId'], {'type': r.choice(['Ref:', 'RefList:']) + x['type'].split(':')[1]}]])
      def one(c):
        f = r.choice(['colId', 'colId', 'type', 'formula', 'isFormula', 'label', 'label', 'untie', 'widgetOptions',
                      'parentPos', 'multi'])
        if f == 'colId':
          return {'colId': r.choice(histgen.COL_NAMES + ['a b', '1x', 'id'])}
        if f == 'type':
          return {'type': r.choice(histgen.TYPES + ['Ref:' + tid, 'RefList:' + tid])}
        if f == 'formula':
          lvl = max(1, self.level_of(c))
          return {'formula': self.formula(meta, tref, lvl) if c['isFormula'] else r.choice(['', '5', '$id'])}
        if f == 'isFormula':
          if c['isFormula']:
            return {'isFormula': False}
          return {'isFormula': True, 'formula': r.choice(['$id', '"k"', 'rec.id + 1'])}
        if f == 'label':
          return {'label': r.choice(histgen.COL_NAMES + ['My Label', 'x y']), 'untieColIdFromLabel': r.random() < 0.3}
        if f == 'untie':
          return {'untieColIdFromLabel': r.random() < 0.5}
        if f == 'widgetOptions':
          return {'widgetOptions': r.choice(['', '{"alignment":"left"}', '{"choices":["red","green"]}'])}
        if f == 'parentPos':
          return {'parentPos': r.choice([0.5, 1, 1.5, 2, 100, -3.25, c['parentPos']])}
        return {'colId': r.choice(histgen.COL_NAMES), 'type': r.choice(histgen.TYPES), 'label': r.choice(histgen.COL_NAMES)}
      if kind == 'metacol':
        return ['UpdateRecord', '_grist_Tables_column', c['id'], one(c)]
      if kind == 'metabulk':
        cs = r.sample(vcols, min(len(vcols), r.randint(2, 3)))
        names = [r.choice(histgen.COL_NAMES) for _ in cs]
        if r.random() < 0.3 and len(cs) >= 2:      # swap two names
          names[0], names[1] = cs[1]['colId'], cs[0]['colId']
        return ['BulkUpdateRecord', '_grist_Tables_column', [x['id'] for x in cs], {'colId': names}]
      return None

    def bundle(self, e, max_len=3):
      # a quarter of the bundles end in an action that fails, so that schema and metadata changes are rolled back
      if self.r.random() < 0.25:
        acts = [self.action(e, exclude=('invalid', 'addrec', 'updrec', 'rmrec', 'tempids', 'upsert'))
                for _ in range(self.r.randint(1, 2))]
        bad = histgen.HistGen.gen(self, 'invalid', histgen.Meta(e))
        self.stats['failing-tail'] += 1
        return acts + ([bad] if bad else [['RemoveRecord', 'NoSuchTable', 1]])
      return histgen.HistGen.bundle(self, e, max_len)

  return C08Gen(rng, weights=WEIGHTS)


def oracle(e):
  """The property's own statement on the implementation: returns a description of the mismatch or None."""
  Gm = G()
  try:
    meta_schema = Gm.schema_of_meta(e)
  except Exception as ex:
    return 'schema.build_schema(metadata) raises %s: %s' % (type(ex).__name__, str(ex)[:120])
  eng_schema = Gm.engine_schema(e)
  if eng_schema != meta_schema:
    diff = []
    for t in sorted(set(eng_schema) | set(meta_schema)):
      a, b = eng_schema.get(t), meta_schema.get(t)
      if a != b:
        if a is None or b is None:
          diff.append('table %s: engine %s, metadata %s' % (t, 'absent' if a is None else 'present',
                                                              'absent' if b is None else 'present'))
        else:
          for c in sorted(set(a) | set(b)):
            if a.get(c) != b.get(c):
              diff.append('%s.%s: engine %r, metadata %r' % (t, c, a.get(c), b.get(c)))
    return 'Engine.schema != build_schema(metadata): ' + '; '.join(diff[:4])
  trows, crows = meta_rows(e)
  valid = set(t[0] for t in trows)
  stray = [c[0] for c in crows if c[1] not in valid]
  if stray:
    return 'column records %r belong to no table record' % (stray[:5],)
  return None


def failure_kind(failed, bundle):
  """failed: False, or the traceback of the exception the bundle raised."""
  if not failed:
    return 'schema-mismatch'
  if '_undo_to_checkpoint' in failed:
    # the revert itself raised: the document is left half rolled back
    names = [a[0] for a in bundle]
    if 'RenameTable' in names or any(a[0] in ('UpdateRecord', 'BulkUpdateRecord') and a[1] == '_grist_Tables' for a in bundle):
      return 'rollback-raised-after-failed-table-rename'
    return 'rollback-raised'
  return 'schema-mismatch-after-failure'


def run_history(seed, nb, on_group=None, on_bundle=None, undo=True):
  """One history on a fresh document.  on_group(group) for every recorded user action, on_bundle(e, history, bundle,
  failed) after every bundle (also failed ones, also the undo and redo bundles)."""
  Gm = G()
  rng = random.Random(seed)
  gen = make_gen(rng)
  rec = Recorder()
  rec.install()
  try:
    e, _ = Gm.new_doc()
    rec.take(e)
    history = []
    def do(bundle, track=True):
      try:
        out = Gm.apply(e, bundle)
        failed = False
      except Exception:
        out, failed = None, traceback.format_exc()
      for g in rec.take(e):
        g['failed'] = bool(failed)
        if on_group:
          on_group(g, history, bundle)
      if on_bundle:
        on_bundle(e, history, bundle, failed)
      if failed:
        Gm.clean(e)
        rec.take(e)
      else:
        gen.after_bundle(e)
        if track:
          history.append(bundle)
      return out
    for _ in range(rng.randint(1, 2)):
      do([gen.gen_addtable(None)])
    for _ in range(nb):
      bundle = gen.bundle(e)
      out = do(bundle)
      if out is not None and undo and rng.random() < 0.5:
        ub = [['ApplyUndoActions', Gm.reprs(out.undo)]]
        if do(ub) is not None and rng.random() < 0.7:
          do([['ApplyDocActions', Gm.reprs(out.stored)]])
    return gen
  finally:
    rec.uninstall()


# ------------------------------------------------------------------------------------------------
# correspondence

def random_meta(rng):
  nt = rng.randint(0, 3)
  tids = rng.sample(range(1, 7), nt)
  names = ['T', 'U', 'Foo', 'T']       # a duplicate table id is possible
  trows = [(t, rng.choice(names)) for t in sorted(tids)]
  crows = []
  ids = rng.sample(range(1, 30), rng.randint(0, 8))
  for i in sorted(ids):
    parent = rng.choice(tids + [9]) if tids and rng.random() < 0.9 else rng.choice([0, 9])
    crows.append((i, parent, rng.choice([0.0, 1.0, 1.0, 2.0, 1.5, -1.0, 3.0, 1e10, 0.25]),
                  rng.choice(['A', 'B', 'C', 'manualSort', 'A']), rng.choice(['Text', 'Int', 'Ref:T', 'RefList:U', 'Any']),
                  rng.random() < 0.4, rng.choice(['', '$A', '1+1']), rng.choice([0, 0, 0] + ids + [77])))
  if rng.random() < 0.5:
    rng.shuffle(crows)
    rng.shuffle(trows)
  return trows, crows


def real_build(trows, crows):
  """schema.build_schema(include_builtin=False) on the given rows -> ordered plain schema, or None on KeyError."""
  import actions, schema as schema_mod
  mt = actions.TableData('_grist_Tables', [t[0] for t in trows], {'tableId': [t[1] for t in trows]})
  mc = actions.TableData('_grist_Tables_column', [c[0] for c in crows], {
    'parentId': [c[1] for c in crows], 'parentPos': [c[2] for c in crows], 'colId': [c[3] for c in crows],
    'type': [c[4] for c in crows], 'isFormula': [c[5] for c in crows], 'formula': [c[6] for c in crows],
    'reverseCol': [c[7] for c in crows]})
  try:
    sch = schema_mod.build_schema(mt, mc, include_builtin=False)
  except KeyError:
    return None
  return [(tid, [(k, (c.type, bool(c.isFormula), c.formula, c.reverseColId)) for k, c in st.columns.items()])
          for tid, st in sch.items()]


def correspond(ctx):
  Gm = G()
  IMPORTS = ['Grist.Model.SchemaSync']
  # (a) build_schema on random and real metadata
  bcases, binfo = [], []
  def add_build(trows, crows_float, origin):
    out = real_build(trows, crows_float)
    crows = [(c[0], c[1], pos_key(c[2])) + tuple(c[3:]) for c in crows_float]
    bcases.append('(%s, %s)' % (meta_lit((trows, crows)), 'None' if out is None else '(Some %s)' % schema_lit(out)))
    binfo.append((trows, crows_float))
    ctx.count(('build', trows, crows_float), nontrivial=len(crows) > 0, kind='build:' + origin +
              (':KeyError' if out is None else ''))
  for _ in range(ctx.n(150, 3000)):
    t, c = random_meta(ctx.rng)
    add_build(t, c, 'random')
  # (b) trace tie
  cases, info = [], []
  uncovered_seen = []
  def on_group(g, history, bundle):
    if g.get('failed'):
      ctx.bump('group:failed-bundle')
      return                        # rolled back; the oracle in search() looks at the state
    try:
      term, kinds, uncovered = group_case(g)
    except Unparsed as ex:
      ctx.broken('correspondence:user action outside the modelled vocabulary', '%s in %r' % (ex, bundle))
      return
    cases.append(term)
    info.append({'history': copy.deepcopy(history), 'bundle': copy.deepcopy(bundle), 'user_action': g['name'],
                 'steps': kinds})
    for k in kinds:
      ctx.bump('step:' + k)
    raw_ok = g['name'] in RAW_ACTIONS
    ctx.count(('tie', len(cases)), nontrivial=True, kind='ua:' + g['name'],
              sample={'user_action': g['name'], 'bundle': bundle, 'steps': kinds} if len(kinds) > 1 else None)
    if uncovered and not raw_ok:
      uncovered_seen.append((uncovered, copy.deepcopy(history), copy.deepcopy(bundle)))
  found = ctx._c08_oracle = []
  def on_bundle(e, history, bundle, failed):
    d = oracle(e)
    ctx.count(('bundle', len(history), repr(bundle)), nontrivial=True, kind='oracle:' + ('failed' if failed else 'ok'))
    if d:
      found.append((failure_kind(failed, bundle), d,
                    {'history': copy.deepcopy(history), 'bundle': copy.deepcopy(bundle)}))
      raise StopHistory()
    if ctx.rng.random() < 0.3:
      t = e.fetch_table('_grist_Tables')
      c = e.fetch_table('_grist_Tables_column')
      trows = [(rid, t.columns['tableId'][i]) for i, rid in enumerate(t.row_ids)]
      crows = [(rid, int(c.columns['parentId'][i]), float(c.columns['parentPos'][i] or 0), c.columns['colId'][i],
                c.columns['type'][i], bool(c.columns['isFormula'][i]), c.columns['formula'][i],
                int(c.columns['reverseCol'][i] or 0)) for i, rid in enumerate(c.row_ids)]
      add_build(trows, crows, 'real')
  nh, nb = ctx.n(8, 300), ctx.n(10, 14)
  stats = collections.Counter()
  for i in range(nh):
    try:
      gen = run_history(ctx.seed * 7919 + i, nb, on_group=on_group, on_bundle=on_bundle)
      stats.update(gen.stats)
    except StopHistory:
      pass
  for k, v in sorted(stats.items()):
    ctx.bump('gen:' + k, v)
  ctx._c08_uncovered = uncovered_seen
  # the regenerated build_schema, col_to_dict and ModifyColumn against the running functions (translator validation)
  c2d, mods = translator_cases(ctx)
  for name, chk, cs in (('gen_build', 'build_gen_check', bcases), ('gen_c2d', 'c2d_check', c2d), ('gen_mod', 'mod_check', mods)):
    badg = ctx.run_cases(name, IMPORTS, chk, cs, shard=400, extra_defs=TRANSLATOR_DEFS)
    for i in badg[:3]:
      ctx.broken('correspondence:regenerated %s differs from the running function' % chk, cs[i][:1500])
  ctx.extra['translator_differential_cases'] = {'build_schema_gen': len(bcases), 'col_to_dict_gen': len(c2d),
                                                'modify_column_gen': len(mods)}
  bad = ctx.run_cases('build', IMPORTS, 'build_check', bcases, shard=400)
  for i in bad[:5]:
    ctx.broken('correspondence:model build_schema differs from schema.build_schema', 'metadata rows %r' % (binfo[i],))
  bad = ctx.run_cases('tie', IMPORTS, 'tie_check', cases, shard=150, timeout=600)
  for i in bad[:5]:
    ctx.broken('correspondence:coupled-step model does not reproduce the recorded user action '
               '(schema doc actions, resulting schema/metadata, or a precondition)', repr(info[i])[:3000])
  ctx.extra['tie_user_actions'] = len(cases)
  ctx.extra['build_cases'] = len(bcases)


# ------------------------------------------------------------------------------------------------
# search: the property's oracle on the implementation

DIRECT_KINDS = ('direct-add-column-record', 'direct-add-table-record', 'direct-parentId-update',
                'direct-replace-table-data')


def direct_action(kind, rng, e):
  """A record action applied directly to a metadata table (no coupled schema action exists for it)."""
  from harness import histgen
  m = histgen.Meta(e)
  ts = m.user_tables()
  if not ts:
    return None
  t = rng.choice(ts)
  cols = m.visible_cols(t['id'])
  if kind == 'direct-add-column-record':
    if rng.random() < 0.3:
      return ['BulkAddRecord', '_grist_Tables_column', [rng.randint(500, 600)],
              {'parentId': [rng.choice([t['id'], 77])], 'colId': ['zz'], 'type': ['Text']}]
    return ['AddRecord', '_grist_Tables_column', None, {'parentId': t['id'], 'colId': 'Zz', 'type': 'Text'}]
  if kind == 'direct-add-table-record':
    return ['AddRecord', '_grist_Tables', None, {'tableId': 'Zed'}]
  if kind == 'direct-parentId-update':
    if not cols:
      return None
    others = [x['id'] for x in ts if x['id'] != t['id']] + [0]
    return ['UpdateRecord', '_grist_Tables_column', rng.choice(cols)['id'], {'parentId': rng.choice(others)}]
  if kind == 'direct-replace-table-data':
    return ['ReplaceTableData', rng.choice(['_grist_Tables_column', '_grist_Tables']), [], {}]
  raise ValueError(kind)


def build_doc(history):
  """A document on which the bundles of `history` were applied in order (failures are rolled back by the engine)."""
  Gm = G()
  e, _ = Gm.new_doc()
  for b in history:
    try:
      Gm.apply(e, copy.deepcopy(b))
    except Exception:
      Gm.clean(e)
  return e


def replay(ctx, w):
  Gm = G()
  e = build_doc(w.get('history', []))
  pre = oracle(e)
  if pre:
    return None if w.get('strict') else 'already before the bundle: ' + pre
  before = (Gm.snapshot(e), Gm.engine_schema(e)) if w.get('no_trace') else None
  try:
    Gm.apply(e, copy.deepcopy(w['bundle']))
    failed = ''
  except Exception as ex:
    failed = ' (the bundle raised %s and was rolled back)' % type(ex).__name__
  d = oracle(e)
  if d:
    return d + failed
  if failed and before is not None and (Gm.snapshot(e), Gm.engine_schema(e)) != before:
    return 'the rejected metadata edit left a trace: %s' % (Gm.diff_snapshots(before[0], Gm.snapshot(e))[:3],)
  return None


def fixed_corpus(ctx):
  """Witnesses of repaired defects stay in the corpus and are run first: a regression is a violation again."""
  for k in core.load_known():
    if k['property'] == ID and k.get('kind') == 'fixed' and k.get('witness'):
      w = dict(k['witness'], no_trace=True)
      try:
        d = replay(ctx, w)
      except Exception as ex:
        d = 'replay raised %r' % (ex,)
      ctx.count(('fixed', k['id']), nontrivial=True, kind='fixed-witness:' + ('fails-again' if d else 'holds'))
      if d:
        ctx.violation(k.get('violation_kind') or 'regression', 'repaired by %s, fails again: %s' % (k.get('commit'), d), w)


def search(ctx):
  from harness import histrun
  Gm = G()
  fixed_corpus(ctx)
  # (1) the shared history run
  res = histrun.shared_run(ctx.tier, ctx.seed, ctx.n(20, 200), 10)
  for k, v in sorted(res.get('stats', {}).items()):
    ctx.bump('shared:' + k, v)
  for iss in res['issues']:
    if iss['prop'] == 'C08':
      ctx.violation(iss['kind'], iss['what'], iss['replay'])
    elif iss['prop'] == 'HARNESS':
      ctx.notes.append('shared history run: harness exception ' + iss['what'][-200:])
  ctx.count(('shared', res['stats'].get('bundles', 0)), nontrivial=True, kind='shared-run')
  # (2) the histories of this check (recorded by correspond, or run now)
  found = getattr(ctx, '_c08_oracle', None)
  if found is None:
    found = []
    def on_bundle(e, history, bundle, failed):
      d = oracle(e)
      ctx.count(('bundle', len(history), repr(bundle)), nontrivial=True, kind='oracle:' + ('failed' if failed else 'ok'))
      if d:
        found.append((failure_kind(failed, bundle), d,
                      {'history': copy.deepcopy(history), 'bundle': copy.deepcopy(bundle)}))
        raise StopHistory()
    for i in range(ctx.n(12, 300)):
      try:
        run_history(ctx.seed * 7919 + i, ctx.n(10, 14), on_bundle=on_bundle)
      except StopHistory:
        pass
  for kind, what, rep in found[:20]:
    ctx.violation(kind, what, rep)
  for uncovered, history, bundle in (getattr(ctx, '_c08_uncovered', None) or [])[:10]:
    ctx.violation('uncoupled-doc-action',
                  'doc actions outside every coupled step of the model: %r' % (uncovered[:3],),
                  {'history': history, 'bundle': bundle, 'strict': True})
  failing_table_stream(ctx, ctx.n(12, 150))
  helper_column_stream(ctx, ctx.n(10, 120))
  # (3) record actions applied directly to the metadata tables
  from harness import histgen
  for i in range(ctx.n(8, 80)):
    rng = random.Random(ctx.seed * 104729 + i)
    gen = make_gen(rng)
    history = [[gen.gen_addtable(None)]]
    e = build_doc(history)
    for _ in range(rng.randint(0, 4)):
      b = gen.bundle(e)
      try:
        Gm.apply(e, copy.deepcopy(b))
        gen.after_bundle(e)
        history.append(b)
      except Exception:
        Gm.clean(e)
    if oracle(e):
      continue
    kind = DIRECT_KINDS[(i // 2) % len(DIRECT_KINDS)]
    a = direct_action(kind, rng, e)
    if a is None:
      continue
    # an uncoupled direct metadata edit either keeps schema == metadata or fails and leaves no trace -- also when
    # harmless actions follow it in the same bundle (the consistency check belongs to each user action)
    tail = []
    if i % 2:
      ut = [t['tableId'] for t in histgen.Meta(e).user_tables()]
      tail = [rng.choice([['AddRecord', rng.choice(ut), None, {}], ['Calculate'],
                          ['BulkAddRecord', rng.choice(ut), [None, None], {}]])] if ut else [['Calculate']]
    bundle = [a] + tail
    w = {'history': history, 'bundle': bundle, 'no_trace': True}
    before = (Gm.snapshot(e), Gm.engine_schema(e))
    try:
      Gm.apply(e, copy.deepcopy(bundle))
      outcome = 'accepted'
    except Exception as ex:
      outcome = 'rejected:' + type(ex).__name__
    d = oracle(e)
    trace = outcome != 'accepted' and (Gm.snapshot(e), Gm.engine_schema(e)) != before
    ctx.count(('direct', i), nontrivial=True, kind=kind + ':' + ('violates' if d else ('left-trace' if trace else outcome)))
    if d:
      ctx.violation(kind, '%r (%s): %s' % (bundle, outcome, d), minimise(ctx, w))
    elif trace:
      ctx.violation('direct-edit-left-trace', '%r was rejected but the document changed: %s'
                    % (a, Gm.diff_snapshots(before[0], Gm.snapshot(e))[:3]), w)


def failing_table_action(rng, e):
  """A table-level schema action whose doc action raises half-way (code generation fails after the schema object was
  changed): the engine must put the schema back, the rollback the metadata."""
  from harness import histgen
  m = histgen.Meta(e)
  names = ['T2', 'Zed', 'New table', 'Foo']
  bad_cols = [
    [{'id': 'A', 'type': 'Zork', 'isFormula': False}],
    [{'id': 'A', 'type': 'Int', 'isFormula': False}, {'id': 'B', 'type': 'Zork:T', 'isFormula': False}],
    [{'id': 'A', 'type': 'Any', 'isFormula': True, 'formula': '"\ud800"'}],
    [{'id': 'K', 'type': 'Text', 'isFormula': False}, {'id': 'F', 'type': 'Any', 'isFormula': True, 'formula': "'\udfff' + $K"}],
  ]
  kind = rng.choice(['addtable', 'addtable', 'addtable', 'emptytable-then-bad', 'dup-then-bad'])
  if kind == 'addtable' or not m.user_tables():
    return [['AddTable', rng.choice(names), rng.choice(bad_cols)]]
  t = rng.choice(m.user_tables())['tableId']
  if kind == 'emptytable-then-bad':
    return [['AddEmptyTable', None], ['AddTable', rng.choice(names), rng.choice(bad_cols)]]
  return [['DuplicateTable', t, rng.choice(names), False], ['AddTable', rng.choice(names), rng.choice(bad_cols)]]


def failing_table_stream(ctx, n):
  """(4) bundles of successful actions followed by a table-level schema action that fails half-way."""
  Gm = G()
  for i in range(n):
    rng = random.Random(ctx.seed * 15485863 + i)
    gen = make_gen(rng)
    history = [[gen.gen_addtable(None)]]
    e = build_doc(history)
    for _ in range(rng.randint(0, 3)):
      b = gen.bundle(e)
      try:
        Gm.apply(e, copy.deepcopy(b))
        gen.after_bundle(e)
        history.append(b)
      except Exception:
        Gm.clean(e)
    if oracle(e):
      continue
    prefix = []
    for _ in range(rng.choice([0, 0, 1, 2])):
      a = gen.action(e, exclude=('invalid', 'addrec', 'updrec', 'rmrec', 'tempids', 'upsert'))
      prefix.append(a)
    bundle = prefix + failing_table_action(rng, e)
    try:
      Gm.apply(e, copy.deepcopy(bundle))
      failed = False
    except Exception:
      failed = traceback.format_exc()
    d = oracle(e)
    ctx.count(('failing-table', i), nontrivial=bool(failed), kind='failing-table-action:' + ('rolled-back' if failed else 'accepted'))
    if d:
      w = {'history': history, 'bundle': bundle}
      if prefix and replay(ctx, {'history': history, 'bundle': bundle[len(prefix):]}):
        w = {'history': history, 'bundle': bundle[len(prefix):]}
      ctx.violation(failure_kind(failed, bundle), d, minimise(ctx, w))


def helper_column_stream(ctx, n):
  """(5) display-helper columns of Ref columns in several tables, created in interleaved order, all made unused by one
  bundle (they are removed together by docmodel.apply_auto_removes AFTER the per-action consistency checks), and
  BulkRemoveRecord of column records of several tables in interleaved order."""
  Gm = G()
  from harness import histgen
  for i in range(n):
    rng = random.Random(ctx.seed * 32452843 + i)
    history = [[['AddTable', 'Target', [{'id': 'Name', 'type': 'Text', 'isFormula': False},
                                        {'id': 'Code', 'type': 'Int', 'isFormula': False}]]]]
    tabs = ['T1', 'T2', 'T3'][:rng.randint(2, 3)]
    refcols = []
    for t in tabs:
      cs = rng.sample(['R', 'Q', 'P'], rng.randint(1, 3))
      history.append([['AddTable', t, [{'id': c, 'type': 'Ref:Target', 'isFormula': False} for c in cs] +
                       [{'id': 'N', 'type': 'Int', 'isFormula': False}, {'id': 'M', 'type': 'Text', 'isFormula': False}]]])
      refcols += [(t, c) for c in cs]
    e = build_doc(history)
    rng.shuffle(refcols)                      # interleaves the tables: helper columns get row ids in this order
    def cref(t, c):
      m = histgen.Meta(e)
      tref = m.table_by_id[t]['id']
      return next(x['id'] for x in m.cols.values() if x['parentId'] == tref and x['colId'] == c)
    ok = True
    for t, c in refcols:
      vis = cref('Target', rng.choice(['Name', 'Code']))
      b = [['UpdateRecord', '_grist_Tables_column', cref(t, c), {'visibleCol': vis}],
           ['SetDisplayFormula', t, None, cref(t, c), '$%s.%s' % (c, 'Name' if rng.random() < 0.7 else 'Code')]]
      try:
        Gm.apply(e, copy.deepcopy(b))
        history.append(b)
      except Exception:
        Gm.clean(e)
        ok = False
    if oracle(e):
      continue
    mode = rng.choice(['retype', 'retype', 'unset-visible', 'remove-cols', 'bulk-remove-records'])
    chosen = [rc for rc in refcols if rng.random() < 0.85] or refcols
    if mode == 'retype':
      bundle = [['ModifyColumn', t, c, {'type': rng.choice(['Text', 'Int', 'Any'])}] for t, c in chosen]
    elif mode == 'unset-visible':
      bundle = [['UpdateRecord', '_grist_Tables_column', cref(t, c), {'visibleCol': 0}] for t, c in chosen] + \
               [['SetDisplayFormula', t, None, cref(t, c), ''] for t, c in chosen]
    elif mode == 'remove-cols':
      bundle = [['RemoveColumn', t, c] for t, c in chosen]
    else:
      extra = [(t, x) for t in tabs for x in ('N', 'M') if rng.random() < 0.6]
      allc = chosen + extra
      rng.shuffle(allc)
      bundle = [['BulkRemoveRecord', '_grist_Tables_column', [cref(t, c) for t, c in allc]]]
    try:
      Gm.apply(e, copy.deepcopy(bundle))
      failed = False
    except Exception:
      failed = traceback.format_exc()
    d = oracle(e)
    ctx.count(('helpers', i), nontrivial=True, kind='helper-columns:%s:%s' % (mode, 'failed' if failed else 'ok'))
    if d:
      ctx.violation(failure_kind(failed, bundle), d, {'history': history, 'bundle': bundle})
      continue
    # a later schema action must still work
    try:
      Gm.apply(e, [['AddColumn', tabs[0], 'Zz', {'type': 'Int', 'isFormula': False}]])
    except Exception as ex:
      if not failed:
        ctx.violation('schema-action-fails-after-helper-removal', 'AddColumn raised %s: %s' % (type(ex).__name__, str(ex)[:200]),
                      {'history': history + [bundle], 'bundle': [['AddColumn', tabs[0], 'Zz', {'type': 'Int', 'isFormula': False}]],
                       'strict': True})


class StopHistory(Exception):
  pass


def minimise(ctx, w):
  from harness import histgen
  hist = w['history']
  if len(hist) > 1:
    try:
      small = histgen.shrink_list(hist, lambda h: replay(ctx, {'history': h, 'bundle': w['bundle']}) is not None,
                                  max_steps=30)
      if replay(ctx, {'history': small, 'bundle': w['bundle']}):
        return dict(w, history=small)
    except Exception:
      pass
  return w


# ------------------------------------------------------------------------------------------------
# regeneration of the deciding code from /repo (harness/sm2v.py), bridged in Proofs/SchemaSync_bridge.v

RECORD_DICT = {'keys': {'type': 'd_type', 'isFormula': 'd_isf', 'formula': 'd_formula', 'reverseColId': 'd_rev', 'id': 'd_id'},
               'order': ['type', 'isFormula', 'formula', 'reverseColId', 'id'],
               'wrap': {'type': 'Some {0}', 'isFormula': 'Some {0}', 'formula': 'Some {0}', 'reverseColId': 'Some {0}',
                        'id': 'Some {0}'}}
COL_ATTRS = {'type': 'ci_type (snd {0})', 'isFormula': 'ci_isf (snd {0})', 'formula': 'ci_formula (snd {0})',
             'reverseColId': 'ci_rev (snd {0})', 'colId': 'fst {0}'}

COL_TO_DICT_BINDING = {
  'names': {'col': 'col', 'include_id': 'include_id', 'include_default': 'include_default'},
  'attrs': COL_ATTRS, 'record_dict': RECORD_DICT, 'truthy': {'col.reverseColId': 'truthy_ostr {0}'},
  'setitem': {'ret': ('ret', {'reverseColId': 'set_d_rev {0} {1}', 'id': 'set_d_id {0} {1}'})}}

MODIFY_BINDING = {
  'names': {'col_id': 'col_id', 'col_info': 'col_info', 'cols': 'cols'},
  'attrs': COL_ATTRS, 'record_dict': RECORD_DICT,
  'index': {'schema_table_info.columns': 'scol_at {0} cols'},
  'dict_get': {'col_info': {'type': 'match p_type col_info with Some x => x | None => {0} end',
                            'isFormula': 'match p_isf col_info with Some x => x | None => {0} end',
                            'formula': 'match p_formula col_info with Some x => x | None => {0} end',
                            'reverseColId': 'match p_rev col_info with Some x => x | None => {0} end'}},
  'dict_has': {'col_info': {'type': 'is_some (p_type col_info)', 'isFormula': 'is_some (p_isf col_info)',
                            'formula': 'is_some (p_formula col_info)', 'reverseColId': 'is_some (p_rev col_info)'},
               'old_col_info': {'type': 'is_some (d_type old_col_info)', 'isFormula': 'is_some (d_isf old_col_info)',
                                'formula': 'is_some (d_formula old_col_info)',
                                'reverseColId': 'is_some (d_rev old_col_info)', 'id': 'is_some (d_id old_col_info)'}},
  'calls': {'schema.SchemaColumn': '({0}, {{| ci_type := {1}; ci_isf := {2}; ci_formula := {3}; ci_rev := {4} |}})',
            'bool': '{0}',
            'schema.col_to_dict(include_id=False,include_default=True)': 'col_to_dict_gen {0} false true',
            'schema.col_to_dict(include_id=False)': 'col_to_dict_gen {0} false false'},
  'compare': {'eq:new:old': 'scol_eqb {0} {1}'},
  'mutators': {'schema_table_info.columns.pop': ('cols', 'od_del {0} {1}')},
  'setitem': {'schema_table_info.columns': ('cols', 'od_set {0} (snd {1}) {2}')},
  'noop': {'self._engine.rebuild_usercode', 'log.info'},
  'on_return': 'None', 'final': 'Some {0}'}

# statements of docactions.ModifyColumn that are not translated here (the table assertion, the column objects: C23)
MODIFY_PINNED = ['table = self._engine.tables[table_id]',
                 "assert table.has_column(col_id), 'Column %s not in table %s' % (col_id, table_id)",
                 'old_column = table.get_column(col_id)', 'schema_table_info = self._engine.schema[table_id]',
                 'new_column = table.get_column(col_id)',
                 'self._engine.out_actions.undo.append(actions.ModifyColumn(table_id, col_id, undo_col_info))']


def gen_col_to_dict(sm2v, os):
  fn = sm2v.find_function(os.path.join(core.GRIST, 'schema.py'), 'col_to_dict')
  body = sm2v.strip_doc(fn.body)
  if [a.arg for a in fn.args.args] != ['col', 'include_id', 'include_default'] or \
     [sm2v.U(d) for d in fn.args.defaults] != ['True', 'False']:
    raise core.TieBroken('schema.col_to_dict: signature changed')
  if not (isinstance(body[-1], sm2v.ast.Return) and sm2v.U(body[-1].value) == 'ret'):
    raise core.TieBroken('schema.col_to_dict: does not end in `return ret`')
  t = sm2v.Tr(COL_TO_DICT_BINDING)
  return ('Definition col_to_dict_gen (col : scol) (include_id include_default : bool) : cdict :=\n%s.\n'
          % t.block(body[:-1], ['ret']))


def gen_modify_column(sm2v, os):
  fn = sm2v.find_function(os.path.join(core.GRIST, 'docactions.py'), 'DocActions.ModifyColumn')
  body = sm2v.strip_doc(fn.body)
  texts = [sm2v.U(s) for s in body]
  rest = []
  for s, tx in zip(body, texts):
    if tx in MODIFY_PINNED:
      continue
    if isinstance(s, sm2v.ast.For):
      continue                       # the fill loop: translated for C23
    rest.append(s)
  if sorted(tx for tx in texts if tx in MODIFY_PINNED) != sorted(MODIFY_PINNED):
    raise core.TieBroken('docactions.ModifyColumn: a statement the model relies on is gone or changed: %r'
                         % sorted(set(MODIFY_PINNED) - set(texts)))
  if not texts[texts.index(MODIFY_PINNED[3]) + 1].startswith('old = schema_table_info.columns[col_id]'):
    raise core.TieBroken('docactions.ModifyColumn: `old` is not read right after schema_table_info')
  t = sm2v.Tr(MODIFY_BINDING)
  return ('Definition modify_column_gen (cols : scols) (col_id : str) (col_info : colpatch) : option (scols * cdict) :=\n%s.\n'
          % t.block(rest, ['cols', 'undo_col_info'], top=True))


CREC_ATTRS = {'id': 'c_id {0}', 'parentId': 'c_parent {0}', 'parentPos': 'c_pos {0}', 'colId': 'c_colId {0}',
              'type': 'c_type {0}', 'isFormula': 'c_isf {0}', 'formula': 'c_formula {0}', 'tableId': 't_tableId {0}'}

REVLOOKUP_BINDING = {'names': {'collist': 'collist'}, 'attrs': CREC_ATTRS, 'zdicts': {'col_ref_to_col_id'},
                     'exprs': {"getattr(c, 'reverseCol', 0)": '(c_rev c)'}}

BUILD_BINDING = {
  'names': {'meta_columns': 'cols', 'meta_tables': 'tables', 'schema': 'schema'},
  'attrs': CREC_ATTRS,
  'exprs': {'t.id': '(t_id t)', 'SchemaTable(t.tableId, columns)': 'columns'},
  'calls': {'actions.transpose_bulk_action': '{0}', 'get_reverse_col_id_lookup_func': 'reverse_col_id_gen {0}',
            'reverse_col_id': 'reverse_col_id {0}', 'bool': '{0}',
            'SchemaColumn': '({0}, {{| ci_type := {1}; ci_isf := {2}; ci_formula := {3}; ci_rev := {4} |}})'},
  'od_value': 'snd {0}',
  # coldict[t.id] raises KeyError for a table without column records: the generated function first checks that every
  # table has its group, then reads with the empty default
  'index': {'coldict': 'match zdict_get {0} coldict with Some g => g | None => [] end'},
  'setitem': {'schema': ('schema', 'od_set {0} {1} {2}')}}


def gen_build_schema(sm2v, os):
  path = os.path.join(core.GRIST, 'schema.py')
  fn = sm2v.find_function(path, 'get_reverse_col_id_lookup_func')
  body = sm2v.strip_doc(fn.body)
  if len(body) != 2 or not isinstance(body[1], sm2v.ast.Return) or [a.arg for a in fn.args.args] != ['collist']:
    raise core.TieBroken('schema.get_reverse_col_id_lookup_func: shape changed')
  t = sm2v.Tr(REVLOOKUP_BINDING)
  pre = t.block(body[:1], ['col_ref_to_col_id'])
  pre = pre[:pre.rindex('col_ref_to_col_id')]          # drop the final tuple: the lambda is the result
  rev = 'Definition reverse_col_id_gen (collist : list crec) : crec -> option str :=\n%s%s.\n' % (pre, t.expr(body[1].value))
  fn = sm2v.find_function(path, 'build_schema')
  if [a.arg for a in fn.args.args] != ['meta_tables', 'meta_columns', 'include_builtin']:
    raise core.TieBroken('schema.build_schema: signature changed')
  before, rng, after = sm2v.split_range(fn, 'collist = sorted(', 'for t in actions.transpose_bulk_action(meta_tables)')
  if hashlib_sha(sm2v.pin(before)) != PINS['build_schema:before'] or [sm2v.U(s) for s in after] != ['return schema']:
    raise core.TieBroken('schema.build_schema: the statements before the sort (assertions, built-in tables) or the '
                         'return are not the ones the model was written from')
  t = sm2v.Tr(BUILD_BINDING)
  t.locals = set()
  head = t.block(rng[:-1], ['coldict'])
  head = head[:head.rindex('coldict')]
  loop = t.block(rng[-1:], ['schema'])
  return rev + ('Definition build_schema_gen (schema : SchemaSync.schema) (tables : list trec) (cols : list crec) '
                ': res SchemaSync.schema :=\n%sif forallb (fun t => is_some (zdict_get (t_id t) coldict)) tables then Ok (\n%s)\n'
                'else Err E_key_error.\n' % (head, loop))


def hashlib_sha(text):
  import hashlib
  return hashlib.sha1(text.encode()).hexdigest()


# sha1 of canonical ASTs, computed by `python -m harness.props.c08` on the tree the model was written from (d061d08)
PINS = {
 "glue:Engine.apply_user_actions": "49aa962c2e33a4dbf5ec4bb21a4733421d49a4c1",
 "build_schema:before": "fb7c0c393ebb8a755d0c96de4c1c2fd743d24572",
 "docactions.AddColumn": "7f6fb6340d4a1fdb9c0b17516c0e0e1740471285",
 "docactions.AddTable": "9434dc97a7cb97b0e526e9e1e665313e76f6fbe7",
 "docactions.RemoveColumn": "80bdcd22c58c38e7966dc01c1d9e08625be97fbf",
 "docactions.RemoveTable": "c3da67bfa97c987b0737eb137c6c4a4ac76e16b9",
 "docactions.RenameColumn": "03d4c8088fc4baae47e9a0022a9f0d11da42e669",
 "docactions.RenameTable": "34d28f3d06fa05851ecf245a5e8485117f274ddd",
 "glue:Engine.apply_doc_action": "9f2ed7104f0b77342e33d87a3d766a9b33a6723b",
 "glue:Engine.assert_schema_consistent": "2dc35f99593bf234a92f9b570e2474307663f817",
 "glue:UserActions._removeTableRecords": "fa8034179d8b77c3d4bb8861b5227c87a9aa31de",
 "glue:UserActions._updateColumnRecords": "07949eec30309a1a48e1bca85b318a2b1d7c26cc",
 "glue:UserActions._updateTableRecords": "6ba1e7398ab89f55919c8e589aa57e7153bef1f0",
 "glue:UserActions.doAddColumn": "945c0b19b8139a1bc910518f45024bc60aa5780e",
 "glue:UserActions.doAddTable": "bcfa6627eca2bc2c1287da5d20eec9b8b6b90e43",
 "glue:UserActions.doBulkUpdateFromPairs": "4c181efdac120b0f755c8630dc361a5b0c664b63",
 "glue:UserActions.doRemoveColumns": "3850942e572ba6c2a2429f9e393d67d5f70ebe33",
 "glue:clone_schema": "3c75ae4a380b345d9d0ee9bcf6c9e4881a919ddf",
 "glue:dict_list_to_cols": "0581d6d0c960fde68986c13d631efa0f69888819",
 "glue:dict_to_col": "3c0c26cb367945f012b7237f88feca8787bc67e2"
}


SCHEMA_AT = 'match od_get table_id sch with Some cs => cs | None => [] end'
DOCACTION_SPECS = [
  # (method, prefixes of the schema statements, signature of the generated definition, binding, outs)
  ('AddColumn', ['self._engine.schema[table_id].columns[col_id] ='],
   'add_column_gen (sch : schema) (table_id col_id : str) (col_info : colinfo) : schema',
   {'names': {'sch': 'sch', 'col_id': 'col_id', 'col_info': 'col_info'},
    'calls': {'schema.dict_to_col(col_id=col_id)': '{0}'},
    'setitem': {'self._engine.schema[table_id].columns': ('sch', 'od_set table_id (od_set {0} {1} (%s)) {2}' % SCHEMA_AT)}},
   ['sch']),
  ('RemoveColumn', ['colinfo = self._engine.schema[table_id].columns.pop(col_id)'],
   'remove_column_gen (sch : schema) (table_id col_id : str) : schema',
   {'names': {'sch': 'sch', 'col_id': 'col_id'},
    'assign_mutators': {'self._engine.schema[table_id].columns.pop':
                        ('sch', 'od_get {0} (%s)' % SCHEMA_AT, 'od_set table_id (od_del {0} (%s)) {1}' % SCHEMA_AT)}},
   ['sch']),
  ('RenameColumn', ['schema_table_info = self._engine.schema[table_id]', 'colinfo = schema_table_info.columns.pop(',
                    'schema_table_info.columns[new_col_id] ='],
   'rename_column_gen (sch : schema) (table_id old_col_id new_col_id : str) (dflt : colinfo) : scols',
   {'names': {'sch': 'sch', 'old_col_id': 'old_col_id', 'new_col_id': 'new_col_id'},
    'exprs': {'self._engine.schema[table_id]': '(%s)' % SCHEMA_AT,
              'colinfo._replace(colId=new_col_id)': 'colinfo'},
    'assign_mutators': {'schema_table_info.columns.pop':
                        ('schema_table_info', 'match od_get {0} {1} with Some i => i | None => dflt end', 'od_del {0} {1}')},
    'setitem': {'schema_table_info.columns': ('schema_table_info', 'od_set {0} {1} {2}')}},
   ['schema_table_info']),
  ('AddTable', ['self._engine.schema[table_id] ='],
   'add_table_gen (sch : schema) (table_id : str) (columns : list (str * colinfo)) : schema',
   {'names': {'sch': 'sch', 'table_id': 'table_id', 'columns': 'columns'},
    'exprs': {'schema.SchemaTable(table_id, schema.dict_list_to_cols(columns))': '(od_of_list columns)'},
    'setitem': {'self._engine.schema': ('sch', 'od_set {0} {1} {2}')}},
   ['sch']),
  ('RemoveTable', ['schema_table = self._engine.schema.pop(table_id)'],
   'remove_table_gen (sch : schema) (table_id : str) : schema',
   {'names': {'sch': 'sch', 'table_id': 'table_id'},
    'assign_mutators': {'self._engine.schema.pop': ('sch', 'od_get {0} {1}', 'od_del {0} {1}')}},
   ['sch']),
  ('RenameTable', ['old = self._engine.schema.pop(old_table_id)', 'self._engine.schema[new_table_id] ='],
   'rename_table_gen (sch : schema) (old_table_id new_table_id : str) : schema',
   {'names': {'sch': 'sch', 'old_table_id': 'old_table_id', 'new_table_id': 'new_table_id'},
    'exprs': {'schema.SchemaTable(new_table_id, old.columns)': 'old'},
    'assign_mutators': {'self._engine.schema.pop':
                        ('sch', 'match od_get {0} {1} with Some cs => cs | None => [] end', 'od_del {0} {1}')},
    'setitem': {'self._engine.schema': ('sch', 'od_set {0} {1} {2}')}},
   ['sch']),
]


def gen_docactions(sm2v, os, pins=None):
  """The schema statements of the six other schema doc actions; everything else in those methods is pinned."""
  out = []
  path = os.path.join(core.GRIST, 'docactions.py')
  for name, prefixes, sig, binding, outs in DOCACTION_SPECS:
    fn = sm2v.find_function(path, 'DocActions.' + name)
    body = sm2v.strip_doc(fn.body)
    chosen, others = [], []
    for s in body:
      tx = sm2v.U(s)
      (chosen if any(tx.startswith(p) for p in prefixes) else others).append(s)
    if len(chosen) != len(prefixes):
      raise core.TieBroken('docactions.%s: cannot locate the schema statements %r' % (name, prefixes))
    key = 'docactions.' + name
    h = hashlib_sha(sm2v.pin(others))
    if pins is not None:
      pins[key] = h
    elif PINS.get(key) != h:
      raise core.TieBroken('docactions.%s: a statement outside the translated schema update changed (assertions, undo '
                           'action, order)' % name)
    t = sm2v.Tr(binding)
    out.append('Definition %s :=\n%s.\n' % (sig, t.block(chosen, outs)))
  return '\n'.join(out)


# whole functions that are glue for the model (not translated): their canonical AST is compared with the one the model
# was written from
GLUE = [('engine.py', 'Engine.apply_user_actions'), ('schema.py', 'dict_to_col'), ('schema.py', 'dict_list_to_cols'), ('schema.py', 'clone_schema'),
        ('engine.py', 'Engine.assert_schema_consistent'), ('engine.py', 'Engine.apply_doc_action'),
        ('useractions.py', 'UserActions._updateColumnRecords'), ('useractions.py', 'UserActions._updateTableRecords'),
        ('useractions.py', 'UserActions.doAddColumn'), ('useractions.py', 'UserActions.doAddTable'),
        ('useractions.py', 'UserActions.doRemoveColumns'), ('useractions.py', 'UserActions._removeTableRecords'),
        ('useractions.py', 'UserActions.doBulkUpdateFromPairs')]


def glue_pins(sm2v, os):
  out = {}
  for f, q in GLUE:
    fn = sm2v.find_function(os.path.join(core.GRIST, f), q)
    out['glue:' + q] = hashlib_sha(sm2v.pin(sm2v.strip_doc(fn.body)) + '|' + sm2v.ast.dump(fn.args, annotate_fields=False))
  return out


GEN_HEADER = '''(* GENERATED by harness/props/c08.py (harness/sm2v.py) from sandbox/grist/schema.py (col_to_dict, build_schema,
   get_reverse_col_id_lookup_func) and docactions.py (the schema updates of the seven schema doc actions).  Do not edit. *)
From Coq Require Import ZArith List Bool.
Import ListNotations.
Require Import Grist.Model.SchemaSync Grist.Model.SchemaCode.
Open Scope Z_scope.

'''


def regenerate(ctx):
  import os
  from harness import sm2v
  path = os.path.join(core.COQ, 'gen', 'SchemaSync_gen.v')
  try:
    parts = [gen_col_to_dict(sm2v, os), gen_modify_column(sm2v, os), gen_docactions(sm2v, os), gen_build_schema(sm2v, os)]
    for k, h in glue_pins(sm2v, os).items():
      if PINS.get(k) != h:
        raise core.TieBroken('%s is not the text the model was written from (untranslated glue; AST comparison)' % k[5:])
  except (sm2v.Untranslatable, core.TieBroken) as e:
    core.write_if_changed(path, '(* translation failed: %s *)\n' % str(e).replace('*', ' '))
    raise core.TieBroken('schema code outside the translated subset / changed glue: %s' % e)
  core.write_if_changed(path, GEN_HEADER + '\n'.join(parts))


if __name__ == '__main__':
  import json
  import os
  from harness import sm2v
  core.setup_impl_path()
  pins = {}
  gen_docactions(sm2v, os, pins)
  fn = sm2v.find_function(os.path.join(core.GRIST, 'schema.py'), 'build_schema')
  b, r, a = sm2v.split_range(fn, 'collist = sorted(', 'for t in actions.transpose_bulk_action(meta_tables)')
  pins['build_schema:before'] = hashlib_sha(sm2v.pin(b))
  pins.update(glue_pins(sm2v, os))
  print('PINS = ' + json.dumps(pins, indent=1, sort_keys=True))


# ------------------------------------------------------------------------------------------------
# differential validation of the translator: the generated definitions evaluated by vm_compute vs the running functions

def cdict_lit(d):
  f = lambda k, lit: opt(d[k], lit) if k in d else 'None'
  rev = '(Some %s)' % ostr(d['reverseColId']) if 'reverseColId' in d else 'None'
  return '{| d_type := %s; d_isf := %s; d_formula := %s; d_rev := %s; d_id := %s |}' % (
    f('type', S), f('isFormula', lambda b: B(bool(b))), f('formula', S), rev, f('id', S))


class _FakeColumn(object):
  def set(self, r, v): pass
  def raw_get(self, r): return None


class _FakeTable(object):
  row_ids = []
  def __init__(self, sch): self.sch = sch
  def has_column(self, c): return c in self.sch.columns
  def get_column(self, c): return _FakeColumn()


class _FakeEngine(object):
  def __init__(self, sch):
    import action_obj
    self.schema = sch
    self.tables = {t: _FakeTable(st) for t, st in sch.items()}
    self.out_actions = action_obj.ActionGroup()
  def rebuild_usercode(self): pass


def translator_cases(ctx):
  """(coq check name, cases) for col_to_dict_gen and modify_column_gen against the running functions."""
  import collections as C
  import docactions
  import schema as schema_mod
  rng = ctx.rng
  types = ['Text', 'Int', 'Ref:T', 'RefList:T', 'Any']
  def rcol(cid):
    return schema_mod.SchemaColumn(cid, rng.choice(types), rng.random() < 0.4, rng.choice(['', '$A', '1+1']),
                                   rng.choice([None, None, '', 'B', 'back']))
  plain = lambda c: (c.type, bool(c.isFormula), c.formula, c.reverseColId)
  c2d, mods = [], []
  for _ in range(ctx.n(40, 600)):
    col = rcol(rng.choice(['A', 'B', 'x y']))
    inc_id, inc_def = rng.random() < 0.5, rng.random() < 0.5
    d = schema_mod.col_to_dict(col, include_id=inc_id, include_default=inc_def)
    c2d.append('((%s, %s), %s, %s, %s)' % (S(col.colId), colinfo_lit(plain(col)), B(inc_id), B(inc_def), cdict_lit(d)))
  for _ in range(ctx.n(50, 800)):
    ids = rng.sample(['A', 'B', 'C', 'D'], rng.randint(1, 4))
    cols = C.OrderedDict((i, rcol(i)) for i in ids)
    sch = C.OrderedDict([('T', schema_mod.SchemaTable('T', cols))])
    eng = _FakeEngine(sch)
    cid = rng.choice(ids)
    old = cols[cid]
    info = {}
    for k, vals in (('type', types), ('isFormula', [True, False, 1, 0]), ('formula', ['', '$A', '2']),
                    ('reverseColId', [None, '', 'B', 'back', 'other'])):
      r = rng.random()
      if r < 0.3:
        info[k] = rng.choice(vals)
      elif r < 0.45:
        info[k] = getattr(old, k)          # same value: the no-op path
    before = [(k, plain(c)) for k, c in cols.items()]
    docactions.DocActions(eng).ModifyColumn('T', cid, dict(info))
    after = [(k, plain(c)) for k, c in sch['T'].columns.items()]
    undo = eng.out_actions.undo
    if undo:
      exp = '(Some (%s, %s))' % (cols_lit(after), cdict_lit(undo[0].col_info))
    else:
      exp = 'None'
      if after != before:
        raise core.TieBroken('ModifyColumn changed the schema without an undo action')
    pinfo = dict(info)
    if 'isFormula' in pinfo:
      pinfo['isFormula'] = bool(pinfo['isFormula'])
    mods.append('(%s, %s, %s, %s)' % (cols_lit(before), S(cid), colpatch_lit(pinfo), exp))
  return c2d, mods


TRANSLATOR_DEFS = r'''
Require Import Grist.Model.SchemaCode GristGen.SchemaSync_gen.
Definition oo_eqb (a b : option (option str)) : bool :=
  match a, b with Some x, Some y => ostr_eqb x y | None, None => true | _, _ => false end.
Definition ob_eqb (a b : option bool) : bool :=
  match a, b with Some x, Some y => Bool.eqb x y | None, None => true | _, _ => false end.
Definition cdict_eqb (a b : cdict) : bool :=
  ostr_eqb (d_type a) (d_type b) && ob_eqb (d_isf a) (d_isf b) && ostr_eqb (d_formula a) (d_formula b) &&
  oo_eqb (d_rev a) (d_rev b) && ostr_eqb (d_id a) (d_id b).
Definition c2d_check (c : scol * bool * bool * cdict) : bool :=
  match c with (col, i, d, exp) => cdict_eqb (col_to_dict_gen col i d) exp end.
Definition mod_check (c : scols * str * colpatch * option (scols * cdict)) : bool :=
  match c with
  | (cols, cid, p, exp) =>
    match modify_column_gen cols cid p, exp with
    | Some (a, u), Some (b, v) => scols_eqb a b && cdict_eqb u v
    | None, None => true
    | _, _ => false
    end
  end.
Definition build_gen_check (c : meta * option schema) : bool :=
  match build_schema_gen [] (m_tables (fst c)) (m_cols (fst c)), snd c with
  | Ok s, Some s' => schema_eqb s s'
  | Err _, None => true
  | _, _ => false
  end.
'''
