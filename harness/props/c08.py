"""C08 -- Internal schema always matches the metadata (schema.build_schema vs Engine.schema)."""
import collections
import copy
import random
import struct
import sys
import traceback

from harness import core

ID = 'C08'
TITLE = 'Internal schema always matches the metadata'
PROPS = ['Props/C08']
RULE = ('histories of user actions from harness/histgen.py with schema operations and metadata-only paths '
        'over-represented (direct UpdateRecord on _grist_Tables_column colId/type/formula/isFormula/label/'
        'untieColIdFromLabel/widgetOptions/parentPos, _grist_Tables tableId, summary tables, AddReverseColumn, '
        'undo/redo of every bundle, failing bundles); a user action is non-trivial when it applied at least one '
        'schema doc action or one record action on _grist_Tables/_grist_Tables_column; build_schema cases are real '
        'metadata plus random record sets (duplicate positions, shuffled rows, tables without columns, dangling '
        'reverseCol); the oracle compares Engine.schema with build_schema(metadata) and checks stray columns '
        'after every bundle and after every failed bundle')
TRUSTED = ['Model/SchemaSync.v is hand-written; tied on every run: (a) its build_schema is evaluated on real and '
           'random metadata rows and compared (ordered) with schema.build_schema, (b) every recorded user action of '
           'real histories is parsed into coupled steps, the model derives the schema doc actions from the metadata '
           'change and must reproduce the recorded schema doc actions exactly and reach the engine\'s schema '
           '(ordered) and metadata rows',
           'instrumentation points Engine.apply_doc_action, Engine._apply_one_user_action, '
           'UserActions.doBulkUpdateFromPairs (harness-side wrappers)',
           'parentPos floats enter the model through an order-preserving integer key']
ASSUMPTIONS = ['record actions applied directly to _grist_Tables/_grist_Tables_column are not coupled steps: in the model they '
               'break the invariant (C08_uncoupled_*_breaks_inv); since b79769b the engine runs its consistency assertion '
               'after them, so the oracle requires that such an edit keeps schema == metadata or fails without a trace',
               'coupled steps are taken with the preconditions cop_pre (established by earlier phases of the same '
               'user action: reverse pointers cleared before a column disappears, reverse column tagged on rename, '
               'no parentId change); cop_pre is evaluated on every recorded step',
               'the witnesses of the four repaired direct-edit defects stay in the corpus and are replayed first']
TECHNIQUE = ('Coq proof of an inductive invariant over a hand-written model of build_schema and of the coupled '
             'schema/metadata steps + trace tie on real histories (vm_compute) + implementation oracle')
LEVEL_TEXT = ('Kernel-checked: every coupled step of useractions (AddColumn, RemoveColumns, column record updates incl. '
              'rename/modify/reverse, AddTable, RemoveTables, table renames with the Int detour) preserves '
              '"Engine.schema is build_schema(metadata) as dicts, no stray column record", hence every history of '
              'coupled steps; rollback/undo restore it. The model is compared with the engine on every recorded user '
              'action and build_schema on real and random metadata.')
LEVEL_NOTE = ('Kernel strength: useractions phases before the coupled step (formula renames, summary bookkeeping) are '
              'environment; their outputs (the update pairs) are taken from the run and checked against cop_pre. '
              'Direct record actions on the two metadata tables are rejected by the engine since b79769b (witnesses kept in the corpus).')


FIELDS = ('parentId', 'parentPos', 'colId', 'type', 'isFormula', 'formula', 'reverseCol')
TIE_FIELDS = ('parentId', 'colId', 'type', 'isFormula', 'formula', 'reverseCol')
META = ('_grist_Tables', '_grist_Tables_column')


# ------------------------------------------------------------------------------------------------
# engine access (imported lazily so that core.GRIST is honoured)

def G():
  from harness import gristenv
  return gristenv


def pos_key(x):
  """Order-preserving integer key of a float (parentPos)."""
  if x is None:
    x = 0.0
  x = float(x)
  if x != x:
    raise core.TieBroken('parentPos is NaN')
  k = struct.unpack('>q', struct.pack('>d', x))[0]
  if k < 0:
    k = -(k & 0x7fffffffffffffff)
  return k


def snap(e):
  """(schema ordered, table rows, column rows) of the user part of the document, as plain data."""
  import schema as schema_mod
  base = getattr(snap, '_base', None)
  if base is None:
    base = snap._base = set(t.table_id for t in schema_mod.schema_create_actions())
  sch = []
  for tid, st in e.schema.items():
    if tid in base:
      continue
    cols = []
    for key, c in st.columns.items():
      if key != c.colId or st.tableId != tid:
        raise core.TieBroken('schema key differs from the SchemaColumn/SchemaTable id: %r %r' % (tid, key))
      cols.append((key, (c.type, bool(c.isFormula), c.formula, c.reverseColId)))
    sch.append((tid, cols))
  return sch, meta_rows(e)


def meta_rows(e):
  t = e.fetch_table('_grist_Tables')
  c = e.fetch_table('_grist_Tables_column')
  trows = [(rid, t.columns['tableId'][i]) for i, rid in enumerate(t.row_ids)]
  crows = []
  for i, rid in enumerate(c.row_ids):
    g = lambda f: c.columns[f][i]
    crows.append((rid, int(g('parentId')), pos_key(g('parentPos')), g('colId'), g('type'), bool(g('isFormula')),
                  g('formula'), int(g('reverseCol') or 0)))
  return trows, crows


class Recorder(object):
  """Records, per user action, the schema doc actions, the record actions on the two metadata tables and the
  update pairs handed to doBulkUpdateFromPairs, with the state before and after."""
  def __init__(self):
    self.groups = []      # dict(name, pre, post, events, failed)
    self.cur = None
    self.installed = False

  def install(self):
    import engine, useractions, actions
    self.engine, self.useractions, self.actions = engine, useractions, actions
    for cls, name in ((engine.Engine, 'apply_doc_action'), (engine.Engine, '_apply_one_user_action'),
                      (useractions.UserActions, 'doBulkUpdateFromPairs')):
      if not hasattr(cls, name):
        raise core.TieBroken('instrumentation point %s.%s is gone' % (cls.__name__, name))
    rec = self
    self.orig = (engine.Engine.apply_doc_action, engine.Engine._apply_one_user_action,
                 useractions.UserActions.doBulkUpdateFromPairs)
    o_apply, o_ua, o_pairs = self.orig

    def apply_doc_action(eng, da):
      name = type(da).__name__
      interesting = name in actions.schema_actions or getattr(da, 'table_id', None) in META
      if interesting and rec.cur is None:
        rec.begin(eng, '<outside user action>')
      ret = o_apply(eng, da)
      if interesting:
        rec.cur['events'].append(rec.event(eng, name, da))
      return ret

    def _apply_one_user_action(eng, ua):
      rec.end(eng)
      rec.begin(eng, type(ua).__name__)
      try:
        return o_ua(eng, ua)
      finally:
        rec.end(eng)

    def doBulkUpdateFromPairs(uaself, table_id, pairs):
      pairs = list(pairs)
      if table_id in META:
        if rec.cur is None:
          rec.begin(uaself._engine, '<outside user action>')
        caller = sys._getframe(1).f_code.co_name
        rec.cur['events'].append(('P', table_id, caller,
                                  [(int(r), dict(v)) for (r, v) in pairs]))
      return o_pairs(uaself, table_id, pairs)

    engine.Engine.apply_doc_action = apply_doc_action
    engine.Engine._apply_one_user_action = _apply_one_user_action
    useractions.UserActions.doBulkUpdateFromPairs = doBulkUpdateFromPairs
    self.installed = True

  def uninstall(self):
    if self.installed:
      self.engine.Engine.apply_doc_action, self.engine.Engine._apply_one_user_action, \
        self.useractions.UserActions.doBulkUpdateFromPairs = self.orig
      self.installed = False

  def begin(self, eng, name):
    self.cur = {'name': name, 'pre': snap(eng), 'events': [], 'post': None}

  def end(self, eng):
    if self.cur is not None:
      if self.cur['events']:
        self.cur['post'] = snap(eng)
        self.groups.append(self.cur)
      self.cur = None

  def event(self, eng, name, da):
    rep = self.actions.get_action_repr(da)
    if name in self.actions.schema_actions:
      return ('S', name, rep[1:])
    rows = rep[2] if isinstance(rep[2], list) else [rep[2]]
    return ('M', name, da.table_id, list(rows), meta_rows(eng))

  def take(self, eng):
    self.end(eng)
    g, self.groups = self.groups, []
    return g


# ------------------------------------------------------------------------------------------------
# Coq literals

S = core.strlit
Z = core.zlit
B = core.boollit


def ostr(x):
  return 'None' if x is None else '(Some %s)' % S(x)


def colinfo_lit(ci):
  ty, isf, formula, rev = ci
  return '{| ci_type := %s; ci_isf := %s; ci_formula := %s; ci_rev := %s |}' % (S(ty), B(isf), S(formula), ostr(rev))


def cols_lit(cols):
  return core.coq_list(['(%s, %s)' % (S(k), colinfo_lit(ci)) for k, ci in cols])


def schema_lit(sch):
  return core.coq_list(['(%s, %s)' % (S(t), cols_lit(cols)) for t, cols in sch])


def trec_lit(t):
  return '{| t_id := %s; t_tableId := %s |}' % (Z(t[0]), S(t[1]))


def crec_lit(c):
  return ('{| c_id := %s; c_parent := %s; c_pos := %s; c_colId := %s; c_type := %s; c_isf := %s; c_formula := %s; '
          'c_rev := %s |}') % (Z(c[0]), Z(c[1]), Z(c[2]), S(c[3]), S(c[4]), B(c[5]), S(c[6]), Z(c[7]))


def meta_lit(m):
  return '{| m_tables := %s; m_cols := %s |}' % (core.coq_list([trec_lit(t) for t in m[0]]),
                                                core.coq_list([crec_lit(c) for c in m[1]]))


def state_lit(s):
  return '{| st_schema := %s; st_meta := %s |}' % (schema_lit(s[0]), meta_lit(s[1]))


def opt(x, f):
  return 'None' if x is None else '(Some %s)' % f(x)


def cpatch_lit(v):
  """v: dict of the metadata fields of one update pair."""
  g = lambda k: v[k] if k in v else None
  has = lambda k: k in v
  return ('{| u_parent := %s; u_pos := %s; u_colId := %s; u_type := %s; u_isf := %s; u_formula := %s; u_rev := %s |}'
          % (opt(int(v['parentId']) if has('parentId') else None, Z),
             opt(pos_key(v['parentPos']) if has('parentPos') else None, Z),
             opt(tostr(v['colId']) if has('colId') else None, S),
             opt(tostr(v['type']) if has('type') else None, S),
             opt(bool(v['isFormula']) if has('isFormula') else None, B),
             opt(tostr(v['formula']) if has('formula') else None, S),
             opt(int(v['reverseCol'] or 0) if has('reverseCol') else None, Z)))


def tostr(x):
  if not isinstance(x, str):
    raise Unparsed('non-string value %r in a metadata string field' % (x,))
  return x


def colpatch_lit(info):
  has = lambda k: k in info
  rev = 'None'
  if has('reverseColId'):
    rev = '(Some %s)' % ostr(info['reverseColId'])
  return '{| p_type := %s; p_isf := %s; p_formula := %s; p_rev := %s |}' % (
    opt(info['type'] if has('type') else None, S), opt(bool(info['isFormula']) if has('isFormula') else None, B),
    opt(info['formula'] if has('formula') else None, S), rev)


def info_lit(info):
  return colinfo_lit((info['type'], bool(info['isFormula']), info['formula'], info.get('reverseColId')))


def sev_lit(ev):
  _, name, a = ev
  if name == 'AddColumn':
    return '(SAddColumn %s %s %s)' % (S(a[0]), S(a[1]), info_lit(a[2]))
  if name == 'RemoveColumn':
    return '(SRemoveColumn %s %s)' % (S(a[0]), S(a[1]))
  if name == 'RenameColumn':
    return '(SRenameColumn %s %s %s)' % (S(a[0]), S(a[1]), S(a[2]))
  if name == 'ModifyColumn':
    return '(SModifyColumn %s %s %s)' % (S(a[0]), S(a[1]), colpatch_lit(a[2]))
  if name == 'AddTable':
    return '(SAddTable %s %s)' % (S(a[0]), core.coq_list(['(%s, %s)' % (S(c['id']), info_lit(c)) for c in a[1]]))
  if name == 'RemoveTable':
    return '(SRemoveTable %s)' % S(a[0])
  if name == 'RenameTable':
    return '(SRenameTable %s %s)' % (S(a[0]), S(a[1]))
  raise Unparsed('schema action %s' % name)


class Unparsed(Exception):
  pass


def mev_lit(ev, before):
  """A recorded record action on a metadata table as a raw model event; `before` = metadata rows before it."""
  _, name, table, rows, after = ev
  a_t, a_c = dict((r[0], r) for r in after[0]), dict((r[0], r) for r in after[1])
  b_t, b_c = dict((r[0], r) for r in before[0]), dict((r[0], r) for r in before[1])
  if name in ('AddRecord', 'BulkAddRecord'):
    if table == '_grist_Tables':
      return '(MAddTables %s)' % core.coq_list([trec_lit(a_t[r]) for r in rows])
    return '(MAddCols %s)' % core.coq_list([crec_lit(a_c[r]) for r in rows])
  if name in ('RemoveRecord', 'BulkRemoveRecord'):
    return '(%s %s)' % ('MRemoveTables' if table == '_grist_Tables' else 'MRemoveCols', core.zlist(rows))
  if name in ('UpdateRecord', 'BulkUpdateRecord'):
    if table == '_grist_Tables':
      return '(MUpdateTables %s)' % core.coq_list(
        ['(%s, %s)' % (Z(r), ostr(a_t[r][1] if a_t[r][1] != b_t[r][1] else None)) for r in rows])
    out = []
    for r in rows:
      d = {}
      for k, f in enumerate(('id',) + FIELDS):
        if k and a_c[r][k] != b_c[r][k]:
          d[f] = a_c[r][k]
      out.append('(%s, %s)' % (Z(r), cpatch_lit_raw(d)))
    return '(MUpdateCols %s)' % core.coq_list(out)
  raise Unparsed('record action %s on %s' % (name, table))


def cpatch_lit_raw(d):
  """From already-normalised row values (parentPos is a key already)."""
  has = lambda k: k in d
  return ('{| u_parent := %s; u_pos := %s; u_colId := %s; u_type := %s; u_isf := %s; u_formula := %s; u_rev := %s |}'
          % (opt(d.get('parentId'), Z), opt(d.get('parentPos'), Z), opt(d.get('colId'), S), opt(d.get('type'), S),
             opt(d.get('isFormula'), B), opt(d.get('formula'), S), opt(d.get('reverseCol'), Z)))


# ------------------------------------------------------------------------------------------------
# parsing one recorded user action into coupled steps

RAW_ACTIONS = ('ApplyUndoActions', 'ApplyDocActions')


def parse_group(g):
  """Returns (list of Coq cop terms, list of kinds, uncovered): uncovered lists events no coupled step explains."""
  evs = g['events']
  raw_mode = g['name'] in RAW_ACTIONS
  cops, kinds, uncovered = [], [], []
  meta_before = [g['pre'][1]]       # metadata rows before the event being looked at

  def meta_after(ev):
    return ev[4]

  def raw(ev):
    if ev[0] == 'S':
      cops.append('(CRaw (ES %s))' % sev_lit(ev))
    else:
      cops.append('(CRaw (EM %s))' % mev_lit(ev, meta_before[0]))
      meta_before[0] = meta_after(ev)
    kinds.append('raw')

  def is_m(ev, names, table):
    return ev[0] == 'M' and ev[1] in names and ev[2] == table

  ADD, REM, UPD = ('AddRecord', 'BulkAddRecord'), ('RemoveRecord', 'BulkRemoveRecord'), ('UpdateRecord', 'BulkUpdateRecord')
  i, n = 0, len(evs)

  def parse_update(i, pending_s):
    """evs[i] is a P event; pending_s: schema events seen since the last step (they belong to this update).
    Returns the next index."""
    ev = evs[i]
    _, table, caller, pairs = ev
    j = i + 1
    if table == '_grist_Tables_column':
      cops.append('(CUpdateColumns %s)' % core.coq_list(
        ['(%s, %s)' % (Z(r), cpatch_lit({k: v for k, v in vals.items() if k in TIE_FIELDS})) for r, vals in pairs]))
      kinds.append('CUpdateColumns')
      if j < n and is_m(evs[j], UPD, table):
        meta_before[0] = meta_after(evs[j])
        j += 1
      return j
    # _grist_Tables: the table-rename step; its column part follows (schema events, then a P on columns)
    tupds = ['(%s, %s)' % (Z(r), ostr(tostr(vals['tableId']) if 'tableId' in vals else None)) for r, vals in pairs]
    if j < n and is_m(evs[j], UPD, table):
      meta_before[0] = meta_after(evs[j])
      j += 1
    cupds = []
    if caller == '_updateTableRecords':
      k = j
      while k < n and evs[k][0] == 'S' and evs[k][1] == 'ModifyColumn':
        k += 1
      if k < n and evs[k][0] == 'P' and evs[k][1] == '_grist_Tables_column' and evs[k][2] == '_updateTableRecords':
        cupds = ['(%s, %s)' % (Z(r), cpatch_lit({kk: v for kk, v in vals.items() if kk in TIE_FIELDS}))
                 for r, vals in evs[k][3]]
        j = k + 1
        if j < n and is_m(evs[j], UPD, '_grist_Tables_column'):
          meta_before[0] = meta_after(evs[j])
          j += 1
    cops.append('(CUpdateTables %s %s)' % (core.coq_list(tupds), core.coq_list(cupds)))
    kinds.append('CUpdateTables')
    return j

  while i < n:
    ev = evs[i]
    if raw_mode:
      if ev[0] != 'P':
        raw(ev)
      i += 1
      continue
    if ev[0] == 'S' and ev[1] == 'AddColumn' and i + 1 < n and is_m(evs[i + 1], ADD, '_grist_Tables_column') \
       and len(evs[i + 1][3]) == 1:
      row = dict((r[0], r) for r in meta_after(evs[i + 1])[1])[evs[i + 1][3][0]]
      cops.append('(CAddColumn %s %s %s %s %s %s %s)' % (Z(row[0]), Z(row[1]), Z(row[2]), S(row[3]), S(row[4]),
                                                        B(row[5]), S(row[6])))
      kinds.append('CAddColumn')
      meta_before[0] = meta_after(evs[i + 1])
      i += 2
      continue
    if ev[0] == 'S' and ev[1] == 'AddTable' and i + 1 < n and is_m(evs[i + 1], ADD, '_grist_Tables') \
       and len(evs[i + 1][3]) == 1:
      trow = dict((r[0], r) for r in meta_after(evs[i + 1])[0])[evs[i + 1][3][0]]
      j = i + 2
      crows = []
      if j < n and is_m(evs[j], ADD, '_grist_Tables_column'):
        byid = dict((r[0], r) for r in meta_after(evs[j])[1])
        crows = [byid[r] for r in evs[j][3]]
        j += 1
      cops.append('(CAddTable %s %s)' % (trec_lit(trow), core.coq_list([crec_lit(c) for c in crows])))
      kinds.append('CAddTable')
      meta_before[0] = meta_after(evs[j - 1])
      i = j
      continue
    if is_m(ev, REM, '_grist_Tables_column'):
      # nested updates (back-references to the removed rows) come before the schema actions / the table removal
      removed = ev[3]
      after_removal = meta_after(ev)
      saved_before = meta_before[0]
      meta_before[0] = after_removal
      j = i + 1
      nested_from = len(cops)
      pend = []
      while j < n:
        e2 = evs[j]
        if e2[0] == 'P':
          j = parse_update(j, pend)
          pend = []
          continue
        if e2[0] == 'S' and e2[1] in ('ModifyColumn', 'RenameColumn'):
          pend.append(e2)
          j += 1
          continue
        break
      if j < n and is_m(evs[j], REM, '_grist_Tables'):
        trows = evs[j][3]
        k = j + 1
        cnt = 0
        while k < n and evs[k][0] == 'S' and evs[k][1] == 'RemoveTable' and cnt < len(trows):
          k += 1
          cnt += 1
        cops.append('(CRemoveTables %s)' % core.zlist(trows))
        kinds.append('CRemoveTables')
        meta_before[0] = meta_after(evs[j])
        i = k
        continue
      k = j
      cnt = 0
      while k < n and evs[k][0] == 'S' and evs[k][1] == 'RemoveColumn' and cnt < len(removed):
        k += 1
        cnt += 1
      if cnt == len(removed):
        cops.append('(CRemoveColumns %s)' % core.zlist(removed))
        kinds.append('CRemoveColumns')
        i = k
        continue
      # not a coupled removal
      del cops[nested_from:]
      del kinds[nested_from:]
      meta_before[0] = saved_before
      uncovered.append(('record removal without its schema actions', ev[:4]))
      raw(ev)
      i += 1
      continue
    if ev[0] == 'S' and ev[1] in ('ModifyColumn', 'RenameColumn', 'RenameTable'):
      # schema events of an update step: find the P they belong to
      j = i
      while j < n and evs[j][0] == 'S' and evs[j][1] in ('ModifyColumn', 'RenameColumn', 'RenameTable'):
        j += 1
      if j < n and evs[j][0] == 'P':
        i = parse_update(j, evs[i:j])
        continue
      uncovered.append(('schema action without a metadata update', ev[:3]))
      raw(ev)
      i += 1
      continue
    if ev[0] == 'P':
      i = parse_update(i, [])
      continue
    if is_m(ev, UPD, '_grist_Tables_column') and meta_after(ev) == meta_before[0]:
      i += 1          # only parentPos (or an unrelated field) changed: a position adjustment of other rows
      continue
    uncovered.append(('doc action outside every coupled step', ev[:4] if ev[0] == 'M' else ev[:3]))
    raw(ev)
    i += 1
  return cops, kinds, uncovered


def strip_pos(state):
  sch, (trows, crows) = state
  return sch, (trows, [(c[0], c[1], 0) + tuple(c[3:]) for c in crows])


def group_case(g):
  """The tie ignores parentPos (the invariant compares schemas as dicts; the order is covered by build_check)."""
  g = dict(g)
  g['pre'], g['post'] = strip_pos(g['pre']), strip_pos(g['post'])
  g['events'] = [ev[:4] + (strip_pos((None, ev[4]))[1],) if ev[0] == 'M' else ev for ev in g['events']]
  cops, kinds, uncovered = parse_group(g)
  rec_s = [sev_lit(ev) for ev in g['events'] if ev[0] == 'S']
  term = '(%s, %s, %s, %s)' % (state_lit(g['pre']), core.coq_list(cops), core.coq_list(rec_s), state_lit(g['post']))
  return term, kinds, uncovered


# ------------------------------------------------------------------------------------------------
# histories

WEIGHTS = {'addrec': 5, 'updrec': 4, 'rmrec': 1, 'tempids': 1, 'addcol': 6, 'addformula': 5, 'rmcol': 5, 'rencol': 6,
           'modtype': 5, 'modformula': 4, 'toformula': 2, 'todata': 2, 'addtable': 3, 'rmtable': 2, 'rentable': 4,
           'addref': 5, 'addreverse': 4, 'summary': 4, 'summaryformula': 3, 'updsummary': 3, 'label': 3,
           'renamechoices': 0, 'upsert': 1, 'invalid': 2,
           # metadata-only paths
           'metacol': 8, 'metatable': 3, 'metabulk': 3, 'rmcolrec': 2, 'rmtablerec': 1, 'detach': 1, 'emptytable': 1,
           'duptable': 1, 'rmreverse': 2}


def make_gen(rng):
  from harness import histgen
  Gm = G()

  class C08Gen(histgen.HistGen):
    def gen(self, kind, meta):
      r = self.r
      if kind not in ('metacol', 'metatable', 'metabulk', 'rmcolrec', 'rmtablerec', 'detach', 'emptytable',
                      'duptable', 'rmreverse'):
        return histgen.HistGen.gen(self, kind, meta)
      anyt = r.random() < 0.25
      ts = meta.user_tables(summary=False) + (meta.user_tables(summary=True) if anyt else [])
      if not ts:
        return None
      t = r.choice(ts)
      tid, tref = t['tableId'], t['id']
      vcols = meta.visible_cols(tref)
      if kind == 'emptytable':
        return ['AddEmptyTable', r.choice([None, 'T', 'New'])]
      if kind == 'duptable':
        return ['DuplicateTable', tid, r.choice(histgen.TABLE_NAMES), r.random() < 0.5]
      if kind == 'metatable':
        return ['UpdateRecord', '_grist_Tables', tref, {'tableId': r.choice(histgen.TABLE_NAMES + ['t 2', 'if'])}]
      if kind == 'rmtablerec':
        if len(meta.user_tables()) < 2:
          return None
        return ['RemoveRecord', '_grist_Tables', tref]
      if kind == 'detach':
        st = self.pick_table(meta, summary=True)
        sec = self._section_of(meta, st['id']) if st else None
        return ['DetachSummaryViewSection', sec] if sec else None
      if not vcols:
        return None
      c = r.choice(vcols)
      if kind == 'rmcolrec':
        return ['RemoveRecord', '_grist_Tables_column', c['id']]
      if kind == 'rmreverse':
        rc = [x for x in vcols if x.get('reverseCol')]
        if not rc:
          return None
        x = r.choice(rc)
        return r.choice([['RemoveColumn', tid, x['colId']],
                         ['UpdateRecord', '_grist_Tables_column', x['id'], {'reverseCol': 0}],
                         ['RenameColumn', tid, x['colId'], r.choice(histgen.COL_NAMES)],
                         ['ModifyColumn', tid, x['colId'], {'type': r.choice(['Ref:', 'RefList:']) + x['type'].split(':')[1]}]])
      def one(c):
        f = r.choice(['colId', 'colId', 'type', 'formula', 'isFormula', 'label', 'label', 'untie', 'widgetOptions',
                      'parentPos', 'multi'])
        if f == 'colId':
          return {'colId': r.choice(histgen.COL_NAMES + ['a b', '1x', 'id'])}
        if f == 'type':
          return {'type': r.choice(histgen.TYPES + ['Ref:' + tid, 'RefList:' + tid])}
        if f == 'formula':
          lvl = max(1, self.level_of(c))
          return {'formula': self.formula(meta, tref, lvl) if c['isFormula'] else r.choice(['', '5', '$id'])}
        if f == 'isFormula':
          if c['isFormula']:
            return {'isFormula': False}
          return {'isFormula': True, 'formula': r.choice(['$id', '"k"', 'rec.id + 1'])}
        if f == 'label':
          return {'label': r.choice(histgen.COL_NAMES + ['My Label', 'x y']), 'untieColIdFromLabel': r.random() < 0.3}
        if f == 'untie':
          return {'untieColIdFromLabel': r.random() < 0.5}
        if f == 'widgetOptions':
          return {'widgetOptions': r.choice(['', '{"alignment":"left"}', '{"choices":["red","green"]}'])}
        if f == 'parentPos':
          return {'parentPos': r.choice([0.5, 1, 1.5, 2, 100, -3.25, c['parentPos']])}
        return {'colId': r.choice(histgen.COL_NAMES), 'type': r.choice(histgen.TYPES), 'label': r.choice(histgen.COL_NAMES)}
      if kind == 'metacol':
        return ['UpdateRecord', '_grist_Tables_column', c['id'], one(c)]
      if kind == 'metabulk':
        cs = r.sample(vcols, min(len(vcols), r.randint(2, 3)))
        names = [r.choice(histgen.COL_NAMES) for _ in cs]
        if r.random() < 0.3 and len(cs) >= 2:      # swap two names
          names[0], names[1] = cs[1]['colId'], cs[0]['colId']
        return ['BulkUpdateRecord', '_grist_Tables_column', [x['id'] for x in cs], {'colId': names}]
      return None

    def bundle(self, e, max_len=3):
      # a quarter of the bundles end in an action that fails, so that schema and metadata changes are rolled back
      if self.r.random() < 0.25:
        acts = [self.action(e, exclude=('invalid', 'addrec', 'updrec', 'rmrec', 'tempids', 'upsert'))
                for _ in range(self.r.randint(1, 2))]
        bad = histgen.HistGen.gen(self, 'invalid', histgen.Meta(e))
        self.stats['failing-tail'] += 1
        return acts + ([bad] if bad else [['RemoveRecord', 'NoSuchTable', 1]])
      return histgen.HistGen.bundle(self, e, max_len)

  return C08Gen(rng, weights=WEIGHTS)


def oracle(e):
  """The property's own statement on the implementation: returns a description of the mismatch or None."""
  Gm = G()
  try:
    meta_schema = Gm.schema_of_meta(e)
  except Exception as ex:
    return 'schema.build_schema(metadata) raises %s: %s' % (type(ex).__name__, str(ex)[:120])
  eng_schema = Gm.engine_schema(e)
  if eng_schema != meta_schema:
    diff = []
    for t in sorted(set(eng_schema) | set(meta_schema)):
      a, b = eng_schema.get(t), meta_schema.get(t)
      if a != b:
        if a is None or b is None:
          diff.append('table %s: engine %s, metadata %s' % (t, 'absent' if a is None else 'present',
                                                              'absent' if b is None else 'present'))
        else:
          for c in sorted(set(a) | set(b)):
            if a.get(c) != b.get(c):
              diff.append('%s.%s: engine %r, metadata %r' % (t, c, a.get(c), b.get(c)))
    return 'Engine.schema != build_schema(metadata): ' + '; '.join(diff[:4])
  trows, crows = meta_rows(e)
  valid = set(t[0] for t in trows)
  stray = [c[0] for c in crows if c[1] not in valid]
  if stray:
    return 'column records %r belong to no table record' % (stray[:5],)
  return None


def failure_kind(failed, bundle):
  """failed: False, or the traceback of the exception the bundle raised."""
  if not failed:
    return 'schema-mismatch'
  if '_undo_to_checkpoint' in failed:
    # the revert itself raised: the document is left half rolled back
    names = [a[0] for a in bundle]
    if 'RenameTable' in names or any(a[0] in ('UpdateRecord', 'BulkUpdateRecord') and a[1] == '_grist_Tables' for a in bundle):
      return 'rollback-raised-after-failed-table-rename'
    return 'rollback-raised'
  return 'schema-mismatch-after-failure'


def run_history(seed, nb, on_group=None, on_bundle=None, undo=True):
  """One history on a fresh document.  on_group(group) for every recorded user action, on_bundle(e, history, bundle,
  failed) after every bundle (also failed ones, also the undo and redo bundles)."""
  Gm = G()
  rng = random.Random(seed)
  gen = make_gen(rng)
  rec = Recorder()
  rec.install()
  try:
    e, _ = Gm.new_doc()
    rec.take(e)
    history = []
    def do(bundle, track=True):
      try:
        out = Gm.apply(e, bundle)
        failed = False
      except Exception:
        out, failed = None, traceback.format_exc()
      for g in rec.take(e):
        g['failed'] = bool(failed)
        if on_group:
          on_group(g, history, bundle)
      if on_bundle:
        on_bundle(e, history, bundle, failed)
      if failed:
        Gm.clean(e)
        rec.take(e)
      else:
        gen.after_bundle(e)
        if track:
          history.append(bundle)
      return out
    for _ in range(rng.randint(1, 2)):
      do([gen.gen_addtable(None)])
    for _ in range(nb):
      bundle = gen.bundle(e)
      out = do(bundle)
      if out is not None and undo and rng.random() < 0.5:
        ub = [['ApplyUndoActions', Gm.reprs(out.undo)]]
        if do(ub) is not None and rng.random() < 0.7:
          do([['ApplyDocActions', Gm.reprs(out.stored)]])
    return gen
  finally:
    rec.uninstall()


# ------------------------------------------------------------------------------------------------
# correspondence

def random_meta(rng):
  nt = rng.randint(0, 3)
  tids = rng.sample(range(1, 7), nt)
  names = ['T', 'U', 'Foo', 'T']       # a duplicate table id is possible
  trows = [(t, rng.choice(names)) for t in sorted(tids)]
  crows = []
  ids = rng.sample(range(1, 30), rng.randint(0, 8))
  for i in sorted(ids):
    parent = rng.choice(tids + [9]) if tids and rng.random() < 0.9 else rng.choice([0, 9])
    crows.append((i, parent, rng.choice([0.0, 1.0, 1.0, 2.0, 1.5, -1.0, 3.0, 1e10, 0.25]),
                  rng.choice(['A', 'B', 'C', 'manualSort', 'A']), rng.choice(['Text', 'Int', 'Ref:T', 'RefList:U', 'Any']),
                  rng.random() < 0.4, rng.choice(['', '$A', '1+1']), rng.choice([0, 0, 0] + ids + [77])))
  if rng.random() < 0.5:
    rng.shuffle(crows)
    rng.shuffle(trows)
  return trows, crows


def real_build(trows, crows):
  """schema.build_schema(include_builtin=False) on the given rows -> ordered plain schema, or None on KeyError."""
  import actions, schema as schema_mod
  mt = actions.TableData('_grist_Tables', [t[0] for t in trows], {'tableId': [t[1] for t in trows]})
  mc = actions.TableData('_grist_Tables_column', [c[0] for c in crows], {
    'parentId': [c[1] for c in crows], 'parentPos': [c[2] for c in crows], 'colId': [c[3] for c in crows],
    'type': [c[4] for c in crows], 'isFormula': [c[5] for c in crows], 'formula': [c[6] for c in crows],
    'reverseCol': [c[7] for c in crows]})
  try:
    sch = schema_mod.build_schema(mt, mc, include_builtin=False)
  except KeyError:
    return None
  return [(tid, [(k, (c.type, bool(c.isFormula), c.formula, c.reverseColId)) for k, c in st.columns.items()])
          for tid, st in sch.items()]


def correspond(ctx):
  Gm = G()
  IMPORTS = ['Grist.Model.SchemaSync']
  # (a) build_schema on random and real metadata
  bcases, binfo = [], []
  def add_build(trows, crows_float, origin):
    out = real_build(trows, crows_float)
    crows = [(c[0], c[1], pos_key(c[2])) + tuple(c[3:]) for c in crows_float]
    bcases.append('(%s, %s)' % (meta_lit((trows, crows)), 'None' if out is None else '(Some %s)' % schema_lit(out)))
    binfo.append((trows, crows_float))
    ctx.count(('build', trows, crows_float), nontrivial=len(crows) > 0, kind='build:' + origin +
              (':KeyError' if out is None else ''))
  for _ in range(ctx.n(200, 3000)):
    t, c = random_meta(ctx.rng)
    add_build(t, c, 'random')
  # (b) trace tie
  cases, info = [], []
  uncovered_seen = []
  def on_group(g, history, bundle):
    if g.get('failed'):
      ctx.bump('group:failed-bundle')
      return                        # rolled back; the oracle in search() looks at the state
    try:
      term, kinds, uncovered = group_case(g)
    except Unparsed as ex:
      ctx.broken('correspondence:user action outside the modelled vocabulary', '%s in %r' % (ex, bundle))
      return
    cases.append(term)
    info.append({'history': copy.deepcopy(history), 'bundle': copy.deepcopy(bundle), 'user_action': g['name'],
                 'steps': kinds})
    for k in kinds:
      ctx.bump('step:' + k)
    raw_ok = g['name'] in RAW_ACTIONS
    ctx.count(('tie', len(cases)), nontrivial=True, kind='ua:' + g['name'],
              sample={'user_action': g['name'], 'bundle': bundle, 'steps': kinds} if len(kinds) > 1 else None)
    if uncovered and not raw_ok:
      uncovered_seen.append((uncovered, copy.deepcopy(history), copy.deepcopy(bundle)))
  found = ctx._c08_oracle = []
  def on_bundle(e, history, bundle, failed):
    d = oracle(e)
    ctx.count(('bundle', len(history), repr(bundle)), nontrivial=True, kind='oracle:' + ('failed' if failed else 'ok'))
    if d:
      found.append((failure_kind(failed, bundle), d,
                    {'history': copy.deepcopy(history), 'bundle': copy.deepcopy(bundle)}))
      raise StopHistory()
    if ctx.rng.random() < 0.3:
      t = e.fetch_table('_grist_Tables')
      c = e.fetch_table('_grist_Tables_column')
      trows = [(rid, t.columns['tableId'][i]) for i, rid in enumerate(t.row_ids)]
      crows = [(rid, int(c.columns['parentId'][i]), float(c.columns['parentPos'][i] or 0), c.columns['colId'][i],
                c.columns['type'][i], bool(c.columns['isFormula'][i]), c.columns['formula'][i],
                int(c.columns['reverseCol'][i] or 0)) for i, rid in enumerate(c.row_ids)]
      add_build(trows, crows, 'real')
  nh, nb = ctx.n(10, 300), ctx.n(10, 14)
  stats = collections.Counter()
  for i in range(nh):
    try:
      gen = run_history(ctx.seed * 7919 + i, nb, on_group=on_group, on_bundle=on_bundle)
      stats.update(gen.stats)
    except StopHistory:
      pass
  for k, v in sorted(stats.items()):
    ctx.bump('gen:' + k, v)
  ctx._c08_uncovered = uncovered_seen
  bad = ctx.run_cases('build', IMPORTS, 'build_check', bcases, shard=400)
  for i in bad[:5]:
    ctx.broken('correspondence:model build_schema differs from schema.build_schema', 'metadata rows %r' % (binfo[i],))
  bad = ctx.run_cases('tie', IMPORTS, 'tie_check', cases, shard=150, timeout=600)
  for i in bad[:5]:
    ctx.broken('correspondence:coupled-step model does not reproduce the recorded user action '
               '(schema doc actions, resulting schema/metadata, or a precondition)', repr(info[i])[:3000])
  ctx.extra['tie_user_actions'] = len(cases)
  ctx.extra['build_cases'] = len(bcases)


# ------------------------------------------------------------------------------------------------
# search: the property's oracle on the implementation

DIRECT_KINDS = ('direct-add-column-record', 'direct-add-table-record', 'direct-parentId-update',
                'direct-replace-table-data')


def direct_action(kind, rng, e):
  """A record action applied directly to a metadata table (no coupled schema action exists for it)."""
  from harness import histgen
  m = histgen.Meta(e)
  ts = m.user_tables()
  if not ts:
    return None
  t = rng.choice(ts)
  cols = m.visible_cols(t['id'])
  if kind == 'direct-add-column-record':
    if rng.random() < 0.3:
      return ['BulkAddRecord', '_grist_Tables_column', [rng.randint(500, 600)],
              {'parentId': [rng.choice([t['id'], 77])], 'colId': ['zz'], 'type': ['Text']}]
    return ['AddRecord', '_grist_Tables_column', None, {'parentId': t['id'], 'colId': 'Zz', 'type': 'Text'}]
  if kind == 'direct-add-table-record':
    return ['AddRecord', '_grist_Tables', None, {'tableId': 'Zed'}]
  if kind == 'direct-parentId-update':
    if not cols:
      return None
    others = [x['id'] for x in ts if x['id'] != t['id']] + [0]
    return ['UpdateRecord', '_grist_Tables_column', rng.choice(cols)['id'], {'parentId': rng.choice(others)}]
  if kind == 'direct-replace-table-data':
    return ['ReplaceTableData', rng.choice(['_grist_Tables_column', '_grist_Tables']), [], {}]
  raise ValueError(kind)


def build_doc(history):
  """A document on which the bundles of `history` were applied in order (failures are rolled back by the engine)."""
  Gm = G()
  e, _ = Gm.new_doc()
  for b in history:
    try:
      Gm.apply(e, copy.deepcopy(b))
    except Exception:
      Gm.clean(e)
  return e


def replay(ctx, w):
  Gm = G()
  e = build_doc(w.get('history', []))
  pre = oracle(e)
  if pre:
    return None if w.get('strict') else 'already before the bundle: ' + pre
  before = (Gm.snapshot(e), Gm.engine_schema(e)) if w.get('no_trace') else None
  try:
    Gm.apply(e, copy.deepcopy(w['bundle']))
    failed = ''
  except Exception as ex:
    failed = ' (the bundle raised %s and was rolled back)' % type(ex).__name__
  d = oracle(e)
  if d:
    return d + failed
  if failed and before is not None and (Gm.snapshot(e), Gm.engine_schema(e)) != before:
    return 'the rejected metadata edit left a trace: %s' % (Gm.diff_snapshots(before[0], Gm.snapshot(e))[:3],)
  return None


def fixed_corpus(ctx):
  """Witnesses of repaired defects stay in the corpus and are run first: a regression is a violation again."""
  for k in core.load_known():
    if k['property'] == ID and k.get('kind') == 'fixed' and k.get('witness'):
      w = dict(k['witness'], no_trace=True)
      try:
        d = replay(ctx, w)
      except Exception as ex:
        d = 'replay raised %r' % (ex,)
      ctx.count(('fixed', k['id']), nontrivial=True, kind='fixed-witness:' + ('fails-again' if d else 'holds'))
      if d:
        ctx.violation(k.get('violation_kind') or 'regression', 'repaired by %s, fails again: %s' % (k.get('commit'), d), w)


def search(ctx):
  from harness import histrun
  Gm = G()
  fixed_corpus(ctx)
  # (1) the shared history run
  res = histrun.shared_run(ctx.tier, ctx.seed, ctx.n(20, 200), 10)
  for k, v in sorted(res.get('stats', {}).items()):
    ctx.bump('shared:' + k, v)
  for iss in res['issues']:
    if iss['prop'] == 'C08':
      ctx.violation(iss['kind'], iss['what'], iss['replay'])
    elif iss['prop'] == 'HARNESS':
      ctx.notes.append('shared history run: harness exception ' + iss['what'][-200:])
  ctx.count(('shared', res['stats'].get('bundles', 0)), nontrivial=True, kind='shared-run')
  # (2) the histories of this check (recorded by correspond, or run now)
  found = getattr(ctx, '_c08_oracle', None)
  if found is None:
    found = []
    def on_bundle(e, history, bundle, failed):
      d = oracle(e)
      ctx.count(('bundle', len(history), repr(bundle)), nontrivial=True, kind='oracle:' + ('failed' if failed else 'ok'))
      if d:
        found.append((failure_kind(failed, bundle), d,
                      {'history': copy.deepcopy(history), 'bundle': copy.deepcopy(bundle)}))
        raise StopHistory()
    for i in range(ctx.n(12, 300)):
      try:
        run_history(ctx.seed * 7919 + i, ctx.n(10, 14), on_bundle=on_bundle)
      except StopHistory:
        pass
  for kind, what, rep in found[:20]:
    ctx.violation(kind, what, rep)
  for uncovered, history, bundle in (getattr(ctx, '_c08_uncovered', None) or [])[:10]:
    ctx.violation('uncoupled-doc-action',
                  'doc actions outside every coupled step of the model: %r' % (uncovered[:3],),
                  {'history': history, 'bundle': bundle, 'strict': True})
  # (3) record actions applied directly to the metadata tables
  for i in range(ctx.n(4, 60)):
    rng = random.Random(ctx.seed * 104729 + i)
    gen = make_gen(rng)
    history = [[gen.gen_addtable(None)]]
    e = build_doc(history)
    for _ in range(rng.randint(0, 4)):
      b = gen.bundle(e)
      try:
        Gm.apply(e, copy.deepcopy(b))
        gen.after_bundle(e)
        history.append(b)
      except Exception:
        Gm.clean(e)
    if oracle(e):
      continue
    kind = DIRECT_KINDS[i % len(DIRECT_KINDS)]
    a = direct_action(kind, rng, e)
    if a is None:
      continue
    # an uncoupled direct metadata edit either keeps schema == metadata or fails and leaves no trace
    w = {'history': history, 'bundle': [a], 'no_trace': True}
    before = (Gm.snapshot(e), Gm.engine_schema(e))
    try:
      Gm.apply(e, copy.deepcopy([a]))
      outcome = 'accepted'
    except Exception as ex:
      outcome = 'rejected:' + type(ex).__name__
    d = oracle(e)
    trace = outcome != 'accepted' and (Gm.snapshot(e), Gm.engine_schema(e)) != before
    ctx.count(('direct', i), nontrivial=True, kind=kind + ':' + ('violates' if d else ('left-trace' if trace else outcome)))
    if d:
      ctx.violation(kind, '%r (%s): %s' % (a, outcome, d), minimise(ctx, w))
    elif trace:
      ctx.violation('direct-edit-left-trace', '%r was rejected but the document changed: %s'
                    % (a, Gm.diff_snapshots(before[0], Gm.snapshot(e))[:3]), w)


class StopHistory(Exception):
  pass


def minimise(ctx, w):
  from harness import histgen
  hist = w['history']
  if len(hist) > 1:
    try:
      small = histgen.shrink_list(hist, lambda h: replay(ctx, {'history': h, 'bundle': w['bundle']}) is not None,
                                  max_steps=30)
      if replay(ctx, {'history': small, 'bundle': w['bundle']}):
        return dict(w, history=small)
    except Exception:
      pass
  return w
