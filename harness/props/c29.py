"""C29 -- Read-only calls leave the document untouched."""
import collections
import copy
import json

from harness import core
from harness import gristenv as G
from harness import histgen
from harness import rollback_instr as RI
from harness import rollback_model as RM
from harness.props import c04

ID = 'C29'
TITLE = 'Read-only calls leave the document untouched'
PROPS = ['Props/C29']
RULE = ('documents from the shared history generator (summary tables, lookups, formulas calling lookupOrAddDerived, '
        'documents left dirty by a failed bundle); between bundles a battery of every exported read-only call '
        '(fetch_table with and without formulas/query, fetch_table_schema, fetch_meta_tables, get_table_stats, count_rows, '
        'convert_formula_completion, get_formula_error, '
        'evaluate_formula, get_formula_prompt, autocomplete, find_col_from_values) is run on one engine and not on an '
        'identically driven control engine; per call: all tables, engine.schema, the out_actions lengths and every '
        'public cell written during the call must be as before; per bundle: both engines must produce equal '
        'ActionGroups and tables; a case is non-trivial when the call had a side effect that had to be undone '
        '(doc action or cell write recorded during it) or, for fetch calls, when the table has rows')
TRUSTED = ['Model/Rollback.v as for C04 (tied to the engine on every run); here the tie replays the doc actions that '
           'formula evaluation performs inside get_formula_value and compares the model rollback with the engine\'s',
           'fetch_table is modelled as a pure function of the document (Rollback.fetch_table)']
ASSUMPTIONS = ['C29_get_formula_value_restores: events inside the evaluation are doc actions (no ReplaceTableData) and no '
               'calc delta is produced; a nested recalculation of OTHER dirty cells during the evaluation is outside '
               'this hypothesis and refuted by C29_refuted_nested_calc (known finding on dirty documents)']
TECHNIQUE = ('Coq proof over the rollback model (shared with C04) + lockstep differential run of the real engine with '
             'and without the read-only calls + per-call state/event monitor')
LEVEL_TEXT = ('Kernel-checked: rolling back to the checkpoint taken by get_formula_value restores document and schema '
              'for every sequence of doc actions performed inside the evaluation (all documents), and fetching is a '
              'pure function of the document; the engine is compared with a control engine that never receives the '
              'read-only calls, after every bundle, on generated histories.')
LEVEL_NOTE = ('kernel strength: formula evaluation is an environment producing events. autocomplete, formula_prompt and '
              'find_col_from_values are covered by the implementation oracle only (no state-changing mechanism to model).')

USER = {'Name': 'x', 'Email': 'e@example.com', 'Access': 'owners', 'UserID': 1, 'UserRef': '1', 'LinkKey': {},
        'Origin': None, 'SessionID': 's', 'IsLoggedIn': True, 'ShareRef': None}


class Gen(histgen.HistGen):
  def __init__(self, rng):
    super(Gen, self).__init__(rng, weights={'summary': 6, 'summaryformula': 4, 'updsummary': 2, 'addformula': 7,
                                            'derived': 3, 'rmrec': 7, 'updrec': 12, 'invalid': 3, 'rawdoc': 2})

  def gen(self, kind, meta):
    r = self.r
    if kind == 'derived':
      # one such column per document, into ANOTHER table: a formula that adds rows to its own table (or two tables
      # feeding each other) never settles
      ts = meta.user_tables()
      if len(ts) < 2 or getattr(self, '_derived_done', False):
        return None
      t = r.choice(ts)
      t2 = r.choice([x for x in ts if x['id'] != t['id']])
      self._derived_done = True
      d2 = meta.data_cols(t2['id'])
      if not d2:
        return None
      k = r.choice(d2)['colId']
      cid = r.choice(['der', 'der2'])
      self.pend(t['tableId'], cid, 9)
      return ['AddColumn', t['tableId'], cid, {'type': 'Any', 'isFormula': True,
                                                'formula': '%s.lookupOrAddDerived(%s=$id).id' % (t2['tableId'], k)}]
    if kind == 'rawdoc':
      t = self.pick_table(meta)
      if t is None:
        return None
      rows = meta.rows(t['tableId'])
      dcols = meta.data_cols(t['id'])
      if not rows or not dcols:
        return None
      c = r.choice(dcols)
      cols = collections.OrderedDict([(c['colId'], [self.value(c['type'], meta)]), ('NoSuchColumn', [1])])
      return ['ApplyDocActions', [['BulkUpdateRecord', t['tableId'], [r.choice(rows)], cols]]]
    return super(Gen, self).gen(kind, meta)


# ---------------------------------------------------------------------------------------------------------------
# the battery

def battery(e, rng, limit_rows=2):
  """List of read-only calls (name, args) for the current document."""
  import column as column_mod
  calls = []
  tables = sorted(e.tables)
  for t in tables:
    calls.append(('fetch_table', t, True, None))
    calls.append(('fetch_table', t, False, None))
  calls.append(('fetch_table_schema',))
  calls.append(('fetch_meta_tables',))
  calls.append(('get_table_stats',))
  calls.append(('count_rows',))
  calls.append(('convert_formula_completion', 'def f(rec):\n    return rec.A + 1\n'))
  for t in G.user_tables(e):
    tb = e.tables[t]
    rows = list(tb.row_ids)
    cols = [c for c in e.schema[t].columns.values() if column_mod.is_visible_column(c.colId) or c.colId == 'group']
    for c in cols:
      col = tb.get_column(c.colId)
      if rows:
        vals = [col.raw_get(r) for r in rows[:3]]
        calls.append(('fetch_table', t, True, {c.colId: vals + [['L', 1]]}))
      sample = rows if len(rows) <= limit_rows else rng.sample(rows, limit_rows)
      if c.formula or c.colId == 'group':
        # a client with a slightly stale view: rows that are not (or no longer) in the table
        for r in absent_row_ids(rows, 3 if c.colId == 'group' else 2):
          calls.append(('get_formula_error', t, c.colId, r))
          calls.append(('evaluate_formula', t, c.colId, r))
      sample = rows if len(rows) <= limit_rows else rng.sample(rows, limit_rows)
      # a row id that does not exist: formulas with side effects (lookupOrAddDerived) then really add a record,
      # which get_formula_value has to undo
      for r in sample + ([max(rows) + 7] if rows and c.formula and 'lookupOrAddDerived' in c.formula else []):
        calls.append(('get_formula_error', t, c.colId, r))
        if c.formula:
          calls.append(('evaluate_formula', t, c.colId, r))
      if c.formula:
        calls.append(('get_formula_prompt', t, c.colId, rng.random() < 0.5, rng.random() < 0.5))
      r0 = rng.choice(rows + ['new']) if rows else 'new'
      for txt in rng.sample(['$', 'rec.', '$%s.' % c.colId, '%s.lookupRecords(' % t, '%s.lookupOne(' % t, 'user.',
                             'MA', 'value', '$group.', 'len(', 'rec.%s.up' % c.colId], 3):
        calls.append(('autocomplete', txt, t, c.colId, r0))
    flat = [tb.get_column(c.colId).raw_get(r) for c in cols[:2] for r in rows[:3]]
    calls.append(('find_col_from_values', [v for v in flat if isinstance(v, (int, str, float))] + ['a', 1], 0, None))
    calls.append(('find_col_from_values', [1, 2, 'a'], 2, t))
  # metadata tables whose formulas mark records for auto-removal (e.g. _grist_Filters.setAutoRemove)
  for t in sorted(e.tables):
    if t in G.user_tables(e) or t not in e.schema:
      continue
    for c in e.schema[t].columns.values():
      if c.formula and 'setAutoRemove' in c.formula:
        rows = list(e.tables[t].row_ids)
        for r in (rows[:1] + absent_row_ids(rows, 2)):
          calls.append(('get_formula_error', t, c.colId, r))
  return calls


def perform(e, call):
  import formula_prompt
  name = call[0]
  if name == 'fetch_table':
    return e.fetch_table(call[1], formulas=call[2], query=call[3])
  if name == 'fetch_table_schema':
    return e.fetch_table_schema()
  if name == 'fetch_meta_tables':
    return e.fetch_meta_tables()
  if name == 'get_table_stats':
    return e.get_table_stats()
  if name == 'count_rows':
    return e.count_rows()
  if name == 'convert_formula_completion':
    return formula_prompt.convert_completion(call[1])
  if name == 'get_formula_error':
    return e.get_formula_error(call[1], call[2], call[3])
  if name == 'evaluate_formula':
    return formula_prompt.evaluate_formula(e, call[1], call[2], call[3])
  if name == 'get_formula_prompt':
    return formula_prompt.get_formula_prompt(e, call[1], call[2], call[3], call[4])
  if name == 'autocomplete':
    return e.autocomplete(call[1], call[2], call[3], call[4], USER)
  if name == 'find_col_from_values':
    return e.find_col_from_values(call[1], call[2], call[3])
  raise ValueError(name)


def dirty_map(e):
  try:
    out = {}
    for n, rows in e.recompute_map.items():
      tb = e.tables.get(n.table_id)
      col = tb.all_columns.get(n.col_id) if tb is not None and n.col_id else None
      if col is None or col.is_private() or n.col_id.startswith('#'):
        continue          # private helper columns (lookup maps, docmodel formulas) are never reported in any action
      out['%s.%s' % (n.table_id, n.col_id)] = 'ALL' if rows is G.engine_mod.depend.ALL_ROWS else sorted(rows)
    return out
  except AttributeError:
    raise core.TieBroken('Engine.recompute_map no longer exists')


def lens(e):
  o = e.out_actions
  return (len(o.calc), len(o.stored), len(o.direct), len(o.undo), len(o.retValues))


def auto_remove_marks(e):
  """The genuine records currently marked for auto-removal, as (table, row id)."""
  import records
  try:
    s = e.docmodel._auto_remove_set
  except AttributeError:
    raise core.TieBroken('docmodel._auto_remove_set no longer exists')
  return sorted((getattr(getattr(x, '_table', None), 'table_id', '?'), getattr(x, '_row_id', None))
                for x in s if isinstance(x, records.Record))


def absent_row_ids(rows, limit=3):
  """Row ids a client with a stale view may send: 0, ids of removed rows (holes), the id past the end."""
  rows = sorted(rows)
  top = rows[-1] if rows else 0
  holes = [r for r in range(1, top) if r not in rows]
  out = [top + 1] + holes[-2:] + [0]
  return out[:limit]


def residue(e):
  """Objects in docmodel._auto_remove_set that are not genuine records."""
  import records
  try:
    s = e.docmodel._auto_remove_set
  except AttributeError:
    raise core.TieBroken('docmodel._auto_remove_set no longer exists')
  return [type(x).__name__ for x in s if not isinstance(x, records.Record)]


def enc_snapshot(e):
  """Deep, immutable copy of what every stored cell ENCODES to right now (error cells with their details): one string
  per cell, built from the objects held in the columns -- never references to them.  fetch_table hands out the live
  objects, so a call that mutates a stored RaisedException in place is invisible to any comparison of its replies."""
  import objtypes
  out = {}
  for t in sorted(e.tables):
    tb = e.tables[t]
    rows = list(tb.row_ids)
    cols = {}
    for cid in sorted(tb.all_columns):
      col = tb.all_columns[cid]
      if col.is_private() or cid.startswith('#'):
        continue
      cols[cid] = [json.dumps(objtypes.encode_object(col.raw_get(r)), sort_keys=True, default=repr) for r in rows]
    out[t] = {'ids': rows, 'cols': cols}
  return out


def enc_diff(a, b, limit=3):
  out = []
  for t in sorted(set(a) | set(b)):
    if t not in a or t not in b or a[t]['ids'] != b[t]['ids']:
      out.append('%s: rows differ' % t)
      continue
    for c in sorted(set(a[t]['cols']) | set(b[t]['cols'])):
      va, vb = a[t]['cols'].get(c), b[t]['cols'].get(c)
      if va != vb:
        for r, x, y in zip(a[t]['ids'], va or [], vb or []):
          if x != y:
            out.append('%s.%s[%s] encoded %s -> %s' % (t, c, r, x[:160], y[:160]))
            break
        else:
          out.append('%s.%s: column set differs' % (t, c))
      if len(out) >= limit:
        return out
  return out


def check_call(e, call, stats=None, hooks=None):
  """Performs one read-only call under the recorder; returns (kind, what) if the document is not as before."""
  before = G.snapshot(e)
  enc_before = enc_snapshot(e)
  marks_before = auto_remove_marks(e)
  bs = G.engine_schema(e)
  bl = lens(e)
  dm = dirty_map(e)
  hooks = hooks or (None, None)
  with RI.REC.session(hook_enter=hooks[0], hook_exit=hooks[1]) as rec:
    try:
      perform(e, call)
      raised = None
    except Exception as ex:
      raised = type(ex).__name__
  events = list(rec.events)
  info = {'raised': raised, 'side_effects': sum(1 for ev in events if ev[1].startswith('doc:') or
                                                 (ev[1] == 'set' and not ev[4][4] and not ev[4][1].startswith('#'))),
          'docs': list(rec.docs), 'events': events}
  after = G.snapshot(e)
  if dirty_map(e) != dm and dm:
    # cells that were dirty before the call were evaluated by it (engine._use_node -> _recompute -> _update_loop
    # outside _pre_update/_post_update): their new values are written without any action reporting them
    d2 = dirty_map(e)
    gone = sorted(k for k in dm if d2.get(k) != dm[k])
    return ('readonly-call-recomputes-dirty-cells-unreported'
            if call[0] in ('get_formula_error', 'evaluate_formula', 'autocomplete') else
            'non-evaluating-call-recomputes-dirty-cells',
            '%s evaluated dirty cells of %s without reporting them%s' % (
              call[0], gone[:3], ('; tables changed: ' + '; '.join(G.diff_snapshots(before, after)[:2]))
              if after != before else ' (values happened to be unchanged)'), info)
  if after != before:
    return ('readonly-call-changed-tables',
            '%s changed the tables: %s' % (call[0], '; '.join(G.diff_snapshots(before, after)[:3])), info)
  enc_after = enc_snapshot(e)
  if enc_after != enc_before:
    # same replies, different stored objects: the call changed an object held in a column IN PLACE (e.g. the details
    # of a stored RaisedException): the cell now encodes -- is sent to the client and saved -- differently
    return ('readonly-call-mutates-stored-cell-object',
            '%s changed what stored cells encode to, with no action emitted: %s' % (
              call[0], '; '.join(enc_diff(enc_before, enc_after))), info)
  if G.engine_schema(e) != bs:
    return ('readonly-call-changed-schema', '%s changed engine.schema' % call[0], info)
  if lens(e) != bl:
    return ('checkpoint-not-restored', '%s left out_actions lengths %r (before %r)' % (call[0], lens(e), bl), info)
  marks_after = auto_remove_marks(e)
  if marks_after != marks_before:
    # a formula marked a record for auto-removal during the evaluation and the mark survives the call: the NEXT
    # apply_user_actions acts on it (apply_auto_removes) and emits a RemoveRecord nobody asked for
    return ('readonly-call-leaves-auto-remove-mark',
            '%s changed docmodel._auto_remove_set from %r to %r (the next bundle then removes those records)' % (
              call[0], marks_before[:4], marks_after[:4]), info)
  res = residue(e)
  if res:
    return ('evaluate-formula-poisons-auto-remove-set' if call[0] == 'evaluate_formula' and 'AttributeRecorder' in res
            else 'readonly-call-leaves-auto-remove-residue',
            '%s left %r in docmodel._auto_remove_set (the next apply_user_actions raises TypeError in '
            'apply_auto_removes)' % (call[0], res), info)
  return (None, None, info)


# ---------------------------------------------------------------------------------------------------------------

def canon_out(out):
  if out is None:
    return None
  rep = out.get_repr()
  return json.dumps(G.norm({'stored': rep['stored'], 'undo': rep['undo'], 'direct': rep['direct'],
                            'retValues': rep['retValues']}), sort_keys=True, default=repr)


def apply_both(ld1, ld2, bundle):
  outs = []
  for ld in (ld1, ld2):
    try:
      outs.append(('ok', canon_out(ld.apply(bundle))))
    except Exception as ex:
      outs.append(('raised', type(ex).__name__ + ':' + str(ex)[:80]))
  return outs


def run_history(ctx, seed_rng, stats, on_case):
  """One lockstep history. Calls on_case(log, calls, call, kind, what, info) for every read-only call made."""
  gen = Gen(seed_rng)
  found = []
  ld1, ld2 = c04.LoggedDoc(), c04.LoggedDoc()
  def both(bundle):
    o = apply_both(ld1, ld2, bundle)
    if o[0][0] == 'ok':
      gen.after_bundle(ld1.e)
    return o
  for _ in range(seed_rng.randint(1, 2)):
    both([gen.gen_addtable(histgen.Meta(ld1.e))])
  for kind in ('addformula', 'addrec', 'summary', 'summaryformula', 'addrec', 'derived'):
    a = gen.gen(kind, histgen.Meta(ld1.e))
    if a is not None:
      both([a])
  nb = ctx.n(4, 8)
  for b in range(nb + 1):
    # the battery on engine 1 only
    dirty = bool(ld1.e.recompute_map)
    calls = battery(ld1.e, seed_rng)
    if ctx.tier != 'thorough' and len(calls) > 60:
      keep = [c for c in calls if c[0] in ('evaluate_formula', 'get_formula_error')]
      rest = [c for c in calls if c[0] not in ('evaluate_formula', 'get_formula_error')]
      calls = seed_rng.sample(rest, min(len(rest), 30)) + seed_rng.sample(keep, min(len(keep), 30))
    # calls that evaluate formulas come last: on a dirty document the first of them ends the battery (known finding)
    calls = [c for c in calls if c[0] not in ('get_formula_error', 'evaluate_formula', 'autocomplete')] + \
            [c for c in calls if c[0] in ('get_formula_error', 'evaluate_formula', 'autocomplete')]
    done = []
    for call in calls:
      kind, what, info = check_call(ld1.e, call)
      done.append(call)
      stats['calls'] += 1
      if info['raised']:
        ctx.bump('raised:%s:%s' % (call[0], info['raised']))
      nontrivial = info['side_effects'] > 0 if call[0] in ('get_formula_error', 'evaluate_formula') else \
        (call[0] != 'fetch_table' or bool(ld1.e.tables[call[1]].row_ids))
      ctx.count((json.dumps(ld1.log, default=repr), repr(call)), nontrivial=nontrivial,
                kind=call[0] + (':dirty-doc' if dirty else ''),
                sample={'call': list(call[:4]), 'side_effects_undone': info['side_effects']})
      if kind:
        v = {'kind': kind, 'what': what + ' [document dirty before the call: %s]' % dirty,
             'replay': {'log': copy.deepcopy(ld1.log), 'calls': [list(call)]}}
        if kind == 'evaluate-formula-poisons-auto-remove-set':
          # reported; drop the residue so that the rest of the history can still be checked
          import records
          s_ = ld1.e.docmodel._auto_remove_set
          for x in [x for x in s_ if not isinstance(x, records.Record)]:
            s_.discard(x)
          found.append(v)
          continue
        if kind == 'readonly-call-recomputes-dirty-cells-unreported':
          # reported; engine 1 has silently cleaned cells that are still dirty in the control: re-synchronise it and
          # skip the rest of this battery
          found.append(v)
          ld1 = c04.LoggedDoc(ld2.log)
          break
        return found + [v]
      # follow-up: on a clean document a Calculate must do on this engine exactly what it does on the untouched control
      # (nothing): marks or dirt a call left behind only show at the next apply_user_actions
      evaluating = call[0] in ('get_formula_error', 'evaluate_formula', 'autocomplete', 'get_formula_prompt')
      if not ld1.e.recompute_map and not ld2.e.recompute_map and \
         (evaluating or ctx.tier != 'thorough' or seed_rng.random() < 0.25):
        log_before = copy.deepcopy(ld2.log)
        o = both([['Calculate']])
        stats['follow-up-calculates'] += 1
        if o[0] != o[1] or G.snapshot(ld1.e) != G.snapshot(ld2.e):
          v = {'kind': 'calculate-emits-after-readonly',
               'what': 'Calculate right after %s(%s) differs from the control engine: %s vs %s' % (
                 call[0], ', '.join(repr(a)[:40] for a in call[1:4]), o[0][1][:200], o[1][1][:200]),
               'replay': {'log': log_before, 'calls': [list(call)], 'then': [['Calculate']]}}
          return found + [v]
    if b == nb:
      break
    bundle = gen.bundle(ld1.e)
    if seed_rng.random() < 0.3:
      bundle = bundle + [gen.gen('invalid', histgen.Meta(ld1.e)) or ['RemoveRecord', 'NoSuchTable', 1]]
    o = both(bundle)
    if o[0] != o[1] and G.snapshot(ld1.e) == G.snapshot(ld2.e):
      # same tables, different ActionGroup: is the control itself reproducible?  (iteration over sets of objects
      # hashed by address makes some action orders differ between two engines of one process: C30, not C29)
      ld3 = c04.LoggedDoc(ld2.log[:-1])
      try:
        o3 = ('ok', canon_out(ld3.apply(bundle)))
      except Exception as ex:
        o3 = ('raised', type(ex).__name__ + ':' + str(ex)[:80])
      if o3 != o[1]:
        ctx.bump('control-engine-output-not-reproducible (ignored)')
        ld1 = c04.LoggedDoc(ld2.log)
        continue
    if o[0] != o[1] or G.snapshot(ld1.e) != G.snapshot(ld2.e) or G.engine_schema(ld1.e) != G.engine_schema(ld2.e):
      what = ('after the read-only calls the bundle %s behaves differently from the control engine: %s vs %s; %s' % (
        json.dumps(bundle, default=repr)[:200], o[0][1][:160] if o[0][0] == 'raised' else o[0][0],
        o[1][1][:160] if o[1][0] == 'raised' else o[1][0],
        '; '.join(G.diff_snapshots(G.snapshot(ld2.e), G.snapshot(ld1.e))[:3])))
      kind = 'diverges-from-control'
      if o[0][0] == 'raised' and 'AttributeRecorder' in o[0][1]:
        kind = 'evaluate-formula-poisons-auto-remove-set'
      v = {'kind': kind, 'what': what,
           'replay': {'log': copy.deepcopy(ld2.log[:-1]), 'calls': [list(c) for c in done],
                      'then': copy.deepcopy(bundle)}}
      if replay_kind(v['replay']) is None:
        # not reproducible on freshly built engines with the same calls: not caused by the calls
        ctx.bump('divergence-not-reproducible-from-its-replay (ignored)')
        ld1 = c04.LoggedDoc(ld2.log)
        continue
      return found + [v]
  # end of history: Calculate must emit the same on both (nothing on a clean document), then an ordinary bundle
  dirty = bool(ld2.e.recompute_map)
  o = both([['Calculate']])
  if o[0] != o[1]:
    return found + [{'kind': 'calculate-emits-after-readonly', 'what': 'Calculate differs from the control engine: %r vs %r' % (
      o[0][1][:200], o[1][1][:200]), 'replay': {'log': copy.deepcopy(ld2.log[:-1]), 'calls': [list(c) for c in done],
                                                'then': [['Calculate']]}}]
  t = G.user_tables(ld1.e)
  if t:
    o = both([['AddRecord', t[0], None, {}]])
    if o[0] != o[1] or o[0][0] != 'ok':
      return found + [{'kind': 'next-bundle-fails-after-readonly', 'what': 'AddRecord after the calls: %r vs control %r' % (o[0], o[1]),
                       'replay': {'log': copy.deepcopy(ld2.log[:-2]), 'calls': [list(c) for c in done],
                                  'then': [['Calculate'], ['AddRecord', t[0], None, {}]]}}]
  stats['histories-completed'] += 1
  return found


def error_state_logs():
  """Documents whose cells hold RaisedException objects, as lists of bundles (deterministic, replayable):
  a trigger formula that still fails, a trigger formula whose error is LEFT OVER (its cause was fixed without
  re-triggering it: get_formula_error then reports the stored error object), a data cell set to an encoded error,
  and an ordinary formula column that raises."""
  base = [[['AddTable', 'Math', [
    {'id': 'A', 'type': 'Numeric', 'isFormula': False}, {'id': 'B', 'type': 'Numeric', 'isFormula': False},
    {'id': 'C', 'type': 'Numeric', 'isFormula': False, 'formula': '1/$A + 1/$B'},
    {'id': 'D', 'type': 'Any', 'isFormula': False},
    {'id': 'F', 'type': 'Numeric', 'isFormula': True, 'formula': '1/$B'}]]]]
  ld = c04.LoggedDoc(base)
  cols = ld.e.fetch_table('_grist_Tables_column')
  tabs = ld.e.fetch_table('_grist_Tables')
  math_ref = tabs.row_ids[tabs.columns['tableId'].index('Math')]
  def ref(cid):
    return [r for r, c, p in zip(cols.row_ids, cols.columns['colId'], cols.columns['parentId'])
            if c == cid and p == math_ref][0]
  trig = base + [[['UpdateRecord', '_grist_Tables_column', ref('C'), {'recalcDeps': ['L', ref('A')]}]]]
  failing = trig + [[['AddRecord', 'Math', None, {'A': 1, 'B': 0}]], [['AddRecord', 'Math', None, {'A': 0, 'B': 2}]]]
  leftover = failing + [[['UpdateRecord', 'Math', 1, {'B': 1}]]]
  stored = leftover + [[['UpdateRecord', 'Math', 2, {'D': ['E', 'ValueError', 'boom', 'a traceback text']}]],
                       [['UpdateRecord', 'Math', 1, {'D': ['E', 'KeyError']}]]]
  return [('trigger-formula-error', failing), ('left-over-trigger-formula-error', leftover),
          ('encoded-error-in-data-cell', stored)]


def stale_view_logs():
  """Documents in which rows have just gone: a summary row auto-removed with its last source row (a client with a
  slightly stale view still asks about it), a plain table with a removed row, and a filter record."""
  base = [[['AddTable', 'Src', [{'id': 'K', 'type': 'Text', 'isFormula': False}, {'id': 'V', 'type': 'Int', 'isFormula': False},
                                {'id': 'W', 'type': 'Int', 'isFormula': True, 'formula': '$V * 2'}]]],
          [['BulkAddRecord', 'Src', [None, None, None], {'K': ['a', 'b', 'a'], 'V': [1, 2, 3]}]]]
  ld = c04.LoggedDoc(base)
  k_ref = ld.e.docmodel.get_column_rec('Src', 'K').id
  src_ref = ld.e.docmodel.get_table_rec('Src').id
  summ = base + [[['CreateViewSection', src_ref, 0, 'record', [k_ref], None]]]
  gone = summ + [[['RemoveRecord', 'Src', 2]]]
  return [('summary-row-just-auto-removed', gone), ('summary-table-all-groups-live', summ)]


def derived_logs(rng, n_random):
  """A formula that first adds a record with lookupOrAddDerived and then looks the same table up again, next to
  companion formula columns that look up / count the same key, after the user deleted derived rows: the temporary
  record of a read-only evaluation must not leak into the companions.  One fixed document, then random variants."""
  def doc(second, companion, trigger, keys, ds, removed, extra_companion):
    f = 'r = Other.lookupOrAddDerived(k=$k)\nreturn %s / $d' % second
    cols = [{'id': 'k', 'type': 'Text', 'isFormula': False}, {'id': 'd', 'type': 'Int', 'isFormula': False},
            {'id': 'trig', 'type': 'Any', 'isFormula': not trigger, 'formula': f},
            {'id': 'cnt', 'type': 'Any', 'isFormula': True, 'formula': companion}]
    if extra_companion:
      cols.append({'id': 'cnt2', 'type': 'Any', 'isFormula': True, 'formula': extra_companion})
    log = [[['AddTable', 'Other', [{'id': 'k', 'type': 'Text', 'isFormula': False}]]],
           [['BulkAddRecord', 'Other', [None] * len(keys), {'k': list(keys)}]],
           [['AddTable', 'T', cols]]]
    for k, d in zip(keys, ds):
      log.append([['AddRecord', 'T', None, {'k': k, 'd': d}]])
    for r in removed:
      log.append([['RemoveRecord', 'Other', r]])
    return log
  out = [('derived-record-deleted-by-user',
          doc('len(Other.lookupRecords(k=$k))', 'len(Other.lookupRecords(k=$k))', True, ['a', 'b', 'c'], [1, 1, 0], [3], None))]
  seconds = ['len(Other.lookupRecords(k=$k))', 'Other.lookupOne(k=$k).id', 'len(Other.lookupRecords(k=$k)) + r.id * 0',
             'sum(x.id for x in Other.lookupRecords(k=$k))']
  companions = ['len(Other.lookupRecords(k=$k))', 'Other.lookupOne(k=$k).id', 'Other.lookupOne(k=$k).k or "none"',
                'len(Other.lookupRecords(k=$k)) * 10 + len(Other.all)']
  for i in range(n_random):
    keys = rng.sample(['a', 'b', 'c', 'd', 'e'], rng.randint(2, 4))
    if rng.random() < 0.3:
      keys.append(keys[0])                       # two T rows share a key
    ds = [rng.choice([0, 0, 1, 2]) for _ in keys]
    nk = len(set(keys))
    removed = sorted(rng.sample(range(1, nk + 1), rng.randint(1, nk)))
    out.append(('derived-variant-%d' % i,
                doc(rng.choice(seconds), rng.choice(companions), rng.random() < 0.7, keys, ds, removed,
                    rng.choice(companions + [None, None]))))
  return out


def error_states(ctx, stats, seen):
  """The whole battery on the documents of error_state_logs(), then a follow-up bundle against a control engine."""
  import random
  errs = error_state_logs()
  derived = derived_logs(random.Random(ctx.rng.getrandbits(48)), ctx.n(4, 40))
  for name, log in errs + stale_view_logs() + derived:
    ld = c04.LoggedDoc(log)
    if ld.e.recompute_map:
      if name.startswith('derived-variant'):
        stats['derived-variants-not-settled (skipped)'] += 1
        continue
      raise core.TieBroken('directed error state %s is not clean after its log' % name)
    held = sum(1 for t in G.user_tables(ld.e) for c in ld.e.tables[t].all_columns.values() if not c.is_private()
               for r in ld.e.tables[t].row_ids if type(c.raw_get(r)).__name__ == 'RaisedException')
    if not held and (name, log) in errs:
      raise core.TieBroken('directed error state %s holds no RaisedException cell' % name)
    if name == 'summary-row-just-auto-removed' and list(ld.e.tables['Src_summary_K'].row_ids) != [1]:
      raise core.TieBroken('directed state %s: the summary row was not auto-removed' % name)
    control = canon_out(c04.LoggedDoc(log).apply([['Calculate']]))
    then = [['Calculate'], ['UpdateRecord', 'Math', 1, {'A': 2}] if (name, log) in errs else
            (['AddRecord', 'T', None, {'k': 'a', 'd': 1}] if (name, log) in derived else ['AddRecord', 'Src', None, {'K': 'b'}])]
    stats['error-state-cells-holding-errors:' + name] = held
    done = []
    bad = None
    for call in battery(ld.e, random.Random(ctx.seed), limit_rows=4):
      key = ('error-state', name, json.dumps(list(call), default=repr))
      ctx.count(key, nontrivial=not call[0].startswith('fetch'), kind='error-state:' + call[0])
      stats['error-state-calls'] += 1
      done.append(list(call))
      try:
        kind, what, info = check_call(ld.e, call)
      except KeyError:
        continue
      if kind:
        bad = (kind, what, [list(call)])
        break
      if True:
        # (the revert of a side effect may re-invalidate cells: the Calculate also settles those, and must find their
        # stored values unchanged -- a value that leaked from a temporary record shows up here as a correction)
        got = canon_out(ld.e.apply_user_actions([G.ua(['Calculate'])]))
        stats['error-state-follow-up-calculates'] += 1
        if got != control:
          bad = ('calculate-emits-after-readonly', 'Calculate right after %s%r emits %s; on the untouched control: %s' % (
            call[0], tuple(call[1:4]), got[:200], control[:200]), [list(call)])
          break
    if bad is None and (name, log) not in derived:
      # (not for the derived-record documents: without the Calculate in between, the revert of one call's side effect
      # leaves re-invalidated cells that the NEXT call evaluates -- the known finding C29-nested-recalc-unreported)
      r = replay_kind({'log': log, 'calls': done, 'then': then})
      if r is not None:
        bad = (r[0], r[1], done)
    if bad is not None:
      kind, what, calls = bad
      w = {'log': copy.deepcopy(log), 'calls': calls, 'then': then if kind != 'calculate-emits-after-readonly' else [['Calculate']]}
      if replay_kind(w) is None and (name, log) not in derived:
        w['calls'] = done            # it needed the earlier calls as well
      seen[kind] += 1
      if seen[kind] <= 2:
        ctx.violation(kind, 'on the document "%s": %s' % (name, what), w)


def search(ctx):
  stats = collections.Counter()
  seen = collections.Counter()
  c04.regression_corpus(ctx, ID, replay_kind)
  error_states(ctx, stats, seen)
  import random
  for h in range(ctx.n(2, 60)):
    rng = random.Random(ctx.rng.getrandbits(48))
    vs = run_history(ctx, rng, stats, None)
    stats['histories'] += 1
    for v in vs:
      seen[v['kind']] += 1
      if seen[v['kind']] <= 2:
        ctx.violation(v['kind'], v['what'], (shrink(v) if seen[v['kind']] == 1 else v)['replay'])
  ctx.extra['stats'] = dict(stats)
  ctx.extra['violations_by_kind'] = dict(seen)
  ctx.log('lockstep: %s %s' % (dict(stats), dict(seen)))


def replay_kind(w):
  """(kind, what) if the witness still fails: rebuild the document, perform the calls, then the follow-up bundle."""
  ld1, ld2 = c04.LoggedDoc(w['log']), c04.LoggedDoc(w['log'])
  dirty = bool(ld1.e.recompute_map)
  for call in w.get('calls', []):
    call = tuple(call)
    try:
      kind, what, info = check_call(ld1.e, call)
    except KeyError:
      continue                      # the call names a table/column that a shrunk log no longer creates
    if kind:
      return kind, what
  if w.get('then'):
    o = apply_both(ld1, ld2, w['then'])
    if o[0] != o[1] or G.snapshot(ld1.e) != G.snapshot(ld2.e):
      kind = 'diverges-from-control'
      if o[0][0] == 'raised' and 'AttributeRecorder' in o[0][1]:
        kind = 'evaluate-formula-poisons-auto-remove-set'
      return kind, 'bundle %r after the calls: %r vs control %r' % (w['then'], o[0][1][:200], o[1][1][:200])
  return None


def replay(ctx, w):
  r = replay_kind(w)
  return None if r is None else '%s: %s' % r


def shrink(v):
  w = v['replay']
  def fails(log):
    try:
      r = replay_kind(dict(w, log=log))
    except Exception:
      return False
    return r is not None and r[0] == v['kind']
  try:
    if len(w['log']) > 2:
      w['log'] = histgen.shrink_list(w['log'], fails, max_steps=12)
    if len(w.get('calls', [])) > 1:
      def fails_calls(calls):
        r = replay_kind(dict(w, calls=calls))
        return r is not None and r[0] == v['kind']
      w['calls'] = histgen.shrink_list(w['calls'], fails_calls, max_steps=12)
  except Exception:
    pass
  return v


# ---------------------------------------------------------------------------------------------------------------
# tie: the doc actions a formula performs inside get_formula_value, replayed by the model

EVAL_TIE_CHECK = (
  'fun c : doc * (Z -> list Z) * list event * bool => '
  'let \'(d, ord, es, restored) := c in '
  'match state_after ord (init_state d []) es with '
  '| Some st => match rollback ord 0 st with '
  '    | Some d2 => Bool.eqb (bool_decide (d2 = d)) restored | None => false end '
  '| None => false end')


def regenerate(ctx):
  """Shared with C04: Engine._get_undo_checkpoint / _undo_to_checkpoint (get_formula_value's try / finally)."""
  c04.regenerate(ctx)


def correspond(ctx):
  import random
  c04.validate_translation(ctx)
  tc = c04.TieCollector(ctx.n(8, 60))
  hooks = tc.hooks()
  cases = []
  budget = ctx.n(8, 80)
  tried = 0
  for h in range(ctx.n(4, 40)):
    rng = random.Random(ctx.rng.getrandbits(48))
    gen = Gen(rng)
    ld = c04.LoggedDoc()
    def ap(b):
      if ld.try_apply(b) is not None:
        gen.after_bundle(ld.e)
    for _ in range(2):
      ap([gen.gen_addtable(histgen.Meta(ld.e))])
    for kind in ('addrec', 'derived', 'summary', 'addrec', 'updrec'):
      a = gen.gen(kind, histgen.Meta(ld.e))
      if a is not None:
        ap([a])
    for call in battery(ld.e, rng):
      if call[0] not in ('get_formula_error', 'evaluate_formula') or budget <= 0:
        continue
      kind, what, info = check_call(ld.e, call, hooks=hooks)
      tried += 1
      if kind == 'evaluate-formula-poisons-auto-remove-set':
        import records
        s_ = ld.e.docmodel._auto_remove_set
        for x in [x for x in s_ if not isinstance(x, records.Record)]:
          s_.discard(x)
      if not [d for d in info['docs'] if d['completed']]:
        continue
      run = c04.Run()
      run.events, run.docs = info['events'], info['docs']
      plan = c04.tie_plan(run)
      if plan is None:
        ctx.bump('tie:evaluation-with-events-outside-the-model')
        continue
      # second pass on an identically rebuilt document: encode before, call, encode after
      ld2 = c04.LoggedDoc(ld.log)
      enc = RM.Enc()
      d0 = enc.doc(ld2.e, plan['tables'])
      o = enc.ord(ld2.e, plan['tables'])
      with RI.REC.session():
        try:
          perform(ld2.e, call)
        except Exception:
          pass
      es = c04.enc_events(enc, plan['events'])
      after = enc.doc(ld2.e, plan['tables'])
      cases.append(('(%s, %s, %s, %s)' % (d0, o, es, core.boollit(after == d0)),
                    '%r on %s' % (call, json.dumps(ld.log, default=repr)[:300])))
      budget -= 1
  ctx.extra['tie_evaluations_with_side_effects'] = len(cases)
  ctx.extra['tie_doc_actions'] = dict(tc.per_kind)
  ctx.log('tie: %d evaluations tried, %d with doc actions inside, %d doc actions' % (tried, len(cases), len(tc.cases)))
  bad = ctx.run_cases('evalrollback', RM.IMPORTS, EVAL_TIE_CHECK, [c for c, _ in cases], shard=20,
                      extra_defs=RM.EXTRA_DEFS, timeout=600)
  for i in bad[:5]:
    ctx.broken('correspondence:Model/Rollback.v does not reproduce the rollback of a read-only evaluation', cases[i][1])
  bad = ctx.run_cases('docsteps', RM.IMPORTS, c04.DOC_TIE_CHECK, [c for c, _ in tc.cases], shard=30,
                      extra_defs=RM.EXTRA_DEFS, timeout=600)
  for i in bad[:5]:
    ctx.broken('correspondence:micro-step order / state / undo of a doc action differs from Model/Rollback.v',
               tc.cases[i][1])
