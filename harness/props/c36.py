"""C36 -- Page-tree indentation fixes always yield a valid tree (treeview.fix_indents)."""
import collections
import itertools
import os

from harness import core, py2v

ID = 'C36'
TITLE = 'Page-tree indentation fixes always yield a valid tree'
PROPS = ['Props/C36']
RULE = ('quick: random item lists (len 0-12, indents 0-6, distinct ids, random removal subsets); thorough adds the '
        'exhaustive space of all lists of <= 5 pages with indents 0..3 and all removal subsets; a case is '
        'non-trivial when fix_indents returns at least one fix or at least one page is removed')
TRUSTED = ['py2v translator (harness/py2v.py): Python subset -> Gallina, validated on every run by evaluating the '
           'translated function and treeview.fix_indents on the same arguments',
           'Model/Treeview.v: apply_fixes models how UserActions._removePageRecords applies the pairs']
ASSUMPTIONS = ['page row ids are distinct and indentations are >= 0 (hypotheses of the theorems)']

BINDING = {
  'params': [('items', ('L', ('R', 'item'))), ('deleted_ids', ('L', 'Z'))],
  'returns': ('L', ('P', 'Z', 'Z')),
  'records': {'item': {'id': ('item_id', 'Z'), 'indentation': ('item_indentation', 'Z')}},
  'locals': {'adjustments': ('L', ('P', 'Z', 'Z'))},
}
Item = collections.namedtuple('Item', 'id indentation')


def regenerate(ctx):
  try:
    text = py2v.translate(os.path.join(core.GRIST, 'treeview.py'), 'fix_indents', BINDING)
  except py2v.Untranslatable as e:
    raise core.TieBroken('treeview.fix_indents is outside the translated subset: %s' % e)
  text = text.replace('Require Import Grist.Lib.PyPrelude.',
                      'Require Import Grist.Lib.PyPrelude Grist.Model.Treeview.')
  core.write_if_changed(os.path.join(core.COQ, 'gen', 'Treeview_gen.v'), text)


def impl(items, deleted):
  import importlib
  import treeview
  return treeview.fix_indents([Item(i, n) for i, n in items], set(deleted))


def oracle(items, deleted, fixes):
  """The property's own statement, evaluated on the implementation's output."""
  fixmap = dict(fixes)
  ids = [i for i, _ in items]
  if len(fixmap) != len(fixes):
    return 'a page is fixed twice'
  if any(i in deleted or i not in ids for i in fixmap):
    return 'a fix names a removed or unknown page'
  remaining = [(i, n) for i, n in items if i not in deleted]
  new = [(i, fixmap.get(i, n)) for i, n in remaining]
  prev = -1
  for (i, n) in new:
    if not (0 <= n <= prev + 1):
      return 'result is not a valid tree at page %r' % (i,)
    prev = n
  for (i, n), (_, m) in zip(remaining, new):
    if m > n:
      return 'page %r made deeper' % (i,)
  # changes only pages that would otherwise violate: recompute the allowed level independently
  allowed = 0
  for (i, n) in items:
    newn = min(allowed, n)
    if i not in deleted:
      if n <= allowed and i in fixmap:
        return 'page %r changed although within its allowed level' % (i,)
      if n > allowed and fixmap.get(i) != allowed:
        return 'page %r not adjusted to the deepest allowed level' % (i,)
    allowed = newn if i in deleted else newn + 1
  return None


def gen_case(rng):
  n = rng.choice([0, 1, 2, 3, 4, 5, 6, 8, 12])
  ids = rng.sample(range(1, 40), n)
  items = []
  prev = -1
  for i in ids:
    if rng.random() < 0.7:
      ind = rng.randint(0, prev + 1)        # mostly-valid trees
    else:
      ind = rng.randint(0, 6)
    items.append((i, ind))
    prev = ind
  deleted = [i for i in ids if rng.random() < 0.3]
  if rng.random() < 0.1:
    deleted.append(99)                      # an id that is not a page
  return items, deleted


def coq_case(items, deleted, out):
  pairs = lambda l: core.coq_list(['(%s, %s)' % (core.zlit(a), core.zlit(b)) for a, b in l])
  return '(%s, %s, %s)' % (pairs(items), core.zlist(deleted), pairs(out))


def cases(ctx):
  out = []
  for _ in range(ctx.n(400, 4000)):
    out.append(gen_case(ctx.rng))
  if ctx.tier == 'thorough':
    for n in range(0, 6):
      for inds in itertools.product(range(4), repeat=n):
        for mask in range(1 << n):
          out.append(([(k + 1, inds[k]) for k in range(n)], [k + 1 for k in range(n) if mask >> k & 1]))
    ctx.extra['exhaustive'] = True
    ctx.extra['exhaustive_space'] = 'all lists of <= 5 pages, indents 0..3, all removal subsets'
  return out


def correspond(ctx):
  cs = cases(ctx)
  ctx._c36_cases = cs
  coq = []
  for items, deleted in cs:
    try:
      out = impl(items, deleted)
    except Exception as e:
      ctx.violation('exception', 'fix_indents raised %r' % (e,), {'items': items, 'deleted': deleted})
      continue
    coq.append(coq_case(items, deleted, out))
    ctx.count((items, deleted), nontrivial=bool(out) or bool(deleted),
              sample={'items': items, 'deleted': deleted, 'fixes': out},
              kind='len%d' % min(len(items), 6))
  bad = ctx.run_cases('fix', ['Grist.Model.Treeview', 'GristGen.Treeview_gen'],
                      'fun c => py_list_eqb (py_pair_eqb Z.eqb Z.eqb) (fix_indents (fst (fst c)) (snd (fst c))) (snd c)',
                      coq, shard=2000, extra_defs='Require Import Grist.Lib.PyPrelude.')
  for i in bad[:5]:
    ctx.broken('correspondence:translated fix_indents differs from treeview.fix_indents',
               'case %r' % (cs[i],))


def search(ctx):
  for items, deleted in getattr(ctx, '_c36_cases', None) or cases(ctx):
    desc = replay(ctx, {'items': items, 'deleted': deleted})
    if desc:
      ctx.violation('oracle', desc, {'items': items, 'deleted': deleted})
      if len(ctx.violations) > 20:
        break


def replay(ctx, w):
  items = [tuple(x) for x in w['items']]
  try:
    out = impl(items, w['deleted'])
  except Exception as e:
    return 'fix_indents raised %r' % (e,)
  return oracle(items, set(w['deleted']), out)

TECHNIQUE = 'Coq proof over a model translated from source (py2v) on every run + differential cases + impl oracle'
LEVEL_TEXT = ('Kernel-checked theorems (valid tree, never deeper, one fix per page, changed exactly when above the '
              'allowed level and then set to it, valid trees untouched) about fix_indents as translated from '
              'treeview.py on every run, for all page lists and removal sets; the translation is validated against '
              'the running function on generated cases and the property oracle is run on the implementation.')
LEVEL_NOTE = ('Trusted: Coq kernel, py2v translator (validated differentially each run), apply_fixes as the model of '
              'how _removePageRecords applies the pairs. Hypotheses: distinct page ids, indentations >= 0.')
