"""C17 -- Renames inside access rules and conditions are exact
(predicate_formula.process_renames, the entity collectors of acl / dropdown_condition / trigger_expression and the
useractions paths that call them on RenameColumn / RenameTable)."""
import ast
import json
import os
import re
import types
import warnings

from harness import core, predgen

ID = 'C17'
TITLE = 'Renames inside access rules and conditions are exact'
PROPS = ['Props/C17']
RULE = ('(a) process_renames is called directly with each of the three real collectors on generated predicate formulas '
        '(every supported node kind, nesting, blanks, comments, `$x` and `rec.x`, unicode), a renamer table drawn from the '
        'entities actually present plus misses, and a malformed/unsupported stream; the parser/asttokens/$-replacer '
        'answers are mapped to the Coq model and text, entity list and SyntaxError are compared (vm_compute); '
        '(b) perform_acl_rule_renames / perform_dropdown_condition_renames / perform_trigger_condition_renames are driven '
        'with a stub document model and compared with the model renamers and the colIds list model; '
        '(the ACL stub places the rules that define the user attributes a formula mentions before, between and after '
        'the formula rule and renames columns of the attribute lookup tables); '
        '(c) end to end through the real engine: documents with ACL resources/rules (1-3 user attributes whose lookup '
        'tables may differ from the rule table, attribute rules in random row-id order relative to the rules using them; '
        'ONE condition text shared by columns that reference different tables (C, D with same-named columns, T itself) or '
        'none, by ACL rules of different resources and by triggers of different tables), dropdown '
        'conditions on Ref/RefList/other columns and trigger conditions (text and config mode), then RenameColumn / '
        'RenameTable / a bulk rename; oracle: new text = old text with exactly the expected name tokens replaced, '
        'parse(new) = rename of parse(old), stored parsed form = parse(stored text), column lists and lookup columns '
        'follow, unparsable formulas stay and do not block the rename. A case is non-trivial when at least one entity '
        'was collected (a, b) / at least one stored formula, list or lookup column changed (c).')
TRUSTED = ['pf2v translator (harness/pf2v.py): the collectors\' visit_Attribute methods and the TreeConverter methods -> Gallina, '
           'validated on every run against the entities of the running collectors',
           'CPython parser, asttokens (last_token.startpos of Attribute nodes), codebuilder.get_dollar_replacer: oracles '
           'mapped to the model by harness/props/c17.py; the mapped `$` offsets are re-checked in Coq '
           '(undollar_text formula dollars = the $-free text)',
           'Parser compositionality (replacing an identifier token by an identifier renames that node only): not proved; '
           'checked on the implementation for every case by parse(new text) = rename_tree(parse(old text))',
           'useractions.py choice of doc actions and the metadata cascade around the rename: exercised end to end only']
ASSUMPTIONS = ['renamers depend on type, name and extra of an entity only (true of the three perform_* functions)',
               'acl_colids_rename: new column ids contain no comma and are not empty (identifiers)']
TECHNIQUE = ('Coq proof over a hand-written executable model of the collectors, rename and text patching on the Coq mirror '
             'of the Python AST + differential cases against the running code + end-to-end oracle through the real engine')
LEVEL_TEXT = ('Kernel-checked theorems for all ASTs and renamers: each collector collects exactly the Attribute nodes of '
              'the documented shapes (rec./newRec./oldRec./choice./user.A/user.A.X), once each, in visit order; converting '
              'the renamed AST equals renaming the converted tree; the colIds list is renamed element-wise and is otherwise '
              'textually unchanged; text outside the patched name tokens is kept character for character; a formula whose '
              'parse fails in any way (not a module, not an expression, rejected by the converter) is returned unchanged '
              '(the model follows the code after fix commit 8212ac8; the old witness is replayed first in every check).')
LEVEL_NOTE = ('Kernel strength: parser, asttokens and the $-replacer are oracles; the step from renamed text to renamed AST '
              '(parser compositionality) is checked on the implementation, not proved; useractions glue is end-to-end only.')

IMPORTS = ['Grist.Model.Predicate', 'Grist.Model.PredicateRename']
warnings.filterwarnings('ignore', category=SyntaxWarning)

Z, S = predgen.Z, predgen.S
KINDS = ['ACL', 'DC', 'Trigger']
ENT_COQ = {'recCol': 'RecCol', 'userAttr': 'UserAttr', 'userAttrCol': 'UserAttrCol', 'choiceAttr': 'ChoiceAttr'}
NEW_NAMES = ['Z', 'A2', 'name', 'Family_Name', 'x', 'rec', 'user', 'B', 'été', 'a_very_long_new_name']


GEN_IMPORTS = IMPORTS + ['Grist.Model.PredVisit', 'GristGen.Predicate_gen', 'GristGen.ProcessRenames_gen']
# the generated collectors (gen_visit (Some k)) against the entities of the running collectors
GEN_DEFS = '''
Definition ent_type_name (t : ent_type) : str :=
  match t with
  | RecCol => lit "recCol" | UserAttr => lit "userAttr" | UserAttrCol => lit "userAttrCol" | ChoiceAttr => lit "choiceAttr"
  end.
Definition gent_of (e : entity) : gent :=
  (ent_type_name (e_type e), e_pos e, e_name e, option_map (fun a => PLeaf (CStr a)) (e_extra e)).
Definition gent_eqb (a b : gent) : bool :=
  match a, b with
  | (t1, p1, n1, x1), (t2, p2, n2, x2) =>
      str_eqb t1 t2 && (p1 =? p2) && str_eqb n1 n2 &&
      match x1, x2 with Some u, Some v => pyval_eqb u v | None, None => true | _, _ => false end
  end.
(* the model renamer of the case, read on a NamedEntity as the generated process_renames sees it *)
Definition gent_renamer (sp : renamer_spec) (g : gent) : option str :=
  let ty := if str_eqb (g_type g) (lit "recCol") then Some RecCol
            else if str_eqb (g_type g) (lit "userAttr") then Some UserAttr
            else if str_eqb (g_type g) (lit "userAttrCol") then Some UserAttrCol
            else if str_eqb (g_type g) (lit "choiceAttr") then Some ChoiceAttr else None in
  match ty, g_extra g with
  | Some t, None => renamer_of sp t (g_name g) None
  | Some t, Some (PLeaf (CStr a)) => renamer_of sp t (g_name g) (Some a)
  | _, _ => None
  end.
Definition c17_gen_ok (c : c17_case) : bool :=
  pr_result_eqb (gen_process_renames (rc_collector c) (gent_renamer (rc_renamer c)) (rc_formula c)
                                     (if rc_dollar_ok c then Some (rc_dollars c) else None) (rc_ast c)) (rc_result c)
  &&
  match rc_ast c with
  | None => true
  | Some e =>
      wf_expr e &&
      match gen_visit (Some (rc_collector c)) e [], rc_entities c with
      | GOk (_, ents), Some l => list_eqb_with gent_eqb ents (map gent_of l)
      | GFail (GErr _), None => true
      | _, _ => false
      end
  end.
'''


def regenerate(ctx):
  """coq/gen/Predicate_gen.v from the visitor methods of the tree being checked (fail closed)."""
  from harness import pf2v
  try:
    text = pf2v.translate(core.GRIST)
  except pf2v.Untranslatable as e:
    raise core.TieBroken('predicate_formula / collector methods are outside the translated subset: %s' % e)
  ctx.extra['pinned_glue'] = predgen.check_pinned_glue(['dropdown_condition.perform_dropdown_condition_renames',
                                                        'trigger_expression.perform_trigger_condition_renames'])
  core.write_if_changed(os.path.join(core.COQ, 'gen', 'Predicate_gen.v'), text)
  from harness import pr2v
  try:
    acl_text = PR_HEADER + pr2v.translate_perform_acl(os.path.join(core.GRIST, 'acl.py'))
  except pr2v.Untranslatable as e:
    raise core.TieBroken('acl.perform_acl_rule_renames is outside the translated subset: %s' % e)
  core.write_if_changed(os.path.join(core.COQ, 'gen', 'PerformAcl_gen.v'), acl_text)
  try:
    pr_text = PROC_HEADER + pr2v.translate_process_renames(os.path.join(core.GRIST, 'predicate_formula.py'))
  except pr2v.Untranslatable as e:
    raise core.TieBroken('predicate_formula.process_renames is outside the translated subset: %s' % e)
  core.write_if_changed(os.path.join(core.COQ, 'gen', 'ProcessRenames_gen.v'), pr_text)
  ctx.extra['regenerated'] = ['coq/gen/Predicate_gen.v: %d definitions generated from predicate_formula.py, acl.py, '
                              'dropdown_condition.py, trigger_expression.py' % text.count('\nDefinition '),
                              'coq/gen/PerformAcl_gen.v: gen_perform_acl generated from acl.perform_acl_rule_renames',
                              'coq/gen/ProcessRenames_gen.v: gen_process_renames generated from predicate_formula.process_renames']


PROC_HEADER = '''(* GENERATED by harness/pr2v.py from predicate_formula.process_renames -- do not edit. *)
From Coq Require Import ZArith List Bool String.
Import ListNotations.
Require Import Grist.Model.Predicate Grist.Model.PredicateRename Grist.Model.PredVisit GristGen.Predicate_gen.
Open Scope Z_scope.
Open Scope list_scope.

'''
PR_HEADER = '''(* GENERATED by harness/pr2v.py from acl.perform_acl_rule_renames -- do not edit. *)
From Coq Require Import ZArith List Bool String.
Import ListNotations.
Require Import Grist.Model.Predicate Grist.Model.PredicateRename.
Open Scope Z_scope.
Open Scope list_scope.

'''


def collector_class(kind):
  import acl
  import dropdown_condition
  import trigger_expression
  return {'ACL': acl._ACLEntityCollector, 'DC': dropdown_condition._DCEntityCollector,
          'Trigger': trigger_expression._TriggerEntityCollector}[kind]


def dollar_offsets(formula, nodollar):
  """Offsets in `formula` of the `$` that get_dollar_replacer turned into `rec.` (by aligning the two texts)."""
  out, i, j = [], 0, 0
  while i < len(formula):
    if formula[i] == '$' and nodollar[j:j + 4] == 'rec.' and not nodollar.startswith('$', j):
      out.append(i)
      i, j = i + 1, j + 4
    else:
      if j >= len(nodollar) or formula[i] != nodollar[j]:
        raise core.TieBroken('cannot align %r with its $-free form %r' % (formula, nodollar))
      i, j = i + 1, j + 1
  if j != len(nodollar):
    raise core.TieBroken('cannot align %r with its $-free form %r' % (formula, nodollar))
  return out


class Oracles(object):
  """What the parser / asttokens / the $-replacer say about one formula."""

  def __init__(self, formula):
    self.formula = formula
    self.nodollar = predgen.undollar(formula)
    self.dollar_ok = self.nodollar is not None
    self.body = None
    self.dollars = []
    if self.dollar_ok:
      self.dollars = dollar_offsets(formula, self.nodollar)
      self.body, _ = predgen.parse_oracle(self.nodollar)

  def ast_term(self):
    if self.body is None:
      return 'None'
    apos = predgen.attr_positions(self.nodollar, self.body)
    return '(Some %s)' % predgen.coq_expr(self.body, apos)

  def entities(self, kind):
    """Entities of a fresh real collector, or None when its visit raises SyntaxError."""
    import asttokens
    if self.body is None:
      return None
    tree = ast.parse(self.nodollar, mode='eval')
    asttokens.ASTTokens(self.nodollar, tree=tree)
    col = collector_class(kind)()
    try:
      col.visit(tree)
    except SyntaxError:
      return None
    return list(col.entities)


def coq_entity(e):
  return '{| e_type := %s; e_pos := %s; e_name := %s; e_extra := %s |}' % (
    ENT_COQ[e.type], Z(e.start_pos), S(e.name), core.optlit(e.extra, S))


def coq_renames(rs):
  return core.coq_list(['(%s, %s, %s)' % (S(t), S(c), S(n)) for (t, c), n in rs.items()])


def coq_case(kind, renamer_term, o, ents, result):
  """result: ('text', str) | ('syntax',)"""
  res = '(PRText %s)' % S(result[1]) if result[0] == 'text' else 'PRSyntaxError'
  return ('{| rc_collector := %s; rc_renamer := %s; rc_formula := %s; rc_dollar_ok := %s; rc_dollars := %s; '
          'rc_nodollar := %s; rc_ast := %s; rc_entities := %s; rc_result := %s |}' % (
            kind, renamer_term, S(o.formula), core.boollit(o.dollar_ok), core.zlist(o.dollars),
            S(o.nodollar or ''), o.ast_term(),
            'None' if ents is None else '(Some %s)' % core.coq_list([coq_entity(e) for e in ents]), res))


def run_process_renames(formula, kind, table):
  """The real process_renames with a real collector and a table-driven renamer."""
  import predicate_formula
  lookup = {(t, n, x): new for (t, n, x, new) in table}
  try:
    out = predicate_formula.process_renames(formula, collector_class(kind)(),
                                            lambda s: lookup.get((s.type, s.name, s.extra)))
    return ('text', out)
  except SyntaxError:
    return ('syntax',)


def gen_table(rng, ents):
  table = []
  for e in ents or []:
    if rng.random() < 0.6:
      table.append((e.type, e.name, e.extra, rng.choice(NEW_NAMES)))
  for _ in range(rng.randint(0, 2)):
    table.append((rng.choice(list(ENT_COQ)), rng.choice(predgen.IDENT_ATTRS), rng.choice([None, None, 'Cust', 'School']),
                  rng.choice(NEW_NAMES)))
  rng.shuffle(table)
  return table


RENAME_FIXED = [
  '( rec.schoolName !=  # ünîcødé comment\n  user.School.name)',
  '( $firstName not in rec.schoolName or $schoolName + $lastName == rec.firstName)',
  "'New' in choice.city and $name == rec.name + rec.choice.city or choice.rec.city != $name2",
  'choice + $name == choice.city or rec.address > 2', "+ 'New' in choice.city and $name == rec.name",
  'rec.A ==', 'rec.A if', 'return 1', 'x = 1', 'rec.A.A.A', 'rec . A == 1', '"$A" == rec.A', 'rec.A==$A==1',
  'user.Cust.A == rec.B and user.Cust.B', 'user.School.Name == rec.Name or user.Cust.Name', 'user.Cust.A.B + user.user.A',
  'user.Office.City == rec.A', 'f(rec.A, k=rec.B)', 'rec.f(rec.A, k=$B).A', '(rec).A + (rec.A).B',
  'rec.\\\nA', '(rec.\n  A)', 'newRec.A is None', 'oldRec.A != rec.A', 'user.rec.A', 'rec.user.A', 'choice.A.B',
  '$A', '$A.B', '$rec.A', 'rec.rec', 'user.user.user', 'rec.A # rec.A $A', 'rec.A and "rec.A"', 'rec.é == $é',
  '[rec.A, (rec.B, $A)]', 'not $A', '-rec.A', 'rec.A[0]', 'lambda: rec.A', 'rec.A < rec.B < rec.C', 'True.A', 'None.rec.A',
  '', ' ', '$', '$$A', 'rec.$A', '$ A', '"' + '$A', "rec.A == 'x' and", 'rec.A)', 'f(rec.A, *rec.B)', 'f(**rec.A)', '$A\n$B',
]


def gen_formulas(ctx):
  g = predgen.Gen(ctx.rng, cols=['A', 'B', 'AA', 'Name', 'rec', 'user', 'choice', 'Cust', 'School', 'é'],
                  user_attrs=['Cust', 'School', 'user'])
  out = [(f, 'fixed') for f in RENAME_FIXED]
  for _ in range(ctx.n(260, 4000)):
    out.append((predgen.finish(g.formula())[0], 'valid'))
  for _ in range(ctx.n(50, 700)):
    out.append((predgen.finish(g.unsupported())[0], 'unsupported'))
  for _ in range(ctx.n(60, 900)):
    out.append((predgen.finish(g.malformed())[0], 'malformed'))
  return out


# ---------------------------------------------------------------------------------------------
# (b) the perform_*_renames functions driven with a stub document model

class StubUA(object):
  def __init__(self, **tables):
    self.docmodel = types.SimpleNamespace(**tables)
    self.updates = {}

  def get_docmodel(self):
    return self.docmodel

  def doBulkUpdateFromPairs(self, table_id, pairs):      # pylint: disable=invalid-name
    self.updates.setdefault(table_id, []).extend(pairs)


TABLES = ['T', 'C', 'Other']
COLS = ['A', 'B', 'AA', 'Name', 'rec', 'é']


# new column ids as useractions produces them: sanitised ASCII identifiers (identifiers.pick_col_ident)
NEW_IDS = [n for n in NEW_NAMES if n.isascii()]


def gen_renames(rng):
  rs = {}
  for _ in range(rng.choice([1, 1, 1, 2, 3])):
    rs[(rng.choice(TABLES), rng.choice(COLS))] = rng.choice(NEW_IDS)
  return rs


def stub_acl(rng, formula, renames):
  """Returns (case renamer term, result, colids cases, lookup cases)."""
  import acl
  rule_table = rng.choice(TABLES + ['*'])
  colids = rng.choice(['*', '', 'A', 'A,B', 'B,A,AA', 'A,,B', 'A, B', 'Name,é,rec', 'A,B,A', ',', 'A,'])
  resources = [types.SimpleNamespace(id=1, tableId='*', colIds='*'),
               types.SimpleNamespace(id=2, tableId=rule_table, colIds=colids),
               types.SimpleNamespace(id=3, tableId=rng.choice(TABLES), colIds=rng.choice(['A,B', 'AA', '*']))]
  by_id = {r.id: r for r in resources}
  attrs = {}
  rules = []
  names = rng.sample(['Cust', 'School', 'user'], rng.randint(0, 2))
  for a in stub_acl.want_attrs:              # attributes the formula mentions as user.<Attr>.<Col>
    if a not in names and rng.random() < 0.85:
      names.append(a)
  for name in names:
    info = {'name': name, 'charId': 'Email', 'tableId': stub_acl.attr_table.get(name) or rng.choice(TABLES),
            'lookupColId': rng.choice(COLS)}
    attrs[name] = info
    rules.append(types.SimpleNamespace(id=10 + len(rules), resource=1, aclFormula='', userAttributes=json.dumps(info)))
  frule = types.SimpleNamespace(id=50, resource=2, aclFormula=formula, userAttributes='')
  # the formula rule before, between or after the rules that define the attributes (row-id order = list order)
  rules.insert(rng.choice([0, 0, len(rules), rng.randint(0, len(rules))]), frule)
  for i, r in enumerate(rules):
    r.id = 10 + i
  stub_acl.order = 'formula-rule-first' if rules[0] is frule and len(rules) > 1 else 'attribute-rule-first'
  ua = StubUA(aclResources=types.SimpleNamespace(all=resources, table=types.SimpleNamespace(get_record=by_id.get)),
              aclRules=types.SimpleNamespace(all=rules))
  term = '(RAcl %s (Some %s) %s)' % (coq_renames(renames), S(rule_table), core.coq_list(
    ['(%s, %s)' % (S(k), S(v['tableId'])) for k, v in attrs.items()]))
  stub_acl.item = ({'kind': 'ACL', 'rule_table': rule_table}, {k: v['tableId'] for k, v in attrs.items()})
  try:
    acl.perform_acl_rule_renames(ua, renames)
  except SyntaxError:
    return term, ('syntax',), [], [], None
  new = formula
  parsed = None
  look = {}
  for rec, vals in ua.updates.get('_grist_ACLRules', []):
    if 'aclFormula' in vals:
      new, parsed = vals['aclFormula'], vals['aclFormulaParsed']
    if 'userAttributes' in vals:
      look[rec.id] = json.loads(vals['userAttributes'])['lookupColId']
  res_updates = {rec.id: vals['colIds'] for rec, vals in ua.updates.get('_grist_ACLResources', [])}
  colcases = ['(%s, %s, %s, %s)' % (coq_renames(renames), S(r.tableId), S(r.colIds), core.optlit(res_updates.get(r.id), S))
              for r in resources]
  lookcases = []
  for r in rules:
    if r.userAttributes:
      info = json.loads(r.userAttributes)
      lookcases.append('(%s, (Some %s), (Some %s), %s)' % (coq_renames(renames), S(info['tableId']), S(info['lookupColId']),
                                                           core.optlit(look.get(r.id), S)))
  return term, ('text', new), colcases, lookcases, parsed


stub_acl.want_attrs = []
stub_acl.attr_table = {}


def stub_dc(rng, formula, renames):
  import dropdown_condition
  ctype = rng.choice(['Ref:C', 'RefList:C', 'Ref:T', 'Text', 'ChoiceList', 'Any'])
  self_table = rng.choice(TABLES)
  wo = {'dropdownCondition': {'text': formula}, 'alignment': 'left'}
  col = types.SimpleNamespace(id=7, widgetOptions=json.dumps(wo), type=ctype, parentId=types.SimpleNamespace(tableId=self_table))
  others = [types.SimpleNamespace(id=8, widgetOptions='', type='Text', parentId=col.parentId),
            types.SimpleNamespace(id=9, widgetOptions='{"x": 1}', type='Text', parentId=col.parentId),
            types.SimpleNamespace(id=10, widgetOptions='not json', type='Text', parentId=col.parentId)]
  ua = StubUA(columns=types.SimpleNamespace(all=others[:1] + [col] + others[1:]))
  ref = ctype.split(':')[1] if ':' in ctype else None
  term = '(RDc %s %s %s)' % (coq_renames(renames), core.optlit(ref, S), S(self_table))
  stub_dc.item = ({'kind': 'DC', 'ref_table': ref, 'self_table': self_table}, {})
  try:
    dropdown_condition.perform_dropdown_condition_renames(ua, renames)
  except SyntaxError:
    return term, ('syntax',), None
  new, parsed = formula, None
  for rec, vals in ua.updates.get('_grist_Tables_column', []):
    if rec.id != 7:
      raise core.TieBroken('perform_dropdown_condition_renames updated a column without a dropdown condition')
    w = json.loads(vals['widgetOptions'])
    new, parsed = w['dropdownCondition']['text'], w['dropdownCondition'].get('parsed')
    if w.get('alignment') != 'left':
      raise core.TieBroken('perform_dropdown_condition_renames lost other widget options')
  return term, ('text', new), parsed


def stub_trigger(rng, formula, renames):
  import trigger_expression
  table = rng.choice(TABLES)
  mode = rng.choice(['text', 'config'])
  cond = {'text': formula} if mode == 'text' else {'config': {'customExpression': formula, 'requiredColumns': [2]}}
  trig = types.SimpleNamespace(id=3, condition=json.dumps(cond), tableRef=types.SimpleNamespace(tableId=table))
  others = [types.SimpleNamespace(id=4, condition='', tableRef=trig.tableRef),
            types.SimpleNamespace(id=5, condition='[1]', tableRef=trig.tableRef),
            types.SimpleNamespace(id=6, condition='rec.A', tableRef=trig.tableRef)]
  ua = StubUA(triggers=types.SimpleNamespace(all=others[:2] + [trig] + others[2:]))
  term = '(RTrigger %s %s)' % (coq_renames(renames), S(table))
  stub_trigger.item = ({'kind': 'Trigger', 'table': table}, {})
  try:
    trigger_expression.perform_trigger_condition_renames(ua, renames)
  except SyntaxError:
    return term, ('syntax',), None
  new, parsed = formula, None
  for rec, vals in ua.updates.get('_grist_Triggers', []):
    if rec.id != 3:
      raise core.TieBroken('perform_trigger_condition_renames updated a trigger without a parsable condition object')
    c = json.loads(vals['condition'])
    if mode == 'text':
      new, parsed = c['text'], json.dumps(c.get('parsed'))
    else:
      new, parsed = c['config']['customExpression'], json.dumps(c['config'].get('customExpressionParsed'))
  return term, ('text', new), parsed


# ---------------------------------------------------------------------------------------------

def correspond(ctx):
  predgen.check_visit_tie()
  ctx.extra['collector_visit_methods'] = predgen.check_collector_tie()
  rng = ctx.rng
  coq, meta, colcases, lookcases = [], [], [], []
  ctx._c17_parsed_checks = []
  ctx._c17_stub_results = []
  for formula, stream in gen_formulas(ctx):
    try:
      o = Oracles(formula)
    except RecursionError:
      continue
    mode = rng.choice(['direct', 'direct', 'acl', 'dc', 'trigger'])
    parsed = None
    if mode == 'direct':
      kind = rng.choice(KINDS)
      ents = o.entities(kind)
      seen, table = set(), []
      for row in gen_table(rng, ents):
        if row[:3] not in seen:
          seen.add(row[:3])
          table.append(row)
      result = run_process_renames(formula, kind, table)
      term = '(RTable %s)' % core.coq_list(['(%s, %s, %s, %s)' % (ENT_COQ[t], S(n), core.optlit(x, S), S(new))
                                            for (t, n, x, new) in table])
    else:
      kind = {'acl': 'ACL', 'dc': 'DC', 'trigger': 'Trigger'}[mode]
      ents = o.entities(kind)
      renames = gen_renames(rng)
      if ents and rng.random() < 0.7:        # make a hit likely
        renames[(rng.choice(TABLES), rng.choice(ents).name)] = rng.choice(NEW_IDS)
      if mode == 'acl':
        if not formula:
          continue
        uac = [e for e in (ents or []) if e.type == 'userAttrCol']
        stub_acl.want_attrs = sorted(set(e.extra for e in uac))
        stub_acl.attr_table = {a: rng.choice(TABLES) for a in stub_acl.want_attrs}
        if uac and rng.random() < 0.8:       # rename the column in the attribute's lookup table
          e0 = rng.choice(uac)
          renames[(stub_acl.attr_table[e0.extra], e0.name)] = rng.choice(NEW_IDS)
        term, result, cc, lc, parsed = stub_acl(rng, formula, renames)
        if uac:
          ctx.bump('stub-acl:user-attr-col:' + stub_acl.order)
        colcases.extend(cc)
        lookcases.extend(lc)
        item = stub_acl.item
      elif mode == 'dc':
        term, result, parsed = stub_dc(rng, formula, renames)
        item = stub_dc.item
      else:
        if not formula:
          continue
        term, result, parsed = stub_trigger(rng, formula, renames)
        item = stub_trigger.item
      ctx._c17_stub_results.append((mode, formula, dict(renames), item, result))
    coq.append(coq_case(kind, term, o, ents, result))
    meta.append((formula, mode, kind, term, result))
    if parsed is not None and result[0] == 'text':
      ctx._c17_parsed_checks.append((mode, result[1], parsed))
    changed = result[0] == 'text' and result[1] != formula
    ctx.count((formula, term), nontrivial=bool(ents), kind='%s:%s:%s' % (
      stream, mode, 'SyntaxError-escapes' if result[0] == 'syntax' else 'renamed' if changed else
      'unparsable-untouched' if o.body is None else 'rejected-by-collector' if ents is None else 'nothing-to-rename'),
      sample={'formula': formula[:160], 'collector': kind, 'renamer': term[:200], 'result': result[-1][:160]}
      if changed and len(ctx.samples) < 6 else None)
  ctx.log('process_renames / perform_* cases: %d; colIds cases: %d; lookup cases: %d' % (len(coq), len(colcases), len(lookcases)))
  both = ctx.run_cases('renames', GEN_IMPORTS, 'fun c => c17_case_ok c && c17_gen_ok c', coq, shard=110, extra_defs=GEN_DEFS)
  bad, genbad = [], []
  if both:
    sub = [coq[k] for k in both]
    bad = [both[j] for j in ctx.run_cases('renames_model', IMPORTS, 'c17_case_ok', sub, shard=110)]
    genbad = [both[j] for j in ctx.run_cases('renames_gen', GEN_IMPORTS, 'c17_gen_ok', sub, shard=110, extra_defs=GEN_DEFS)]
  ctx.extra['translator_validation'] = {'generated_collectors_and_process_renames_vs_running_code_cases': len(coq),
                                        'differ': len(genbad)}
  for k in bad[:6]:
    ctx.broken('correspondence:Model.PredicateRename.process_renames differs from the running code',
               'formula %r via %s collector %s renamer %s: implementation %r' % meta[k])
  for k in genbad[:4]:
    ctx.broken('translation:generated collector / process_renames (pf2v, pr2v) differs from the running code',
               'formula %r via %s collector %s' % meta[k][:3])
  for k in ctx.run_cases('colids', IMPORTS, 'c17_colids_ok', colcases, shard=600)[:4]:
    ctx.broken('correspondence:Model.PredicateRename.rename_colids differs from perform_acl_rule_renames', colcases[k][-400:])
  for k in ctx.run_cases('lookup', IMPORTS, 'c17_lookup_ok', lookcases, shard=600)[:4]:
    ctx.broken('correspondence:Model.PredicateRename.rename_lookup differs from perform_acl_rule_renames', lookcases[k][-400:])
  ctx.log('model evaluated on all cases')
  validate_pr2v(ctx)
  ctx.bump('colids-cases', len(colcases))
  ctx.bump('lookup-cases', len(lookcases))


# ---------------------------------------------------------------------------------------------
# (c) end to end through the real engine; the property's own oracle (harness/pred_e2e.py)

E2E_FORMULAS = [
  'rec.A == 1', '$A == "x" and newRec.B != rec.A', 'user.Email == rec.A  # $A memo', 'rec.A in ["A", "rec.A"] or rec.AA',
  'user.Cust.A == rec.B and user.Cust.B', 'user.Sch.AA == rec.A', 'user.Sch.N > 0 and user.Cust.Name != $A',
  'user.Oth.B in rec.R or user.Cust.A', 'user . Cust . Name == user.Sch.A  # user.Cust.Name', 'rec.A.A.A',
  'not rec.B or (rec.A + rec.AA) > 2', 'rec . A == 1', '"$A" == rec.A',
  'user.Other.A == 1', 'A == 1 and rec.A', 'f(rec.A, k=rec.B)', 'newRec.A is None', 'choice.A == rec.A',
  'choice.B == $AA and rec.B', 'choice.Name in rec.R', 'oldRec.A != rec.A and $N > 0', 'rec.f(rec.A, k=$B).A',
  '( $A not in rec.AA or $AA + $B == rec.A)', '( rec.A !=  # ünîcødé comment\n  user.Cust.Name)',
  'choice.Name == $A and rec.N > 0', 'choice.A == rec.A or choice.B', 'choice.AA != $AA',
  "+ 'New' in choice.A and $A == rec.A", 'rec.A < rec.B < rec.AA', 'rec.A[0]', '-rec.N > 0', 'rec.N > -1',
]
E2E_UNPARSABLE = ['rec.A ==', 'rec.A if', 'rec.A == 1)', '$A $B', '"unterminated', 'rec.A and', 'def f(): return rec.A', 'x = rec.A']
E2E_NEW = ['Z', 'A2', 'name', 'Family Name', 'B', 'x y', 'AA', 'rec', 'Ünï']


def gen_spec(rng, g):
  def formula(allow_bad):
    k = rng.random()
    if allow_bad and k < 0.12:
      return rng.choice(E2E_UNPARSABLE)
    if k < 0.5:
      return rng.choice(E2E_FORMULAS)
    return predgen.finish(g.formula(rng.choice([1, 2, 2, 3])))[0]

  from harness import pred_e2e

  def entry(f, **kw):
    kw['formula'] = f
    kw['raw'] = pred_e2e.impl_parse(f)[0] != 'ok'
    return kw

  # user attributes: several, with lookup tables that may differ from the table of the rules that use them
  attrs = [{'name': n, 'tableId': t, 'lookupColId': c, 'charId': 'Email'}
           for n, t, c in rng.sample([('Cust', 'C', 'A'), ('Sch', 'T', 'AA'), ('Oth', 'C', 'Name')], rng.randint(1, 3))]
  rules = [entry(formula(True), table=rng.choice(['T', 'T', 'C', 'D'])) for _ in range(rng.randint(1, 4))]
  if rng.random() < 0.4:           # one formula text shared by rules on different resources / tables
    f = formula(False)
    rules += [entry(f, table=t) for t in rng.sample(['T', 'C', 'D'], rng.randint(2, 3))]
  rules = [r for r in rules if r['formula']] + [{'attr': a} for a in attrs]
  # row-id order of the rules is the list order: attribute rules before, between and after the rules that use them
  k = rng.random()
  if k < 0.35:
    rules.sort(key=lambda r: 'attr' in r)            # formula rules first
  elif k < 0.5:
    rules.sort(key=lambda r: 'attr' not in r)        # attribute rules first
  else:
    rng.shuffle(rules)
  # dropdown conditions: often ONE text on several columns that reference different tables (C, D, T itself) or none
  dc_cols = ['B', 'R', 'B2', 'R2', 'S', 'Ch', 'N']
  if rng.random() < 0.5:
    f = rng.choice([x for x in E2E_FORMULAS if 'choice.' in x] + [formula(False)])
    shared = rng.sample(dc_cols, rng.randint(2, 4))
    dcs = [entry(f, col=c) for c in shared]
    dcs += [entry(formula(True), col=c) for c in rng.sample([c for c in dc_cols if c not in shared], rng.randint(0, 2))]
  else:
    dcs = [entry(formula(True), col=c) for c in rng.sample(dc_cols, rng.randint(0, 3))]
  rng.shuffle(dcs)
  triggers = [entry(formula(True), mode=rng.choice(['text', 'config']), table=rng.choice(['T', 'T', 'C', 'D']))
              for _ in range(rng.randint(0, 2))]
  if rng.random() < 0.3:           # one condition text on triggers of different tables
    f = formula(False)
    triggers += [entry(f, mode=rng.choice(['text', 'config']), table=t) for t in rng.sample(['T', 'C', 'D'], 2)]
  spec = {
    'colids': {'T': rng.choice(['*', 'A', 'A,AA', 'B,A,N', 'AA,Ch']), 'C': rng.choice(['*', 'A', 'A,B', 'Name,A']),
               'D': rng.choice(['*', 'A', 'Name,AA', 'B,A'])},
    'acl_rules': rules,
    'dcs': dcs,
    'triggers': triggers,
    'actions': [],
  }
  spec['triggers'] = [t for t in spec['triggers'] if t['formula']]
  # references user.<Attr>.<Col> present in the rules: renames in the attribute's lookup table are likely
  attr_table = {a['name']: a['tableId'] for a in attrs}
  uses = [(attr_table[m.group(1)], m.group(2)) for r in rules if 'formula' in r
          for m in re.finditer(r'user\s*\.\s*(\w+)\s*\.\s*(\w+)', r['formula']) if m.group(1) in attr_table]
  # choice.<Col> in a dropdown condition: renames of <Col> in a referenced table (C or D, or T for T.S) are likely
  for d in dcs:
    for m in re.finditer(r'choice\s*\.\s*(\w+)', d['formula']):
      uses += [(t, m.group(1)) for t in ('C', 'D', 'T')]
  cols = {t: [c for c, _ in cs] for t, cs in pred_e2e.TABLE_COLS.items()}
  tname = {'T': 'T', 'C': 'C', 'D': 'D'}
  for _ in range(rng.randint(1, 3)):
    k = rng.random()
    t = rng.choice(['T', 'T', 'C', 'D'])
    if k < 0.75 and cols[t]:
      old = rng.choice(cols[t])
      hits = [(ut, uc) for ut, uc in uses if uc in cols[ut]]
      if hits and rng.random() < 0.5:
        t, old = rng.choice(hits)
      new = rng.choice(E2E_NEW)
      spec['actions'].append(['RenameColumn', tname[t], old, new])
      cols[t].remove(old)          # the new id is whatever the engine makes of `new`; do not reuse the column
    elif k < 0.9:
      new = rng.choice(['T2', 'Customers', 'Other'])
      if new not in tname.values():
        spec['actions'].append(['RenameTable', tname[t], new])
        tname[t] = new
    else:
      spec['actions'].append(['AddColumn', tname[t], rng.choice(['Q', 'W']), {'type': 'Text', 'isFormula': False}])
  return spec


# witness of the finding repaired by fix commit 8212ac8 (known_findings.json, kind fixed): always first
REGRESSION_SPECS = [
  {'colids': {'T': '*', 'C': '*'}, 'acl_rules': [{'table': 'T', 'formula': 'rec.A ==', 'raw': True}], 'dcs': [],
   'triggers': [], 'actions': [['RenameColumn', 'T', 'AA', 'X']]},
  {'colids': {'T': 'A,AA', 'C': '*'}, 'acl_rules': [{'table': 'T', 'formula': 'rec.AA == 1', 'raw': False}],
   'dcs': [{'col': 'B', 'formula': 'choice.A ==', 'raw': True}],
   'triggers': [{'mode': 'text', 'formula': '$AA $B', 'raw': True}], 'actions': [['RenameColumn', 'T', 'AA', 'X']]},
  # a rule that uses a user attribute stored BEFORE (lower row id than) the rule that defines the attribute
  {'colids': {'T': 'A', 'C': '*'},
   'acl_rules': [{'table': 'T', 'formula': 'user.Cust.Name == rec.A and user.Sch.AA', 'raw': False},
                 {'attr': {'name': 'Cust', 'tableId': 'C', 'lookupColId': 'A', 'charId': 'Email'}},
                 {'attr': {'name': 'Sch', 'tableId': 'T', 'lookupColId': 'AA', 'charId': 'Email'}}],
   'dcs': [], 'triggers': [], 'actions': [['RenameColumn', 'C', 'Name', 'Title'], ['RenameTable', 'C', 'Customers'],
                                          ['RenameColumn', 'T', 'AA', 'X']]},
  # one condition text on columns that reference DIFFERENT tables with a same-named column (and on a non-reference
  # column): choice.Name belongs to the table each column references; rename it in the second table, then in the first
  {'colids': {'T': '*', 'C': '*', 'D': 'Name,A'},
   'acl_rules': [{'table': t, 'formula': 'rec.Name == user.Cust.Name', 'raw': False} for t in ('C', 'D')],
   'dcs': [{'col': c, 'formula': 'choice.Name == $A and rec.N > 0', 'raw': False} for c in ('B', 'B2', 'R2', 'Ch', 'S')],
   'triggers': [{'mode': 'text', 'formula': '$Name != oldRec.Name', 'raw': False, 'table': t} for t in ('C', 'D')],
   'actions': [['RenameColumn', 'D', 'Name', 'Region'], ['RenameColumn', 'C', 'Name', 'Title'],
               ['RenameColumn', 'T', 'A', 'First']]},
]


def search(ctx):
  from harness import pred_e2e
  for spec in REGRESSION_SPECS:
    bad, changes, outcomes = pred_e2e.run_spec(spec)
    ctx.count(json.dumps(spec, sort_keys=True), nontrivial=True, kind='e2e:regression:' + '+'.join(outcomes))
    for kind, what in bad[:3]:
      ctx.violation(kind, what, {'spec': spec, 'kind': kind})
  g = predgen.Gen(ctx.rng, cols=['A', 'AA', 'B', 'Name', 'N', 'R', 'Cust'], unicode_ok=True,
                  user_attrs=['Cust', 'Sch', 'Oth'])
  for _ in range(ctx.n(120, 600)):
    spec = gen_spec(ctx.rng, g)
    if not spec['actions']:
      continue
    try:
      bad, changes, outcomes = pred_e2e.run_spec(spec)
    except Exception as ex:       # pylint: disable=broad-except
      ctx.violation('document-setup-failed', 'building the document raised %s: %s' % (type(ex).__name__, str(ex)[:200]),
                    {'spec': spec})
      continue
    ctx.count(json.dumps(spec, sort_keys=True), nontrivial=changes > 0,
              kind='e2e:' + '+'.join(sorted(set(outcomes))))
    for kind, what in bad[:3]:
      ctx.violation(kind, what, {'spec': spec})
  ctx.log('end-to-end documents done')
  # the perform_* functions driven with the stub document model: the same independent text specification
  for mode, formula, renames, (item, attr_tables), result in getattr(ctx, '_c17_stub_results', []):
    if result[0] != 'text':
      continue          # SyntaxError escaping: reported end to end (known finding)
    want, n = pred_e2e.spec_rename_text(formula, item['kind'], pred_e2e.expected_renamer(item, renames, attr_tables))
    ctx.bump('stub-oracle:' + ('renamed' if n else 'nothing-to-rename'))
    if result[1] != want:
      ctx.violation('text-not-exact', 'perform_%s renames %r with %r (%r): got %r, expected %r' % (
        mode, formula, sorted(renames.items()), item, result[1], want),
        {'stub': mode, 'formula': formula, 'renames': [[list(k), v] for k, v in renames.items()], 'item': item,
         'attr_tables': attr_tables})
  # the perform_* stubs also gave (new text, stored parsed form): the parsed form must be the parse of the text
  for mode, text, parsed in getattr(ctx, '_c17_parsed_checks', []):
    want = pred_e2e.impl_parse(text)
    if want[0] != 'ok' or json.loads(parsed) != want[1]:
      ctx.violation('stored-parsed-stale', '%s: parsed form %r written next to the text %r' % (mode, parsed, text),
                    {'formula': text, 'mode': mode})


def replay(ctx, w):
  from harness import pred_e2e
  if 'stub' in w:
    import predicate_formula
    renames = {tuple(k): v for k, v in w['renames']}
    renamer = pred_e2e.expected_renamer(w['item'], renames, w['attr_tables'])
    want, _ = pred_e2e.spec_rename_text(w['formula'], w['item']['kind'], renamer)
    try:
      got = predicate_formula.process_renames(w['formula'], collector_class(w['item']['kind'])(),
                                              lambda s: renamer(s.type, s.name, s.extra))
    except SyntaxError as e:
      return 'process_renames raises SyntaxError: %s' % e
    return None if got == want else 'renaming %r gives %r, expected %r' % (w['formula'], got, want)
  if 'spec' not in w:
    return None
  bad, _, _ = pred_e2e.run_spec(w['spec'])
  want = w.get('kind')
  for kind, what in bad:
    if want is None or kind == want:
      return what
  return None


# ---------------------------------------------------------------------------------------------
# Validation of the pr2v translation of acl.perform_acl_rule_renames: the generated function, with concrete
# stand-ins for its opaque primitives, against the running function with the same stand-ins patched in.

PR_IMPORTS = IMPORTS + ['GristGen.PerformAcl_gen']
PR_DEFS = '''
Fixpoint assoc_string (k : string) (l : list (string * str)) : option str :=
  match l with [] => None | (k', v) :: t => if String.eqb k k' then Some v else assoc_string k t end.
Fixpoint set_assoc (k : string) (v : str) (l : list (string * str)) : list (string * str) :=
  match l with [] => [(k, v)] | (k', v') :: t => if String.eqb k k' then (k, v) :: t else (k', v') :: set_assoc k v t end.
Definition lits (s : string) : str := lit s.
Definition vprims (jt : list (str * list (string * str))) (rt : list (Z * str)) (subj : list (str * list gsubject)) : acl_prims := {|
  info := list (string * str);
  json_loads := fun s => assoc_str s jt;
  info_get := fun i k => assoc_string k i;
  info_set := fun i k v => set_assoc k v i;
  json_dumps := fun i => List.concat (map (fun kv => lit (fst kv) ++ lit "=" ++ snd kv ++ lit ";") i);
  resource_tableId := fun z => match find (fun p => fst p =? z) rt with Some p => snd p | None => lit "<no such resource>" end;
  process_renames_acl := fun f r =>
    f ++ lit "|" ++ List.concat (map (fun s => match r s with Some n => n | None => lit "-" end ++ lit ",")
                                     (match assoc_str f subj with Some l => l | None => [] end));
  parse_json := fun s => lit "P:" ++ s |}.
Definition upd_eqb (a b : upd) : bool :=
  list_eqb_with (fun x y => String.eqb (fst x) (fst y) && str_eqb (snd x) (snd y)) a b.
Definition res_eqb (a b : resource) : bool := str_eqb (res_tableId a) (res_tableId b) && str_eqb (res_colIds a) (res_colIds b).
Definition rule_eqb (a b : rule) : bool :=
  (rule_resource a =? rule_resource b) && str_eqb (rule_aclFormula a) (rule_aclFormula b)
  && str_eqb (rule_userAttributes a) (rule_userAttributes b).
Definition pr_case_ok (c : list (str * list (string * str)) * list (Z * str) * list (str * list gsubject) * renames *
                           list resource * list rule * (list (resource * upd) * list (rule * upd))) : bool :=
  match c with (jt, rt, subj, rs, resources, rules, (o1, o2)) =>
    match gen_perform_acl (vprims jt rt subj) rs resources rules with
    | (g1, g2) => list_eqb_with (fun x y => res_eqb (fst x) (fst y) && upd_eqb (snd x) (snd y)) g1 o1
                  && list_eqb_with (fun x y => rule_eqb (fst x) (fst y) && upd_eqb (snd x) (snd y)) g2 o2
    end
  end.
'''


def pr_case(rng):
  """One random call of the running perform_acl_rule_renames with stand-in primitives; returns the Coq case."""
  import acl
  import predicate_formula
  from predicate_formula import NamedEntity
  attrs = ['Cust', 'Sch', 'Oth']
  tables = ['T', 'C', 'Other']
  cols = ['A', 'B', 'Name']
  def subjects():
    out = []
    for _ in range(rng.randint(0, 4)):
      ty = rng.choice(['recCol', 'recCol', 'userAttrCol', 'userAttr', 'choiceAttr'])
      out.append(NamedEntity(ty, 0, rng.choice(cols), rng.choice(attrs + ['Zzz']) if ty == 'userAttrCol' else None))
    return out
  renames = {(rng.choice(tables), rng.choice(cols)): rng.choice(NEW_IDS + ['']) for _ in range(rng.randint(1, 4))}
  resources = [types.SimpleNamespace(id=i + 1, tableId=rng.choice(tables + ['*']),
                                     colIds=rng.choice(['*', '', 'A', 'A,B', 'Name,A,B', 'A,,B', 'B']))
               for i in range(rng.randint(1, 4))]
  by_id = {r.id: r for r in resources}
  rules, subj = [], {}
  for i in range(rng.randint(1, 6)):
    k = rng.random()
    ua, formula = '', ''
    if k < 0.45:
      info = {'name': rng.choice(attrs), 'tableId': rng.choice(tables), 'lookupColId': rng.choice(cols), 'charId': 'Email'}
      for key in ('name', 'tableId', 'lookupColId'):
        if rng.random() < 0.1:
          del info[key]
      ua = rng.choice([json.dumps(info)] * 6 + ['not json', '[1, 2]'])
    if k > 0.35:
      formula = 'formula%d' % rng.randint(0, 3)
      subj.setdefault(formula, subjects())
    rules.append(types.SimpleNamespace(id=10 + i, resource=rng.choice(list(by_id)), aclFormula=formula, userAttributes=ua))
  ua = StubUA(aclResources=types.SimpleNamespace(all=resources, table=types.SimpleNamespace(get_record=by_id.get)),
              aclRules=types.SimpleNamespace(all=rules))
  fake_pr = lambda f, collector, renamer: f + '|' + ''.join(
    (lambda n: n if n is not None else '-')(renamer(s)) + ',' for s in subj.get(f, []))
  saved = (predicate_formula.process_renames, acl.parse_predicate_formula_json)
  predicate_formula.process_renames, acl.parse_predicate_formula_json = fake_pr, (lambda s: 'P:' + s)
  try:
    acl.perform_acl_rule_renames(ua, renames)
  finally:
    predicate_formula.process_renames, acl.parse_predicate_formula_json = saved
  def info_term(text):
    try:
      d = json.loads(text)
    except ValueError:
      return None
    if not isinstance(d, dict):
      return None
    return core.coq_list(['(%s, %s)' % (predgen.coq_str(k), S(v)) for k, v in d.items()])
  res_t = lambda r: '{| res_tableId := %s; res_colIds := %s |}' % (S(r.tableId), S(r.colIds))
  rule_t = lambda r: '{| rule_resource := %s; rule_aclFormula := %s; rule_userAttributes := %s |}' % (
    Z(r.resource), S(r.aclFormula), S(r.userAttributes))
  def upd_t(vals):
    items = []
    for k, v in vals.items():
      if k == 'userAttributes':
        v = ''.join('%s=%s;' % kv for kv in json.loads(v).items())
      items.append('(%s, %s)' % (predgen.coq_str(k), S(v)))
    return core.coq_list(items)
  jt = core.coq_list(['(%s, %s)' % (S(r.userAttributes), info_term(r.userAttributes)) for r in rules
                      if r.userAttributes and info_term(r.userAttributes) is not None])
  rt = core.coq_list(['(%s, %s)' % (Z(r.id), S(r.tableId)) for r in resources])
  st = core.coq_list(['(%s, %s)' % (S(f), core.coq_list(['(%s, %s, %s)' % (S(s.type), S(s.name), core.optlit(s.extra, S)) for s in l]))
                      for f, l in subj.items()])
  o1 = core.coq_list(['(%s, %s)' % (res_t(r), upd_t(v)) for r, v in ua.updates.get('_grist_ACLResources', [])])
  o2 = core.coq_list(['(%s, %s)' % (rule_t(r), upd_t(v)) for r, v in ua.updates.get('_grist_ACLRules', [])])
  n_updates = len(ua.updates.get('_grist_ACLResources', [])) + len(ua.updates.get('_grist_ACLRules', []))
  return '(%s, %s, %s, %s, %s, %s, (%s, %s))' % (jt, rt, st, coq_renames(renames), core.coq_list([res_t(r) for r in resources]),
                                                 core.coq_list([rule_t(r) for r in rules]), o1, o2), n_updates


def validate_pr2v(ctx):
  cases, hits = [], 0
  for _ in range(ctx.n(80, 1200)):
    c, n = pr_case(ctx.rng)
    cases.append(c)
    hits += n > 0
  bad = ctx.run_cases('pr2v', PR_IMPORTS, 'pr_case_ok', cases, shard=300, extra_defs=PR_DEFS)
  ctx.extra['translator_validation_perform_acl'] = {'cases': len(cases), 'with_updates': hits, 'differ': len(bad)}
  for k in bad[:3]:
    ctx.broken('translation:generated perform_acl_rule_renames (pr2v) differs from the running function', cases[k][-600:])
