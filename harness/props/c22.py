"""C22 -- Cell value conversion is total and idempotent (usertypes.py BaseColumnType.convert / do_convert)."""
from harness import core, pyvalues as pv

ID = 'C22'
TITLE = 'Cell value conversion is total and idempotent'
PROPS = ['Props/C22']
RULE = ('every type object of usertypes.py (DateTime for 4 zone labels, one unknown) x values from the grammar of '
        'harness/pyvalues.py (ints/floats at the 2^31, 2^53, 2^1024 and 4300-digit edges, NaN/inf/-0.0, numeric, boolean, '
        'JSON, ISO-date and RecordList-repr looking strings, bytes, nested containers, dates and datetimes with moment and '
        'foreign tzinfo, records/record sets, AltText, errors with user input, str/int/float/bytes subclasses, opaque objects '
        'with failing or number-looking str()); random values get a type that has a branch for that kind of value (70%) or '
        'any type; every listed edge value (~190) is tried with all types that have a branch for it plus one random type; '
        'every conversion result is converted again as a further case; thorough adds the full cross product of all 19 type '
        'objects with all listed edge values. A case is non-trivial when conversion changed the value or took the except path.')
TRUSTED = ['harness/ut2v.py: fail-closed translator usertypes.py/objtypes.py -> coq/gen/Usertypes_gen.v (every do_convert and is_right_type, '
           'BaseColumnType.convert, the class hierarchy, is_int_short), run on every check; its output is proved equal to the hand model '
           '(Proofs/Usertypes_bridge.v) and evaluated against the running functions on every case',
           'Model/ValuesPy.v: the generic Python run time the generated code uses (isinstance, truth value, float/int/str, comparisons, '
           'iteration, try/except flow) and the library entry points it names (moment.*, json.loads, RecordList.from_repr ...)',
           'pinned glue (AST equality): DateTime/Reference/ReferenceList/Attachments.__init__',
           'hand-written model Model/Values.v of usertypes.py / objtypes.py, compared with the running functions on every case',
           'Lib/PyFloat.v (exact dyadic model of binary64), validated through the same cases',
           'oracles (Section variable `orc`): float(str/bytes), repr/str of floats, "%.15g", str()/repr() of containers, bytes, dates, '
           'records, opaque objects, json.loads, iso8601.parse_date, int(str), str.lower, bytes.decode, tz database lookups; '
           'the harness fills them per case from the running library',
           'harness/pyvalues.py: Python value -> Coq literal']
ASSUMPTIONS = ['rows_ok: row ids inside record sets handed to RefList/Attachments are valid row ids (-2^31 <= id < 2^31), as the Id column guarantees',
               'opaque objects compare unequal to "" and None and are not instances of the builtin/Grist classes',
               'subclasses of int/float/str/bytes do not override methods',
               'GRIST_TRUTHY_VALUES / GRIST_FALSY_VALUES are unset (monitored)',
               'BaseException subclasses that are not Exception (KeyboardInterrupt...) raised by user objects are outside the model']
TECHNIQUE = ('Coq proof over definitions translated from usertypes.py on every run, bridged pointwise to a hand model '
             '+ differential cases (vm_compute) of both + impl oracle')
LEVEL_TEXT = ('Kernel-checked theorems about the model of convert/do_convert/is_right_type of all 16 type classes over the whole '
              'value universe V and arbitrary library oracles: conversion never escapes and yields a right-type value, the '
              'unchanged error or a text for every type; a second conversion returns the same value whenever the first '
              'result is not a text produced by the str() fallback of a non-text value that the type parses again, not an empty '
              'sequence and not a RecordList; each excluded case is refuted by a concrete witness replayed on the implementation.')
LEVEL_NOTE = ('Deciding code (all do_convert/is_right_type, convert, is_int_short, class dispatch) regenerated from source and bridged by proof '
              'on every run; hand model also tied by differential cases. Oracles for C/third-party library functions. '
              'Blob.convert was the identity (fixed in /repo f9e437d, kept as a regression witness). Open findings: alt text of non-text values can be parsed on a '
              'second conversion (AltText, opaque objects, ints >= 2^1024 in Numeric); empty results ((), RecordList([]), []) '
              'become None and RecordList becomes list on a second RefList/ChoiceList conversion.')


def _types():
  return pv.all_types()


def run_one(T, v):
  """(raised?, result)"""
  try:
    return None, T.convert(v)
  except BaseException as e:     # the property says: never raises
    return e, None


def classify(T, v):
  """The property's statement on the implementation. Returns (kind, description) or None."""
  import objtypes
  exc, w = run_one(T, v)
  tn = type(T).__name__
  if exc is not None:
    return 'raises', '%s.convert raised %r' % (tn, exc)
  is_err = isinstance(w, objtypes.RaisedException)
  ok = (is_err and w is v) or isinstance(w, str)
  if not ok:
    try:
      ok = bool(T.is_right_type(w))
    except Exception as e:
      return 'raises', '%s.is_right_type raised %r' % (tn, e)
    if ok and is_err:
      ok = False if tn != 'Any' else True
  if not ok:
    if tn == 'Blob' and w is v:
      return 'blob-identity', 'Blob.convert returned its %s argument unchanged (not bytes/None, error or text)' % type(v).__name__
    return 'not-total', '%s.convert returned %s, neither right type, nor the error, nor text' % (tn, pv.to_expr(w)[:80])
  exc2, w2 = run_one(T, w)
  if exc2 is not None:
    return 'raises', '%s.convert of its own result raised %r' % (tn, exc2)
  if pv.same(w, w2):
    return None
  desc = '%s: first %s, second %s' % (tn, pv.to_expr(w)[:60], pv.to_expr(w2)[:60])
  fell_back = False
  try:
    T.do_convert(v)
  except Exception:
    fell_back = True
  if fell_back and type(w) is str and not isinstance(v, str):
    return 'idem-fallback-reparse', 'alt text from str() of a %s is parsed by a second conversion; %s' % (type(v).__name__, desc)
  if isinstance(w, (list, tuple)) and len(w) == 0 and w2 is None:
    return 'idem-empty-sequence', 'empty %s result becomes None on a second conversion; %s' % (type(w).__name__, desc)
  if type(w) is objtypes.RecordList and type(w2) is list and list(w) == w2:
    return 'idem-recordlist', 'RecordList result becomes a plain list on a second conversion; %s' % desc
  return 'idem', 'second conversion differs; %s' % desc


CORE_TYPES = ('Int', 'Numeric', 'Text', 'Bool', 'Date', 'DateTime', 'ChoiceList', 'ReferenceList', 'Id')


def relevant(types, v):
  """The types whose conversion has a branch of its own for a value of this kind (all of them are tried with
  every listed edge value, also in the quick tier)."""
  import datetime
  import records
  if isinstance(v, str):
    s = v.strip()
    if s[:1] == '[' or s.startswith('RecordList'):
      names = ('ChoiceList', 'ReferenceList')
    elif s[:4].isdigit() and len(s) >= 8 and not s.isdigit():
      names = ('Date', 'DateTime')
    elif s.lower() in ('true', 'false', 'yes', 'no', 'y', 'on') or not s.isascii():
      names = ('Bool', 'Numeric')
    else:
      names = ('Int', 'Numeric', 'Bool', 'PositionNumber')
  elif isinstance(v, (int, float)):
    names = ('Int', 'Numeric', 'Text', 'Bool', 'Id')
  elif isinstance(v, (datetime.date,)):
    names = ('Date', 'DateTime', 'Text')
  elif isinstance(v, (records.Record, records.RecordSet, list, tuple)):
    names = ('Id', 'Reference', 'ReferenceList', 'Attachments', 'ChoiceList')
  elif isinstance(v, bytes):
    names = ('Text', 'Blob', 'Int')
  else:
    names = CORE_TYPES
  return [T for T in types if type(T).__name__ in names]


def gen_cases(ctx):
  rng = ctx.rng
  types = _types()
  out = []

  def pick(v):
    return rng.choice(relevant(types, v)) if rng.random() < 0.7 else rng.choice(types)

  n = ctx.n(200, 6000)
  for _ in range(n):
    v = pv.gen_value(rng)
    out.append((pick(v), v))
  edge = (pv.INTS + pv.FLOATS + pv.NUMERIC_STRS + pv.BOOL_STRS + pv.JSON_STRS + pv.ISO_STRS + pv.RECLIST_STRS + pv.TEXTS + pv.BYTES)
  giant_types = [T for T in types if type(T).__name__ in ('Text', 'Int', 'Numeric', 'ChoiceList')]
  # decimal conversion of a 4300-digit int costs ~20 s inside Coq: the two edge values only in the thorough tier
  for v in (pv.GIANTS if ctx.tier == 'thorough' else pv.GIANTS[-1:]):
    out.append((rng.choice(giant_types), v))
  if ctx.tier == 'thorough':
    for T in types:
      for v in edge:
        out.append((T, v))
    for T in giant_types:
      for v in pv.GIANTS:
        out.append((T, v))
    ctx.extra['exhaustive'] = True
    ctx.extra['exhaustive_space'] = 'all %d type objects x all %d listed edge values' % (len(types), len(edge))
  else:
    for v in edge:
      for T in relevant(types, v):
        if type(T).__name__ != 'DateTime' or T._verif_zone in ('America/New_York', 'Nowhere/Land'):
          out.append((T, v))
      out.append((rng.choice(types), v))
  return out


def coq_case(T, v):
  b = pv.Builder()
  zones = pv.type_zones(T)
  if zones:
    b.add_zone(T._verif_zone)
  b.collect(v, zones)
  exc, w = run_one(T, v)
  if exc is not None:
    return None, None
  right = bool(T.is_right_type(v))
  wl, vl, tl = b.val(w), b.val(v), b.tables(pv.needs(T))
  if len(vl) > 40:            # share the input literal between the case and the keys of its tables
    tl = tl.replace(vl, 'v0')
    wl = wl.replace(vl, 'v0')
    return '(let v0 := %s in (%s, v0, %s, %s, %s))' % (vl, pv.ctype_lit(T), tl, wl, pv.blit(right)), w
  return '(%s, %s, %s, %s, %s)' % (pv.ctype_lit(T), vl, tl, wl, pv.blit(right)), w


# hand model AND the definitions generated from the source, both against what the implementation returned
CHECK = ('fun c => match c with (T, v, tbl, w, r) => let orc := oracles_of tbl in '
         'value_eqb (convert orc T v) w && Bool.eqb (is_right_type T v) r && '
         'match gen_convert_T orc T v with Ok w2 => value_eqb w2 w | Raise _ => false end && '
         'match gen_is_right_type orc T v with Ok r2 => Bool.eqb r2 r | Raise _ => false end end')
IMPORTS = ['Grist.Lib.PyFloat', 'Grist.Model.Values', 'Grist.Model.ValuesPy', 'GristGen.Usertypes_gen']


def regenerate(ctx):
  """coq/gen/Usertypes_gen.v from the current usertypes.py / objtypes.py (fail closed)."""
  import os
  from harness import ut2v
  try:
    text = ut2v.translate(core.GRIST)
  except ut2v.Untranslatable as e:
    # no stale definitions: the obligations about the generated code cannot be discharged now
    core.write_if_changed(os.path.join(core.COQ, 'gen', 'Usertypes_gen.v'), '(* not translated: %s *)\n' % str(e).replace('*', ' '))
    raise core.TieBroken('usertypes.py is outside the translated subset: %s' % e)
  core.write_if_changed(os.path.join(core.COQ, 'gen', 'Usertypes_gen.v'), text)


def monitors(ctx):
  import usertypes
  if usertypes._truthy_values != {"true", "yes", "1"} or usertypes._falsy_values != {"false", "no", "0"}:
    ctx.broken('monitor:truthy/falsy values differ from the model constants',
               '%r %r' % (usertypes._truthy_values, usertypes._falsy_values))
  # defaults
  b = pv.Builder()
  cases = []
  for T in _types():
    b.add_zone(getattr(T, '_verif_zone', 'UTC'))
    cases.append('(%s, %s)' % (pv.ctype_lit(T), b.val(T.default)))
  bad = ctx.run_cases('defaults', ['Grist.Lib.PyFloat', 'Grist.Model.Values'],
                      'fun c => value_eqb (default_value (fst c)) (snd c)', cases)
  for i in bad:
    ctx.broken('correspondence:default_value differs from usertypes', cases[i])


def correspond(ctx):
  core.setup_impl_path()
  monitors(ctx)
  cs = [(make_type(w), pv.from_expr(w['expr'])) for w in CORPUS] + gen_cases(ctx)
  ctx._c22_cases = cs[len(CORPUS):]
  coq, meta = [], []
  seen = set()
  work = list(cs)
  first_pass = len(work)
  i = 0
  while i < len(work):
    T, v = work[i]
    second = i >= first_pass
    i += 1
    try:
      lit, w = coq_case(T, v)
    except RecursionError:
      continue
    if lit is None:
      continue      # the implementation raised: reported by search
    if lit in seen:
      continue
    seen.add(lit)
    coq.append(lit)
    meta.append((T, v))
    changed = not pv.same(v, w)
    ctx.count(lit, nontrivial=changed, kind=('second:' if second else '') + type(T).__name__,
              sample={'type': type(T).__name__, 'value': pv.to_expr(v)[:80], 'result': pv.to_expr(w)[:80]})
    ctx.bump('in:' + type(v).__name__)
    if not second:
      work.append((T, w))
  ctx.log('literals for %d cases written' % len(coq))
  bad = ctx.run_cases('convert', IMPORTS, CHECK, coq, shard=ctx.n(100, 60), timeout=ctx.n(600, 3000))
  for k in bad[:8]:
    T, v = meta[k]
    ctx.broken('correspondence:model convert/is_right_type differs from usertypes.%s' % type(T).__name__,
               'value %s -> %s' % (pv.to_expr(v)[:200], pv.to_expr(run_one(T, v)[1])[:200]))
  ctx.log('model evaluated')
  ctx.extra['cases_in_coq'] = len(coq)
  ctx.extra['translator_validation'] = ('%d cases: gen_convert_T and gen_is_right_type (coq/gen/Usertypes_gen.v) evaluated by vm_compute '
                                        'against usertypes.<Type>().convert / is_right_type; disagreements: %d' % (len(coq), len(bad)))


# witnesses of every finding of this property, open or fixed: tried first on every run
CORPUS = [
  {'type': 'Blob', 'expr': '5'}, {'type': 'Blob', 'expr': "record('T', 1)"}, {'type': 'Blob', 'expr': "'text'"},
  {'type': 'Date', 'expr': "objtypes.AltText('2020-01-01')"}, {'type': 'ChoiceList', 'expr': "objtypes.AltText('[\"a\"]')"},
  {'type': 'Numeric', 'expr': '10 ** 400'}, {'type': 'Int', 'expr': "ValueError('5')"},
  {'type': 'ReferenceList', 'table': 'T', 'expr': "recordset('T', [1, 2])"},
  {'type': 'ReferenceList', 'table': 'T', 'expr': "recordset('T', [])"}, {'type': 'ChoiceList', 'expr': "'[]'"},
]


def search(ctx):
  core.setup_impl_path()
  corpus = [(make_type(w), pv.from_expr(w['expr'])) for w in CORPUS]
  cs = corpus + list(getattr(ctx, '_c22_cases', None) or gen_cases(ctx))
  found = {}
  for T, v in cs:
    r = classify(T, v)
    if r is None:
      continue
    kind, what = r
    ctx.bump('oracle:' + kind)
    if found.get(kind, 0) >= 3:
      continue
    found[kind] = found.get(kind, 0) + 1
    ctx.violation(kind, what, witness(T, v))


def witness(T, v):
  w = {'type': type(T).__name__, 'expr': pv.to_expr(v)}
  if hasattr(T, '_verif_zone'):
    w['zone'] = T._verif_zone
  if hasattr(T, 'table_id'):
    w['table'] = T.table_id
  return w


def make_type(w):
  import usertypes as u
  core.setup_impl_path()
  n = w['type']
  if n == 'DateTime':
    T = u.DateTime(w.get('zone', 'UTC'))
    T._verif_zone = w.get('zone', 'UTC')
    return T
  if n in ('Reference', 'ReferenceList'):
    return getattr(u, n)(w.get('table', 'T'))
  return getattr(u, n)()


def replay(ctx, w):
  core.setup_impl_path()
  try:
    v = pv.from_expr(w['expr'])
  except Exception:
    return None
  r = classify(make_type(w), v)
  if r is None:
    return None
  if w.get('kind') and r[0] != w['kind']:
    return None
  return r[1]
