"""C19 -- Invalid formulas are isolated and valid ones mean what they say
(codebuilder.make_formula_body/_indent/_dedent/_create_syntax_error_code, gencode._make_formula_field)."""
import ast
import io
import os
import re
import tokenize

from harness import core

ID = 'C19'
TITLE = 'Invalid formulas are isolated and valid ones mean what they say'
PROPS = ['Props/C19']
DISABLED = True
RULE = ('texts: 1-6 fragments (Python statements, `$name`, unterminated strings/brackets, comments, trailing '
        'backslashes, tabs, blank and whitespace-only lines, form feed, non-ASCII whitespace, astral characters) '
        'joined by "\\n", "\\r\\n" or bare "\\r", plus random strings over a small alphabet; formulas for the '
        'engine: a grammar of valid bodies (expressions, assignments, if/for, multi-line strings, `$name` in '
        'strings/comments, shared indentation) plus mutated/truncated/random invalid ones, in documents with one '
        'adversarial column between two sound ones; a correspondence case is non-trivial when the function '
        'changed the text (or the text has a line end); an engine case when the adversarial formula is not a '
        'plain literal')
TRUSTED = ['CPython tokenizer/parser/compiler: which texts are valid Python and what they evaluate to (oracle; the '
           'physical-line rule of Model/Codegen.v is compared with it on generated texts)',
           'asttokens/astroid positions (the `$name` theorem takes token/AST positions as given)',
           'Model/Codegen.v and Model/Dollar.v are hand-written models of the line-level behaviour of _indent, '
           '_dedent, _create_syntax_error_code, _make_formula_field, Replacer; compared with the running functions '
           'on generated texts on every run',
           'str.isprintable table of the running interpreter (coq/gen/Codegen_gen.v, regenerated each run; no '
           'theorem depends on it)']
ASSUMPTIONS = ['theorems named _partial assume the text has no bare "\\r" (and, for the column statement, no form '
               'feed); formula texts are valid Unicode strings (no lone surrogates)',
               'isolation of *valid-looking* bodies (accepted by ast.parse) rests on CPython: the end-to-end oracle '
               'checks it on generated documents only']
TECHNIQUE = ('Coq proof over hand-written line-level models tied by differential cases (vm_compute) + end-to-end '
             'oracle through the real engine with an independent tokenize/ast reference evaluation')
LEVEL_TEXT = ('Kernel-checked theorems for all texts about the line-level functions that place a formula into the '
              'shared module (comment-out, indent, dedent, syntax-error stub, `$name` patches): refuted on the '
              'current source by a bare "\\r" (C19_refuted_cr, vm_compute witness), proved under "no bare \\r" and '
              'proved in full for the repaired variant; models compared with the running code each run; whole-'
              'engine oracle on generated documents.')
LEVEL_NOTE = ('Kernel strength: that arbitrary text parses/evaluates as Python says is CPython\'s (trusted oracle). '
              'Known findings on the unchanged tree are listed in known_findings.json.')

INDENTS = ['', '  ', '    ', '\t']

# ------------------------------------------------------------------------------------------------
# text generators

FRAGS = ['x = 1', 'return x', 'foo(', 'bar', '$A', '$A + 1', '"abc', "'abc", "'''", '"""', '# c $A', '\\', 'x \\',
         'if $A:', '  return 1', '  ', '\t', '    ', '', ' ', '\t  x', '    y = 2', 'é', ' ', '\x0c',
         '\xa0', '\x85', '\x1c', '\U0001d4b3', "'", '"', ')', '[', '  # only comment', 'a\x0bb', '\x0c  z',
         ' \t', '$', '$1', 'DOLLARx', "s = 'it''s'", 'x = "a\\"b"', '\x7f', '　', '﻿']
SEPS = ['\n', '\n', '\n', '\r\n', '\r\n', '\r']
ALPHA = ['a', ' ', ' ', '\n', '\n', '\r', '\t', '#', '(', "'", '"', '\\', '$', 'B', '\x0c', '\xa0', '1', ':']


def gen_text(rng, cr=True):
  r = rng.random()
  if r < 0.75:
    n = rng.choice([1, 1, 2, 2, 3, 3, 4, 5, 6])
    seps = SEPS if cr else ['\n']
    style = rng.random()
    if style < 0.4:
      one = rng.choice(seps)
      pick = lambda: one
    else:
      pick = lambda: rng.choice(seps)
    out = []
    for i in range(n):
      out.append(rng.choice(FRAGS))
      if i < n - 1 or rng.random() < 0.3:
        out.append(pick())
    t = ''.join(out)
    if rng.random() < 0.25:
      ind = rng.choice(['  ', '    ', '\t', ' '])
      t = ''.join(ind + l for l in re.split('(?<=\n)', t))
    return t
  n = rng.randint(0, 14)
  alpha = ALPHA if cr else [c for c in ALPHA if c != '\r']
  return ''.join(rng.choice(alpha) for _ in range(n))


def kind_of_text(t):
  ks = []
  if re.search(r'\r(?!\n)', t):
    ks.append('cr')
  if '\r\n' in t:
    ks.append('crlf')
  if '\n' in t.replace('\r\n', ''):
    ks.append('lf')
  return '+'.join(ks) or 'single-line'


# ------------------------------------------------------------------------------------------------
# regenerated data: str.isprintable of the running interpreter, for code points >= 128

def nonprintable_ranges():
  rs = []
  start = None
  for c in range(128, 0x110000):
    np = not chr(c).isprintable()
    if np and start is None:
      start = c
    if not np and start is not None:
      rs.append((start, c - 1))
      start = None
  if start is not None:
    rs.append((start, 0x10ffff))
  return rs


def regenerate(ctx):
  rs = nonprintable_ranges()
  text = ('(* GENERATED by harness/props/c19.py from str.isprintable of the running interpreter. *)\n'
          'From Coq Require Import ZArith List Bool.\nImport ListNotations.\nOpen Scope Z_scope.\n'
          'Definition nonprintable_ranges : list (Z * Z) :=\n  [' +
          ';\n   '.join('(%d, %d)' % r for r in rs) + '].\n'
          'Definition printable (c : Z) : bool :=\n'
          '  negb (existsb (fun r => (fst r <=? c) && (c <=? snd r)) nonprintable_ranges).\n')
  core.write_if_changed(os.path.join(core.COQ, 'gen', 'Codegen_gen.v'), text)
  rc, out = core.coq_make(['gen/Codegen_gen.vo'], timeout=300)
  if rc != 0:
    raise core.TieBroken('coq/gen/Codegen_gen.v does not compile: ' + out[-800:])


# ------------------------------------------------------------------------------------------------
# correspondence: model (vm_compute) vs the running functions

S = core.strlit
IMPORTS = ['Grist.Model.Codegen', 'Grist.Model.Dollar', 'GristGen.Codegen_gen']
EQ = 'Definition teq (a b : list Z) : bool := if list_eq_dec Z.eq_dec a b then true else false.\n'


def _impl_indent(t, ind):
  import codebuilder
  import textbuilder
  return codebuilder._indent(textbuilder.Text(t), ind).get_text()


def _impl_dedent(t):
  import codebuilder
  import textbuilder
  return codebuilder._dedent(textbuilder.Text(t)).get_text()


ERR_TYPES = [SyntaxError, IndentationError, TabError]


def _impl_stub(t, etype, msg, lineno, offset):
  """Runs the real _create_syntax_error_code; returns (text, (name, message, line, col1, line_text))."""
  import codebuilder
  import textbuilder
  if etype == 'Grist':
    err = codebuilder.GristSyntaxError(msg, ('<string>', lineno, offset, ''))
  else:
    err = etype(msg, ('usercode', lineno, offset, ''))
  out = codebuilder._create_syntax_error_code(textbuilder.Replacer(textbuilder.Text(t), []), t, err)
  # the arguments are read back from the last "\nraise " (the statement itself never contains a line end:
  # if it did, literal_eval below fails and the case is reported)
  k = out.rindex('\nraise ')
  stmt = out[k + 1:]
  m = re.match(r'raise ([A-Za-z_]+)\((.*)\)\Z', stmt, re.S)
  name = m.group(1)
  message, (_uc, line, col1, line_text) = ast.literal_eval('(' + m.group(2) + ')')
  return out, (name, message, line, col1, line_text)


def correspond(ctx):
  rng = ctx.rng
  # 0. monitors on the interpreter: whitespace table, physical lines
  import unicodedata  # noqa: F401
  spaces = [c for c in range(0x110000) if chr(c).isspace()]
  spaces_re = [c for c in range(0x3100) if re.match(r'\s', chr(c))]
  if [c for c in spaces if c < 0x3100] != spaces_re or any(c >= 0x3100 for c in spaces):
    ctx.broken('monitor:whitespace', 'str.isspace and regex \\s disagree or a whitespace code point >= 0x3100 exists')
  cps = sorted(set(list(range(0, 0x3100)) + [rng.randrange(0x3100, 0x110000) for _ in range(500)]))
  cases = ['(%s, %s)' % (core.zlit(c), core.boollit(chr(c).isspace())) for c in cps]
  bad = ctx.run_cases('isspace', IMPORTS, 'fun c => Bool.eqb (is_space (fst c)) (snd c)', cases, shard=5000)
  for i in bad[:3]:
    ctx.broken('correspondence:is_space', 'code point %d' % cps[i])
  ctx.bump('corr:is_space code points', len(cps))

  N = ctx.n(350, 6000)
  texts = [gen_text(rng) for _ in range(N)]
  texts += ['', '\n', '\r', '\r\n', 'a\r', 'a\n', '\n\n', 'x = 1\rreturn x', 'foo(\rbar', '  a\r  b', '  a\r\n\r\n  b',
            '  a\n \n   b', '\ta\n\tb', ' \ta\n \tb\n', 'a\n\n', '  \n  x\n', 'a\r\n', '\x0c1', ' x\n  y\n z']
  ctx._c19_texts = texts

  # 1. physical lines / universal newlines against CPython's tokenizer (string literal contents)
  cases, used = [], []
  for t in texts:
    if any(ch in t for ch in '\'"\\\x00'):
      t = re.sub(r'[\'"\\\x00]', 'q', t)
    try:
      v = ast.literal_eval("'''" + t + "'''")
    except Exception as e:      # the tokenizer refuses the text for another reason
      ctx.bump('corr:phys skipped (%s)' % type(e).__name__)
      continue
    cases.append('(%s, %s)' % (S(t), S(v)))
    used.append(t)
    ctx.count(('phys', t), nontrivial=('\r' in t or '\n' in t), kind='corr:phys ' + kind_of_text(t))
  bad = ctx.run_cases('phys', IMPORTS,
                      'fun c => teq (join_nl (phys_lines (fst c))) (snd c) && teq (universal_newlines (fst c)) (snd c)'
                      ' && teq (join_nl (lines_nl (fst c))) (fst c)',
                      cases, shard=1500, extra_defs=EQ)
  for i in bad[:3]:
    ctx.broken('correspondence:phys_lines differs from the tokenizer', 'text %r' % (used[i],))

  # 2. _indent
  cases, used = [], []
  for t in texts:
    ind = rng.choice(INDENTS)
    out = _impl_indent(t, ind)
    cases.append('(%s, %s, %s)' % (S(ind), S(t), S(out)))
    used.append((ind, t))
    ctx.count(('indent', ind, t), nontrivial=(out != t), sample={'indent': ind, 'text': t, 'out': out},
              kind='corr:indent ' + kind_of_text(t))
  bad = ctx.run_cases('indent', IMPORTS, 'fun c => teq (indent_re (fst (fst c)) (snd (fst c))) (snd c)',
                      cases, shard=1500, extra_defs=EQ)
  for i in bad[:3]:
    ctx.broken('correspondence:indent_re differs from codebuilder._indent', 'case %r' % (used[i],))

  # 3. _dedent
  cases, used = [], []
  for t in texts:
    out = _impl_dedent(t)
    cases.append('(%s, %s)' % (S(t), S(out)))
    used.append(t)
    ctx.count(('dedent', t), nontrivial=(out != t), sample={'text': t, 'dedent': out},
              kind='corr:dedent ' + kind_of_text(t))
  bad = ctx.run_cases('dedent', IMPORTS, 'fun c => teq (dedent_re (fst c)) (snd c)', cases, shard=1500,
                      extra_defs=EQ)
  for i in bad[:3]:
    ctx.broken('correspondence:dedent_re differs from codebuilder._dedent', 'text %r' % (used[i],))

  # 4. _create_syntax_error_code (comment part, statement format, repr)
  cases, used = [], []
  for t in texts:
    if not t.strip():
      continue               # _do_make_formula_body never builds a stub for a blank formula
    nl_lines = t.count('\n') + 1
    lineno = rng.randint(1, nl_lines)
    offset = rng.choice([None, 0, 1, 2, 5])
    etype = rng.choice(ERR_TYPES + ['Grist'])
    msg = rng.choice(['invalid syntax', "it's", 'say "hi"', 'both \' and "', 'line\nbreak\r', 'é \x85\U0001d4b3',
                      'back\\slash', gen_text(rng)])
    try:
      out, (name, message, line, col1, line_text) = _impl_stub(t, etype, msg, lineno, offset)
    except Exception as e:
      ctx.bump('corr:stub impl raised %s' % type(e).__name__)
      ctx._c19_stub_raised = getattr(ctx, '_c19_stub_raised', []) + [(t, lineno, offset, repr(e))]
      continue
    cases.append('(%s, %s, %s, %s, %s, %s, %s)' % (S(name), S(message), core.zlit(line), core.zlit(col1), S(line_text),
                                                   S(t), S(out)))
    used.append((t, name, message, line, col1, line_text))
    ctx.count(('stub', t, msg), nontrivial=True, sample={'text': t, 'stub': out}, kind='corr:stub ' + kind_of_text(t))
  bad = ctx.run_cases('stub', IMPORTS,
                      "fun c => match c with (name, msg, line, col1, ltext, t, out) => "
                      "teq (stub_code printable name msg line col1 ltext t) out end",
                      cases, shard=1000, extra_defs=EQ)
  for i in bad[:3]:
    ctx.broken('correspondence:stub_code differs from codebuilder._create_syntax_error_code', 'case %r' % (used[i],))

  # 5. repr of str / int
  strs = [gen_text(rng) for _ in range(ctx.n(150, 3000))] + \
         [''.join(chr(rng.choice([rng.randrange(0, 0x300), rng.randrange(0x2000, 0x2100), rng.randrange(0xd7f0, 0xd800),
                                  rng.randrange(0xe000, 0x11000), rng.randrange(0xe0000, 0xe0200), 39, 34, 92]))
                  for _ in range(rng.randint(0, 8))) for _ in range(ctx.n(150, 3000))]
  cases = ['(%s, %s)' % (S(s), S(repr(s))) for s in strs]
  bad = ctx.run_cases('repr', IMPORTS, 'fun c => teq (py_repr printable (fst c)) (snd c)', cases, shard=1500,
                      extra_defs=EQ)
  for i in bad[:3]:
    ctx.broken('correspondence:py_repr differs from repr', 'string %r' % (strs[i],))
  ints = [0, 1, 9, 10, 99, 100, 12345, -1, -10, 2 ** 40] + [rng.randrange(-50, 100000) for _ in range(200)]
  cases = ['(%s, %s)' % (core.zlit(n), S(repr(n))) for n in ints]
  bad = ctx.run_cases('dec', IMPORTS, 'fun c => teq (dec (fst c)) (snd c)', cases, shard=1500, extra_defs=EQ)
  for i in bad[:3]:
    ctx.broken('correspondence:dec differs from repr(int)', 'int %r' % (ints[i],))
  ctx.bump('corr:repr strings', len(strs))


def search(ctx):
  pass


def replay(ctx, w):
  return None
