"""C19 -- Invalid formulas are isolated and valid ones mean what they say
(codebuilder.make_formula_body/_indent/_dedent/_create_syntax_error_code, gencode._make_formula_field)."""
import ast
import io
import os
import re
import tokenize

from harness import core

ID = 'C19'
TITLE = 'Invalid formulas are isolated and valid ones mean what they say'
PROPS = ['Props/C19', 'Props/C19_code']
RULE = ('texts: 1-6 fragments (Python statements, `$name`, unterminated strings/brackets, comments, trailing '
        'backslashes, tabs, blank and whitespace-only lines, form feed, non-ASCII whitespace, astral characters) '
        'joined by "\\n", "\\r\\n" or bare "\\r", plus random strings over a small alphabet; formulas for the '
        'engine: a grammar of valid bodies (expressions, assignments, if/for, multi-line strings, `$name` in '
        'strings/comments, shared indentation) plus mutated/truncated/random invalid ones, in documents with one '
        'adversarial column between two sound ones; a correspondence case is non-trivial when the function '
        'changed the text (or the text has a line end); an engine case when the adversarial formula is not a '
        'plain literal')
TRUSTED = ['CPython tokenizer/parser/compiler: which texts are valid Python and what they evaluate to (oracle; the '
           'physical-line rule of Model/Codegen.v is compared with it on generated texts)',
           'asttokens/astroid positions (the `$name` theorem takes token/AST positions as given)',
           'harness/cb2v.py (translator codebuilder.py -> coq/gen/CodeBuilder_gen.v, regenerated every run, bridged '
           'pointwise to the hand models in Props/C19_code.v) and harness/tb2v.py (textbuilder, C37): validated each run '
           'by evaluating the generated definitions against the running functions',
           'the meaning of the 8 regular expressions (Lib/CbPrelude.v re_finditer/re_sub) is hand-written per pattern; '
           'the pattern strings/flags are pinned by cb2v and the meanings are compared with the re module each run',
           'not translated, pinned by normalised-AST hash (harness/cb2v_pins.json): the part of '
           '_create_syntax_error_code before its return (line/column arithmetic, friendly message) and the rest of '
           '_do_make_formula_body (parse/astroid calls, lambda wrapping of IF/ISERR/.. arguments, last-statement rule)',
           'Model/Dollar.v (the `$name` patches as a token-stream statement) stays a hand-written model compared with '
           'the running code on generated formulas',
           'str.isprintable table of the running interpreter (coq/gen/Codegen_gen.v, regenerated each run; no '
           'theorem depends on it)']
ASSUMPTIONS = ['formula texts are valid Unicode strings (no lone surrogates: those make ast.parse raise '
               'UnicodeEncodeError and cannot arrive through the UTF-8 transport)',
               'the column statement (C19_indent_columns_partial) assumes no form feed: a form feed in leading '
               'whitespace is a known finding (C19_refuted_ff)',
               'isolation of *valid-looking* bodies (accepted by ast.parse) rests on CPython: the end-to-end oracle '
               'checks it on generated documents only (it finds the compile-stage, form-feed, NUL and recursion-limit '
               'findings listed in known_findings.json)',
               'the `$name` theorem does not cover the lambda wrapping of IF/ISERR/ISERROR/IFERROR/PEEK arguments, the '
               '"\\npass" added to a body without statements, and token streams ending in a string/comment token '
               'whose last character is `$`',
               'a failing text that holds "\\r" is reported as kind cr-line-ends when the same text with "\\n" line '
               'ends passes the whole oracle on a fresh document (fixed by /repo 2055653: any such case is a VIOLATION)']
TECHNIQUE = ('Coq proof over hand-written line-level models tied by differential cases (vm_compute) + end-to-end '
             'oracle through the real engine with an independent tokenize/ast reference evaluation')
LEVEL_TEXT = ('Kernel-checked theorems for ALL formula texts about the line-level chain that places a formula into the '
              'shared module (line-end normalisation + dedent, comment-out, indent, syntax-error stub, un-indent of '
              'multi-line strings, `$name` patches, field placement), on models compared with the running code each '
              'run; whole-engine oracle on generated documents with an independent tokenize/ast reference.')
LEVEL_NOTE = ('Kernel strength: that arbitrary text parses/evaluates as Python says is CPython\'s (trusted oracle). The '
              '"\\r" and multi-line-string defects were repaired in /repo (2055653, 66ce871; regression examples kept); '
              'form feed, compile-stage errors, NUL and recursion limit remain known findings.')

INDENTS = ['', '  ', '    ', '\t']

# ------------------------------------------------------------------------------------------------
# text generators

FRAGS = ['x = 1', 'return x', 'foo(', 'bar', '$A', '$A + 1', '"abc', "'abc", "'''", '"""', '# c $A', '\\', 'x \\',
         'if $A:', '  return 1', '  ', '\t', '    ', '', ' ', '\t  x', '    y = 2', 'é', ' ', '\x0c',
         '\xa0', '\x85', '\x1c', '\U0001d4b3', "'", '"', ')', '[', '  # only comment', 'a\x0bb', '\x0c  z',
         ' \t', '$', '$1', 'DOLLARx', "s = 'it''s'", 'x = "a\\"b"', '\x7f', '　', '﻿']
SEPS = ['\n', '\n', '\n', '\r\n', '\r\n', '\r']
ALPHA = ['a', ' ', ' ', '\n', '\n', '\r', '\t', '#', '(', "'", '"', '\\', '$', 'B', '\x0c', '\xa0', '1', ':']


def gen_text(rng, cr=True):
  r = rng.random()
  if r < 0.75:
    n = rng.choice([1, 1, 2, 2, 3, 3, 4, 5, 6])
    seps = SEPS if cr else ['\n']
    style = rng.random()
    if style < 0.4:
      one = rng.choice(seps)
      pick = lambda: one
    else:
      pick = lambda: rng.choice(seps)
    out = []
    for i in range(n):
      out.append(rng.choice(FRAGS))
      if i < n - 1 or rng.random() < 0.3:
        out.append(pick())
    t = ''.join(out)
    if rng.random() < 0.25:
      ind = rng.choice(['  ', '    ', '\t', ' '])
      t = ''.join(ind + l for l in re.split('(?<=\n)', t))
    return t
  n = rng.randint(0, 14)
  alpha = ALPHA if cr else [c for c in ALPHA if c != '\r']
  return ''.join(rng.choice(alpha) for _ in range(n))


def kind_of_text(t):
  ks = []
  if re.search(r'\r(?!\n)', t):
    ks.append('cr')
  if '\r\n' in t:
    ks.append('crlf')
  if '\n' in t.replace('\r\n', ''):
    ks.append('lf')
  return '+'.join(ks) or 'single-line'


# ------------------------------------------------------------------------------------------------
# regenerated data: str.isprintable of the running interpreter, for code points >= 128

def nonprintable_ranges():
  rs = []
  start = None
  for c in range(128, 0x110000):
    np = not chr(c).isprintable()
    if np and start is None:
      start = c
    if not np and start is not None:
      rs.append((start, c - 1))
      start = None
  if start is not None:
    rs.append((start, 0x10ffff))
  return rs


def regenerate(ctx):
  from harness import c19gen
  c19gen.regenerate(ctx)
  rs = nonprintable_ranges()
  text = ('(* GENERATED by harness/props/c19.py from str.isprintable of the running interpreter. *)\n'
          'From Coq Require Import ZArith List Bool.\nImport ListNotations.\nOpen Scope Z_scope.\n'
          'Definition nonprintable_ranges : list (Z * Z) :=\n  [' +
          ';\n   '.join('(%d, %d)' % r for r in rs) + '].\n'
          'Definition printable (c : Z) : bool :=\n'
          '  negb (existsb (fun r => (fst r <=? c) && (c <=? snd r)) nonprintable_ranges).\n')
  core.write_if_changed(os.path.join(core.COQ, 'gen', 'Codegen_gen.v'), text)
  rc, out = core.coq_make(['gen/Codegen_gen.vo', 'gen/CodeBuilder_gen.vo'], timeout=600)
  if rc != 0:
    raise core.TieBroken('coq/gen/Codegen_gen.v or CodeBuilder_gen.v does not compile: ' + out[-800:])


# ------------------------------------------------------------------------------------------------
# correspondence: model (vm_compute) vs the running functions

S = core.strlit
IMPORTS = ['Grist.Model.Codegen', 'Grist.Model.Dollar', 'GristGen.Codegen_gen', 'Grist.Model.TextBuilder',
           'Grist.Lib.TbPrelude', 'GristGen.TextBuilder_gen', 'Grist.Lib.CbPrelude', 'GristGen.CodeBuilder_gen']
EQ = ('Definition teq (a b : list Z) : bool := if list_eq_dec Z.eq_dec a b then true else false.\n'
      'Definition misc_case := ((list Z * list Z) + ((list Z * list Z) + (Z * list Z)))%type.\n')
from harness import c19gen        # noqa: E402
EQ = EQ + c19gen.GEN_DEFS


def _impl_indent(t, ind):
  import codebuilder
  import textbuilder
  return codebuilder._indent(textbuilder.Text(t), ind).get_text()


def _impl_dedent(t):
  import codebuilder
  import textbuilder
  return codebuilder._dedent(textbuilder.Text(t)).get_text()


ERR_TYPES = [SyntaxError, IndentationError, TabError]


def _impl_stub(t, etype, msg, lineno, offset):
  """Runs the real _create_syntax_error_code; returns (text, (name, message, line, col1, line_text))."""
  import codebuilder
  import textbuilder
  if etype == 'Grist':
    err = codebuilder.GristSyntaxError(msg, ('<string>', lineno, offset, ''))
  else:
    err = etype(msg, ('usercode', lineno, offset, ''))
  out = codebuilder._create_syntax_error_code(textbuilder.Replacer(textbuilder.Text(t), []), t, err)
  # the arguments are read back from the last "\nraise " (the statement itself never contains a line end:
  # if it did, literal_eval below fails and the case is reported)
  k = out.rindex('\nraise ')
  stmt = out[k + 1:]
  m = re.match(r'raise ([A-Za-z_]+)\((.*)\)\Z', stmt, re.S)
  name = m.group(1)
  message, (_uc, line, col1, line_text) = ast.literal_eval('(' + m.group(2) + ')')
  return out, (name, message, line, col1, line_text)


def correspond(ctx):
  import concurrent.futures
  import warnings
  warnings.filterwarnings('ignore', category=SyntaxWarning)
  rng = ctx.rng
  jobs = []          # (name, check, cases, used, what, shard)

  # 0. monitors on the interpreter: whitespace table
  spaces = [c for c in range(0x110000) if chr(c).isspace()]
  spaces_re = [c for c in range(0x3100) if re.match(r'\s', chr(c))]
  if [c for c in spaces if c < 0x3100] != spaces_re or any(c >= 0x3100 for c in spaces):
    ctx.broken('monitor:whitespace', 'str.isspace and regex \\s disagree or a whitespace code point >= 0x3100 exists')
  samples = [rng.randrange(0x3100, 0x110000) for _ in range(300)]
  misc = ['(inl (%s, %s) : misc_case)' % (core.zlist(spaces_re), core.zlist(samples))]
  ctx.bump('corr:is_space code points', 0x3100 + len(samples))

  N = ctx.n(250, 6000)
  texts = [gen_text(rng) for _ in range(N)]
  texts += ['', '\n', '\r', '\r\n', 'a\r', 'a\n', '\n\n', 'x = 1\rreturn x', 'foo(\rbar', '  a\r  b', '  a\r\n\r\n  b',
            '  a\n \n   b', '\ta\n\tb', ' \ta\n \tb\n', 'a\n\n', '  \n  x\n', 'a\r\n', '\x0c1', ' x\n  y\n z']

  texts += [gen_pseudoblank_formula(rng) for _ in range(ctx.n(60, 1500))]
  texts += ['a\n%s\nb' % c for c in PSEUDO_BLANK] + ['%s\nb(' % c for c in PSEUDO_BLANK[::3]] + \
           ['a(\n%s' % c for c in PSEUDO_BLANK[1::3]]

  # 1. physical lines / universal newlines against CPython's tokenizer (string literal contents)
  cases, used = [], []
  q3 = "'" * 3
  for t in texts:
    if any(ch in t for ch in '\'"\\\x00'):
      t = re.sub(r'[\'"\\\x00]', 'q', t)
    try:
      v = ast.literal_eval(q3 + t + q3)
    except Exception as e:      # the tokenizer refuses the text for another reason
      ctx.bump('corr:phys skipped (%s)' % type(e).__name__)
      continue
    cases.append('(%s, %s)' % (S(t), S(v)))
    used.append(t)
    ctx.count(('phys', t), nontrivial=('\r' in t or '\n' in t), kind='corr:phys ' + kind_of_text(t))
  jobs.append(('phys', 'fun c => teq (join_nl (phys_lines (fst c))) (snd c) && teq (universal_newlines (fst c)) (snd c)'
               ' && teq (join_nl (lines_nl (fst c))) (fst c)', cases, used,
               'phys_lines/universal_newlines differ from the tokenizer on text', 2000))

  # 2./3. _indent, _dedent
  cases, used = [], []
  for t in texts:
    ind = rng.choice(INDENTS)
    out = _impl_indent(t, ind)
    ded = _impl_dedent(t)
    cases.append('(%s, %s, %s, %s)' % (S(ind), S(t), S(out), S(ded)))
    used.append((ind, t))
    ctx.count(('indent', ind, t), nontrivial=(out != t), sample={'indent': ind, 'text': t, 'out': out},
              kind='corr:indent ' + kind_of_text(t))
    ctx.count(('dedent', t), nontrivial=(ded != t), sample={'text': t, 'dedent': ded},
              kind='corr:dedent ' + kind_of_text(t))
  jobs.append(('indent_dedent', 'fun c => match c with (ind, t, out, ded) => teq (indent_re ind t) out && '
               'teq (dedent_re t) ded && rteq (gen_indent t ind) out && rteq (gen_dedent t) ded end', cases, used,
               'indent_re/dedent_re or the generated gen_indent/gen_dedent differ from codebuilder._indent/_dedent on',
               2000))
  ctx.bump('gen:gen_indent/gen_dedent evaluated against the running functions', 2 * len(cases))

  # 4. _create_syntax_error_code (comment part, statement format, repr)
  cases, used = [], []
  for t in texts:
    if not t.strip():
      continue               # _do_make_formula_body never builds a stub for a blank formula
    lineno = rng.randint(1, max(1, len(t.splitlines())))
    lineno = min(lineno, t.count('\n') + 1)
    offset = rng.choice([None, 0, 1, 2, 5])
    etype = rng.choice(ERR_TYPES + ['Grist'])
    msg = rng.choice(['invalid syntax', "it's", 'say "hi"', 'both \' and "', 'line\nbreak\r', '\xe9 \x85\U0001d4b3',
                      'back\\slash', gen_text(rng)])
    try:
      out, (name, message, line, col1, line_text) = _impl_stub(t, etype, msg, lineno, offset)
    except IndexError:
      ctx.bump('corr:stub skipped (line number beyond str.splitlines)')
      continue
    except (SyntaxError, ValueError, AttributeError, TypeError) as e:
      ctx.broken('correspondence:the stub does not end in one statement `raise Name(<literals>)`',
                 'text %r, message %r: %r' % (t, msg, e))
      continue
    cases.append('(%s, %s, %s, %s, %s, %s, %s)' % (S(name), S(message), core.zlit(line), core.zlit(col1), S(line_text),
                                                   S(t), S(out)))
    used.append((t, name, message, line, col1, line_text))
    ctx.count(('stub', t, msg), nontrivial=True, sample={'text': t, 'stub': out}, kind='corr:stub ' + kind_of_text(t))
  jobs.append(('stub', "fun c => match c with (name, msg, line, col1, ltext, t, out) => "
               "teq (stub_code printable name msg line col1 ltext t) out && "
               "teq (gen_create_syntax_error_code printable name msg line (col1 - 1) ltext t) out end", cases, used,
               'stub_code differs from codebuilder._create_syntax_error_code on', 1200))

  # 5. repr of str / int
  strs = [gen_text(rng) for _ in range(ctx.n(120, 3000))] + \
         [''.join(chr(rng.choice([rng.randrange(0, 0x300), rng.randrange(0x2000, 0x2100), rng.randrange(0xd7f0, 0xd800),
                                  rng.randrange(0xe000, 0x11000), rng.randrange(0xe0000, 0xe0200), 39, 34, 92]))
                  for _ in range(rng.randint(0, 8))) for _ in range(ctx.n(120, 3000))]
  ints = [0, 1, 9, 10, 99, 100, 12345, -1, -10, 2 ** 40] + [rng.randrange(-50, 100000) for _ in range(100)]
  misc += ['(inr (inl (%s, %s)) : misc_case)' % (S(x), S(repr(x))) for x in strs]
  misc += ['(inr (inr (%s, %s)) : misc_case)' % (core.zlit(n), S(repr(n))) for n in ints]
  jobs.append(('misc', 'fun c => match c with '
               '| inl (sp, others) => teq (filter is_space (map Z.of_nat (seq 0 12544))) sp && '
               'forallb (fun x => negb (is_space x)) others '
               '| inr (inl (x, r)) => teq (py_repr printable x) r '
               '| inr (inr (n, r)) => teq (dec n) r end', misc, ['whitespace table'] + strs + ints,
               'is_space/py_repr/dec differ from str.isspace/repr on', 2000))
  ctx.bump('corr:repr strings', len(strs))

  # 6. the `$name` translation, the Replacer's offsets, the placement into the module
  formulas = [gen_formula(rng)[0] for _ in range(ctx.n(220, 5000))] + EXPRS + \
             [st.replace('{E}', '$A').replace('{F}', '2') for st in STMTS]
  c, u, chk = dollar_cases(ctx, formulas)
  jobs.append(('dollar', chk, c, u, 'token-stream meaning / model translate differ from make_formula_body on', 1500))
  c, u, chk = offsets_cases(ctx, (formulas + texts)[:ctx.n(300, 12000)])
  jobs.append(('offsets', chk, c, u, 'tmp_text/get_input_pos differ from textbuilder.Replacer on', 1500))
  ctx.bump('corr:replacer offsets texts', len(c))
  c, u, chk = pipeline_cases(ctx, LISTED[:-1] + INVALID + (texts + formulas)[:ctx.n(260, 12000)])
  jobs.append(('pipeline', chk, c, u, 'indent_re ind (stub_of_formula ..) differs from make_formula_body on', 1000))
  c, u, chk = unindent_cases(ctx, ctx.n(120, 3000))
  jobs.append(('unindent', chk, c, u, 'indent + unindent_re differ from make_formula_body on the string literal', 1500))
  c, u, chk = c19gen.regex_cases(ctx, texts + formulas[:ctx.n(150, 4000)])
  jobs.append(('regex', chk, c, u, 'the meaning of a pattern in Lib/CbPrelude.v differs from the re module on', 1500))
  mlf = [gen_mlformula(rng) for _ in range(ctx.n(60, 1500))]
  c, u, chk = c19gen.body_cases(ctx, mlf + formulas[:ctx.n(90, 2500)])
  jobs.append(('genbody', chk, c, u, 'generated gen_make_formula_body/gen_multiline_string_nodes differ from the code on',
               400))
  c, u, chk = c19gen.walk_cases(ctx, mlf[:ctx.n(30, 800)] + formulas[:ctx.n(120, 3000)], token_stream, LAZY)
  jobs.append(('genwalk', chk, c, u, 'generated gen_walk differs from the loop of _do_make_formula_body on', 400))
  c, u, chk = field_cases(ctx, formulas[:ctx.n(150, 5000)])
  jobs.append(('field', chk, c, u, 'formula_field differs from GenCode._make_formula_field on', 1500))
  ctx.bump('corr:formula fields', len(c))

  ctx.log('correspondence cases generated: ' + ', '.join('%s=%d' % (j[0], len(j[2])) for j in jobs))

  def run(job):
    name, check, cases, _used, _what, shard = job
    return job, ctx.run_cases(name, IMPORTS, check, cases, shard=min(shard, 1000), timeout=ctx.n(400, 1800),
                              extra_defs=EQ)
  with concurrent.futures.ThreadPoolExecutor(max_workers=4) as ex:
    for job, bad in ex.map(run, jobs):
      for i in bad[:3]:
        ctx.broken('correspondence:' + job[4], '%r' % (job[3][i],))
  ctx.log('correspondence evaluated')


# ------------------------------------------------------------------------------------------------
# `$name` translation: an independent token stream (tokenize) against the running make_formula_body and
# against the model's `translate`

def token_stream(f0):
  """f0: a "\\n"-only text.  Returns (segments, mark_index) where segments are ('C'|'D'|'O', text) in source
  order ('D' holds the name without the `$`), or raises if it does not tokenize."""
  lines = f0.split('\n')
  starts = [0]
  for l in lines:
    starts.append(starts[-1] + len(l) + 1)
  off = lambda rc: min(starts[rc[0] - 1] + rc[1], len(f0))
  toks = [t for t in tokenize.generate_tokens(io.StringIO(f0).readline)]
  segs = []
  pos = 0
  i = 0
  opaque = (tokenize.STRING, tokenize.COMMENT, getattr(tokenize, 'FSTRING_MIDDLE', -1))
  while i < len(toks):
    t = toks[i]
    a, b = off(t.start), off(t.end)
    if a < pos:                       # zero-width/overlapping bookkeeping tokens
      i += 1
      continue
    if a > pos:
      segs.append(('C', f0[pos:a]))
    if t.type == tokenize.OP and t.string == '$' and i + 1 < len(toks) and toks[i + 1].type == tokenize.NAME \
       and toks[i + 1].start == t.end:
      nb = off(toks[i + 1].end)
      segs.append(('D', f0[b:nb]))
      pos = nb
      i += 2
      continue
    if b > a:
      segs.append(('O' if t.type in opaque else 'C', f0[a:b]))
    pos = max(pos, b)
    i += 1
  if pos < len(f0):
    segs.append(('C', f0[pos:]))
  # a string piece ending in `$` (e.g. the literal part of an f-string) is joined with what follows it, so
  # that no opaque segment ends with `$` (the model's well-formedness condition)
  merged = []
  for k, sg in segs:
    if merged and merged[-1][0] == 'O' and merged[-1][1].endswith('$') and k in ('C', 'O'):
      merged[-1] = ('O', merged[-1][1] + sg)
    else:
      merged.append((k, sg))
  return merged


def with_mark(segs):
  """Inserts the mark where the last statement starts when it is an expression statement (found with ast on the
  translated text); returns None when the formula is outside what the model covers."""
  out_text = ''.join(('rec.' + s) if k == 'D' else s for k, s in segs)
  tree = ast.parse(out_text)
  if not tree.body:
    return None
  if any(isinstance(n, ast.Name) and n.id in LAZY for n in ast.walk(tree)):
    return None
  last = tree.body[-1]
  if not isinstance(last, ast.Expr):
    if not any(isinstance(n, ast.Return) for n in ast.walk(tree)):
      return None
    return list(segs)
  line_starts = [0]
  for l in out_text.split('\n'):
    line_starts.append(line_starts[-1] + len(l) + 1)
  line = out_text.split('\n')[last.lineno - 1]
  target = line_starts[last.lineno - 1] + len(line.encode('utf8')[:last.col_offset].decode('utf8'))
  res = []
  pos = 0
  placed = False
  for k, s in segs:
    if pos == target and not placed:
      res.append(('M', ''))
      placed = True
    elif pos < target < pos + len(('rec.' + s) if k == 'D' else s) and not placed and k == 'C':
      cut = target - pos
      res.append(('C', s[:cut]))
      res.append(('M', ''))
      res.append(('C', s[cut:]))
      placed = True
      pos += len(s)
      continue
    res.append((k, s))
    pos += len(('rec.' + s) if k == 'D' else s)
  return res if placed else None


def coq_tok(k, s):
  return {'C': 'TCode %s', 'D': 'TDollar %s', 'O': 'TOpaque %s'}[k] % S(s) if k != 'M' else 'TMark'


def dollar_cases(ctx, formulas):
  import codebuilder
  import textbuilder
  cases, used = [], []
  for f in formulas:
    if '\x0c' in f or '\x00' in f:
      continue
    try:
      f0 = codebuilder._dedent(textbuilder.Text(UNIVERSAL_NL.sub('\n', f))).get_text()
      body = codebuilder.make_formula_body(f, None).get_text()
    except Exception:              # pylint: disable=broad-except
      continue                     # escaping exceptions are the search's business
    if not f.strip() or re.search(r'^raise \w+\(', body, re.M) and body.lstrip().startswith('#'):
      continue                     # syntax-error stub
    try:
      segs = with_mark(token_stream(f0))
    except Exception:              # pylint: disable=broad-except
      segs = None
    if segs is None or (segs and segs[-1][0] == 'O' and segs[-1][1].endswith('$')):
      # (the model's token streams do not end in a string/comment token whose last character is `$`)
      ctx.bump('corr:dollar skipped (outside the model)')
      continue
    ks = core.coq_list([coq_tok(k, s) for k, s in segs])
    cases.append('(%s, %s, %s)' % (ks, S(f), S(body)))
    used.append(f)
    ctx.count(('dollar', f), nontrivial=('$' in f), sample={'formula': f, 'body': body}, kind='corr:dollar')
  check = ('fun c => match c with (ks, f, body) => let f0 := formula_text f in '
           'forallb tok_wf ks && teq (src_of ks) f0 && rteq (gen_formula_text f) f0 && teq (spec_of ks) body '
           '&& teq (translate f0 (rev (name_offsets 0 ks)) (match mark_offsets 0 ks with p :: _ => Some p | [] => None end)) '
           'body end')
  return cases, used, check


def offsets_cases(ctx, formulas):
  """Replacer.get_input_pos / the temporary text against the model, on every output position."""
  import codebuilder
  import textbuilder
  cases, used = [], []
  for f in formulas:
    if not f or len(f) > 60:
      continue
    patches = textbuilder.make_regexp_patches(f, codebuilder.DOLLAR_REGEX, 'DOLLAR')
    rep = textbuilder.Replacer(textbuilder.Text(f), patches)
    tmp = rep.get_text()
    back = [rep.get_input_pos(p) for p in range(len(tmp) + 1)]
    cases.append('(%s, %s, %s)' % (S(f), S(tmp), core.zlist(back)))
    used.append(f)
  check = ('fun c => match c with (f, tmp, back) => teq (tmp_text f) tmp && '
           'teq (map (Dollar.get_input_pos (replacer_offsets (tmp_patches f))) (map Z.of_nat (seq 0 (List.length back)))) back end')
  return cases, used, check


def field_cases(ctx, formulas):
  import collections
  import gencode
  Col = collections.namedtuple('Col', 'colId formula type reverseColId')
  cases, used = [], []
  for f in formulas:
    g = gencode.GenCode()
    try:
      text = g._make_formula_field(Col('X', f, 'Any', 0), 'T', indent='  ').get_text()
      body = list(g._new_formula_cache.values())[0].get_text()
    except Exception:              # pylint: disable=broad-except
      continue
    cases.append('(%s, %s)' % (S(body), S(text)))
    used.append(f)
  check = ('fun c => teq (formula_field [32; 32] [88] [114; 101; 99; 44; 32; 116; 97; 98; 108; 101] (fst c)) (snd c)')
  return cases, used, check


def pipeline_cases(ctx, formulas):
  """make_formula_body on formulas it rejects: the whole chain (line ends, _dedent, stub, _indent) against the
  model's indent_re ind (stub_of_formula ...); the stub's arguments are read back from its last statement."""
  import codebuilder
  cases, used = [], []
  for f in formulas:
    if not f.strip() or '\x00' in f:
      continue
    ind = ctx.rng.choice(['    ', '  ', ''])
    try:
      body = codebuilder.make_formula_body(f, None, indent=ind).get_text()
    except Exception:              # pylint: disable=broad-except
      continue                     # escaping exceptions are the search's business
    m = re.search(r'(?:\A|\n)[ ]*raise ([A-Za-z_]+)\((.*)\)\Z', body, re.S)
    if not body.lstrip().startswith('#') or not m:
      continue
    try:
      message, (_uc, line, col1, line_text) = ast.literal_eval('(' + m.group(2) + ')')
    except (SyntaxError, ValueError, TypeError) as e:
      ctx.broken('correspondence:the stub does not end in one statement `raise Name(<literals>)`',
                 'formula %r: %r' % (f, e))
      continue
    cases.append('(%s, %s, %s, %s, %s, %s, %s, %s)' % (S(ind), S(m.group(1)), S(message), core.zlit(line),
                                                       core.zlit(col1), S(line_text), S(f), S(body)))
    used.append(f)
    ctx.count(('pipeline', f), nontrivial=True, sample={'formula': f, 'body': body},
              kind='corr:pipeline ' + kind_of_text(f))
  check = ('fun c => match c with (ind, name, msg, line, col1, ltext, f, body) => '
           'teq (indent_re ind (stub_of_formula printable name msg line col1 ltext f)) body && '
           'match gen_formula_text f with Ok ft => rteq (gen_indent (gen_create_syntax_error_code printable name msg '
           'line (col1 - 1) ltext ft) ind) body | _ => false end end')
  return cases, used, check


def unindent_cases(ctx, n):
  """Formulas made of one expression around a literal that spans lines (str, bytes, raw, f-string; the code treats
  every ast.Constant/JoinedStr spanning lines alike): the generated body against indent + un-indent of the model,
  and against the text itself (the literal comes back exactly as written)."""
  import codebuilder
  rng = ctx.rng
  cases, used = [], []
  for k in range(n):
    lit, is_bytes = gen_mlliteral(rng, dollar='rec.A')
    wrap = rng.choice(['{L}', '{L}', 'len({L})', '({L})', '[{L}][0]'] + (['{L}.decode("ascii")'] if is_bytes else []))
    f = wrap.replace('{L}', lit)
    ind = rng.choice(['    ', '  ', '        '])
    try:
      body = codebuilder.make_formula_body(f, None, indent=ind).get_text()
    except Exception as e:         # pylint: disable=broad-except
      ctx.broken('correspondence:make_formula_body raised on a literal spanning lines', '%r: %r' % (f, e))
      continue
    cases.append('(%s, %s, %s)' % (S(ind), S('return ' + f), S(body)))
    used.append(f)
    ctx.count(('unindent', ind, f), nontrivial=True, sample={'formula': f, 'body': body},
              kind='corr:unindent ' + ('bytes' if is_bytes else 'f-string' if 'f' in lit[:2].lower() else 'str'))
  check = ('fun c => match c with (ind, b, body) => let i := indent_re ind b in let k := (List.length ind + 7)%nat in '
           'teq (firstn k i ++ unindent_re ind (skipn k i)) body && teq body (ind ++ b) end')
  return cases, used, check


# ------------------------------------------------------------------------------------------------
# the end-to-end oracle through the real engine

ROWS = [(3, 'x'), (-4, 'y$z'), (0, '')]           # (A, B)
SOUND1 = '$A * 2 + 1'
SOUND2 = '"v%s|%s" % ($A, $B)'
LAZY = ('IF', 'ISERR', 'ISERROR', 'IFERROR', 'PEEK')
UNIVERSAL_NL = re.compile(r'\r\n?')
BARE_CR = re.compile(r'\r(?!\n)')


def sound_values(rows):
  return [a * 2 + 1 for a, _b in rows], ['v%s|%s' % (a, b) for a, b in rows]


class Doc(object):
  """A document with table T: data A (Int), B (Text); formula columns S1, X, S2 (X between the sound ones)."""
  def __init__(self):
    import logging
    import engine
    import useractions
    import warnings
    logging.disable(logging.CRITICAL)
    warnings.filterwarnings('ignore', category=SyntaxWarning)
    self.ua = useractions
    self.e = engine.Engine()
    self.e.load_empty()
    self.apply(['InitNewDoc'])
    self.apply(['AddTable', 'T', [
      {'id': 'A', 'type': 'Int', 'isFormula': False},
      {'id': 'B', 'type': 'Text', 'isFormula': False},
      {'id': 'S1', 'type': 'Any', 'isFormula': True, 'formula': SOUND1},
      {'id': 'X', 'type': 'Any', 'isFormula': True, 'formula': '1'},
      {'id': 'S2', 'type': 'Any', 'isFormula': True, 'formula': SOUND2},
    ]])
    self.rows = list(ROWS)
    self.apply(['BulkAddRecord', 'T', [None] * len(ROWS), {'A': [a for a, _ in ROWS], 'B': [b for _, b in ROWS]}])
    self.nadd = 0

  def apply(self, action):
    return self.e.apply_user_actions([self.ua.from_repr(action)])

  def column(self, col):
    return list(self.e.fetch_table('T').columns[col])

  def namespace(self):
    return dict(self.e.gencode.usercode.__dict__)


def cell(v):
  """A cell as a comparable value: ('E', exception type name) or ('V', type name, value)."""
  import objtypes
  if isinstance(v, objtypes.RaisedException):
    name = type(v.error).__name__ if v.error is not None else getattr(v, '_name', '?')
    return ('E', name)
  return ('V', type(v).__name__, v)


class Rec(object):
  def __init__(self, rid, a, b):
    self.id = rid
    self.A = a
    self.B = b

  def __getattr__(self, name):
    raise AttributeError(name)


def ref_dedent(text):
  """Common leading blanks/tabs of the physical lines that hold something else; removed from every line."""
  lines = text.split('\n')
  margin = None
  for l in lines:
    body = l.lstrip(' \t')
    if not body:
      continue
    ind = l[:len(l) - len(body)]
    if margin is None:
      margin = ind
    else:
      k = 0
      while k < len(margin) and k < len(ind) and margin[k] == ind[k]:
        k += 1
      margin = margin[:k]
  if not margin:
    return text
  return '\n'.join(l[len(margin):] if l.startswith(margin) else l for l in lines)


def ref_translate(formula, emulate_mlstring=False):
  """Independent reading of a formula: the text as CPython reads it (universal newlines), common indentation
  removed, `$name` -> `rec.name` wherever the tokenizer sees the operator `$` directly followed by a NAME token
  (so never inside string or comment tokens).  Raises SyntaxError/tokenize.TokenError if it does not tokenize."""
  text = ref_dedent(UNIVERSAL_NL.sub('\n', formula))
  if emulate_mlstring:
    text = mlstring_bug_variant(text)
    if text is None:
      raise SyntaxError('nothing to emulate')
  lines = text.split('\n')
  starts = [0]
  for l in lines:
    starts.append(starts[-1] + len(l) + 1)
  toks = list(tokenize.generate_tokens(io.StringIO(text).readline))
  cut = []
  for prev, t in zip(toks, toks[1:]):
    if t.string == '$' and prev.end == t.start and prev.type in (tokenize.NAME, tokenize.NUMBER):
      raise SyntaxError('`$` glued to the preceding name or number')
  for t, nxt in zip(toks, toks[1:]):
    if t.type == tokenize.OP and t.string == '$' and nxt.type == tokenize.NAME and nxt.start == t.end:
      if not re.match(r'[a-zA-Z_]', nxt.string):
        raise SyntaxError('`$` before a non-ASCII name')
      cut.append(starts[t.start[0] - 1] + t.start[1])
    elif t.type in (tokenize.OP, tokenize.ERRORTOKEN) and t.string == '$':
      raise SyntaxError('stray `$`')
  out = []
  prev = 0
  for c in cut:
    out.append(text[prev:c])
    out.append('rec.')
    prev = c + 1
  out.append(text[prev:])
  return ''.join(out)


def binds_rec(tree):
  for n in ast.walk(tree):
    if isinstance(n, ast.Name) and n.id == 'rec' and not isinstance(n.ctx, ast.Load):
      return True
    if isinstance(n, ast.arg) and n.arg == 'rec':
      return True
    if isinstance(n, (ast.FunctionDef, ast.AsyncFunctionDef, ast.ClassDef)) and n.name == 'rec':
      return True
    if isinstance(n, ast.alias) and (n.asname or n.name) == 'rec':
      return True
    if isinstance(n, ast.ExceptHandler) and n.name == 'rec':
      return True
    if isinstance(n, (ast.MatchAs, ast.MatchStar)) and n.name == 'rec':
      return True
    if isinstance(n, (ast.Global, ast.Nonlocal)) and 'rec' in n.names:
      return True
  return False


def assigns_rec_attr(tree):
  for n in ast.walk(tree):
    if isinstance(n, ast.Attribute) and isinstance(n.ctx, ast.Store) and isinstance(n.value, ast.Name) \
       and n.value.id == 'rec':
      return True
  return False


def reference(formula, rows, namespace, emulate_mlstring=False):
  """('invalid', why) | ('unjudged', why) | ('values', [cell, ...]) -- what the formula text means by itself."""
  if not formula.strip():
    return ('unjudged', 'blank formula (type default)')
  try:
    src = ref_translate(formula, emulate_mlstring)
    tree = ast.parse(src)
  except (SyntaxError, tokenize.TokenError, ValueError, IndentationError) as e:
    return ('invalid', 'does not parse: %s' % (type(e).__name__,))
  except RecursionError:
    return ('unjudged', 'parser recursion limit')
  if any(isinstance(n, ast.Name) and n.id in LAZY for n in ast.walk(tree)):
    return ('unjudged', 'uses a lazily evaluated function')
  if binds_rec(tree):
    return ('unjudged', 'binds the name rec (Grist rejects some of these by its own rule)')
  if assigns_rec_attr(tree):
    return ('invalid', 'assigns to a column (Grist rule)')
  body = list(tree.body)
  if not body:
    body = [ast.Pass()]
  elif isinstance(body[-1], ast.Expr):
    body[-1] = ast.copy_location(ast.Return(value=body[-1].value), body[-1])
  elif not any(isinstance(n, ast.Return) for n in ast.walk(tree)):
    return ('invalid', 'no return and the last statement is not an expression (Grist rule)')
  fn = ast.FunctionDef(name='_ref_formula', args=ast.arguments(posonlyargs=[], args=[ast.arg(arg='rec'),
                       ast.arg(arg='table')], kwonlyargs=[], kw_defaults=[], defaults=[]), body=body,
                       decorator_list=[], type_params=[])
  mod = ast.Module(body=[fn], type_ignores=[])
  ast.fix_missing_locations(mod)
  try:
    code = compile(mod, '<reference>', 'exec')
  except SyntaxError as e:
    return ('invalid', 'compiler rejects it as a function body: %s' % (e.msg,))
  except (RecursionError, ValueError, TypeError) as e:
    return ('unjudged', 'compile: %r' % (e,))
  ns = dict(namespace)
  exec(code, ns)          # pylint: disable=exec-used
  f = ns['_ref_formula']
  out = []
  for i, (a, b) in enumerate(rows):
    try:
      v = f(Rec(i + 1, a, b), None)
      if type(v) not in (int, str, bool, float, bytes, type(None)):
        return ('unjudged', 'returns a %s' % type(v).__name__)
      out.append(('V', type(v).__name__, v))
    except Exception as e:    # pylint: disable=broad-except
      out.append(('E', type(e).__name__))
  return ('values', out)


SYNTAX_NAMES = ('SyntaxError', 'IndentationError', 'TabError')


def mlstring_bug_variant(text, width=4):
  """The (dedented, "\\n"-only) text with `width` blanks removed from the whitespace-only lines inside multi-line
  string tokens (what `indented_text.replace('\\n' + indent, '\\n')` does to lines that _indent left alone)."""
  try:
    toks = list(tokenize.generate_tokens(io.StringIO(text).readline))
  except (SyntaxError, tokenize.TokenError):
    return None
  lines = text.split('\n')
  changed = False
  for t in toks:
    if t.type in (tokenize.STRING, getattr(tokenize, 'FSTRING_MIDDLE', -1)) and t.end[0] > t.start[0]:
      for ln in range(t.start[0], t.end[0]):        # 0-based indexes of the lines after the token's first one
        l = lines[ln]
        body = l if ln < t.end[0] - 1 else l[:t.end[1]]
        if ln < t.end[0] - 1 and body.strip(' \t\x0c') == '' and l.startswith(' ' * width):
          lines[ln] = l[width:]
          changed = True
  return '\n'.join(lines) if changed else None


def same_cell(g, w):
  if g[0] != w[0]:
    return False
  if g[0] == 'E':
    return g[1] == w[1]
  if g[1] != w[1]:
    return False
  return g[2] == w[2] or (g[2] != g[2] and w[2] != w[2])


def judge(doc, formula, got_x, s1, s2):
  """Compares the engine's columns with what the texts mean.  Returns None or (kind, what)."""
  exp1, exp2 = sound_values(doc.rows)
  if [cell(v) for v in s1] != [('V', 'int', v) for v in exp1] or \
     [cell(v) for v in s2] != [('V', 'str', v) for v in exp2]:
    return ('sound-column-changed', 'sound columns hold %r / %r, expected %r / %r' % (s1, s2, exp1, exp2))
  got = [cell(v) for v in got_x]
  ns = doc.namespace()
  ref = reference(formula, doc.rows, ns)
  if ref[0] == 'unjudged':
    return None
  if ref[0] == 'invalid':
    if not all(g[0] == 'E' for g in got):
      return ('invalid-formula-has-values', 'reference: %s; engine cells %r' % (ref[1], got))
    return None
  want = ref[1]
  if all(same_cell(g, w) for g, w in zip(got, want)):
    return None
  if all(g[0] == 'E' and g[1] in SYNTAX_NAMES for g in got) and \
     not all(w[0] == 'E' and w[1] in SYNTAX_NAMES for w in want):
    # a formula that is valid by itself was turned into a syntax-error stub
    return ('valid-formula-rejected', 'cells %r, the text means %r' % (got, want))
  if True:
    ref3 = reference(formula, doc.rows, ns, emulate_mlstring=True)
    if ref3[0] == 'values' and all(same_cell(g, w) for g, w in zip(got, ref3[1])):
      return ('wrong-value:mlstring-blank-line',
              'whitespace-only line inside a multi-line string lost 4 blanks: cells %r, the text means %r' % (got, want))
  return ('valid-formula-wrong-value', 'cells %r, the text means %r' % (got, want))


COMPILE_STAGE_HINT = 'accepted by ast.parse, rejected by the compiler as a function body'


def classify_raise(formula, exc, raises):
  """Names the cause of an escaping exception by repairing the input (causal probes).  `raises(f)` re-runs the
  same action with another formula on a fresh document and returns the exception or None."""
  import itertools
  fixes = [('form-feed', lambda f: '\x0c' in f, lambda f: f.replace('\x0c', '')),
           ('nul', lambda f: '\x00' in f, lambda f: f.replace('\x00', ''))]
  present = [fx for fx in fixes if fx[1](formula)]
  for k in range(1, len(present) + 1):
    for combo in itertools.combinations(present, k):
      g = formula
      for _n, _p, fix in combo:
        g = fix(g)
      if raises(g) is None:
        return 'raises:' + combo[0][0], 'repaired by removing: ' + ', '.join(c[0] for c in combo)
  if isinstance(exc, RecursionError):
    return 'raises:recursion', 'parser/compiler recursion limit'
  if isinstance(exc, SyntaxError):
    try:
      src = ref_translate(formula)
      tree = ast.parse(src)
      parsed = True
    except Exception:          # pylint: disable=broad-except
      parsed = False
    if parsed:
      # no multi-line string, so that indenting the text by hand below is harmless
      plain = not any(isinstance(n, (ast.Constant, ast.JoinedStr)) and '\n' in (ast.get_source_segment(src, n) or '')
                      for n in ast.walk(tree))
      try:
        compile('def _f(rec, table):\n' + ''.join('  ' + l for l in re.split(r'(?<=\n)', src)) + '\n  pass\n',
                '<probe>', 'exec')
        rejected = False
      except SyntaxError:
        rejected = True
      except Exception:        # pylint: disable=broad-except
        rejected = False
      if rejected and plain:
        return 'raises:compile-stage', COMPILE_STAGE_HINT
  return 'raises:other', 'no known cause'


def run_formula(doc, formula, path):
  """Applies one adversarial formula; returns (x cells, s1, s2)."""
  if path == 'modify':
    doc.apply(['ModifyColumn', 'T', 'X', {'formula': formula}])
    col = 'X'
  elif path == 'add':
    doc.nadd += 1
    col = 'X%d' % doc.nadd
    doc.apply(['AddColumn', 'T', col, {'type': 'Any', 'isFormula': True, 'formula': formula}])
  else:
    raise ValueError(path)
  x = doc.column(col)
  s1, s2 = doc.column('S1'), doc.column('S2')
  if path == 'add':
    doc.apply(['RemoveColumn', 'T', col])
  return x, s1, s2


def check_one(doc, formula, path, fresh_raises):
  """The oracle for one formula on `doc`, with the causal probe for "\\r": when a text holding "\\r" fails, the same
  text with the line ends CPython reads ("\\r\\n", "\\r" -> "\\n") is tried on a fresh document.  If that passes the
  failure is the "\\r" defect; if not, it is classified as what the normalised text shows."""
  v = check_raw(doc, formula, path, fresh_raises)
  if v and '\r' in formula:
    v2 = check_raw(Doc(), UNIVERSAL_NL.sub('\n', formula), path, fresh_raises)
    if v2 is None:
      return ('cr-line-ends', 'fails with "\\r" line ends, passes with "\\n": %s: %s' % v)
    return (v2[0], 'with "\\r" read as line ends: %s | as given: %s: %s' % (v2[1], v[0], v[1]))
  return v


def check_raw(doc, formula, path, fresh_raises):
  """The oracle for one formula on `doc`.  Returns None or (kind, what)."""
  try:
    x, s1, s2 = run_formula(doc, formula, path)
  except BaseException as e:       # pylint: disable=broad-except
    if isinstance(e, (KeyboardInterrupt, SystemExit)):
      raise
    kind, why = classify_raise(formula, e, fresh_raises)
    return (kind, '%s raised %s: %s [%s]' % ('ModifyColumn' if path == 'modify' else 'AddColumn',
                                             type(e).__name__, str(e)[:120], why))
  v = judge(doc, formula, x, s1, s2)
  if v:
    return v
  # the document keeps working: a data change recomputes the sound columns
  a0 = doc.rows[0][0]
  try:
    doc.apply(['UpdateRecord', 'T', 1, {'A': a0 + 10}])
    doc.rows[0] = (a0 + 10, doc.rows[0][1])
    s1, s2 = doc.column('S1'), doc.column('S2')
    exp1, exp2 = sound_values(doc.rows)
    ok = (list(s1) == exp1 and list(s2) == exp2)
    doc.apply(['UpdateRecord', 'T', 1, {'A': a0}])
    doc.rows[0] = (a0, doc.rows[0][1])
    if not ok:
      return ('sound-column-stale', 'after UpdateRecord the sound columns hold %r / %r' % (s1, s2))
  except BaseException as e:       # pylint: disable=broad-except
    if isinstance(e, (KeyboardInterrupt, SystemExit)):
      raise
    return ('document-broken', 'UpdateRecord after the formula change raised %r' % (e,))
  return None


def fresh_raises_fn(path):
  def raises(f):
    d = Doc()
    try:
      run_formula(d, f, path)
      return None
    except BaseException as e:     # pylint: disable=broad-except
      if isinstance(e, (KeyboardInterrupt, SystemExit)):
        raise
      return e
  return raises


# -- formula generator ---------------------------------------------------------------------------

EXPRS = ['$A', '$A + 1', '$A * $A', 'len($B)', '$B.upper()', '"$A" + $B', "'$B' * 2", '[$A, 1][0]', '($A,\n 2)[1]',
         '$B + "x" # $A', 'f"{$A}-{$B}"', 'max($A, 2)', '"a" if $A > 0 else "b"', '{"k": $A}["k"]', 'not $A',
         '$A == 3', '-$A', '$A // 2', '1 / $A', 'int($B)', 'undefined_name', '$Nope', '$A + \\\n  1', '($A +\n1)',
         '[\n1,\n2,\n][$A % 2]', 'str($A) + """\nline $A\n"""', '"""a\nb"""', "'''x\n  y\n'''", '"""$A\n$B"""',
         '"""\n# not a comment\nreturn 5\n"""', "'a\\\nb'", '"""a\n    \nb"""', '"""a\n      \n  \n\nb"""',
         'len("""\n        \n""")', '"é" + $B', 'f"""{$A}\n{$B}"""', "'it''s' + \"q\\\"\"", '$A;', 'rec.A + $A',
         '"%s" % (  $A,\n)', 'sum(i for i in range($A % 5))', 'sorted($B)[0] if $B else ""', '(lambda v: v + 1)($A)',
         '1 if True else\\\n2', '"\\N{BULLET}"', "'tab\there'", '$A # trailing \\', '[c for c in $B if c != "$"] == []']
STMTS = ['x = {E}\nreturn x', 'x = {E}\nx', 'if $A > 0:\n  return {E}\nreturn {F}',
         'if $A > 1:\n  y = {E}\nelse:\n  y = {F}\ny', 'for i in range(3):\n  if i == $A:\n    return i\nreturn -1',
         'total = 0\nfor c in $B:\n  total += 1\ntotal', 'def g(v):\n  return v * 2\ng($A)',
         'try:\n  return 1 // $A\nexcept ZeroDivisionError:\n  return 0', '# comment $A\n{E}', '{E}\n# last $A',
         'x = 1\n\n\n  \nx + $A', 'if $A:\n\treturn 1\nreturn 2', '# just a comment', 'pass', 'return',
         'return {E}', 'x = {E}  \ny = x\ny', 'import math\nmath.floor($A / 2)', 's = """\n  {E}\n"""\nlen(s)',
         'class K:\n  v = 7\nK.v + $A', 'x = [\n  $A,\n    2,\n]\nx[0]', 'with open("/nonexistent") as fh:\n  pass\n1']
INVALID = ['$A +', 'x = 1', '$A = 1', 'rec = 1\nreturn 1', 'if $A:', 'yield 1', '1 +\\', 'foo(', "'abc", '"""abc',
           'x = (\n', '$', '$1', '$ A', "'\\N{BAD}'", '0777', '1_', 'a\xa0b', '$\xe9', '\xe9 = 1\n\xe9', '\ufeff$A', ')',
           'return return', 'if 1:\nreturn 2', '  if 1:\n return 2', 'if 1:\n\treturn 1\n        return 2', '$A\n\\',
           'lambda $x: 1', 'foo($bar=1)', 'def $f(): pass', '$A += 1\nreturn 1', 'for rec in []: pass\nreturn 1',
           'x = $A\n  y = 2\ny', 'DOLLARx$y', 'a$b', '"$A', '# $A\n"', 'f"{$A"', "f'{}'", '(' * 30 + '1' + ')' * 30,
           'print(a for a in b, c)', '$A ?', '`$A`', '$A <> 1', 'exec "x"', '1 if else 2', 'x = = 1', '@', ':=', '...',
           'not', 'import', '*', '**$A']
COMPILE_STAGE = ['await x', 'global table\n1', 'nonlocal x\n1', 'x = 1\nglobal x\nreturn x',
                 'def f(a, a): pass\nreturn 1', 'class C:\n  return 1\nreturn 2', 'from x import *\n1',
                 '__debug__ = 1\nreturn 1', '*a = [1]\nreturn a', 'from __future__ import annotations\n1',
                 '[i async for i in x]', '[(y := 1) for y in z]',
                 'try:\n  pass\nexcept:\n  pass\nexcept E:\n  pass\nreturn 1', 'def f():\n  nonlocal zz\nreturn 1',
                 'match $A:\n  case x: return 1\n  case y: return 2\n']
LEXICAL = ['\x0c$A', ' \x0c$A', 'if 1:\n  \x0c  return 1\nreturn 2', 'x = 1 \x0c\nx', '$A\x0c', '1\x00', "'\x00'",
           '$A\x1a', 'x = 1\n\x0c\nx', '"""\x0c"""', '$A\x0b', '\x0b$A', '$A\x1c+1', '\x85$A']


# -- literals that span physical lines: every prefix/quote kind the tokenizer knows -------------------------

ML_PREFIXES = ['', '', 'r', 'u', 'R', 'b', 'b', 'B', 'rb', 'br', 'Rb', 'bR', 'BR', 'f', 'F', 'rf', 'fr']
ML_LINES = ['', ' ', '  ', '    ', '     ', '        ', '\t', 'a', 'y', '  b', '    c', '      d', '# e', 'return 5',
            ' \t ', '    \t', 'x = 1', '   z  ']


def gen_mlliteral(rng, dollar='$A'):
  """(literal text, is_bytes): a literal whose token spans 2-5 physical lines; continuation lines start with and
  without whitespace; bytes/raw/f/u prefixes, both quote kinds, triple-quoted or backslash-continued."""
  prefix = rng.choice(ML_PREFIXES)
  low = prefix.lower()
  lines = [rng.choice(ML_LINES) for _ in range(rng.randint(2, 5))]
  if not any(l.strip() for l in lines[1:]):
    lines[rng.randrange(1, len(lines))] = rng.choice(['y', '  b', '      d'])
  if 'f' in low and rng.random() < 0.7:
    k = rng.randrange(len(lines))
    lines[k] = lines[k] + '{%s}' % dollar
  if rng.random() < 0.8:
    q = rng.choice(['"""', "'''"])
    return prefix + q + '\n'.join(lines) + q, 'b' in low
  q = rng.choice(['"', "'"])          # one-quote literal continued with backslash-newline
  lines = [l.replace('\t', ' ') for l in lines]
  return prefix + q + '\\\n'.join(lines) + q, 'b' in low


ML_WRAP_ANY = ['{L}', 'len({L})', '({L})', '[{L}][0]', '({L}, 1)[0]', 'repr({L})', '{L} if $A > -9 else ""',
               'x = {L}\nx', 'x = {L}\nreturn len(x)', 'if $A > -9:\n  v = {L}\n  return v\nreturn 0',
               'def g():\n  return {L}\ng()', 'len({L}) + $A', '[len(p) for p in ({L}, {M})]', '{L} == {L}']
ML_WRAP_BYTES = ['{L}.decode("ascii")', '{L}.decode("ascii") + str($A)', 'list({L})[-1]', '{L}.count(b" ")']
ML_WRAP_STR = ['{L} + $B', '{L}.count(" ")', '{L}.splitlines()[-1]', '"%s|%s" % ({L}, $A)']


def gen_mlformula(rng):
  lit, is_bytes = gen_mlliteral(rng)
  lit2, _ = gen_mlliteral(rng)
  wrap = rng.choice(ML_WRAP_ANY + (ML_WRAP_BYTES if is_bytes else ML_WRAP_STR) * 2)
  return wrap.replace('{L}', lit).replace('{M}', lit2)


PB_LISTED = ['x = $A\n\xa0\nx + 1', 'foo(\n\u3000\nbar', "\u2028\n'abc", 'x = 1\n\x1c', '$A +\n\x85\n\x0b']
ML_LISTED = ['b"""x\ny""".decode("ascii")', "len(b'''\n\n''') + $A", 'rb"""x\n  y\nz"""', "Rb'''\na\n'''.decode('ascii')",
             'f"""{$A}\n  y"""', "r'''x\n\\y'''", "len(b'a\\\n  b')", 'u"""x\ny"""']


# -- lines made only of characters that str.isspace()/regex \s accept but the tokenizer does not treat as blank ---

PSEUDO_BLANK = ['\xa0', '\u1680', '\u2000', '\u2001', '\u2002', '\u2003', '\u2004', '\u2005', '\u2006', '\u2007',
                '\u2008', '\u2009', '\u200a', '\u2028', '\u2029', '\u202f', '\u205f', '\u3000', '\x85', '\x0b', '\x0c',
                '\x1c', '\x1d', '\x1e', '\x1f']
PB_INVALID = ['x = $A\n{P}\nx +', 'foo(\n{P}\nbar', "{P}\n'abc", 'if $A:\n{P}', 'x = 1\n{P}\ny = 2', '$A = 1\n{P}',
              '1 +\\\n{P}', '{P}\n$A +', 'x = $A\n{P}\nx + 1', '$A\n{P}', '{P}\n$A', 'return return\n{P}', '"""abc\n{P}',
              'x = (\n{P}', 'if 1:\nreturn 2\n{P}', '{P}\n)\n{P}', '$A $B\n{P}\n$A', 'def f(:\n{P}\n  pass']


def gen_pseudoblank_formula(rng):
  """An invalid formula (several kinds of syntax error) holding lines that consist only of pseudo-blank
  characters, first/middle/last."""
  def line():
    c = rng.choice(PSEUDO_BLANK)
    k = rng.random()
    if k < 0.6:
      return c
    if k < 0.8:
      return c * rng.randint(2, 3)
    return rng.choice([' ', '  ', '']) + c + rng.choice(['', ' ', rng.choice(PSEUDO_BLANK)])
  f = rng.choice(PB_INVALID)
  while '{P}' in f:
    f = f.replace('{P}', line(), 1)
  return f


# -- formulas whose TRANSLATION (lambda wrapping of lazily evaluated arguments, inserted `return`) decides whether
#    they are valid; most without `$` and without the letters "rec", some with them as control ----------------

LAZY_CALLS = ['IF(True, {X})', 'IF(True, 1, {X})', 'IF({X})', 'IFERROR({X})', 'IFERROR({X}, 0)', 'ISERR({X})',
              'ISERROR({X})', 'PEEK({X})', 'IF(1 > 2, {X}, 3)', 'IFERROR(IF(True, {X}))', 'max(IF(True, {X}), 0)']
LAZY_ARGS = ['*[1, 2]', '*args', '*[1 / 0]', '**{}', '**kw', 'x for x in [1]', '*(1, 2)', '*[]', '1 / 0', '[1, 2]',
             '(x for x in [1])', '*"ab"', 'lambda: 1', '(yield)', 'y := 5', '*[1], *[2]', '1, *[2]']
LAST_STMTS = ['yield 5', 'yield', 'yield from [1]', '(yield 5)', 'x = 1\nyield x', 'await f()', 'yield 5, 6',
              'lambda: (yield)', '[1]\nyield', 'print(1)\nyield from ()', 'x = yield 5', 'yield\n1']


def gen_lazy_formula(rng):
  k = rng.random()
  if k < 0.65:
    f = rng.choice(LAZY_CALLS).replace('{X}', rng.choice(LAZY_ARGS))
    if rng.random() < 0.4:
      f = rng.choice(['args = [1]\n', 'kw = {}\nargs = [1, 2]\n', 'x = 1\n']) + f
  else:
    f = rng.choice(LAST_STMTS)
  if rng.random() < 0.25:            # the same with `$` / `rec` in the text (control)
    f = rng.choice(['# $A\n', 'r = rec\n', 'x = $A\n']) + f
  return f


LAZY_LISTED = ['IF(True, *[1, 2])', 'args = [1]\nIFERROR(*args)', 'ISERR(*[1 / 0])', 'yield 5', 'yield from [1]',
               'PEEK(*[1])', 'IF(True, *[1, 2]) # $A', 'x = $A\nyield x']


def restyle(rng, f, style):
  """Line-end style and shared indentation."""
  eol, ind = style
  if ind:
    f = ''.join(ind + l if l.strip() or rng.random() < 0.3 else l for l in re.split(r'(?<=\n)', f))
  if eol == 'mixed':
    f = re.sub('\n', lambda m: rng.choice(['\n', '\r\n', '\r']), f)
  elif eol != '\n':
    f = f.replace('\n', eol)
  return f


def mutate(rng, f):
  if not f:
    return f
  k = rng.random()
  i = rng.randrange(len(f))
  if k < 0.35:
    return f[:i]
  if k < 0.6:
    return f[:i] + f[i + 1:]
  if k < 0.85:
    return f[:i] + rng.choice(['(', ')', '"', "'", '\\', ':', '$', '#', '\n', ' ', '\t', '=', '\xe9', '\r', '"""']) + f[i:]
  j = rng.randrange(len(f))
  return f[:min(i, j)] + f[max(i, j):]


def gen_formula(rng):
  """Returns (formula, tag)."""
  r = rng.random()
  eol = rng.choice(['\n'] * 6 + ['\r\n', '\r\n', '\r', '\r', 'mixed'])
  ind = rng.choice([''] * 5 + ['  ', '    ', '\t', ' '])
  if r < 0.45:
    if rng.random() < 0.5:
      f = rng.choice(EXPRS)
    else:
      f = rng.choice(STMTS).replace('{E}', rng.choice(EXPRS)).replace('{F}', rng.choice(EXPRS[:22]))
    if rng.random() < 0.3:
      f = rng.choice(['\n', '\n\n', '  \n', '# lead\n']) + f
    if rng.random() < 0.3:
      f = f + rng.choice(['\n', '\n\n', '  ', '\n  \n', ' # end', '\n# end $A'])
    tag = 'grammar'
  elif r < 0.62:
    f = gen_mlformula(rng)
    tag = 'multi-line-literal'
  elif r < 0.68:
    f = gen_pseudoblank_formula(rng)
    tag = 'pseudo-blank-line'
  elif r < 0.75:
    f = gen_lazy_formula(rng)
    tag = 'translation-decides'
  elif r < 0.80:
    base = rng.choice(EXPRS + STMTS).replace('{E}', rng.choice(EXPRS)).replace('{F}', '2')
    f = mutate(rng, base)
    if rng.random() < 0.3:
      f = mutate(rng, f)
    tag = 'mutated'
  elif r < 0.87:
    f = rng.choice(INVALID)
    tag = 'invalid'
  elif r < 0.90:
    f = rng.choice(COMPILE_STAGE)
    tag = 'compile-stage'
  elif r < 0.94:
    f = rng.choice(LEXICAL)
    tag = 'lexical'
  else:
    f = gen_text(rng)
    tag = 'random-text'
  f = restyle(rng, f, (eol, ind))
  f = f.replace('while', 'whil')          # never a loop that may not end
  if '**' in f and tag != 'invalid':
    f = f.replace('**', '*')
  return f, tag + ('/cr' if BARE_CR.search(f) else '/crlf' if '\r' in f else '')


LISTED = ['x = 1\rreturn x', 'foo(\rbar', '"""a\n    \nb"""', '  x = $A\r\n\r\n  x + 1', '\x0c$A', 'await x', '$A\r',
          '# c\r$A', '1\x00', '  $A\r  + 1', '1+' * 3000 + '1']


def search(ctx):
  rng = ctx.rng
  n = ctx.n(260, 6000)
  formulas = [(f, 'listed') for f in LISTED + ML_LISTED + PB_LISTED + LAZY_LISTED] + [gen_formula(rng) for _ in range(n)]
  doc = None
  used = 0
  path = 'modify'
  for f, tag in formulas:
    if doc is None or used >= 40:
      doc = Doc()
      used = 0
      path = rng.choice(['modify', 'modify', 'add'])
    used += 1
    v = check_one(doc, f, path, fresh_raises_fn(path))
    nontrivial = not re.match(r'\s*[0-9]*\s*\Z', f)
    ctx.count(('engine', path, f), nontrivial=nontrivial, sample={'formula': f, 'path': path, 'tag': tag},
              kind='engine:' + tag)
    if v:
      # confirm on a fresh document, so that the replay is self-contained
      w = {'formula': f, 'path': path}
      again = replay_full(w)
      if again is None:
        ctx.violation('history-dependent', 'on a used document: %s: %s; not reproduced on a fresh one' % v,
                      {'formula': f, 'path': path, 'note': 'failed only after other formula changes'})
      else:
        ctx.violation(again[0], again[1], w)
      ctx.bump('engine-outcome:' + (again or v)[0])
      doc = None
      if len(ctx.violations) > 400:
        break
    else:
      ctx.bump('engine-outcome:ok')
  ctx.log('engine oracle: %d formulas' % len(formulas))


def witness_formula(w):
  if 'formula' in w:
    return w['formula']
  unit, times, tail = w['formula_repeat']          # a long formula written compactly
  return unit * times + tail


def replay_full(w):
  doc = Doc()
  return check_one(doc, witness_formula(w), w.get('path', 'modify'), fresh_raises_fn(w.get('path', 'modify')))


def replay(ctx, w):
  v = replay_full(w)
  return None if v is None else '%s: %s' % v
