"""C11 -- Two-way references stay symmetric (K4: Model/TwoWay.v on top of Model/RefIndex.v)."""
import copy
import logging
import random

from harness import core

ID = 'C11'
TITLE = 'Two-way references stay symmetric'
PROPS = ['Props/C11', 'Props/C11_code']
RULE = ('(L0) get_reverse_adjustments is regenerated from reverse_references.py on every run and proved equal to the hand '
        'model (Proofs/TwoWay_gen.v); (L1) fresh documents with one two-way pair (Ref/RefList on either side, two tables '
        'or a self-referential pair, a few prior updates): one BulkUpdateRecord/BulkAddRecord on either side (valid, '
        'dangling, alt-text, repeated targets, repeated row ids, extra plain column) or one action writing both columns '
        'of a self pair, engine result (both columns, both reverse indexes, or the exception) vs the model; (L1\') '
        'AddReverseColumn and Ref<->RefList switches: the state handed to recalc_from_reverse_values and the result vs '
        'the model; (L2) the same for every single-column action on a pair inside random histories; (S) histories '
        '(edits of both sides, record removals, type switches, link creation/removal, undo; separate streams with '
        'repeated row ids, both-sides actions, ReplaceTableData): after every successful bundle every pair is '
        'symmetric on existing rows, a bundle rejected with the UNIQUE error leaves all reference cells unchanged. '
        'A case is non-trivial when the action succeeds on a pair / the history has a pair')
TRUSTED = ['harness/k4gen.py: fail-closed translator of get_reverse_adjustments (Python AST -> Gallina); its output is '
           'used by the theorems and is also run against the engine in every (L1)/(L2) case',
           'Model/TwoWay.v (prepare_new_values, _list_to_value, trimming, order of the doc actions, '
           'recalc_from_reverse_values) is hand-written; compared with the running engine on every run (vm_compute)',
           'column.convert is not modelled: the harness passes the converted values (it calls the real convert)',
           'Model/RefIndex.v as for C10']
ASSUMPTIONS = ['cell values are None, ints, lists of ints or strings',
               'twoway_symmetric_step is about the user action (repeated row ids are de-duplicated first, 060dc6b) and '
               'one column of the pair per action (false for both columns of a self pair: known finding)',
               'pair_ok: exact reverse indexes (C10), row ids in 1..2^31-1, references only between existing rows']
TECHNIQUE = ('Coq proof over an executable model whose core function is regenerated from source on every run + '
             'differential correspondence with the running engine (vm_compute) + implementation oracles on histories')
LEVEL_TEXT = ('Kernel-checked theorems, for all pair states, row lists and values: a successful user-level update (any row list: repeated ids '
              'are de-duplicated, last wins) or add of distinct new rows on either side keeps the pair symmetric (Ref or '
              'RefList on either side) and well formed; the UNIQUE '
              'error is raised exactly when a Ref side would get two referrers, and before anything is modified; '
              'recalc_from_reverse_values makes any pair symmetric; record removal keeps it symmetric. Repeated row ids '
              '(repaired by 060dc6b) and the stale index after ReplaceTableData (474dc3f) survive as regression examples '
              'and witnesses; both columns of a self pair in one action is proved as a counterexample and reported as a '
              'known finding.')
LEVEL_NOTE = ('Trusted: Coq kernel, the translator of get_reverse_adjustments, the hand-written glue model (validated '
              'differentially on every run), column.convert as tabulated by the harness. Metadata cascades of '
              'AddReverseColumn/ModifyColumn (reverseCol bookkeeping) are covered by the history oracle only.')

logging.disable(logging.CRITICAL)

IMPORTS = ['Grist.Model.RefIndex', 'Grist.Model.TwoWay', 'GristGen.RevAdj_gen']
GRA = 'get_reverse_adjustments'      # the function regenerated from reverse_references.py


def K():
  from harness import k4env
  return k4env


def GE():
  from harness import gristenv
  return gristenv


# ---------------------------------------------------------------------------------------------
# pairs in a running engine

def pairs_of(e):
  """[(ta, ca, tb, cb)] for every two-way pair of data columns, each pair once (A = the lower column ref)."""
  from harness import histgen
  m = histgen.Meta(e)
  out = []
  for cref, col in sorted(m.cols.items()):
    rc = col.get('reverseCol')
    if rc and rc in m.cols and (cref < rc or m.cols[rc].get('reverseCol') != cref):
      ta = m.tables[col['parentId']]['tableId']
      tb = m.tables[m.cols[rc]['parentId']]['tableId']
      out.append((ta, col['colId'], tb, m.cols[rc]['colId']))
  return out


def pair_term(e, ta, ca, tb, cb):
  k4 = K()
  A = e.tables[ta].get_column(ca)
  B = e.tables[tb].get_column(cb)
  return '{| p_a := %s; p_b := %s; p_rows_a := %s; p_rows_b := %s |}' % (
    k4.enc_col(A), k4.enc_col(B), k4.natlist(sorted(e.tables[ta].row_ids)), k4.natlist(sorted(e.tables[tb].row_ids)))


def asymmetry(e, ta, ca, tb, cb):
  """None if the pair is symmetric on existing rows, else a description."""
  if not (ta in e.tables and tb in e.tables and e.tables[ta].has_column(ca) and e.tables[tb].has_column(cb)):
    return None
  A = e.tables[ta].get_column(ca)
  B = e.tables[tb].get_column(cb)
  rows_a, rows_b = e.tables[ta].row_ids, e.tables[tb].row_ids
  for a in sorted(rows_a):
    for b in A._value_iterable(A.raw_get(a)):
      if b in rows_b and a not in B._value_iterable(B.raw_get(b)):
        return '%s.%s[%d] refers to %d but %s.%s[%d] = %r does not refer back' % (ta, ca, a, b, tb, cb, b, B.raw_get(b))
  for b in sorted(rows_b):
    for a in B._value_iterable(B.raw_get(b)):
      if a in rows_a and b not in A._value_iterable(A.raw_get(a)):
        return '%s.%s[%d] refers to %d but %s.%s[%d] = %r does not refer back' % (tb, cb, b, a, ta, ca, a, A.raw_get(a))
  return None


# ---------------------------------------------------------------------------------------------
# (L1) one user action on one side of a pair in a fresh document, engine vs model

TYPE = {'KRef': 'Ref:', 'KRefList': 'RefList:'}


def user_value(r, kind, rows, wild=True):
  x = r.random()
  if kind == 'KRef':
    if x < 0.15 or not rows:
      return r.choice([0, None])
    if wild and x < 0.22:
      return r.choice([99, 'zz'])
    return r.choice(rows)
  if x < 0.15 or not rows:
    return r.choice([None, ['L']])
  if wild and x < 0.24:
    return r.choice([['L', 99], 'zz', ['L', rows[0], rows[0]], '[%d]' % rows[-1]])
  return ['L'] + r.sample(rows, r.randint(1, min(3, len(rows))))


def build_pair(r):
  """A fresh document with one two-way pair; returns (engine, ta, ca, tb, cb, same_table) or None."""
  G = GE()
  ka, kb = r.choice(['KRef', 'KRefList']), r.choice(['KRef', 'KRefList'])
  same = r.random() < 0.25
  e, _ = G.new_doc()
  ta, tb = 'TA', ('TA' if same else 'TB')
  G.apply(e, [['AddTable', 'TA', [{'id': 'N', 'type': 'Int', 'isFormula': False}]]])
  if not same:
    G.apply(e, [['AddTable', 'TB', [{'id': 'N', 'type': 'Int', 'isFormula': False}]]])
  G.apply(e, [['BulkAddRecord', 'TA', [None] * r.randint(1, 4), {}]])
  if not same:
    G.apply(e, [['BulkAddRecord', 'TB', [None] * r.randint(1, 4), {}]])
  G.apply(e, [['AddColumn', 'TA', 'A', {'type': TYPE[ka] + tb, 'isFormula': False}]])
  G.apply(e, [['AddReverseColumn', 'TA', 'A']])
  ps = [p for p in pairs_of(e)]
  if len(ps) != 1:
    raise core.TieBroken('AddReverseColumn did not create one pair: %r' % (ps,))
  p = ps[0]
  (ta_, ca, tb_, cb) = p if p[1] == 'A' and p[0] == 'TA' else (p[2], p[3], p[0], p[1])
  if kb == 'KRef':
    G.apply(e, [['ModifyColumn', tb_, cb, {'type': 'Ref:' + ta_}]])
  for _ in range(r.randint(0, 4)):
    side = r.random() < 0.5
    t, c, kind, other = (ta_, ca, ka, tb_) if side else (tb_, cb, kb, ta_)
    rows = sorted(e.tables[t].row_ids)
    rs = r.sample(rows, r.randint(1, min(2, len(rows))))
    try:
      G.apply(e, [['BulkUpdateRecord', t, rs,
                   {c: [user_value(r, kind, sorted(e.tables[other].row_ids), wild=False) for _ in rs]}]])
    except Exception:      # pylint: disable=broad-except
      G.clean(e)
  return e, ta_, ca, tb_, cb, same, ka, kb


def both_case(r, e, t, ca, cb, ka, kb, rs):
  """One BulkUpdateRecord writing both columns of a self-referential pair."""
  k4, G = K(), GE()
  rows = sorted(e.tables[t].row_ids)
  va = [user_value(r, ka, rows) for _ in rs]
  vb = [user_value(r, kb, rows) for _ in rs]
  action = ['BulkUpdateRecord', t, rs, {ca: va, cb: vb}]
  A, B = e.tables[t].get_column(ca), e.tables[t].get_column(cb)
  try:
    conv_a = [A.convert(G.objtypes.decode_object(copy.deepcopy(v))) for v in va]
    conv_b = [B.convert(G.objtypes.decode_object(copy.deepcopy(v))) for v in vb]
    before = pair_term(e, t, ca, t, cb)
    hack = k4.hack_table([v for v in conv_a + conv_b if isinstance(v, str)], k4.any_rl_column())
    ta_, tb_ = (core.coq_list([k4.enc_cell(v) for v in conv]) for conv in (conv_a, conv_b))
  except k4.Unrepresentable:
    return None
  try:
    G.apply(e, [copy.deepcopy(action)])
    try:
      expected = '(Ok %s)' % pair_term(e, t, ca, t, cb)
    except k4.Unrepresentable:
      return None
    status = 'ok'
  except Exception as ex:      # pylint: disable=broad-except
    name = k4.enc_err(ex)
    if name is None:
      return None
    expected, status = '(Err %s)' % name, name
  term = '(user_update_both (hack_of %s) %s %s %s %s %s, %s)' % (hack, GRA, before, k4.natlist(rs), ta_, tb_, expected)
  return term, '%s on a self-referential %s/%s pair' % (action, ka, kb), status == 'ok', 'both:' + status, action


def pair_case(r):
  """One case: (coq term, description, nontrivial, histogram kind, replay dict) or None if not representable."""
  k4, G = K(), GE()
  e, ta, ca, tb, cb, same, ka, kb = build_pair(r)
  side_a = r.random() < 0.6
  t, c, kind, other = (ta, ca, ka, tb) if side_a else (tb, cb, kb, ta)
  rows = sorted(e.tables[t].row_ids)
  targets = sorted(e.tables[other].row_ids)
  add = r.random() < 0.25
  if add:
    n = r.randint(1, 2)
    rs = list(range(max(rows) + 1, max(rows) + 1 + n))
    if r.random() < 0.3:
      targets = targets + ([rs[0]] if other == t else [])
    ids = rs if r.random() < 0.5 else [None] * n
  else:
    rs = r.sample(rows, r.randint(1, min(3, len(rows))))
    if r.random() < 0.12:
      rs = rs + [r.choice(rs)]
    ids = rs
  if same and not add and r.random() < 0.4:
    return both_case(r, e, ta, ca, cb, ka, kb, rs)
  vals = [user_value(r, kind, targets) for _ in rs]
  colvals = {c: vals}
  if r.random() < 0.25:
    colvals['N'] = [r.choice([0, 1, 2]) for _ in rs]
  action = ['BulkAddRecord' if add else 'BulkUpdateRecord', t, ids, colvals]
  col = e.tables[t].get_column(c)
  try:
    conv = [col.convert(G.objtypes.decode_object(copy.deepcopy(v))) for v in vals]
    before = pair_term(e, ta, ca, tb, cb)
    hack = k4.hack_table([v for v in conv if isinstance(v, str)], k4.any_rl_column())
    conv_t = core.coq_list([k4.enc_cell(v) for v in conv])
  except k4.Unrepresentable:
    return None
  try:
    G.apply(e, [copy.deepcopy(action)])
    try:
      expected = '(Ok %s)' % pair_term(e, ta, ca, tb, cb)
    except k4.Unrepresentable:
      return None
    status = 'ok'
  except Exception as ex:      # pylint: disable=broad-except
    name = k4.enc_err(ex)
    if name is None:
      return None
    expected = '(Err %s)' % name
    status = name
  fn = ('add_%s (hack_of %s) %s %s' % ('a' if side_a else 'b', hack, GRA, core.boollit(same)) if add
        else 'user_update_%s (hack_of %s) %s' % ('a' if side_a else 'b', hack, GRA))
  term = '(%s %s %s %s, %s)' % (fn, before, k4.natlist(rs), conv_t, expected)
  dup = len(set(rs)) != len(rs)
  what = '%s on a %s/%s pair (%s), side %s' % (action, ka, kb, 'same table' if same else 'two tables', 'A' if side_a else 'B')
  return term, what, status == 'ok', '%s:%s%s' % ('add' if add else 'upd', status, ':dup' if dup else ''), action


def pair_cases(ctx):
  cases = []
  for i in range(ctx.n(160, 3000)):
    got = pair_case(ctx.rng)
    if got is None:
      ctx.bump('pair:unrepresentable')
      continue
    term, what, nontrivial, kind, action = got
    cases.append((term, what))
    ctx.count(('pair', term), nontrivial=nontrivial, kind='pair:' + kind,
              sample={'action': repr(action)[:200]} if i < 2 else None)
  bad = ctx.run_cases('pairs', IMPORTS, 'fun c => res_eqb pair_eqv (fst c) (snd c)', [c[0] for c in cases],
                      shard=60, timeout=600)
  for i in bad[:5]:
    ctx.broken('correspondence:TwoWay.update/add differs from the engine on a user action', cases[i][1])


# ---------------------------------------------------------------------------------------------
# (L1') recalc_from_reverse_values: AddReverseColumn and Ref<->RefList switches, engine vs model

GEN_TERMS = []     # generated recalc_from_reverse_values vs the running method (filled by recalc_case)


def recalc_case(r):
  """AddReverseColumn on a filled one-way column, or a type switch of one side of a pair."""
  k4, G = K(), GE()
  calls = []
  col_mod = k4.column_mod
  orig = col_mod.BaseReferenceColumn.__dict__.get('recalc_from_reverse_values')
  if orig is None:
    raise core.TieBroken('instrumentation point column.BaseReferenceColumn.recalc_from_reverse_values disappeared')

  def wrapped(self):
    snap = None
    if self._reverse_source_node:
      rev = self._target_table.get_column(self._reverse_source_node[1])
      try:
        snap = '{| p_a := %s; p_b := %s; p_rows_a := %s; p_rows_b := %s |}' % (
          k4.enc_col(self), k4.enc_col(rev), k4.natlist(sorted(self._table.row_ids)),
          k4.natlist(sorted(self._target_table.row_ids)))
      except k4.Unrepresentable:
        snap = 'unrepresentable'
    gen = None
    if snap not in (None, 'unrepresentable'):
      gen = '(gen_recalc_adjustments %s %s %s)' % (k4.enc_col(self), k4.kind_of(rev),
                                                  k4.natlist(list(self._target_table.row_ids)))
    try:
      out = orig(self)
      if gen is not None:
        try:
          pairs = [] if out is None else list(zip(out.row_ids, out.columns[rev.col_id]))
          GEN_TERMS.append('(res_eqb (list_eqb (fun x y => Nat.eqb (fst x) (fst y) && cell_eqb (snd x) (snd y))) %s (Ok %s))'
                           % (gen, core.coq_list(['(%s, %s)' % (k4.natlit(a), k4.enc_cell(v)) for a, v in pairs])))
        except k4.Unrepresentable:
          pass
      calls.append((snap, None, self, ))
      return out
    except Exception as ex:      # pylint: disable=broad-except
      if gen is not None and k4.enc_err(ex):
        GEN_TERMS.append('(res_eqb (list_eqb (fun x y => Nat.eqb (fst x) (fst y) && cell_eqb (snd x) (snd y))) %s (Err %s))'
                         % (gen, k4.enc_err(ex)))
      calls.append((snap, ex, self))
      raise

  if r.random() < 0.5:
    # AddReverseColumn on a one-way column with data
    ka = r.choice(['KRef', 'KRefList'])
    same = r.random() < 0.25
    e, _ = G.new_doc()
    tb = 'TA' if same else 'TB'
    G.apply(e, [['AddTable', 'TA', [{'id': 'N', 'type': 'Int', 'isFormula': False}]]])
    if not same:
      G.apply(e, [['AddTable', 'TB', [{'id': 'N', 'type': 'Int', 'isFormula': False}]]])
      G.apply(e, [['BulkAddRecord', 'TB', [None] * r.randint(0, 4), {}]])
    G.apply(e, [['BulkAddRecord', 'TA', [None] * r.randint(1, 4), {}]])
    G.apply(e, [['AddColumn', 'TA', 'A', {'type': TYPE[ka] + tb, 'isFormula': False}]])
    rows = sorted(e.tables['TA'].row_ids)
    targets = sorted(e.tables[tb].row_ids)
    G.apply(e, [['BulkUpdateRecord', 'TA', rows, {'A': [user_value(r, ka, targets) for _ in rows]}]])
    action = ['AddReverseColumn', 'TA', 'A']
    kind = 'reverse:' + ka
  else:
    e, ta, ca, tb, cb, same, ka, kb = build_pair(r)
    side_a = r.random() < 0.5
    t, c, k_old, other = (ta, ca, ka, tb) if side_a else (tb, cb, kb, ta)
    action = ['ModifyColumn', t, c, {'type': TYPE['KRef' if k_old == 'KRefList' else 'KRefList'] + other}]
    kind = 'switch:%s->other/%s' % (k_old, kb if side_a else ka)
  col_mod.BaseReferenceColumn.recalc_from_reverse_values = wrapped
  try:
    try:
      G.apply(e, [action])
      failed = None
    except Exception as ex:      # pylint: disable=broad-except
      failed = ex
  finally:
    col_mod.BaseReferenceColumn.recalc_from_reverse_values = orig
  calls = [c for c in calls if c[0] is not None]
  if len(calls) != 1 or calls[0][0] == 'unrepresentable':
    return None
  snap, exc, colobj = calls[0]
  if exc is not None:
    name = k4.enc_err(exc)
    if name is None:
      return None
    expected = '(Err %s)' % name
    status = name
  elif failed is not None:
    return None
  else:
    try:
      rev = colobj._target_table.get_column(colobj._reverse_source_node[1])
      expected = '(Ok {| p_a := %s; p_b := %s; p_rows_a := %s; p_rows_b := %s |})' % (
        k4.enc_col(colobj), k4.enc_col(rev), k4.natlist(sorted(colobj._table.row_ids)),
        k4.natlist(sorted(colobj._target_table.row_ids)))
    except k4.Unrepresentable:
      return None
    status = 'ok'
  return '(recalc_from_a (hack_of []) %s, %s)' % (snap, expected), repr(action), status == 'ok', '%s:%s' % (kind, status)


def recalc_cases(ctx):
  cases = []
  for i in range(ctx.n(50, 1200)):
    got = recalc_case(ctx.rng)
    if got is None:
      ctx.bump('recalc:skipped')
      continue
    term, what, nontrivial, kind = got
    cases.append((term, what))
    ctx.count(('recalc', term), nontrivial=nontrivial, kind='recalc:' + kind)
  bad = ctx.run_cases('recalc', IMPORTS, 'fun c => res_eqb pair_eqv (fst c) (snd c)', [c[0] for c in cases],
                      shard=60, timeout=600)
  for i in bad[:5]:
    ctx.broken('correspondence:TwoWay.recalc_from_a differs from recalc_from_reverse_values in the engine', cases[i][1])
  from harness import k4diff
  terms = list(GEN_TERMS)
  del GEN_TERMS[:]
  for t in terms:
    ctx.count(('genrecalc', t), nontrivial=True, kind='gen:recalc_from_reverse_values')
  bad = ctx.run_cases('genrecalc', k4diff.IMPORTS, 'fun c : bool => c', terms, shard=100, timeout=600)
  for i in bad[:3]:
    ctx.broken('translation:generated recalc_from_reverse_values differs from the running method', terms[i][:600])


def regenerate(ctx):
  import os
  from harness import k4gen, py2v
  try:
    text = k4gen.translate(os.path.join(core.GRIST, 'reverse_references.py'))
  except py2v.Untranslatable as ex:
    raise core.TieBroken('reverse_references.get_reverse_adjustments is outside the translated subset: %s' % ex)
  core.write_if_changed(os.path.join(core.COQ, 'gen', 'RevAdj_gen.v'), text)
  from harness import k4diff
  k4diff.regenerate(ctx)


def correspond(ctx):
  from harness import k4diff
  k4diff.relation_cases(ctx)
  k4diff.list_to_value_cases(ctx)
  pair_cases(ctx)
  ctx.log('pair cases done')
  recalc_cases(ctx)
  ctx.log('recalc cases done')
  hist_ties(ctx)
# END-CORRESPOND


# ---------------------------------------------------------------------------------------------
# (S) histories: symmetry of every pair after every bundle; uniqueness failures change nothing

STREAMS = {
  'main': dict(weights={'addreverse': 9, 'refupd': 18, 'refswitch': 5, 'unlink': 2, 'rmreferenced': 6, 'refadd': 8,
                        'addref': 6, 'rmrec': 6, 'rencol': 4, 'rentable': 3}, undo_prob=0.1),
  'dup': dict(weights={'addreverse': 9, 'dupupd': 9, 'refupd': 6}, undo_prob=0.0),
  'both': dict(weights={'addreverse': 9, 'bothsides': 12, 'refupd': 6, 'addref': 9}, undo_prob=0.0),
  'replace': dict(weights={'addreverse': 9, 'replacedata': 7, 'refupd': 10}, undo_prob=0.0),
}
KNOWN_KINDS = ('both_sides_in_one_action', 'replace_table_data_leaves_reverse_references', 'two_way_column_carries_formula')


def dedup_bundle(bundle):
  """The bundle with repeated row ids of every BulkUpdateRecord collapsed, the LAST value of a row winning."""
  out = []
  for a in bundle:
    if a[0] == 'BulkUpdateRecord' and len(set(a[2])) != len(a[2]):
      last = {}
      for i, rid in enumerate(a[2]):
        last[rid] = i
      keep = sorted(last.values())
      a = [a[0], a[1], [a[2][i] for i in keep], {c: [v[i] for i in keep] for c, v in a[3].items()}]
    out.append(a)
  return out


def has_repeated_ids(bundle):
  return any(a[0] == 'BulkUpdateRecord' and len(set(a[2])) != len(a[2]) for a in bundle)


def ref_snapshot(e):
  """Cells of the plain data reference columns (a column that carries a trigger formula may be recalculated by the
  Calculate that cleans up after a failed bundle: that is C04's subject, not a UNIQUE rejection changing data)."""
  k4 = K()
  return {(tid, cid): [copy.copy(c.raw_get(r)) for r in sorted(e.tables[tid].row_ids)]
          for tid, cid, c in k4.ref_columns(e) if not c.has_formula()}


class Oracle(object):
  def __init__(self, visible_only=False):
    self.visible_only = visible_only
    self.issues = []
    self.stats = {}
    self.pair_actions = []     # (L2) single user actions on one side of a pair: coq cases

  def bump(self, k):
    self.stats[k] = self.stats.get(k, 0) + 1

  def before(self, e, bundle):
    tok = {'pairs': pairs_of(e), 'cells': ref_snapshot(e), 'rows': {t: set(e.tables[t].row_ids) for t in e.tables}}
    tok['asym'] = {p for p in tok['pairs'] if asymmetry(e, *p)}
    if not self.visible_only:
      k4 = K()
      tok['stale'] = {(tid, cid) for tid, cid, c in k4.ref_columns(e) if k4.index_exact(c)}
    return tok

  def after(self, e, bundle, out, tok, history, exc):
    k4 = K()
    self.bump('bundles')
    if out is None:
      self.bump('bundles_failed')
      if isinstance(exc, k4.column_mod.UniqueReferenceError):
        self.bump('unique_rejections')
        now = ref_snapshot(e)
        if now != tok['cells']:
          self.issues.append(('unique_violation_changed_document',
                              'bundle %r failed with the UNIQUE error but reference cells changed' % (bundle,)))
          return 'stop'
      # the rollback of a ReplaceTableData is a ReplaceTableData: the same clear() that keeps the relation
      for tid, cid, c in ([] if self.visible_only else k4.ref_columns(e)):
        d = k4.index_exact(c)
        if d and (tid, cid) not in tok.get('stale', set()):
          replaced = any(a[0] == 'ReplaceTableData' and a[1] == tid for a in bundle)
          self.issues.append(('replace_table_data_breaks_two_way' if replaced else 'stale_index_after_failed_bundle',
                              'after the failed bundle %r the reverse index of %s.%s is not the reverse of its cells: %s'
                              % (bundle, tid, cid, d)))
          return 'stop'
      return None
    pairs = pairs_of(e)
    self.bump('pairs_checked', ) if pairs else None
    # ReplaceTableData removes rows without the cleanup of doBulkRemoveRecord (finding C10-replace-table-data-no-cleanup):
    # the other side of a pair keeps pointing at them, and a later row that re-uses the id is not pointed back from.
    for (ta, ca, tb, cb) in pairs:
      for (t1, c1, t2) in ((ta, ca, tb), (tb, cb, ta)):
        gone = tok['rows'].get(t2, set()) - set(e.tables[t2].row_ids)
        if gone and any(a[0] == 'ReplaceTableData' and a[1] == t2 for a in bundle):
          col = e.tables[t1].get_column(c1)
          for r in e.tables[t1].row_ids:
            hit = [t for t in col._value_iterable(col.raw_get(r)) if t in gone]
            if hit:
              self.issues.append(('replace_table_data_leaves_reverse_references',
                                  'after %r: %s.%s[%d] still refers to the removed %s row %d of its two-way partner'
                                  % (bundle, t1, c1, r, t2, hit[0])))
              return 'stop'
    for p in pairs:
      d = asymmetry(e, *p)
      if not d or p in tok['asym']:
        continue
      ta, ca, tb, cb = p
      both = any(a[0] in ('BulkUpdateRecord', 'UpdateRecord', 'BulkAddRecord', 'AddRecord', 'ReplaceTableData')
                 and ta == tb and a[1] == ta
                 and ca in (a[3] or {}) and cb in (a[3] or {}) for a in bundle)
      replaced = any(a[0] == 'ReplaceTableData' and a[1] in (ta, tb) for a in bundle)
      carries_formula = any(e.tables[t].get_column(c).has_formula() for t, c in ((ta, ca), (tb, cb)))
      if carries_formula:
        # a DATA column with a default/trigger formula was accepted as one side of a pair: the values its formula
        # computes are stored as calc changes, without the reverse adjustments of prepare_new_values
        kind = 'two_way_column_carries_formula'
      elif has_repeated_ids(bundle):
        kind = 'bulk_update_with_repeated_row_id'
      elif both:
        kind = 'both_sides_in_one_action'
      elif replaced:
        kind = 'replace_table_data_breaks_two_way'
      else:
        kind = 'asymmetric_pair'
      self.issues.append((kind, 'after %r: %s' % (bundle, d)))
      return 'stop'
    # monitor of the theorems' hypothesis (pair_ok: exact reverse indexes): the adjustments are computed from the
    # reverse index, so a stale one makes later updates wrong.  After ReplaceTableData it IS stale (cf. C10).
    for tid, cid, c in ([] if self.visible_only else k4.ref_columns(e)):
      if not any((tid, cid) in ((p[0], p[1]), (p[2], p[3])) for p in pairs):
        continue
      d = k4.index_exact(c)
      if d and (tid, cid) not in tok.setdefault('stale', set()):
        replaced = any(a[0] == 'ReplaceTableData' and a[1] == tid for a in bundle)
        self.issues.append(('replace_table_data_breaks_two_way' if replaced else 'stale_index_on_pair',
                            'after %r the reverse index of the two-way column %s.%s is not the reverse of its cells: %s'
                            % (bundle, tid, cid, d)))
        return 'stop'
    return None


class TieOracle(Oracle):
  """Also turns every single user action on ONE side of a pair (in a real history) into a model case (L2)."""
  def before(self, e, bundle):
    tok = Oracle.before(self, e, bundle)
    tok['case'] = None
    if len(bundle) == 1 and bundle[0][0] in ('BulkUpdateRecord', 'BulkAddRecord') and bundle[0][1] in e.tables:
      k4, G = K(), GE()
      a = bundle[0]
      t = a[1]
      for (ta, ca, tb, cb) in tok['pairs']:
        named = [c for c in (a[3] or {}) if (t, c) in ((ta, ca), (tb, cb))]
        others = [c for c in (a[3] or {}) if (t, c) not in ((ta, ca), (tb, cb))]
        if len(named) != 1:
          continue
        if e.tables[ta].get_column(ca).has_formula() or e.tables[tb].get_column(cb).has_formula():
          continue      # formula recalculation on a pair column is not part of the model (known finding)
        if any(isinstance(e.tables[t].get_column(c), k4.column_mod.BaseReferenceColumn) for c in others
               if e.tables[t].has_column(c)):
          continue
        side_a = (t, named[0]) == (ta, ca)
        add = a[0] == 'BulkAddRecord'
        ids = list(a[2])
        if add:
          if not all(i is None for i in ids):
            continue
          nxt = max(list(e.tables[t].row_ids) + [0]) + 1
          ids = list(range(nxt, nxt + len(ids)))
        if not all(type(i) is int and i > 0 for i in ids):
          continue
        col = e.tables[t].get_column(named[0])
        try:
          conv = [col.convert(G.objtypes.decode_object(copy.deepcopy(v))) for v in a[3][named[0]]]
          hack = k4.hack_table([v for v in conv if isinstance(v, str)], k4.any_rl_column())
          fn = ('add_%s (hack_of %s) %s %s' % ('a' if side_a else 'b', hack, GRA, core.boollit(ta == tb)) if add
                else 'user_update_%s (hack_of %s) %s' % ('a' if side_a else 'b', hack, GRA))
          tok['case'] = ((ta, ca, tb, cb), '(%s %s %s %s' % (fn, pair_term(e, ta, ca, tb, cb), k4.natlist(ids),
                                                          core.coq_list([k4.enc_cell(v) for v in conv])))
        except k4.Unrepresentable:
          self.bump('tie:unrepresentable')
        break
    return tok

  def after(self, e, bundle, out, tok, history, exc):
    k4 = K()
    if tok.get('case'):
      p, head = tok['case']
      try:
        if out is not None:
          self.pair_actions.append(('%s, Ok %s)' % (head, pair_term(e, *p)), repr(bundle)))
          self.bump('tie:ok')
        elif k4.enc_err(exc):
          self.pair_actions.append(('%s, Err %s)' % (head, k4.enc_err(exc)), repr(bundle)))
          self.bump('tie:' + k4.enc_err(exc))
      except (k4.Unrepresentable, KeyError, AttributeError):
        self.bump('tie:unrepresentable')
    return Oracle.after(self, e, bundle, out, tok, history, exc)


def hist_ties(ctx):
  from harness import k4hist
  cases = []
  for h in range(ctx.n(14, 200)):
    orc = TieOracle()
    k4hist.run_history(random.Random(ctx.rng.getrandbits(32)), ctx.n(14, 18), before_bundle=orc.before,
                       after_bundle=orc.after, max_len=1, **STREAMS['main'])
    cases.extend(orc.pair_actions)
    for k, v in orc.stats.items():
      if k.startswith('tie:'):
        ctx.bump('hist' + k, v)
  for term, what in cases:
    ctx.count(('histtie', term), nontrivial=True, kind='histtie')
  bad = ctx.run_cases('histties', IMPORTS, 'fun c => res_eqb pair_eqv (fst c) (snd c)', [c[0] for c in cases],
                      shard=60, timeout=600)
  for i in bad[:5]:
    ctx.broken('correspondence:TwoWay.update/add differs from the engine on a user action of a real history', cases[i][1])
  ctx.log('history ties done')


def run_stream(ctx, stream, n_hist, nb):
  from harness import k4hist
  issues, stats = [], {}
  for h in range(n_hist):
    seed = ctx.rng.getrandbits(32)
    orc = Oracle()
    e, history, gen = k4hist.run_history(random.Random(seed), nb, before_bundle=orc.before, after_bundle=orc.after,
                                         **STREAMS[stream])
    for k, v in list(orc.stats.items()) + [('gen:' + k, v) for k, v in gen.stats.items()]:
      stats[k] = stats.get(k, 0) + v
    for kind, what in orc.issues:
      issues.append({'kind': kind, 'what': what, 'stream': stream, 'seed': seed, 'history': history})
    ctx.count(('hist', stream, seed), nontrivial=stats.get('pairs_checked', 0) > 0, kind='history:' + stream)
  for k, v in sorted(stats.items()):
    ctx.bump('%s:%s' % (stream, k), v)
  return issues


def first_issue(history, kind=None, visible_only=False):
  from harness import k4hist
  orc = Oracle(visible_only=visible_only)
  k4hist.replay_history(history, before_bundle=orc.before, after_bundle=orc.after)
  for k, what in orc.issues:
    if kind is None or k == kind:
      return k, what
  return None


def shrink(history, kind):
  from harness import histgen
  try:
    return histgen.shrink_list(history, lambda h: first_issue(h, kind) is not None, max_steps=60)
  except Exception:      # pylint: disable=broad-except
    return history


def fixed_corpus(ctx):
  """Witnesses of repaired defects stay in the corpus and are run first: a regression is a violation again."""
  for k in core.load_known():
    if k['property'] == ID and k.get('kind') == 'fixed' and k.get('witness'):
      try:
        d = replay(ctx, k['witness'])
      except Exception as ex:      # pylint: disable=broad-except
        d = 'replay raised %r' % (ex,)
      ctx.count(('fixed', k['id']), nontrivial=True, kind='fixed-witness:' + ('fails-again' if d else 'holds'))
      if d:
        ctx.violation(k.get('violation_kind') or 'regression',
                      'repaired by %s, fails again: %s' % (k.get('commit'), d), k['witness'])


def search(ctx):
  fixed_corpus(ctx)
  sizes = {'main': (ctx.n(30, 500), ctx.n(12, 16)), 'dup': (ctx.n(6, 60), 8), 'both': (ctx.n(8, 80), 10),
           'replace': (ctx.n(6, 60), 8)}
  seen = set()
  for stream in ('main', 'dup', 'both', 'replace'):
    for iss in run_stream(ctx, stream, *sizes[stream]):
      if iss['kind'] in seen and iss['kind'] in KNOWN_KINDS:
        continue
      seen.add(iss['kind'])
      rep = {'history': iss['history'], 'kind': iss['kind'], 'seed': iss['seed'], 'stream': iss['stream']}
      if iss['kind'] == 'bulk_update_with_repeated_row_id':
        # narrow classification: the same history with the repeated ids collapsed (last value wins) is symmetric
        fixed = iss['history'][:-1] + [dedup_bundle(iss['history'][-1])]
        rep['dedup_symmetric'] = first_issue(fixed) is None
      elif iss['kind'] not in KNOWN_KINDS:
        rep['history'] = shrink(iss['history'], iss['kind'])
      ctx.violation(iss['kind'], iss['what'], rep)
    ctx.log('stream %s done' % stream)


def replay(ctx, w):
  got = first_issue(w['history'], w.get('kind'), visible_only=bool(w.get('visible_only')))
  return got[1] if got else None


def bulk_update_with_repeated_row_id(violation, entry):
  """Only: asymmetry right after a bundle with a BulkUpdateRecord naming a row twice, gone when de-duplicated."""
  return (violation.get('kind') == 'bulk_update_with_repeated_row_id'
          and violation.get('replay', {}).get('dedup_symmetric') is True)


MATCHERS = {'bulk_update_with_repeated_row_id': bulk_update_with_repeated_row_id}
