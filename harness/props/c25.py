"""C25 -- Migrations are total and reach the current schema (migrations.create_migrations, TableDataSet)."""
import ast
import copy
import inspect
import json
import os
import struct
import traceback

from harness import core

ID = 'C25'
TITLE = 'Migrations are total and reach the current schema'
PROPS = ['Props/C25', 'Props/C25_bodies']
RULE = ('Documents "at version K" are generated offline for every K in 0..SCHEMA_VERSION: the version-0 schema of '
        'test_migrations + the real migrations 1..K give the version-K metadata schema; every metadata table gets 0-3 '
        'rows of type-correct cells in the form create_migrations receives them (references to existing rows or 0, '
        'Bool as True/False/0/1, RefList/ChoiceList as None or JSON text), 0-3 consistent user tables with data '
        '(Ref/Image/Derived columns, old- and new-style summary tables), plus schema variants (lax version-0 docs, the '
        'two divergent version-38 schemas). Text cells: stream "expected" = the shape each migration parses + '
        'non-JSON text; stream "anyjson" = valid JSON of every other shape. Separate streams: user tables whose names '
        'look like old summary tables, documents at/after the current version, ORPHANS (a consistent document plus one '
        'record referencing nothing: a column record of no table - parentId 0 or dangling, any type - or a dangling '
        'reference cell in any metadata record; inside the premise, failures are violations), and a robustness stream of '
        'referentially or type-inconsistent documents (counted, outside the premise). correspond: (a) random action '
        'streams (all 14 kinds, errors included) through the TableDataSet model; (b) the real create_migrations, '
        'instrumented, on "expected" documents of every version: driver model with the recorded per-migration '
        'actions, and the returned actions replayed on the document in the model, compared with the real '
        'TableDataSet, with meta_only / schema-subsequence / user-table frame evaluated; (c) in the same cases every '
        'modelled migration body is evaluated on the tdset the real migration ran on (oracle tables for json, re, '
        'pick_*_ident taken from that run) and must emit exactly the recorded actions, and the decidable premise of its '
        'totality theorem must hold there; extra documents just below each early hand-modelled migration. A case is non-trivial when '
        'at least one migration runs or the document has user tables.')
TRUSTED = ['Model/Migrate.v is hand-written: TableDataSet (14 actions + exception classes) and the driver of '
           'create_migrations; compared with the running code on every run (vm_compute, exact states)',
           'Model/MigrateBodies.v: the BODIES of all 46 migrations are modelled - 21 by hand (1, 2, 3, 4, 7, 10, 15, 16, '
           '17, 20, 25, 26, 28, 29, 30, 31, 34, 35, 39, 40, 45), 25 translated from migrations.py on every run as constant '
           'action lists (coq/gen/MigrateConst_gen.v; fail closed) - and each is compared on every run with the actions '
           'the real migration emitted, on the exact tdset it ran on, for generated documents of every version',
           'oracles inside the body models (arbitrary functions, tabulated from the real run for the tie): json.loads / '
           'json.dumps, int(x / 1000), str() of a JSON value, re (summary_re.match, re.sub), '
           'identifiers.pick_col_ident / pick_table_ident (their own properties are C21)',
           'still NOT modelled: the loading prelude of create_migrations (build_schema, AddTable/BulkAddRecord of the input)',
           'monitor: every migration returns tdset.apply_doc_actions(...) and mutates the tdset in no other way '
           '(AST check + final tdset compared with the model)',
           'row ids are ints or None, column ids are strings; floats are never printed (str of a float) and nan is never '
           'ordered in the model: documents outside that domain are skipped and counted',
           'Model/MigrateSites.v: raise-only model of the six JSON-reading sites (kept; now subsumed by the body models)']
ASSUMPTIONS = ['premise of the search: metadata cells hold values of their declared types as stored in the document file '
               '(records that reference nothing included; only tables without column records and type-incorrect cells are '
               'left to the robustness stream). The totality theorems ask more where the code looks a reference up (and '
               'for migrations 7 and 10 more than necessary: every column must name a table); each theorem states its own premise as a '
               'decidable check (pre4 .. pre45 in Model/MigrateBodies.v) that the harness evaluates on every generated '
               'document just before the real migration runs on it',
               'C25_version_after_migration: _grist_DocInfo still has record 1 first and a schemaVersion column when '
               'the final update is applied (checked on every generated document)']
TECHNIQUE = ('Coq proofs about hand-written and translated models of the doc-action interpreter, the migration driver and '
             'all 46 migration bodies + exact differential replay of the real migrations in the models + implementation '
             'oracle on generated documents of every schema version')
LEVEL_TEXT = ('kernel. Driver and interpreter, for ALL migration functions: a current document yields only the '
              'schemaVersion update (one column of _grist_DocInfo); the driver runs exactly versions doc_version+1..current '
              'once each in order and adds no failure of its own; actions not naming a table leave it untouched; the schema '
              'is determined by the schema-action subsequence. Migration BODIES (all 46 modelled, each tied to the real '
              'emitted actions on every run): proved total - the body returns for every Text cell content (JSON parsing an '
              'oracle: any value or failure) and what it emits applies - on documents satisfying a stated, decidable, '
              'type-correctness premise for the 19 hand-modelled migrations 1, 2, 3, 4, 10, 15, 16, 17, 20, 25, 26, 28, 29, 30, '
              '34, 35, 39, 40, 45 and for the 25 constant-body migrations 5, 6, 8, 9, 11, 12, 13, 14, 18, 19, 21, 22, 23, 24, 27, '
              '32, 33, 36, 37, 38, 41, 42, 43, 44, 46 (generic theorems on the translated lists) = 44 of 46; migration 7: the '
              'body returns under the premise that excludes names like Summary_Foo (C25_m7_body_total) and raises '
              'without it (C25_m7_refuted, the known finding); migration 31: the body returns (C25_m31_body_total). NOT '
              'proved: that the RenameTable/RemoveColumn/... actions emitted by 7 and 31 apply (tied only); nor that the metadata schema reached equals '
              'schema_create_actions() (searched on generated documents of every version).')
LEVEL_NOTE = ('Trusted: Coq kernel; the hand-written models (each tied by exact replay every run); the oracles json, re, '
              'identifiers.pick_*_ident, float division; the unmodelled loading prelude. The premises of the totality '
              'theorems are evaluated on every generated document (they hold on all of them).')

GRIST = '_grist_'

# ---------------------------------------------------------------------------------------------
# Text pools.  'expected' = the shapes each migration expects (plus non-JSON text); 'anyjson' = valid JSON of
# every other shape.  Both are inside the property's premise (arbitrary text in Text cells).

JSON_SHAPES = ['[1,2]', '5', '"s"', 'null', 'true', '[]', '{}', '{"a":1}', '1.5', '[{"a":1}]', '""', '0', '"3"',
               '[[1]]', '-1']
NONJSON = ['', 'x', 'not json', '[[', '{"a"', "{'a':1}", 'Unicodé ☃']
GENERIC_TEXT = ['', 'x', 'Table1', 'A', '{"a":1}', '[1,2]', 'null', '5', 'Unicodé ☃', 'record', 'detail']

EXPECTED = {
  'widgetOptions': ['', '{}', '{"visibleCol":"A"}', '{"visibleCol":"id"}', '{"visibleCol":"B","alignment":"left"}',
                    '{"widget":"TextBox","rulesOptions":[{"fillColor":"#fff"}]}', 'not json', '{"visibleCol":""}'],
  'filterSpec': ['', '{}', '{"1":[1,2]}', '{"2":["a"],"3":[]}', 'junk', '{"1":{"included":[1]}}'],
  'filter': ['', '{"included":["a"]}', '{"excluded":[1]}'],
  'options': ['', '{}', '{"filterBar":true}', '{"filterBar":false,"x":1}', '{"verticalGridlines":true}', 'junk'],
  'aclFormulaParsed': ['', '["Comment",["Const",true],"memo text"]', '["Const",true]', '["Name","user"]', '[]',
                       'junk'],
  'content': ['', '{"text":"x"}',
              '{"userName":"u","text":"t","timeCreated":1700000000000,"timeUpdated":1700000000500,"resolved":true}',
              '{"timeCreated":1.5e12}', '{"resolved":false}', 'plain text comment', '{"timeCreated":null}'],
  'formula': ['', '$A+1', 'Foo.lookupOrAddDerived($A,$B)', 'GristSummary_3_Foo.lookupOne(A=$A)',
              'Foo.lookupRecords(Summary_Foo_1=$id)', 'x.lookupOrAddDerived( $A )'],
}
ODD = {   # valid JSON whose shape is not the expected one, per column name
  'widgetOptions': JSON_SHAPES + ['{"visibleCol":5}', '{"visibleCol":["x"]}', '{"visibleCol":{"a":1}}'],
  'filterSpec': JSON_SHAPES + ['{"1":5}'],
  'filter': JSON_SHAPES,
  'options': JSON_SHAPES + ['{"filterBar":[1]}', '{"filterBar":"no"}'],
  'aclFormulaParsed': JSON_SHAPES + ['["Comment"]', '["Comment",1]', '["Comment",1,{"a":2}]', '{"0":"Comment"}'],
  'content': JSON_SHAPES + ['{"timeCreated":"x"}', '{"timeCreated":[1]}', '{"timeUpdated":"7"}', '{"resolved":5}',
                            '{"timeCreated":true}', '{"timeCreated":NaN}', '{"timeUpdated":1e999}',
                            '{"timeCreated":{"a":1}}'],
  'formula': JSON_SHAPES,
}
# RefList / ChoiceList cells as create_migrations receives them from the document file: None or JSON text
REFLIST_DB = [None, '[1]', '[2,3]', '[]', '[99]', '[1,1]']
CHOICELIST_DB = [None, '["add"]', '["add","update"]', '[]']

USER_TYPES = ['Text', 'Int', 'Numeric', 'Any', 'Bool', 'Date', 'DateTime:UTC', 'Choice', 'Attachments']
USER_COLIDS = ['A', 'B', 'C', 'manualSort', 'gristHelper_Display', 'group', 'Name', '#lookup']
TABLE_NAMES = ['Table1', 'Foo', 'Bar', 'People']

# references that a consistent document never leaves empty (a view section always shows some table)
REQUIRED_REFS = {('_grist_Views_section', 'tableRef')}

_cache = {}


def mods():
  """The implementation modules (imported lazily: core.GRIST is on sys.path only inside ./check)."""
  if 'm' not in _cache:
    import actions, migrations, schema, table_data_set, test_migrations, usertypes
    _cache['m'] = (actions, migrations, schema, table_data_set, test_migrations, usertypes)
  return _cache['m']


def current_version():
  return mods()[2].SCHEMA_VERSION


def meta_at(version):
  """An EMPTY document's TableDataSet at metadata schema `version`: the version-0 schema of test_migrations
  with the real migrations 1..version applied (deep copy; built once per run)."""
  actions, migrations, schema, table_data_set, test_migrations, _ = mods()
  if 'at' not in _cache:
    tds = table_data_set.TableDataSet()
    tds.apply_doc_actions(test_migrations.schema_version0())
    at = [copy.deepcopy(tds)]
    for v in range(1, schema.SCHEMA_VERSION + 1):
      migrations.all_migrations.get(v, migrations.noop_migration)(tds)
      at.append(copy.deepcopy(tds))
    _cache['at'] = at
  return copy.deepcopy(_cache['at'][version])


def current_meta_schema():
  _, _, schema, _, _, _ = mods()
  return {a.table_id: {c['id']: dict(c) for c in a.columns} for a in schema.schema_create_actions()}


# ---------------------------------------------------------------------------------------------
# Generated old-version documents

def text_cell(rng, col, stream):
  if col in EXPECTED:
    if stream == 'anyjson' and rng.random() < 0.6:
      return rng.choice(ODD[col])
    return rng.choice(EXPECTED[col])
  r = rng.random()
  if r < 0.6:
    return rng.choice(GENERIC_TEXT)
  return rng.choice(NONJSON if r < 0.8 else JSON_SHAPES)


def gen_cell(rng, ctable, col, ctype, ids_of, stream):
  """A cell of declared type `ctype`, in the form create_migrations receives it from the document file."""
  pure = ctype.split(':', 1)[0]
  if pure in ('Text', 'Choice'):
    return text_cell(rng, col, stream)
  if pure == 'Any':
    return rng.choice([None, 'x', 1])
  if pure == 'Int':
    return rng.choice([0, 0, 1, 2, 7, -1, 100])
  if pure in ('Numeric', 'DateTime', 'Date'):
    return rng.choice([None, 0.0, 1.0, 2.5, 3, 1700000000.0]) if pure != 'Numeric' else rng.choice([0.0, 1.0, 2.5, 3])
  if pure in ('PositionNumber', 'ManualSortPos'):
    return rng.choice([1.0, 2.0, 3.5, 4, 10.25, float('inf')])
  if pure == 'Bool':
    return rng.choice([True, False, 0, 1])
  if pure == 'Ref':
    ids = ids_of.get(ctype.split(':', 1)[1], [])
    if (ctable, col) in REQUIRED_REFS and stream != 'robust':
      return rng.choice(list(ids))
    return rng.choice(list(ids) + [0]) if ids else 0
  if pure == 'RefList':
    return rng.choice(REFLIST_DB)
  if pure == 'ChoiceList':
    return rng.choice(CHOICELIST_DB)
  return None


def user_value(rng, ctype):
  pure = ctype.split(':', 1)[0]
  return {'Text': rng.choice(['', 'a', 'b']), 'Int': rng.choice([0, 1, 5]), 'Numeric': rng.choice([0.0, 1.5]),
          'Bool': rng.choice([True, False]), 'Ref': rng.choice([0, 1]), 'Image': rng.choice([None, 0, 3, -2, 'x']),
          'Choice': 'a'}.get(pure, None)


def plan_user_tables(rng, version, variant):
  """[(tableId, summarySourceIndex or None, [dict(colId,type,isFormula,formula,src)])]; column row ids are
  assigned in this order starting at 1, so an old-style summary table name can carry its source's column refs."""
  names = rng.sample(TABLE_NAMES, rng.choice([0, 1, 1, 2, 2, 3]))
  types = USER_TYPES + ['Ref:' + n for n in names] + ['RefList:' + n for n in names[:1]]
  if version < 17:
    types += ['Image', 'Image']
  if version < 3:
    types += ['Derived', 'Derived']
  tables, next_col = [], [1]
  def mkcol(colId, ctype, isFormula=False, formula='', src=0):
    c = dict(colId=colId, type=ctype, isFormula=isFormula, formula=formula, src=src, ref=next_col[0])
    next_col[0] += 1
    return c
  for n in names:
    cols = [mkcol(cid, rng.choice(types), rng.random() < 0.3) for cid in rng.sample(USER_COLIDS, rng.randint(1, 3))]
    tables.append([n, None, cols])
  if names and version < 7 and rng.random() < 0.6:            # old-style summary table Summary_<Src>_<ref>_<ref>
    si = rng.randrange(len(tables))
    src, _, scols = tables[si]
    gb = [c for c in rng.sample(scols, rng.randint(1, min(2, len(scols)))) if c['colId'] != 'group']
    name = 'Summary_%s_%s' % (src, '_'.join(str(c['ref']) for c in gb))
    if variant == 'summary_norefs':
      name, gb = 'Summary_%s' % src, []       # a user table that merely LOOKS like an old summary table
    if gb or variant == 'summary_norefs':
      cols = [mkcol(c['colId'], c['type']) for c in gb]
      cols.append(mkcol('group', 'Any', True, '%s.lookupRecords(%s=$id)' % (src, name)))
      if rng.random() < 0.5:
        cols.append(mkcol('manualSort2', 'Numeric'))
      scols.append(mkcol(name, 'Any', True, '%s.lookupOrAddDerived($A,$B)' % name))
      tables.append([name, None, cols])
  if names and version >= 7 and rng.random() < 0.6:           # summary table with summarySourceTable
    si = rng.randrange(len(tables))
    src, _, scols = tables[si]
    gb = rng.sample(scols, rng.randint(0, min(2, len(scols))))
    name = rng.choice(['GristSummary_%d_%s' % (len(src), src), src + '_summary',
                       src + '_summary_' + '_'.join(sorted(c['colId'] for c in gb))]).rstrip('_')
    if name not in [t[0] for t in tables]:
      cols = [mkcol(c['colId'], c['type'], src=c['ref']) for c in gb]
      cols.append(mkcol('count', 'Int', True, 'len($group)'))
      tables.append([name, si, cols])
  return tables


def boost(rng, tds, version, plan):
  """Make the data-dependent branches of the parsing migrations likely: cells that refer to each other."""
  T = tds.all_tables
  sec, fld_, col = T['_grist_Views_section'], T['_grist_Views_section_field'], T['_grist_Tables_column']
  if version < 15 and sec.row_ids and fld_.row_ids:
    fld_.columns['parentId'][0] = sec.row_ids[0]
    sec.columns['filterSpec'][0] = json.dumps({str(fld_.columns['colRef'][0]): rng.choice([[1, 2], {'included': ['a']}, 5])})
  if version < 16:
    for i, ty in enumerate(col.columns['type']):
      if isinstance(ty, str) and ty.startswith('Ref:'):
        target = [p for p in plan if p[0] == ty[4:]]
        vis = rng.choice([c['colId'] for c in target[0][2]] + ['id']) if target else 'A'
        col.columns['widgetOptions'][i] = json.dumps({'visibleCol': vis, 'alignment': 'left'})
        if fld_.row_ids:
          fld_.columns['colRef'][0] = col.row_ids[i]
          fld_.columns['widgetOptions'][0] = json.dumps({'wrap': True, 'visibleCol': vis})
        break
  acl = T.get('_grist_ACLRules')
  if acl is not None and 'aclFormulaParsed' in acl.columns and 'memo' not in acl.columns and acl.row_ids:
    acl.columns['aclFormulaParsed'][-1] = rng.choice(['["Comment",["Const",true],"memo text"]',
                                                      '["Comment",["Name","x"],{"a":[1]},4]'])
  if 'rules' in col.columns and version < 29 and col.row_ids:
    col.columns['rules'][0] = rng.choice(['[99]', '[%d]' % col.row_ids[-1], '5'])
    col.columns['widgetOptions'][0] = rng.choice(['{"rulesOptions":[1],"widget":"TextBox"}', '', 'junk', '{}'])


class Doc(object):
  """A generated document: `tds` is the real TableDataSet holding it (metadata + user tables)."""
  def __init__(self, version, stream, variant, tds, user_tables, extra=()):
    self.version, self.stream, self.variant, self.tds, self.user_tables = version, stream, variant, tds, user_tables
    self.extra = list(extra)        # schema actions applied to the empty version-K document first (variants)

  def all_tables(self, metadata_only=False):
    return {t: copy.deepcopy(d) for t, d in self.tds.all_tables.items()
            if not metadata_only or t.startswith(GRIST)}


def gen_doc(rng, version, stream='expected', variant=None):
  actions = mods()[0]
  tds = meta_at(version)
  extra = []
  if variant == 'v0_lax' and version == 0:
    # "test docs" from before versions were distinguished: migration 1 creates what is missing
    for a in (actions.RemoveTable('_grist_Attachments'), actions.RemoveTable('_grist_TabItems'),
              actions.RemoveColumn('_grist_DocInfo', 'schemaVersion')):
      if rng.random() < 0.6:
        extra.append(a)
  if variant == 'mishap38' and version == 38:
    # the two divergent version-38 schemas that migration 39 reconciles
    if rng.random() < 0.5:
      for c, t in (('memo', 'Text'), ('label', 'Text'), ('enabled', 'Bool')):
        extra.append(actions.AddColumn('_grist_Triggers', c, dict(id=c, type=t, isFormula=False, formula='')))
    else:
      extra.append(actions.AddColumn('_grist_Views_section', 'description',
                                     dict(id='description', type='Text', isFormula=False, formula='')))
  tds.apply_doc_actions(extra)
  sch = tds.get_schema()
  plan = plan_user_tables(rng, version, variant)
  # row ids of every metadata table, fixed first so that references can point anywhere
  ids_of = {}
  for t in sorted(tds.all_tables):
    if not t.startswith(GRIST):
      continue
    have = list(tds.all_tables[t].row_ids)
    base = max(have + [0])
    if t == '_grist_DocInfo':
      new = []
    elif t == '_grist_Tables':
      new = list(range(base + 1, base + 1 + len(plan)))
    elif t == '_grist_Tables_column':
      new = list(range(base + 1, base + 1 + sum(len(p[2]) for p in plan)))
    else:
      new = list(range(base + 1, base + 1 + rng.choice([0, 0, 1, 2, 3])))
      if stream != 'robust' and not plan and any(rt == t for rt, _ in REQUIRED_REFS):
        new = []                      # a row needs a table to point at
    ids_of[t] = (have, new)
  all_ids = {t: h + n for t, (h, n) in ids_of.items()}
  for t in sorted(ids_of):
    have, new = ids_of[t]
    cols = sch[t]
    if new:
      vals = {c: [gen_cell(rng, t, c, cols[c].get('type', 'Text'), all_ids, stream) for _ in new] for c in cols}
      if t == '_grist_Tables':
        vals['tableId'] = [p[0] for p in plan]
        if 'summarySourceTable' in vals:
          vals['summarySourceTable'] = [0 if p[1] is None else new[p[1]] for p in plan]
      if t == '_grist_Tables_column':
        flat = sorted([(ti, c) for ti, p in enumerate(plan) for c in p[2]], key=lambda x: x[1]['ref'])
        assert [c['ref'] for _, c in flat] == new
        tref = ids_of['_grist_Tables'][1]
        vals['parentId'] = [tref[ti] for ti, _ in flat]
        vals['colId'] = [c['colId'] for _, c in flat]
        vals['type'] = [c['type'] for _, c in flat]
        vals['isFormula'] = [c['isFormula'] for _, c in flat]
        vals['formula'] = [c['formula'] or (text_cell(rng, 'formula', stream) if c['isFormula'] else '')
                           for _, c in flat]
        vals['parentPos'] = [float(i + 1) for i in range(len(flat))]
        if 'summarySourceCol' in vals:
          vals['summarySourceCol'] = [c['src'] for _, c in flat]
      tds.apply_doc_action(actions.BulkAddRecord(t, new, vals))
  info = tds.all_tables['_grist_DocInfo']
  if 'schemaVersion' in info.columns:
    tds.apply_doc_action(actions.UpdateRecord('_grist_DocInfo', 1, {'schemaVersion': version}))
  for c in ('docId', 'peers', 'basketId'):
    if c in info.columns:
      tds.apply_doc_action(actions.UpdateRecord('_grist_DocInfo', 1, {c: text_cell(rng, c, stream)}))
  if stream != 'robust' and rng.random() < 0.6:
    boost(rng, tds, version, plan)
  # the user tables themselves, with a few rows
  for name, _si, cols in plan:
    tds.apply_doc_action(actions.AddTable(name, [
      dict(id=c['colId'], type=c['type'], isFormula=c['isFormula'], formula=c['formula']) for c in cols]))
    rows = list(range(1, 1 + rng.choice([0, 1, 2, 3])))
    if rows:
      tds.apply_doc_action(actions.BulkAddRecord(
        name, rows, {c['colId']: [user_value(rng, c['type']) for _ in rows] for c in cols}))
  return Doc(version, stream, variant, tds, [p[0] for p in plan], extra)


# ---------------------------------------------------------------------------------------------
# Witness format: a document as plain JSON data (replay dicts, minimisation)

def enc_json(v):
  if isinstance(v, float) and (v != v or v in (float('inf'), float('-inf'))):
    return {'__f': repr(v)}
  if isinstance(v, (list, tuple)):
    return [enc_json(x) for x in v]
  return v


def dec_json(v):
  if isinstance(v, dict) and '__f' in v:
    return float(v['__f'])
  if isinstance(v, list):
    return [dec_json(x) for x in v]
  return v


def witness_of(doc, metadata_only=False, snapshot=None):
  """The document as data; `snapshot` (from snap) when doc.tds has been modified since."""
  actions = mods()[0]
  data, sch = snapshot if snapshot is not None else snap(doc.tds)
  w = {'version': doc.version, 'metadata_only': metadata_only, 'stream': doc.stream,
       'extra': [enc_json(actions.get_action_repr(a)) for a in doc.extra], 'tables': {}, 'user': []}
  for t, (rows, columns) in sorted(data.items()):
    if t.startswith(GRIST):
      if rows:
        w['tables'][t] = {'ids': list(rows), 'cols': {c: enc_json(vs) for c, vs in sorted(columns.items())}}
    else:
      cols = [dict(sch[t][c]) for c in columns]
      w['user'].append([t, cols, list(rows), {c: enc_json(vs) for c, vs in columns.items()}])
  return w


def doc_of(w):
  actions = mods()[0]
  tds = meta_at(w['version'])
  extra = [actions.action_from_repr(dec_json(a)) for a in w.get('extra', [])]
  tds.apply_doc_actions(extra)
  for t, d in sorted(w.get('tables', {}).items()):
    cols = {c: dec_json(vs) for c, vs in d['cols'].items() if c in tds.all_tables[t].columns}
    tds.apply_doc_action(actions.ReplaceTableData(t, list(d['ids']), cols))
  for t in sorted(tds.all_tables):
    if t.startswith(GRIST) and t not in w.get('tables', {}) and t != '_grist_DocInfo':
      tds.apply_doc_action(actions.ReplaceTableData(t, [], {}))
  info = tds.all_tables['_grist_DocInfo']
  if '_grist_DocInfo' not in w.get('tables', {}) and 'schemaVersion' in info.columns:
    tds.apply_doc_action(actions.UpdateRecord('_grist_DocInfo', 1, {'schemaVersion': w['version']}))
  for name, cols, ids, vals in w.get('user', []):
    tds.apply_doc_action(actions.AddTable(name, [dict(c) for c in cols]))
    if ids:
      tds.apply_doc_action(actions.BulkAddRecord(name, list(ids), {c: dec_json(v) for c, v in vals.items()}))
  return Doc(w['version'], w.get('stream', 'witness'), None, tds, [u[0] for u in w.get('user', [])], extra)


# ---------------------------------------------------------------------------------------------
# Running the real create_migrations with its driver observed

def snap(tds):
  data = {t: (list(d.row_ids), {c: list(vs) for c, vs in d.columns.items()}) for t, d in tds.all_tables.items()}
  return data, copy.deepcopy(tds.get_schema())


class Run(object):
  pass


def run_doc(doc, metadata_only=False):
  """create_migrations on the document, then the returned actions applied to it by the real TableDataSet."""
  actions, migrations, schema, table_data_set, _, _ = mods()
  r = Run()
  r.doc, r.metadata_only, r.exc, r.site, r.acts, r.rec, r.T0, r.T1 = doc, metadata_only, None, None, None, [], None, None
  r.before = snap(doc.tds)
  seen = []
  class Spy(table_data_set.TableDataSet):
    def __init__(self):
      table_data_set.TableDataSet.__init__(self)
      seen.append(self)
  def wrap(v, fn):
    def w(tdset):
      if r.T0 is None:
        r.T0 = snap(tdset)
      out = fn(tdset)
      r.rec.append((v, list(out)))
      return out
    w.need_all_tables = fn.need_all_tables
    return w
  if not isinstance(getattr(migrations, 'all_migrations', None), dict) or not hasattr(migrations, 'noop_migration'):
    raise core.TieBroken('migrations.all_migrations / noop_migration: instrumentation points not found')
  cur = schema.SCHEMA_VERSION
  saved = dict(migrations.all_migrations)
  saved_tds = migrations.table_data_set
  import summary
  r.dumps = []                      # (value as passed, compact separators?, text returned): the dumps oracle
  class JsonSpy(object):
    loads = staticmethod(json.loads)
    JSONDecodeError = json.JSONDecodeError
    @staticmethod
    def dumps(obj, **kw):
      out = json.dumps(obj, **kw)
      extra = set(kw) - {'separators'}
      r.dumps.append((copy.deepcopy(obj), kw.get('separators') == (',', ':'), out, bool(extra)))
      return out
  if not hasattr(migrations, 'json') or not hasattr(summary, 'json'):
    raise core.TieBroken('migrations.json / summary.json: instrumentation points not found')
  import re as _re
  r.resubs = []                     # (pattern, replacement or '' for a function, text, result): the re.sub oracle
  class PatSpy(object):
    def __init__(self, pat):
      self._p = pat
    def __getattr__(self, name):
      return getattr(self._p, name)
    def sub(self, repl, string, *a, **k):
      out = self._p.sub(repl, string, *a, **k)
      r.resubs.append((self._p.pattern, '' if callable(repl) else repl, string, out))
      return out
  class ReSpy(object):
    def __getattr__(self, name):
      return getattr(_re, name)
    def compile(self, pattern, *a, **k):
      return PatSpy(_re.compile(pattern, *a, **k))
    def sub(self, pattern, repl, string, *a, **k):
      out = _re.sub(pattern, repl, string, *a, **k)
      r.resubs.append((pattern, '' if callable(repl) else repl, string, out))
      return out
  if not hasattr(migrations, 're'):
    raise core.TieBroken('migrations.re: instrumentation point not found')
  import identifiers
  if getattr(migrations, 'identifiers', None) is not identifiers or not hasattr(identifiers, 'pick_col_ident'):
    raise core.TieBroken('migrations.identifiers.pick_col_ident / pick_table_ident: instrumentation points not found')
  r.picks = []                      # (function, suggested ident, avoid as a list, result): the pick oracles
  saved_picks = (identifiers.pick_col_ident, identifiers.pick_table_ident)
  def spy_pick(name, fn):
    def w(ident, avoid=set()):
      before = list(avoid)
      out = fn(ident, avoid=avoid)
      r.picks.append((name, ident, before, out))
      return out
    return w
  class FakeMod(object):
    TableDataSet = Spy
  try:
    for v in range(0, cur + 2):
      migrations.all_migrations[v] = wrap(v, saved.get(v, migrations.noop_migration))
    migrations.table_data_set = FakeMod
    migrations.json = summary.json = JsonSpy
    migrations.re = ReSpy()
    identifiers.pick_col_ident = spy_pick('col', saved_picks[0])
    identifiers.pick_table_ident = spy_pick('table', saved_picks[1])
    try:
      r.acts = migrations.create_migrations(doc.all_tables(metadata_only), metadata_only)
    except Exception as e:
      r.exc, r.site = e, site_of(e)
  finally:
    migrations.all_migrations.clear()
    migrations.all_migrations.update(saved)
    migrations.table_data_set = saved_tds
    migrations.json = summary.json = json
    migrations.re = _re
    identifiers.pick_col_ident, identifiers.pick_table_ident = saved_picks
  if len(seen) != 1:
    raise core.TieBroken('create_migrations no longer builds exactly one TableDataSet (%d)' % len(seen))
  if r.T0 is None:
    r.T0 = snap(seen[0])            # no migration was called: the tdset is still as loaded
  if r.exc is None:
    r.T1 = snap(seen[0])
    try:
      doc.tds.apply_doc_actions(r.acts)
    except Exception as e:
      r.exc, r.site = e, 'apply'
    r.after = snap(doc.tds)
  return r


def site_of(e):
  """'m16' when the exception passed through migration16, else 'prelude' (create_migrations itself)."""
  import re
  names = [f.name for f in traceback.extract_tb(e.__traceback__) if f.filename.endswith('migrations.py')]
  for n in names:
    m = re.match(r'migration(\d+)$', n)
    if m:
      return 'm' + m.group(1)
  return 'prelude'


# ---------------------------------------------------------------------------------------------
# The property's oracle, on the implementation's own output

# migrations that may name user tables, and with which actions (their docstrings: type conversions, old summary
# tables, display columns); everything else must stay inside _grist_* tables
USER_TABLE_ACTIONS = {3: {'ModifyColumn'}, 7: {'RemoveColumn', 'RenameTable', 'ModifyColumn'}, 10: {'AddColumn'},
                      17: {'ModifyColumn', 'BulkUpdateRecord'}, 28: {'ModifyColumn'}, 31: {'RenameTable'}}


def action_tables(a):
  return [a[0], a[1]] if type(a).__name__ == 'RenameTable' else [a[0]]


def meta_only(acts):
  return all(t.startswith(GRIST) for a in acts for t in action_tables(a))


def user_part(s):
  data, sch = s
  return ({t: d for t, d in data.items() if not t.startswith(GRIST)},
          {t: d for t, d in sch.items() if not t.startswith(GRIST)})


def problems(r):
  """[(kind, what)] for a run that raised nothing."""
  actions = mods()[0]
  out = []
  cur = current_version()
  doc = r.doc
  data, sch = r.after
  want = current_meta_schema()
  got = {t: s for t, s in sch.items() if t.startswith(GRIST)}
  if got != want:
    diff = [t for t in set(got) | set(want) if got.get(t) != want.get(t)]
    cols = [(t, c) for t in diff for c in set(got.get(t, {})) | set(want.get(t, {}))
            if got.get(t, {}).get(c) != want.get(t, {}).get(c)]
    out.append(('schema-differs', 'metadata schema after migration differs from schema_create_actions() at %r'
                % (sorted(cols)[:6],)))
  try:
    sv = data['_grist_DocInfo'][1]['schemaVersion'][0]
  except Exception:
    sv = None
  if sv != cur or type(sv) is not int:
    out.append(('version-not-current', 'schemaVersion after migration is %r, not %r' % (sv, cur)))
  rows = data.get('_grist_DocInfo', ([], {}))[0]
  if not rows or rows[0] != 1 or 1 in rows[1:]:
    # the hypothesis docinfo_ok of C25_version_after_migration, monitored
    out.append(('docinfo-shape', '_grist_DocInfo row ids after migration are %r (record 1 must come first, once)' % (rows,)))
  last = actions.UpdateRecord('_grist_DocInfo', 1, {'schemaVersion': cur})
  if not r.acts or r.acts[-1] != last:
    out.append(('no-version-update', 'the last returned action is not the schemaVersion update'))
  try:
    start = r.before[0]['_grist_DocInfo'][1]['schemaVersion'][0]
  except Exception:
    start = 0
  if [v for v, _ in r.rec] != list(range(start + 1, cur + 1)):
    out.append(('driver-order', 'from version %r the driver ran migrations %r' % (start, [v for v, _ in r.rec])))
  if r.acts != [a for _, acts in r.rec for a in acts] + [last]:
    out.append(('driver-actions', 'returned actions are not the concatenation of the migrations\' actions'))
  if start >= cur and r.acts != [last]:
    out.append(('current-doc-not-noop', 'a document at the current version gets %d actions' % len(r.acts)))
  for v, acts in r.rec:
    for a in acts:
      if not all(t.startswith(GRIST) for t in action_tables(a)) and \
         type(a).__name__ not in USER_TABLE_ACTIONS.get(v, ()):
        out.append(('touches-user-table', 'migration %d emits %s on %r' % (v, type(a).__name__, action_tables(a))))
  over = overwritten_columns(r)
  for v, t, c in over:
    out.append(('overwrites-column:m%d' % v, 'migration %d emits AddColumn %s.%s although the column exists '
                '(TableDataSet replaces it: its cells are lost)' % (v, t, c)))
  out.extend(user_cells_problem(r, {(t, c) for _, t, c in over}))
  return out


def overwritten_columns(r):
  """[(migration, table, column)]: AddColumn actions that name a column the document already has."""
  cols = {t: set(cs) for t, (_, cs) in r.before[0].items()}
  out = []
  for v, acts in r.rec:
    for a in acts:
      n = type(a).__name__
      if n == 'AddTable':
        cols[a[0]] = {c['id'] for c in a[1]}
      elif n == 'RemoveTable':
        cols.pop(a[0], None)
      elif n == 'RenameTable':
        cols[a[1]] = cols.pop(a[0], set())
      elif n == 'AddColumn':
        if a[1] in cols.get(a[0], set()):
          out.append((v, a[0], a[1]))
        cols.setdefault(a[0], set()).add(a[1])
      elif n == 'RemoveColumn':
        cols.get(a[0], set()).discard(a[1])
      elif n == 'RenameColumn':
        cols.get(a[0], set()).discard(a[1])
        cols.setdefault(a[0], set()).add(a[2])
  return out


def user_cells_problem(r, skip=()):
  """Cells of user tables are untouched, except the documented conversion of Image columns (migration 17) and
  columns that migration 7 removes from old-style summary tables; tables are followed through RenameTable."""
  names = {t: t for t in r.before[0] if not t.startswith(GRIST)}
  for a in r.acts:
    if type(a).__name__ == 'RenameTable':
      for orig, now in list(names.items()):
        if now == a[0]:
          names[orig] = a[1]
  out = []
  bsch = r.before[1]
  for orig, now in names.items():
    rows0, cols0 = r.before[0][orig]
    if now not in r.after[0]:
      out.append(('user-cells-changed', 'user table %r disappeared' % (orig,)))
      continue
    rows1, cols1 = r.after[0][now]
    if rows0 != rows1:
      out.append(('user-cells-changed', 'row ids of user table %r changed' % (orig,)))
    for c, vs in cols0.items():
      if bsch[orig][c].get('type') == 'Image' or (c not in cols1 and r.doc.version < 7) or (now, c) in skip:
        continue
      if c not in cols1 or not same_values(cols1[c], vs):
        out.append(('user-cells-changed', 'cells of %s.%s changed: %r -> %r' % (orig, c, vs, cols1.get(c))))
  if meta_only(r.acts) and user_part(r.before) != user_part(r.after):
    out.append(('user-cells-changed', 'all actions target _grist_ tables, yet a user table differs'))
  return out[:3]


def same_values(a, b):
  return len(a) == len(b) and all(type(x) is type(y) and (x == y or (x != x and y != y)) for x, y in zip(a, b))


# ---------------------------------------------------------------------------------------------
# Classifying an exception: which cell shape is to blame (one kind per root cause)

def _num_or_none(x):
  if isinstance(x, int):
    return abs(x) < 2 ** 1000               # int / 1000 overflows a float beyond 1000 * 2**1024
  return x is None or (isinstance(x, float) and x == x and abs(x) != float('inf'))


def _hashable_scalar(x):
  return x is None or isinstance(x, (str, int, float, bool))

# the shape each parsing migration expects of a Text cell that holds valid JSON
WELL_SHAPED = {
  'widgetOptions': lambda j: isinstance(j, dict) and _hashable_scalar(j.get('visibleCol')),
  'filterSpec': lambda j: isinstance(j, dict),
  'options': lambda j: isinstance(j, dict),
  'aclFormulaParsed': lambda j: (not j) or (isinstance(j, list) and (j[0] != 'Comment' or len(j) >= 3)),
  'content': lambda j: (not isinstance(j, dict)) or (_num_or_none(j.get('timeCreated')) and
                                                     _num_or_none(j.get('timeUpdated'))),
}


def odd_cells(w):
  """{(table, col): [row index]}: Text cells holding valid JSON of a shape its reader does not expect."""
  out = {}
  for t, d in w['tables'].items():
    for c, vs in d['cols'].items():
      if c in WELL_SHAPED:
        for i, v in enumerate(vs):
          if isinstance(v, str):
            try:
              j = json.loads(v)
            except ValueError:
              continue
            if not WELL_SHAPED[c](j):
              out.setdefault((t, c), []).append(i)
  return out


def with_cells(w, t, c, idxs, value=''):
  w2 = copy.deepcopy(w)
  for i in idxs:
    w2['tables'][t]['cols'][c][i] = value
  return w2


def run_w(w):
  return run_doc(doc_of(w), w.get('metadata_only', False))


def classify(w, r):
  """[(kind, what, witness)] for a document on which create_migrations/apply raised (r = its run)."""
  found = []
  for _round in range(8):
    if r.exc is None:
      break
    site, exc = r.site, r.exc
    if r.metadata_only and isinstance(exc, Exception) and str(exc).startswith('need all tables for migration'):
      break                                  # the documented request to be called again with all tables
    blamed = None
    odd = sorted(odd_cells(w).items())
    for (t, c), idxs in odd:
      # isolate the group: every OTHER odd cell reset; the failure must persist, and vanish with this group
      wiso = w
      for (t2, c2), idxs2 in odd:
        if (t2, c2) != (t, c):
          wiso = with_cells(wiso, t2, c2, idxs2)
      riso = run_w(wiso) if len(odd) > 1 else r
      if riso.exc is None or riso.site != site:
        continue
      rcured = run_w(with_cells(wiso, t, c, idxs))
      if rcured.exc is None or rcured.site != site:
        # one cell is enough: in the isolated document keep a single odd cell of the group
        culprit, wmin = idxs[0], wiso
        for i in idxs:
          w1 = with_cells(wiso, t, c, [k for k in idxs if k != i])
          r1 = run_w(w1)
          if r1.exc is not None and r1.site == site:
            culprit, wmin = i, w1
            break
        blamed = ('json-shape:%s:%s' % (site, c),
                  'migration %s assumes a JSON shape in %s.%s: cell %r -> %s: %s'
                  % (site[1:], t, c, w['tables'][t]['cols'][c][culprit], type(riso.exc).__name__, riso.exc), wmin)
        w = with_cells(w, t, c, idxs)          # go on with this group repaired: later sites may fail too
        r = run_w(w)
        break
    if blamed is None and site == 'm7' and isinstance(exc, ValueError):
      import re
      plain = [u[0] for u in w['user'] if re.match(r'^Summary_[A-Za-z0-9]+$', u[0])
               and u[0][len('Summary_'):] in [x[0] for x in w['user']]]
      if plain:
        w2 = rename_user_table(w, plain[0], 'Renamed' + plain[0])
        r2 = run_w(w2)
        if r2.exc is None or r2.site != site:
          blamed = ('name:m7:Summary_T-without-column-refs',
                    'migration 7 takes the user table %r for an old-style summary table although its name carries '
                    'no column refs -> %s: %s' % (plain[0], type(exc).__name__, exc), w)
          w, r = w2, r2
    if blamed is None:
      found.append(('exception:%s:%s' % (site, type(exc).__name__),
                    'from version %d: %s raised %s: %s' % (w['version'], site, type(exc).__name__, exc), w))
      break
    found.append(blamed)
  return found


def rename_user_table(w, old, new):
  w2 = copy.deepcopy(w)
  for u in w2['user']:
    if u[0] == old:
      u[0] = new
  tcol = w2['tables']['_grist_Tables']['cols']['tableId']
  w2['tables']['_grist_Tables']['cols']['tableId'] = [new if x == old else x for x in tcol]
  return w2


def shrink(w, fails, budget=250):
  """Greedy reduction of a failing document: drop rows of metadata tables, then reset cells to ''/0/None."""
  def ok(cand):
    nonlocal budget
    budget -= 1
    try:
      return budget >= 0 and fails(cand)
    except Exception:
      return False
  for t in sorted(w['tables']):
    if t in ('_grist_DocInfo', '_grist_Tables', '_grist_Tables_column'):
      continue
    cand = copy.deepcopy(w)
    del cand['tables'][t]
    if ok(cand):
      w = cand
      continue
    n = len(w['tables'][t]['ids'])
    for i in reversed(range(n)):
      cand = copy.deepcopy(w)
      d = cand['tables'][t]
      d['ids'].pop(i)
      for c in d['cols']:
        d['cols'][c].pop(i)
      if ok(cand):
        w = cand
  for t in sorted(w['tables']):
    for c in sorted(w['tables'][t]['cols']):
      if (t, c) in (('_grist_Tables', 'tableId'), ('_grist_Tables_column', 'parentId'),
                    ('_grist_Tables_column', 'colId'), ('_grist_Tables_column', 'type'),
                    ('_grist_Tables_column', 'parentPos'), ('_grist_DocInfo', 'schemaVersion')):
        continue
      cand = copy.deepcopy(w)
      del cand['tables'][t]['cols'][c]          # every cell of the column back to its type's default
      if ok(cand):
        w = cand
  return w


# ---------------------------------------------------------------------------------------------
# Coq literals (Grist.Model.Migrate)

class Unencodable(Exception):
  pass


class Pool(object):
  """Shared sub-terms of the generated cases as typed Coq definitions (names k<N>_): a big literal elaborates
  slowly, a reference does not; each shard gets only the definitions it uses."""
  def __init__(self, prefix='k'):
    self.defs, self.index, self.prefix = [], {}, prefix

  def ref(self, typ, text):
    n = self.index.get((typ, text))
    if n is None:
      n = '%s%d_' % (self.prefix, len(self.defs))
      self.index[(typ, text)] = n
      self.defs.append((typ, text))
    return n

  def defs_for(self, part):
    import re
    need, todo = set(), [t for t in part]
    while todo:
      for m in re.findall(r'\b%s(\d+)_' % self.prefix, todo.pop()):
        i = int(m)
        if i < len(self.defs) and i not in need:
          need.add(i)
          todo.append(self.defs[i][1])
    return '\n'.join('Definition %s%d_ : %s := %s.' % (self.prefix, i, self.defs[i][0], self.defs[i][1])
                     for i in sorted(need))

POOL = Pool()


def cstr(s):
  if not isinstance(s, str):
    raise Unencodable('not a string: %r' % (s,))
  if all(32 <= ord(ch) < 127 for ch in s):
    return POOL.ref('str', 'zs "%s"' % s.replace('"', '""'))
  return POOL.ref('str', core.strlit(s))


def cval(v):
  if v is None:
    return 'VNull'
  if v is True or v is False:
    return 'VBool %s' % core.boollit(v)
  if isinstance(v, int):
    return 'VInt %s' % core.zlit(v)
  if isinstance(v, float):
    return 'VFlt %d%%Z' % struct.unpack('<Q', struct.pack('<d', v))[0]
  if isinstance(v, str):
    return 'VStr %s' % cstr(v)
  if isinstance(v, (list, tuple)):
    return 'VList %s' % core.coq_list(['(%s)' % cval(x) for x in v])
  if isinstance(v, dict):
    return 'VDict %s' % core.coq_list(['(%s, (%s))' % (cstr(k), cval(x)) for k, x in v.items()])
  raise Unencodable('value %r' % (v,))


def crid(r):
  if r is None:
    return 'None'
  if isinstance(r, int) and not isinstance(r, bool):
    return '(Some %s)' % core.zlit(r)
  raise Unencodable('row id %r' % (r,))


def cdict(d, f):
  return core.coq_list(['(%s, %s)' % (cstr(k), f(v)) for k, v in d.items()])


def cvals(vs):
  return core.coq_list(['(%s)' % cval(v) for v in vs])


def cci(d):
  if list(d.keys()) == ['id', 'type', 'isFormula', 'formula'] and isinstance(d['id'], str) and \
     isinstance(d['type'], str) and isinstance(d['isFormula'], bool) and isinstance(d['formula'], str):
    return POOL.ref('colinfo', 'mkci %s %s %s %s' % (cstr(d['id']), cstr(d['type']), core.boollit(d['isFormula']),
                                                     cstr(d['formula'])))
  return POOL.ref('colinfo', cdict(d, lambda v: '(%s)' % cval(v)))


def cact(a):
  return POOL.ref('action', cact_text(a)[1:-1])


def cact_text(a):
  n = type(a).__name__
  if n in ('AddRecord', 'UpdateRecord'):
    return '(%s %s %s %s)' % (n, cstr(a[0]), crid(a[1]), cdict(a[2], lambda v: '(%s)' % cval(v)))
  if n in ('BulkAddRecord', 'BulkUpdateRecord', 'ReplaceTableData'):
    return '(%s %s %s %s)' % (n, cstr(a[0]), core.coq_list([crid(x) for x in a[1]]), cdict(a[2], cvals))
  if n == 'RemoveRecord':
    return '(RemoveRecord %s %s)' % (cstr(a[0]), crid(a[1]))
  if n == 'BulkRemoveRecord':
    return '(BulkRemoveRecord %s %s)' % (cstr(a[0]), core.coq_list([crid(x) for x in a[1]]))
  if n in ('AddColumn', 'ModifyColumn'):
    return '(%s %s %s %s)' % (n, cstr(a[0]), cstr(a[1]), cci(a[2]))
  if n in ('RemoveColumn', 'RenameTable'):
    return '(%s %s %s)' % (n, cstr(a[0]), cstr(a[1]))
  if n == 'RenameColumn':
    return '(RenameColumn %s %s %s)' % (cstr(a[0]), cstr(a[1]), cstr(a[2]))
  if n == 'AddTable':
    return '(AddTable %s %s)' % (cstr(a[0]), core.coq_list([cci(c) for c in a[1]]))
  if n == 'RemoveTable':
    return '(RemoveTable %s)' % cstr(a[0])
  raise Unencodable('action %r' % (a,))


def cacts(acts):
  return core.coq_list([cact(a) for a in acts])


def ctds(s):
  data, sch = s
  d = core.coq_list([POOL.ref('str * tdata', '(%s, (%s, %s))' % (cstr(t), core.coq_list([crid(x) for x in rows]),
                                                                  cdict(cols, cvals)))
                     for t, (rows, cols) in data.items()])
  c = core.coq_list([POOL.ref('str * list (str * colinfo)', '(%s, %s)' % (cstr(t), cdict(cols, cci)))
                     for t, cols in sch.items()])
  return '(mkTds %s %s)' % (d, c)


EXC_CODE = {'KeyError': 1, 'IndexError': 2, 'TypeError': 3, 'AttributeError': 4}


def cres(exc, ok_term):
  if exc is None:
    return '(Ok %s)' % ok_term
  if str(exc).startswith('need all tables for migration'):
    return '(Err 5%Z)'
  if type(exc).__name__ not in EXC_CODE:
    raise Unencodable('exception %r' % (exc,))
  return '(Err %d%%Z)' % EXC_CODE[type(exc).__name__]


def driver_case(r):
  _, migrations, schema, _, _, _ = mods()
  need = [v for v, f in migrations.all_migrations.items() if f.need_all_tables]
  rec = core.coq_list(['(%s, %s)' % (core.zlit(v), cacts(acts)) for v, acts in r.rec])
  expect = cres(r.exc, None if r.exc else '(%s, %s)' % (cacts(r.acts), ctds(r.T1)))
  return '(%s, %s, %s, %s, %s, %s)' % (core.zlit(schema.SCHEMA_VERSION), core.zlist(need),
                                       core.boollit(r.metadata_only), ctds(r.T0), rec, expect)

DRIVER_TYPE = 'Z * list Z * bool * tds * list (Z * list action) * res (list action * tds)'
APPLY_TYPE = 'tds * list action * res tds * bool * bool'
DRIVER_CHECK = ("fun c => let '(cur, need, mo, T0, rec, expect) := c in check_driver cur need mo T0 rec expect")


def apply_case(before, acts, exc, after):
  mo = meta_only(acts)
  same = exc is None and canon(user_part(before)) == canon(user_part(after))
  return '(%s, %s, %s, %s, %s)' % (ctds(before), cacts(acts), cres(exc, None if exc else ctds(after)),
                                   core.boollit(mo), core.boollit(same))

def canon(x):
  """Structural identity (1, 1.0 and True differ; dict order ignored), as the model compares."""
  if isinstance(x, dict):
    return ('d', tuple(sorted((k, canon(v)) for k, v in x.items())))
  if isinstance(x, (list, tuple)):
    return ('l', tuple(canon(v) for v in x))
  return (type(x).__name__, repr(x))

APPLY_CHECK = "fun c => let '(D, A, expect, mo, same) := c in check_apply D A expect mo same"


# ---------------------------------------------------------------------------------------------
# Random action streams for the TableDataSet model itself (all 14 action kinds, errors included)

def gen_tds_case(rng):
  actions, _, _, table_data_set, _, _ = mods()
  tds = table_data_set.TableDataSet()
  tnames = ['T', '_grist_X', 'U', '_grist_Y']
  cnames = ['a', 'b', 'c', 'manualSort']
  types = ['Text', 'Int', 'Numeric', 'Bool', 'Ref:T', 'RefList:T', 'PositionNumber', 'Any', 'DateTime:UTC', 'Choice',
           'ManualSortPos', 'Id', 'Weird']
  def ci(cid, with_id=True):
    d = {'id': cid} if with_id else {}
    r = rng.random()
    if r < 0.85:
      d.update(type=rng.choice(types), isFormula=rng.random() < 0.3, formula=rng.choice(['', '$a']))
    elif r < 0.92:
      d.update(type=rng.choice([None, 5]), isFormula=False, formula='')       # .split on a non-string
    elif r < 0.96:
      d.update(isFormula=True)                                               # no 'type'
    return d
  vals = [None, 0, 1, 2, -1, 1.5, float('inf'), '', 'x', True, False, [1, 2], ['L', 'x'], 'Unicodé']
  rids = [1, 2, 3, 4, 5, None]
  for t in rng.sample(tnames, rng.randint(0, 3)):
    tds.apply_doc_action(actions.AddTable(t, [dict(id=c, type=rng.choice(types[:9]), isFormula=False, formula='')
                                              for c in rng.sample(cnames, rng.randint(0, 3))]))
    rows = rng.sample([1, 2, 3, 4], rng.randint(0, 3))
    if rows:
      tds.apply_doc_action(actions.BulkAddRecord(t, rows, {c: [rng.choice(vals) for _ in rows]
                                                           for c in tds.all_tables[t].columns if rng.random() < 0.8}))
  def cols(n, t):
    known = list(scratch.all_tables[t].columns) if t in scratch.all_tables else []
    pick = [c for c in known if rng.random() < 0.6] + (['zz'] if rng.random() < 0.1 else [])
    return {c: [rng.choice(vals) for _ in range(n if rng.random() < 0.9 else rng.randint(0, 3))] for c in pick}
  acts = []
  # the generator follows the state through a scratch copy, so that most actions name things that exist
  scratch = copy.deepcopy(tds)
  for _ in range(rng.randint(1, 6)):
    have = sorted(scratch.all_tables)
    t = rng.choice(have) if have and rng.random() < 0.9 else rng.choice(tnames)
    k = rng.randrange(14)
    n = rng.randint(0, 3)
    trows = list(scratch.all_tables[t].row_ids) if t in scratch.all_tables else []
    tcols = list(scratch.all_tables[t].columns) if t in scratch.all_tables else []
    fresh = [x for x in [1, 2, 3, 4, 5, 6, 7] if x not in trows]
    if k in (0, 1, 6):
      rids = fresh if rng.random() < 0.8 else [1, 2, None]
      ids = rng.sample(rids, min(n, len(rids)))
      if rng.random() < 0.15:
        ids = [rng.choice([None, 7]) for _ in range(n)]     # duplicate ids, as migrations 25/26/30/40 add them
    else:
      rids = trows if trows and rng.random() < 0.9 else [1, 2, 3, 4, 5, None]
      ids = [rng.choice(rids) for _ in range(n)]
    c = rng.choice(tcols) if tcols and rng.random() < 0.85 else rng.choice(cnames)
    acts.append([
      lambda: actions.AddRecord(t, rng.choice(rids), {x: v[0] for x, v in cols(1, t).items() if v}),
      lambda: actions.BulkAddRecord(t, ids, cols(n, t)),
      lambda: actions.RemoveRecord(t, rng.choice(rids)),
      lambda: actions.BulkRemoveRecord(t, ids),
      lambda: actions.UpdateRecord(t, rng.choice(rids), {x: v[0] for x, v in cols(1, t).items() if v}),
      lambda: actions.BulkUpdateRecord(t, ids, cols(n, t)),
      lambda: actions.ReplaceTableData(t, ids, cols(n, t)),
      lambda: actions.AddColumn(t, c, ci(c, False)),
      lambda: actions.RemoveColumn(t, c),
      lambda: actions.RenameColumn(t, c, rng.choice(cnames)),
      lambda: actions.ModifyColumn(t, c, rng.choice([{'type': 'Int'}, {'formula': '$b', 'isFormula': True}, {}])),
      lambda: actions.AddTable(t, [ci(x, rng.random() < 0.95) for x in rng.sample(cnames, rng.randint(0, 3))]),
      lambda: actions.RemoveTable(t),
      lambda: actions.RenameTable(t, rng.choice(tnames)),
    ][k]())
    try:
      scratch.apply_doc_action(acts[-1])
    except Exception:
      scratch = copy.deepcopy(tds)        # the real run below stops at this action anyway
  before = snap(tds)
  exc = None
  try:
    tds.apply_doc_actions(acts)
  except Exception as e:
    exc = e
  return before, acts, exc, snap(tds)


def driver_monitor():
  """Every migration hands its actions to the tdset itself and returns exactly what it applied: all its
  `return`s are `tdset.apply_doc_actions(...)` and it calls no other mutator (the model's driver applies the
  returned actions)."""
  _, migrations, _, _, _, _ = mods()
  bad = []
  for v, fn in sorted(migrations.all_migrations.items()):
    try:
      tree = ast.parse(inspect.getsource(fn).lstrip())
    except Exception as e:
      bad.append('migration %s: no source (%s)' % (v, e))
      continue
    top = tree.body[0]
    arg = top.args.args[0].arg
    nested = [f for f in ast.walk(top) if isinstance(f, (ast.FunctionDef, ast.Lambda)) and f is not top]
    inner = {id(n) for f in nested for n in ast.walk(f) if isinstance(n, ast.Return)}
    own = [n for n in ast.walk(top) if isinstance(n, ast.Return) and id(n) not in inner]
    for n in own:
      c = n.value
      if not (isinstance(c, ast.Call) and isinstance(c.func, ast.Attribute) and c.func.attr == 'apply_doc_actions'
              and isinstance(c.func.value, ast.Name) and c.func.value.id == arg):
        bad.append('migration %s: a return that is not %s.apply_doc_actions(...)' % (v, arg))
    calls = [n for n in ast.walk(top) if isinstance(n, ast.Call) and isinstance(n.func, ast.Attribute)
             and isinstance(n.func.value, ast.Name) and n.func.value.id == arg]
    if not own or len([n for n in calls if n.func.attr.startswith('apply_doc_action')]) != len(own):
      bad.append('migration %s: applies actions outside its return' % v)
  return bad


# ---------------------------------------------------------------------------------------------
# correspond: the model's TableDataSet and driver against the running code

IMPORTS = ['Grist.Model.Migrate', 'Grist.Model.MigrateSites', 'Grist.Model.MigrateBodies', 'GristGen.MigrateConst_gen']
VARIANTS = [None, None, None, 'v0_lax', 'mishap38']


def doc_stream(ctx, per_version, stream, variants=VARIANTS):
  cur = current_version()
  for v in range(0, cur + 1):
    for k in range(per_version):
      variant = ctx.rng.choice(variants)
      if v == 0 and k == 0:
        variant = 'v0_lax'
      if v == 38 and k == 0:
        variant = 'mishap38'
      yield gen_doc(ctx.rng, v, ctx.rng.choice(['expected', 'anyjson']) if stream == 'mixed' else stream, variant)


def shard8(cases):
  return max(1, -(-len(cases) // 8))       # one wave of at most 8 coqc processes


def correspond(ctx):
  import logging
  logging.disable(logging.CRITICAL)
  POOL.__init__()
  for msg in driver_monitor():
    ctx.broken('monitor:migration does not return tdset.apply_doc_actions(...)', msg)
  # 1. random action streams through the TableDataSet model
  cases, kept = [], []
  for _ in range(ctx.n(300, 4000)):
    before, acts, exc, after = gen_tds_case(ctx.rng)
    try:
      cases.append(apply_case(before, acts, exc, after))
    except Unencodable:
      ctx.bump('tds-stream:outside-model-domain')
      continue
    kept.append((before, acts, exc))
    kinds = sorted({type(a).__name__ for a in acts})
    ctx.count(('tds', cases[-1]), nontrivial=bool(acts), kind='tds-stream:' + ('raises' if exc else 'ok'),
              sample={'stream': 'TableDataSet actions', 'actions': [repr(a) for a in acts][:3],
                      'raises': type(exc).__name__ if exc else None} if len(kept) <= 2 else None)
    for k in kinds:
      ctx.bump('tds-action:' + k)
  # 2. real migrations on generated documents of every version: driver model + the returned actions replayed
  lcases, runs = [], []
  empty = ({}, {})
  def link_docs():
    for doc in doc_stream(ctx, ctx.n(1, 4), 'mixed'):
      yield doc
    # the hand-modelled bodies of early migrations run on few of those: extra documents just below each of them
    for v in HAND_MODELLED:
      if v <= 20:
        for _ in range(ctx.n(1, 4)):
          yield gen_doc(ctx.rng, v - 1, ctx.rng.choice(['expected', 'anyjson']), None)
  def orphan_link_docs():
    # a column record of no table, of a type no migration looks the parent up for: the unchanged code migrates it,
    # and the body models must too (on the exact tdset, orphan included)
    for v in ([0, 9, 16, 20, 27] if ctx.tier == 'quick' else list(range(0, 28))):
      w = witness_of(gen_doc(ctx.rng, v, 'expected', None))
      vals = {'parentId': ctx.rng.choice([0, 77]), 'colId': 'orphan', 'type': ctx.rng.choice(['Attachments', 'Attachments', 'Text']),
              'parentPos': 99.0, 'label': 'orphan', 'isFormula': False, 'formula': '', 'widgetOptions': ''}
      if append_record(w, '_grist_Tables_column', vals) is not None:
        d = doc_of(w)
        d.orphan = True
        yield d
  import itertools
  for doc in itertools.chain(link_docs(), orphan_link_docs()):
    mo = ctx.rng.random() < 0.3
    r = run_doc(doc, mo)
    needall = r.exc is not None and str(r.exc).startswith('need all tables')
    if r.exc is not None and not needall:
      continue                                   # search() reports it
    try:
      d = driver_case(r)
      a = apply_case(empty, [], None, empty) if needall else apply_case(r.before, r.acts, None, r.after)
      b = bodies_case(r)
    except Unencodable as e:
      ctx.bump('link:outside-model-domain')
      continue
    lcases.append('(%s, %s, %s)' % (d, a, b))
    runs.append((r, d, a, b))
    for v, acts in r.rec:
      if v in modelled():
        ctx.bump('bodies:m%d compared' % v)
        if any('Record' in type(x).__name__ for x in acts):
          ctx.bump('bodies:m%d compared, with record actions' % v)
    ctx.count(('link', lcases[-1]), nontrivial=bool(r.rec) or needall,
              kind='link:v%02d' % doc.version,
              sample={'stream': 'real migrations replayed in the model', 'version': doc.version,
                      'metadata_only': mo, 'migrations_run': [v for v, _ in r.rec][:4], 'actions': len(r.acts or []),
                      'user_tables': doc.user_tables} if doc.version in (5, 30) else None)
    if getattr(doc, 'orphan', False):
      ctx.bump('link:with-an-orphan-column-record')
    ctx.bump('link:need-all-tables' if needall else ('link:meta-only-actions' if meta_only(r.acts)
                                                       else 'link:touches-user-tables'))
  if len(runs) < current_version():
    raise core.TieBroken('only %d of the generated documents could be replayed in the model' % len(runs))
  ctx.log('link: %d documents run and encoded' % len(lcases))
  both = "fun c => let '(d, a, b) := c in (%s) d && (%s) a && (%s) b" % (DRIVER_CHECK, APPLY_CHECK, BODIES_CHECK)
  # both streams are evaluated by Coq at the same time (two waves of coqc processes)
  import threading
  res = {}
  def wave(key, *args, **kw):
    try:
      res[key] = ctx.run_cases(*args, **kw)
    except Exception as e:
      res[key] = e
  th = [threading.Thread(target=wave, args=('tds', 'tds', IMPORTS, APPLY_CHECK, cases),
                         kwargs=dict(shard=len(cases) if ctx.tier == 'quick' else 750, timeout=900,
                                     extra_defs=POOL.defs_for, case_type=APPLY_TYPE)),
        threading.Thread(target=wave, args=('link', 'link', IMPORTS, both, lcases),
                         kwargs=dict(shard=max(1, -(-len(lcases) // 3)) if ctx.tier == 'quick' else 12, timeout=900,
                                     extra_defs=POOL.defs_for,
                                     case_type='(%s) * (%s) * (%s)' % (DRIVER_TYPE, APPLY_TYPE, BODIES_TYPE)))]
  scases, sinfo = site_cases(ctx)
  th.append(threading.Thread(target=wave, args=('sites', 'sites', IMPORTS, SITE_CHECK,
                                                scases),
                             kwargs=dict(shard=len(scases) if ctx.tier == 'quick' else 600, timeout=900, extra_defs=POOL.defs_for,
                                         case_type=SITE_TYPE)))
  for t in th:
    t.start()
  for t in th:
    t.join()
  for key in ('tds', 'link', 'sites'):
    if isinstance(res.get(key), Exception):
      raise res[key]
  ctx.log('the three streams evaluated in Coq')
  for i in res['sites'][:5]:
    ctx.broken('correspondence:site model differs from migration %d' % sinfo[i][0],
               'cell %r: the real migration %s' % (sinfo[i][1], 'raised %r' % (sinfo[i][2],) if sinfo[i][2] else 'returned'))
  for i in res['tds'][:5]:
    ctx.broken('correspondence:TableDataSet model differs from table_data_set.TableDataSet',
               'actions %r on %r (real: %r)' % (kept[i][1], kept[i][0], kept[i][2]))
  bad = res['link']
  for i in bad[:3]:
    r, d, a, b = runs[i]
    if ctx.run_cases('link_b%d' % i, IMPORTS, BODIES_CHECK, [b], extra_defs=POOL.defs_for, case_type=BODIES_TYPE):
      # which version: one more evaluation, of check_body_at for every modelled version v (body differs) and -v
      # (the document is outside the premise of that body's totality theorem)
      vs = [v for v in modelled() if v in [x for x, _ in r.rec]]
      bad_vs = ctx.run_cases(
        'link_bv%d' % i, IMPORTS, "fun v => let '(strict, o, T0, rec) := the_b in check_body_at const_bodies v o T0 rec",
        [core.zlit(v) for v in vs] + ['(%s)' % core.zlit(-v) for v in vs], shard=1000,
        extra_defs=lambda part: POOL.defs_for([b]) + '\nDefinition the_b : %s := %s.' % (BODIES_TYPE, b), case_type='Z')
      for k in bad_vs:
        v = (vs + [-x for x in vs])[k]
        if v in (-7, -10) and getattr(r.doc, 'orphan', False):
          continue
        if v > 0:
          ctx.broken('correspondence:modelled body of migration %d differs from the real migration' % v,
                     'document at version %d; real actions %r' % (r.doc.version, dict(r.rec)[v]))
        else:
          ctx.broken('premise:a generated document is outside the hypotheses of the totality theorem of migration %d' % -v,
                     'document at version %d' % r.doc.version)
    if ctx.run_cases('link_d%d' % i, IMPORTS, DRIVER_CHECK, [d], extra_defs=POOL.defs_for, case_type=DRIVER_TYPE):
      ctx.broken('correspondence:driver model differs from migrations.create_migrations', where)
    if ctx.run_cases('link_a%d' % i, IMPORTS, APPLY_CHECK, [a], extra_defs=POOL.defs_for, case_type=APPLY_TYPE):
      ctx.broken('correspondence:migration actions replayed in the model differ from TableDataSet', where)


# ---------------------------------------------------------------------------------------------
# search: the property itself on generated old-version documents

def corrupt(rng, w):
  """One referential or type inconsistency (outside the property's premise): the robustness stream."""
  w = copy.deepcopy(w)
  T, C = w['tables'].get('_grist_Tables'), w['tables'].get('_grist_Tables_column')
  choice = rng.randrange(6)
  if choice == 0 and C:
    C['cols']['parentId'][rng.randrange(len(C['ids']))] = 99
    return w, 'dangling parentId'
  if choice == 1 and T:
    T['ids'].append(max(T['ids']) + 1)
    for c, vs in T['cols'].items():
      vs.append('Ghost' if c == 'tableId' else (vs[0] if not isinstance(vs[0], str) else ''))
    return w, 'table without columns'
  if choice == 2:
    cands = [(t, c) for t, d in w['tables'].items() for c, vs in d['cols'].items() if vs and isinstance(vs[0], str)]
    if cands:
      t, c = rng.choice(sorted(cands))
      w['tables'][t]['cols'][c][0] = None
      return w, 'None in a Text cell'
  if choice == 3 and C and 'rules' in C['cols']:
    C['cols']['rules'][0] = [1, 2]
    return w, 'Python list in a RefList cell'
  if choice == 4 and '_grist_Views_section' in w['tables']:
    S = w['tables']['_grist_Views_section']
    S['cols']['tableRef'][0] = 0
    S['cols']['parentKey'][0] = 'record'
    return w, 'view section without a table'
  if choice == 5 and w['user'] and w['version'] < 7:
    return rename_user_table(w, w['user'][0][0], 'Summary_%s_77' % w['user'][-1][0]), 'summary name with a dangling ref'
  return w, None


# ---------------------------------------------------------------------------------------------
# Orphans: records whose references name nothing (inside the premise: every cell still holds a value of its type)

ORPHAN_COL_TYPES = ['Attachments', 'Attachments', 'Text', 'Int', 'Any', 'Ref:Table1', 'RefList:Foo', 'Choice', 'Bool']


def meta_default(version, table, col):
  usertypes = mods()[5]
  info = meta_at(version).get_schema().get(table, {}).get(col, {})
  return usertypes.get_type_default(info.get('type', 'Text'))


def append_record(w, table, values):
  """Append one record to a metadata table of the witness; cells not given get their type's default."""
  sch = meta_at(w['version']).get_schema()
  for a in w.get('extra', []):
    if a[0] == 'AddColumn' and a[1] == table:
      sch[table][a[2]] = a[3]
  if table not in sch:
    return None
  d = w['tables'].setdefault(table, {'ids': [], 'cols': {}})
  n = len(d['ids'])
  new_id = max([x for x in d['ids'] if isinstance(x, int)] + [0]) + 1
  for c in sch[table]:
    d['cols'].setdefault(c, [enc_json(meta_default(w['version'], table, c))] * n)
  for c in d['cols']:
    d['cols'][c].append(enc_json(values[c]) if c in values else enc_json(meta_default(w['version'], table, c)))
  d['ids'].append(new_id)
  return new_id


def inject_orphan(rng, w):
  """(witness with one orphan, what) -- a column record of no table, or a reference cell naming no record."""
  w = copy.deepcopy(w)
  v = w['version']
  sch = meta_at(v).get_schema()
  T = w['tables'].get('_grist_Tables', {'ids': []})
  far = max([x for x in T['ids'] if isinstance(x, int)] + [0]) + rng.choice([3, 7])
  if rng.random() < 0.55:
    types = list(ORPHAN_COL_TYPES) + (['Image'] if v < 17 else []) + (['Derived'] if v < 3 else [])
    ty = rng.choice(types)
    vals = {'parentId': rng.choice([0, far]), 'colId': rng.choice(['orphan', 'A', 'gristHelper_Display']), 'type': ty,
            'parentPos': 99.0, 'label': 'orphan', 'isFormula': rng.random() < 0.3,
            'formula': rng.choice(['', '$A', 'Foo.lookupOrAddDerived($A,$B)', 'GristSummary_3_Foo.lookupOne(A=$A)']),
            'widgetOptions': rng.choice(['', '{"visibleCol":"A"}', '{"visibleCol":"id"}', 'junk'])}
    if 'rules' in sch.get('_grist_Tables_column', {}) and v < 29:
      vals['rules'] = rng.choice([None, '[99]'])
    if append_record(w, '_grist_Tables_column', vals) is None:
      return None, None
    return w, 'column:%s' % ty.split(':')[0]
  # a dangling reference cell in some record (not the parentId of a column: that would empty a table)
  cands = []
  for t, d in w['tables'].items():
    for c in d['cols']:
      ty = sch.get(t, {}).get(c, {}).get('type', '')
      if ty.startswith('Ref:') and (t, c) != ('_grist_Tables_column', 'parentId') and d['ids']:
        cands.append((t, c, ty[4:]))
  if not cands:
    return None, None
  t, c, target = rng.choice(sorted(cands))
  early = [x for x in cands if x[:2] == ('_grist_Views_section', 'tableRef')]
  if v < 2 and early and rng.random() < 0.6:
    t, c, target = early[0]                     # migrations 1 and 2 read the sections' tableRef
  tgt = w['tables'].get(target, {'ids': []})['ids']
  dangling = max([x for x in tgt if isinstance(x, int)] + [0]) + rng.choice([2, 9])
  i = rng.randrange(len(w['tables'][t]['ids']))
  w['tables'][t]['cols'][c][i] = dangling
  if t == '_grist_Views_section' and c == 'tableRef' and rng.random() < 0.5:
    w['tables'][t]['cols']['parentKey'][i] = 'record'
  return w, 'ref:%s.%s' % (t, c)


def check_orphan(ctx, w0, w, what):
  """The orphan must not make migrating fail (when the document without it migrates)."""
  r = run_w(w)
  ctx.count(('orphan', w['version'], what, repr(r.before)), nontrivial=True, kind='search:orphan:' + what.split(':')[0])
  if r.exc is None:
    for kind, desc in problems(r):
      report(ctx, kind, desc, lambda: w)
    return r
  if w.get('metadata_only') and str(r.exc).startswith('need all tables for migration'):
    return r
  r0 = run_w(w0)
  if r0.exc is not None and r0.site == r.site:
    return r                                   # fails without the orphan too: the ordinary streams report that
  report(ctx, 'orphan:%s:%s' % (r.site, 'column' if what.startswith('column:') else what),
         'from version %d: a record that references nothing (%s) makes %s raise %s: %s'
         % (w['version'], what, r.site, type(r.exc).__name__, r.exc), lambda: w)
  return r


def check_doc(ctx, doc, mo, label):
  """Run one document; report violations; returns the run."""
  r = run_doc(doc, mo)
  cur = current_version()
  ctx.count((doc.version, mo, repr(r.before)), nontrivial=doc.version < cur or bool(doc.user_tables),
            kind='search:%s' % label)
  if r.exc is not None:
    w = witness_of(doc, mo, r.before)
    for kind, what, wit in classify(w, r):
      report(ctx, kind, what, lambda: wit)
  else:
    for kind, what in problems(r):
      report(ctx, kind, what, lambda: witness_of(doc, mo, r.before))
  return r


def report(ctx, kind, what, witness):
  """Every failure is counted; at most 3 per kind are kept as violations (each with its replayable document)."""
  ctx.bump('search:fails:' + kind)
  if ctx.hist['search:fails:' + kind] <= 3:
    ctx.violation(kind, what, witness())


def search(ctx):
  import logging
  logging.disable(logging.CRITICAL)
  cur = current_version()
  # regression corpus first: the witnesses of the findings that were fixed (the still-known ones are replayed by core)
  for k in core.load_known():
    if k.get('property') == ID and k.get('kind') == 'fixed' and isinstance(k.get('witness'), dict):
      w = k['witness']
      check_doc(ctx, doc_of(w), w.get('metadata_only', False), 'regression-corpus')
  per = ctx.n(3, 60)
  for doc in doc_stream(ctx, per, 'expected'):
    check_doc(ctx, doc, ctx.rng.random() < 0.3, 'expected')
  for doc in doc_stream(ctx, per + 1, 'anyjson', [None, None, 'mishap38', 'v0_lax']):
    check_doc(ctx, doc, ctx.rng.random() < 0.2, 'anyjson')
  for v in range(0, 7):
    for _ in range(ctx.n(2, 20)):
      check_doc(ctx, gen_doc(ctx.rng, v, 'expected', 'summary_norefs'), False, 'summary-like-names')
  # documents at or beyond the current version (downgrade: only the version update)
  for v in (cur, cur, cur + 1, cur + 3):
    for _ in range(ctx.n(3, 30)):
      doc = gen_doc(ctx.rng, cur, 'anyjson')
      doc.tds.apply_doc_action(mods()[0].UpdateRecord('_grist_DocInfo', 1, {'schemaVersion': v}))
      doc.version = v
      r = run_doc(doc, False)
      ctx.count(('current', v, repr(r.before)), nontrivial=True, kind='search:current-or-newer')
      last = mods()[0].UpdateRecord('_grist_DocInfo', 1, {'schemaVersion': cur})
      if r.exc is not None or r.acts != [last] or r.rec or canon(user_part(r.before)) != canon(user_part(r.after)):
        report(ctx, 'current-doc-not-noop', 'a document at version %d: %r' % (v, r.exc or r.acts[:3]),
               lambda: dict(witness_of(doc, False, r.before), version=cur, docinfo_version=v))
  # orphans: one record referencing nothing added to an otherwise consistent document, every version
  for doc in doc_stream(ctx, ctx.n(3, 40), 'expected'):
    w0 = witness_of(doc)
    w0['metadata_only'] = doc.version >= 17 and ctx.rng.random() < 0.3
    w, what = inject_orphan(ctx.rng, w0)
    if what is not None:
      check_orphan(ctx, w0, w, what)
  # robustness stream: inconsistent documents, counted but outside the premise
  raised = {}
  for doc in doc_stream(ctx, ctx.n(2, 20), 'expected'):
    w, what = corrupt(ctx.rng, witness_of(doc))
    if what is None:
      continue
    w['stream'] = 'robust'
    r = run_w(w)
    ctx.bump('robust:' + ('raises' if r.exc is not None else 'ok'))
    if r.exc is not None:
      raised.setdefault('%s -> %s in %s' % (what, type(r.exc).__name__, r.site), []).append(doc.version)
  if raised:
    ctx.extra['robustness_stream'] = {k: len(v) for k, v in sorted(raised.items())}


def replay(ctx, w):
  import logging
  logging.disable(logging.CRITICAL)
  doc = doc_of(w)
  if 'docinfo_version' in w:
    doc.tds.apply_doc_action(mods()[0].UpdateRecord('_grist_DocInfo', 1, {'schemaVersion': w['docinfo_version']}))
    doc.version = w['docinfo_version']
  r = run_doc(doc, w.get('metadata_only', False))
  if r.exc is not None:
    found = classify(witness_of(doc, w.get('metadata_only', False), r.before), r)
    return found[0][1] if found else None
  ps = problems(r)
  return ps[0][1] if ps else None


# ---------------------------------------------------------------------------------------------
# The JSON-reading sites (Model/MigrateSites.v): real migration on a one-cell document vs the site model

def _one_table(cols, **extra):
  n = len(cols)
  return {'_grist_Tables': {'ids': [1], 'cols': {'tableId': ['Table1']}},
          '_grist_Tables_column': {'ids': list(range(1, n + 1)), 'cols': dict(
            {'parentId': [1] * n, 'colId': [c for c, _ in cols], 'type': [t for _, t in cols],
             'parentPos': [float(i + 1) for i in range(n)]}, **extra)}}, \
         [['Table1', [dict(id=c, type=t, isFormula=False, formula='') for c, t in cols], [], {}]]

SITE_KEY = '3'


def site_witness(n, text):
  """The smallest document on which migration n parses `text`."""
  if n == 15:
    return {'version': 14, 'user': [], 'tables': {
      '_grist_Views_section': {'ids': [1], 'cols': {'filterSpec': [text]}},
      '_grist_Views_section_field': {'ids': [1], 'cols': {'parentId': [1], 'colRef': [int(SITE_KEY)]}}}}
  if n == 16:
    tables, user = _one_table([('A', 'Ref:Table1')], widgetOptions=[text])
    return {'version': 15, 'tables': tables, 'user': user}
  if n == 29:
    tables, user = _one_table([('A', 'Text')], widgetOptions=[text], rules=['[99]'])
    return {'version': 28, 'tables': tables, 'user': user}
  if n == 34:
    return {'version': 33, 'user': [], 'tables': {'_grist_Views_section': {'ids': [1], 'cols': {'options': [text]}}}}
  if n == 35:
    return {'version': 34, 'user': [], 'tables': {'_grist_ACLRules': {'ids': [1], 'cols': {'aclFormulaParsed': [text]}}}}
  return {'version': 44, 'user': [], 'tables': {'_grist_Cells': {'ids': [1], 'cols': {'content': [text]}}}}

SITE_COL = {15: 'filterSpec', 16: 'widgetOptions', 29: 'widgetOptions', 34: 'options', 35: 'aclFormulaParsed',
            45: 'content'}
SITE_EXC = dict(EXC_CODE, ValueError=6, OverflowError=7)


def gen_json(rng, depth=2):
  scalars = [None, True, False, 0, 1, -1, 5, 0.0, -0.0, 1.5, float('nan'), float('inf'), -float('inf'), 2 ** 999,
             10 ** 400, -10 ** 400, 1700000000000, '', 's', '3', 'x3y', 'Comment', 'visibleCol', 'id', 'A']
  r = rng.random()
  if depth == 0 or r < 0.45:
    return rng.choice(scalars)
  if r < 0.7:
    return [gen_json(rng, depth - 1) for _ in range(rng.randint(0, 4))]
  keys = ['visibleCol', 'filterBar', 'timeCreated', 'timeUpdated', 'resolved', 'a', '3', '0', 'rulesOptions']
  return {k: gen_json(rng, depth - 1) for k in rng.sample(keys, rng.randint(0, 3))}


def cjson(v):
  if v is None:
    return 'JNull'
  if v is True or v is False:
    return 'JBool %s' % core.boollit(v)
  if isinstance(v, int):
    return 'JNum (JInt %s)' % core.zlit(v)
  if isinstance(v, float):
    return 'JNum (JFlt %d%%Z)' % struct.unpack('<Q', struct.pack('<d', v))[0]
  if isinstance(v, str):
    return 'JStr %s' % cstr(v)
  if isinstance(v, list):
    return 'JArr %s' % core.coq_list(['(%s)' % cjson(x) for x in v])
  if isinstance(v, dict):
    return 'JObj %s' % core.coq_list(['(%s, (%s))' % (cstr(k), cjson(x)) for k, x in v.items()])
  raise Unencodable('json %r' % (v,))

SITE_TYPE = 'Z * str * json * Z * bool'
SITE_CHECK = "fun c => let '(n, key, j, raised, ws) := c in check_site n key j raised ws"


def site_cases(ctx):
  cases, info = [], []
  for n, col in sorted(SITE_COL.items()):
    texts = list(EXPECTED[col]) + list(ODD[col]) + \
            [json.dumps(gen_json(ctx.rng)) for _ in range(ctx.n(25, 200))]
    for text in texts:
      try:
        parsed = json.loads(text)
      except ValueError:
        continue                      # not JSON: the real code falls back to {} / skips; not a site input
      if text == '' or (n == 29 and not text):
        continue
      w = dict(site_witness(n, text), metadata_only=False)
      r = run_w(w)
      if r.exc is not None and r.site != 'm%d' % n:
        ctx.broken('sites:one-cell document for migration %d fails elsewhere' % n, '%r: %s in %s' % (text, r.exc, r.site))
        continue
      code = 0 if r.exc is None else SITE_EXC.get(type(r.exc).__name__)
      if code is None:
        ctx.bump('sites:outside-model-domain')
        continue
      ws = bool(WELL_SHAPED[col](parsed))
      cases.append('(%s, %s, (%s), %s, %s)' % (core.zlit(n), cstr(SITE_KEY), cjson(parsed), core.zlit(code),
                                               core.boollit(ws)))
      info.append((n, text, r.exc))
      ctx.count(('site', n, text), nontrivial=True, kind='sites:m%d:%s' % (n, 'raises' if code else 'ok'),
                sample={'stream': 'JSON sites', 'migration': n, 'cell': text,
                        'raises': type(r.exc).__name__ if r.exc else None} if text in ('[1,2]', '{}') and n in (16, 34) else None)
      if ws and code:
        ctx.broken('sites:migration %d raises on a cell of the expected shape' % n, '%r -> %r' % (text, r.exc))
  return cases, info


# ---------------------------------------------------------------------------------------------
# Modelled migration BODIES (Model/MigrateBodies.v): oracle tables for one run, and the case term

HAND_MODELLED = [1, 2, 3, 4, 7, 10, 15, 16, 17, 20, 25, 26, 28, 29, 30, 31, 34, 35, 39, 40, 45]          # versions whose body Model/MigrateBodies.v models (body_of)


def modelled():
  """Versions whose body is modelled: by hand, or translated as a constant list this run."""
  if 'consts' not in _cache:
    _cache['consts'] = const_migrations()
  return sorted(set(HAND_MODELLED) | set(_cache['consts']))


def secs_of(x):
  try:
    return 'Ok %s' % core.zlit(int(x / 1000))
  except (TypeError, ValueError, OverflowError) as e:
    return 'Err %d%%Z' % SITE_EXC[type(e).__name__]


def cjnum(x):
  return cjson(x)[len('JNum '):]


def oracles_term(r):
  """mkOracles: json.loads of every string cell of the loaded tdset, the json.dumps calls the real run made,
  int(x / 1000) of every number found under timeCreated/timeUpdated."""
  texts, parsed = [], {}
  for t, (rows, cols) in r.T0[0].items():
    if t.startswith(GRIST):
      for c, vs in cols.items():
        for v in vs:
          if isinstance(v, str) and v not in parsed:
            try:
              parsed[v] = ('(Some (%s))' % cjson(json.loads(v)))
            except ValueError:
              parsed[v] = 'None'
            except RecursionError:
              raise Unencodable('json nesting')
            texts.append(v)
  ptab = core.coq_list(['(%s, %s)' % (cstr(v), parsed[v]) for v in texts])
  nums = []
  for v in texts:
    try:
      j = json.loads(v)
    except ValueError:
      continue
    if isinstance(j, dict):
      for k in ('timeCreated', 'timeUpdated'):
        x = j.get(k)
        if isinstance(x, (int, float)) and not isinstance(x, bool) and not any(x is y or (x == y and type(x) is type(y)) for y in nums):
          nums.append(x)
  stab = core.coq_list(['(%s, %s)' % (cjnum(x), secs_of(x)) for x in nums])
  if any(extra for _, _, _, extra in r.dumps):
    raise Unencodable('json.dumps called with options the model does not know')
  d1 = core.coq_list(['((%s), %s)' % (cjson(o), cstr(out)) for o, compact, out, _ in r.dumps if not compact])
  d2 = core.coq_list(['((%s), %s)' % (cjson(o), cstr(out)) for o, compact, out, _ in r.dumps if compact])
  for name, ident, avoid, out in r.picks:
    if name == 'col' and ident != 'gristHelper_Display':
      raise Unencodable('pick_col_ident called with another suggestion')
  pc = core.coq_list(['(%s, %s)' % (core.coq_list([cstr(a) for a in avoid]), cstr(out))
                      for name, ident, avoid, out in r.picks if name == 'col'])
  strj, seen = [], []
  for v in texts:
    try:
      j = json.loads(v)
    except ValueError:
      continue
    x = j.get('visibleCol') if isinstance(j, dict) else None
    if x is not None and not isinstance(x, str) and repr(x) not in seen:
      seen.append(repr(x))
      strj.append('((%s), %s)' % (cjson(x), cstr('%s' % (x,))))
  rx = summary_regex()
  names = []
  for v in r.T0[0].get('_grist_Tables', ([], {}))[1].get('tableId', []):
    if isinstance(v, str) and v not in names:
      names.append(v)
  def groups(n):
    m = rx.match(n)
    return 'None' if not m else '(Some (%s, %s))' % (cstr(m.group(1)), cstr(m.group(2)))
  summ = core.coq_list(['(%s, %s)' % (cstr(n), groups(n)) for n in names])
  pt = core.coq_list(['((%s, %s), %s)' % (cstr(ident), core.coq_list([cstr(a) for a in avoid]), cstr(out))
                      for name, ident, avoid, out in r.picks if name == 'table'])
  rs, seen_rs = [], set()
  for pat, repl, text, out in r.resubs:
    if not all(isinstance(x, str) for x in (pat, repl, text, out)):
      raise Unencodable('re.sub on non-strings')
    if (pat, repl, text) not in seen_rs:
      seen_rs.add((pat, repl, text))
      rs.append('((%s, %s, %s), %s)' % (cstr(pat), cstr(repl), cstr(text), cstr(out)))
  return '(mkOracles %s %s %s %s %s %s %s %s %s)' % (ptab, d1, d2, stab, pc, core.coq_list(strj), summ, pt,
                                                      core.coq_list(rs))


def summary_regex():
  """The regular expression migration 7 compiles for old-style summary table names, taken from its source."""
  if 'rx' not in _cache:
    import re, textwrap
    fn = mods()[1].all_migrations.get(7)
    pats = []
    if fn is not None:
      for n in ast.walk(ast.parse(textwrap.dedent(inspect.getsource(fn)))):
        if isinstance(n, ast.Assign) and len(n.targets) == 1 and getattr(n.targets[0], 'id', None) == 'summary_re' and \
           isinstance(n.value, ast.Call) and getattr(n.value.func, 'attr', None) == 'compile' and \
           len(n.value.args) == 1 and isinstance(n.value.args[0], ast.Constant):
          pats.append(n.value.args[0].value)
    if len(pats) != 1:
      raise core.TieBroken('migration 7: summary_re = re.compile(<constant>) not found')
    _cache['rx'] = re.compile(pats[0])
  return _cache['rx']


def bodies_case(r):
  rec = core.coq_list(['(%s, %s)' % (core.zlit(v), cacts(acts)) for v, acts in r.rec])
  strict = not getattr(r.doc, 'orphan', False)
  return '(%s, %s, %s, %s)' % (core.boollit(strict), oracles_term(r), ctds(r.T0), rec)

BODIES_TYPE = 'bool * oracles * tds * list (Z * list action)'
# documents with an orphan column record are outside the (stronger than necessary) premises of the totality theorems
# of migrations 7 and 10, which ask every column's parentId to name a table: there only the bodies are compared
BODIES_CHECK = ("fun c => let '(strict, o, T0, rec) := c in (strict && check_bodies const_bodies o T0 rec) || "
                "(negb strict && forallb (fun v => Z.eqb v (-7) || Z.eqb v (-10)) (walk_bad const_bodies o rec T0))")


# ---------------------------------------------------------------------------------------------
# regenerate: migrations whose body is a constant list of doc actions, translated from the source

# the versions found constant when this check was built; one of them no longer translating breaks the tie
EXPECTED_CONST = {5, 6, 8, 9, 11, 12, 13, 14, 18, 19, 21, 22, 23, 24, 27, 32, 33, 36, 37, 38, 41, 42, 43, 44, 46}
_ALLOWED_NODES = (ast.Call, ast.Attribute, ast.Name, ast.Constant, ast.List, ast.Dict, ast.keyword, ast.Load,
                  ast.Expression)


def const_actions_of(fn):
  """The literal list of actions a migration hands to tdset.apply_doc_actions, or None when its body is
  anything else (reads the tdset, loops, ...).  Elements are evaluated with the real add_column /
  schema.make_column / actions.* helpers, from an AST that may contain nothing but calls to them on constants."""
  actions, migrations, schema, _, _, _ = mods()
  import textwrap
  top = ast.parse(textwrap.dedent(inspect.getsource(fn))).body[0]
  body = list(top.body)
  arg = top.args.args[0].arg
  if body and isinstance(body[0], ast.Expr) and isinstance(getattr(body[0], 'value', None), ast.Constant):
    body = body[1:]                                   # docstring
  def applied(ret):
    c = ret.value if isinstance(ret, ast.Return) else None
    if isinstance(c, ast.Call) and isinstance(c.func, ast.Attribute) and c.func.attr == 'apply_doc_actions' and \
       isinstance(c.func.value, ast.Name) and c.func.value.id == arg and len(c.args) == 1 and not c.keywords:
      return c.args[0]
    return None
  lst = None
  if len(body) == 1 and isinstance(applied(body[0]), ast.List):
    lst = applied(body[0])
  elif len(body) == 2 and isinstance(body[0], ast.Assign) and len(body[0].targets) == 1 and \
       isinstance(body[0].targets[0], ast.Name) and isinstance(body[0].value, ast.List) and \
       isinstance(applied(body[1]), ast.Name) and applied(body[1]).id == body[0].targets[0].id:
    lst = body[0].value
  if lst is None:
    return None
  env = {'__builtins__': {}, 'add_column': migrations.add_column, 'actions': actions, 'schema': schema}
  out = []
  for elt in lst.elts:
    for n in ast.walk(elt):
      if not isinstance(n, _ALLOWED_NODES) or (isinstance(n, ast.Name) and n.id not in env):
        return None
    a = eval(compile(ast.Expression(elt), '<migration>', 'eval'), env)
    if type(a).__name__ not in actions.action_types or type(a).__name__ == 'TableData':
      return None
    out.append(a)
  return out


def const_migrations():
  _, migrations, _, _, _, _ = mods()
  out = {}
  for v, fn in sorted(migrations.all_migrations.items()):
    try:
      acts = const_actions_of(fn)
    except Exception:
      acts = None
    if acts is not None:
      out[v] = acts
  return out


def regenerate(ctx):
  global POOL
  consts = const_migrations()
  missing = sorted(EXPECTED_CONST - set(consts))
  if missing:
    raise core.TieBroken('migrations %r no longer have a constant body (tdset.apply_doc_actions([...constants...]))'
                         % missing)
  saved, POOL = POOL, Pool('cg')
  try:
    items = ['(%s, %s)' % (core.zlit(v), core.coq_list([cact_text(a) for a in acts])) for v, acts in sorted(consts.items())]
    defs = POOL.defs_for(items)
  except Unencodable as e:
    raise core.TieBroken('a constant migration emits a value outside the model: %s' % e)
  finally:
    POOL = saved
  text = ('(* GENERATED by harness/props/c25.py from %s/migrations.py on every run: the migrations whose body is\n'
          '   `return tdset.apply_doc_actions([<constants>])`, with the literal list each one emits. *)\n'
          'From Coq Require Import ZArith Bool String List.\nImport ListNotations.\n'
          'Require Import Grist.Model.Migrate.\nOpen Scope Z_scope.\n%s\n'
          'Definition const_bodies : list (Z * list action) := [\n  %s\n].\n'
          % (core.GRIST, defs, ';\n  '.join(items)))
  os.makedirs(os.path.join(core.COQ, 'gen'), exist_ok=True)
  core.write_if_changed(os.path.join(core.COQ, 'gen', 'MigrateConst_gen.v'), text)
  ctx.extra['constant_migrations_translated'] = sorted(consts)
  _cache['consts'] = consts
