"""C13 -- Lookups return exactly the matching rows in documented order.

Model: coq/theories/Model/Lookup.v (executable).  Tie to the code, re-established on every check:

  REGENERATED + PROVED.  harness/lk2v.py translates, from the sources of the tree being checked, into
  coq/gen/Lookup_gen.v: table.make_sort_spec; twowaymap.py: the container functions (_set_* / _list_* / _LookupSet_*),
  the bin classes (_SingleValueBin, _SingleValueStrictBin, _ContainerBin) with the registrations of _mapper_types /
  register_container, TwoWayMap.insert (with its rollback) / remove / remove_left / remove_right / clear; lookup.py:
  _make_row_key_map (bin kinds), get_mapped_keys, update_record and remove_row_id of SimpleLookupMapping and
  ContainsLookupMapping (also get_new_keys_iter: key product, match_empty), lookup_by_key, LookupMapColumn._do_fast_lookup / _do_lookup_with_sort /
  _reset_sorted_versions; sort_key.py: SortKey.__lt__.  Proofs/LookupGen_proofs.v proves every translated function equal to the model function the
  C13 theorems speak about (Props/C13.v: C13_gen_*), so a semantic edit of these functions breaks a proof obligation.
  The translated functions run over the primitives of Model/LookupRt.v (dict access, the sorted_versions dict of a
  LookupSet, sorted(), set(), get_new_keys_iter).

  DIFFERENTIAL (model AND translated functions against the running code, same cases, vm_compute):
  A  table.make_sort_spec on an enumerated argument space
  B  the bin objects of twowaymap._mapper_types, and twowaymap.TwoWayMap for all 25 bin-kind pairs, on random op
     sequences with failing strict inserts and unhashable values; outcomes and dictionaries are compared
  C  lookup.SimpleLookupMapping / ContainsLookupMapping, LookupMapColumn._do_lookup_with_sort and
     _reset_sorted_versions, sort_key.make_sort_key: the REAL functions run on stub records/columns under
     arbitrary (also "wrong") op orders; every return value, every lookup result and the final index with
     its sorted_versions are compared
  D  the real engine: documents with formula columns calling lookupRecords/lookupOne; the calls the engine
     makes on every LookupMapColumn are recorded (wrapping, no source change) and replayed, every lookup result
     compared; the final formula cells are compared with the model's filter+sort specification (spec_lookup)
  search: naive filter + sort in Python over fetch_table vs the formula cells, after every bundle
  robustness stream (NaN / infinite / mutually incomparable sort values and NaN keys): only "no internal
  error" is required; it is reported, never compared with the model.
"""
import collections
import datetime
import itertools
import logging
import math
import os
import traceback

from harness import core, lk2v

ID = 'C13'
TITLE = 'Lookups return exactly the matching rows in documented order'
PROPS = ['Props/C13']
RULE = ('A: enumerated make_sort_spec arguments. B: random TwoWayMap op sequences over all bin-kind pairs '
        '(non-trivial: at least one op changed a dictionary and, for the failing stream, one insert raised). '
        'C: random op sequences on real lookup mappings with sorted lookups (non-trivial: some lookup returned '
        '>= 1 row while the index held a row it did not return). D: random documents and edit histories through '
        'the engine (adds, updates, removes, key changes, sort value changes, lookup key changes), 10+ lookup '
        'shapes per document (CONTAINS, match_empty, order_by with "-", tuples, "id", None, sort_by, lookupOne), '
        'tables with and without manualSort; a formula cell counts as non-trivial when its lookup matched >= 1 '
        'and missed >= 1 row of the table. Distinct by hash of the canonical case.')
TRUSTED = ['harness/lk2v.py (Python subset -> Gallina in a state+exception monad); validated on every run by evaluating the '
           'translated functions and the running code on the same cases (levels A-D)',
           'Model/LookupRt.v: meaning of the primitives the translated code calls (dict get/set/del/pop incl. CPython\'s '
           'pop on an empty dict, in-place update of a stored container, LookupSet.sorted_versions access, sorted(), set()) '
           'and the binding of the translation (a rec is (row id, cells of the lookup columns); relation bookkeeping calls '
           'have no effect on the index)',
           'hand-written and tied only differentially (levels C, D): the reading of sort cells by make_sort_key / SortKey.__init__ '
           '(sort_values, spec_col), Python < == hash on values (py_lt, val_eqb, hashable), RecordSet.get_one',
           'column type conversion of lookup keys (col.convert) and rich cell values (get_cell_value) are taken from '
           'the implementation (kernel V), not modelled here',
           'CPython: dict/set semantics (hash consistent with ==), sorted() returns the sorted permutation, '
           'float.as_integer_ratio is exact']
ASSUMPTIONS = ['sort values are mutually comparable (LookupSort_proofs.sortable: None, bool, int, finite float, str, alt '
               'text, objects ordered inside their class whose class name is not "str"/"AltText"; the fallback orders across '
               'classes; tuples/lists/records as sort values are modelled and compared but outside the proved domain) and keys '
               'contain no NaN (NaN is not representable in the model; such cases go to the robustness stream)',
               'lookup_refines_filter assumes the engine discipline stated as hypotheses: every written/removed row '
               'was update_record\'ed / unset before the lookup and _reset_sorted_versions ran for the spec '
               '(checked on recorded engine traces by level D)']
TECHNIQUE = ('Coq proofs over an executable model + bridging proofs to the functions translated from the source on every run '
             '(lk2v) + differential correspondence at four levels (incl. recorded engine traces replayed by vm_compute) + naive '
             'filter/sort oracle on the engine')
LEVEL_TEXT = ('Kernel-checked theorems for all op sequences and keys: TwoWayMap forward/backward maps stay mutually '
              'inverse for every bin-kind pair (also after failing strict inserts and unhashable values); after any '
              'history in which every changed row was update_record\'ed the sorted lookup equals sort(spec, rows whose '
              'key set contains the key) for Simple and Contains mappings; cached sorted versions are valid; '
              'make_sort_spec facts; SortKey is a strict total order on comparable values; lookupOne = head. The model '
              'functions for make_sort_spec, the bin classes, TwoWayMap, the lookup mappings and the sorted-versions logic '
              'are proved equal to the code translated from the source on every run.')
LEVEL_NOTE = ('Trusted: Coq kernel; the lk2v translator and the runtime primitives of LookupRt.v; the hand-written parts '
              '(cell reads of SortKey, < == hash of values) validated differentially on every run; key type '
              'conversion and rich values come from the implementation.')

UNSUPPORTED = 'unsupported'


def regenerate(ctx):
  """coq/gen/Lookup_gen.v: make_sort_spec, TwoWayMap methods, lookup mapping methods and the sorted-versions logic,
  translated from the sources of the tree being checked (fail closed)."""
  try:
    text = lk2v.generate(core.GRIST)
  except lk2v.Untranslatable as e:
    raise core.TieBroken('lookup code is outside the translated subset: %s' % e)
  core.write_if_changed(os.path.join(core.COQ, 'gen', 'Lookup_gen.v'), text)


class Unsupported(Exception):
  pass


# ---------------------------------------------------------------------------------------------
# Python values -> Lookup.val literals

def _impl():
  core.setup_impl_path()
  logging.disable(logging.CRITICAL)
  import lookup, twowaymap, sort_key, table, records, objtypes, usertypes   # noqa
  from functions.lookup import _Contains, CONTAINS
  return collections.namedtuple('Impl', 'lookup twowaymap sort_key table records objtypes Contains CONTAINS')(
    lookup, twowaymap, sort_key, table, records, objtypes, _Contains, CONTAINS)


def qlit(f):
  n, d = f.as_integer_ratio()
  return '(Qmake %s %d%%positive)' % (core.zlit(n), d)


def vlit(v):
  """Python (rich) cell value -> Coq term of type Lookup.val."""
  im = _impl()
  if v is None:
    return 'VNone'
  if isinstance(v, bool):
    return '(VBool %s)' % core.boollit(v)
  if isinstance(v, int):
    return '(VInt %s)' % core.zlit(v)
  if isinstance(v, float):
    if v != v or v in (float('inf'), float('-inf')):
      raise Unsupported('non-finite float')
    return '(VFloat %s)' % qlit(v)
  if isinstance(v, str):
    return '(VStr %s)' % core.strlit(v)
  if isinstance(v, im.objtypes.AltText):
    return '(VAlt %s)' % core.strlit(str(v))
  if isinstance(v, datetime.datetime):
    raise Unsupported('datetime')
  if isinstance(v, datetime.date):
    return '(VObj %s %s)' % (core.strlit('date'), core.zlit(v.toordinal()))
  if isinstance(v, im.records.Record):
    return '(VRef %s %s)' % (core.strlit(v._table.table_id), core.zlit(v._row_id))
  if isinstance(v, im.records.RecordSet):
    return '(VList %s)' % core.coq_list(['(VRef %s %s)' % (core.strlit(v._table.table_id), core.zlit(r))
                                         for r in v._row_ids])
  if type(v) is tuple:
    return '(VTuple %s)' % core.coq_list([vlit(x) for x in v])
  if type(v) is list:
    return '(VList %s)' % core.coq_list([vlit(x) for x in v])
  raise Unsupported('value of type %s' % type(v).__name__)


def vlist(vs):
  return core.coq_list([vlit(v) for v in vs])


def speclit(spec):
  return core.coq_list([core.strlit(c) for c in spec])


def tablelit(rows):
  """rows: {row_id: {col: value}} -> Lookup.table"""
  return core.coq_list(['(%s, %s)' % (core.zlit(r), core.coq_list(
    ['(%s, %s)' % (core.strlit(c), vlit(v)) for c, v in sorted(d.items())])) for r, d in sorted(rows.items())])


def reslit(res):
  return 'LError' if res is None else '(LRows %s)' % core.zlist(res)


def collit(c):
  im = _impl()
  if isinstance(c, im.Contains):
    if c.match_empty is im.Contains.no_match_empty:
      return '(CContains None)'
    return '(CContains (Some %s))' % vlit(c.match_empty)
  return 'CPlain'


KINDS = [('single', 'KSingle'), ('strict', 'KStrict'), (set, 'KSet'), (list, 'KList'), ('LookupSet', 'KLookupSet')]

EXTRA_DEFS = r'''
Require Import Grist.Model.Lookup.
From Coq Require Import QArith.
Open Scope Z_scope.
Fixpoint leqb {A} (eqb : A -> A -> bool) (l m : list A) : bool :=
  match l, m with [], [] => true | x :: l', y :: m' => eqb x y && leqb eqb l' m' | _, _ => false end.
Definition sameset {A} (eqb : A -> A -> bool) (l m : list A) : bool :=
  Nat.eqb (List.length l) (List.length m) && forallb (fun x => memb eqb x m) l && forallb (fun x => memb eqb x l) m.
Definition exn_eqb (a b : exn) := match a, b with TypeErr, TypeErr => true | ValueErr, ValueErr => true | OtherErr, OtherErr => true | _, _ => false end.
Definition out_eqb (a b : outcome) := match a, b with Done, Done => true | Raise x, Raise y => exn_eqb x y | _, _ => false end.
Definition ordered (k : kind) := match k with KSet | KLookupSet => false | _ => true end.
Definition bin_same {A} (eqb : A -> A -> bool) (kd : kind) (a b : list A) :=
  if ordered kd then leqb eqb a b else sameset eqb a b.
Definition dict_same {K A} (keq : K -> K -> bool) (aeq : A -> A -> bool) (kd : kind) (m : dict K (bin A)) (dump : list (K * list A)) :=
  Nat.eqb (List.length m) (List.length dump) &&
  forallb (fun kv => match dget keq m (fst kv) with Some b => bin_same aeq kd (items b) (snd kv) | None => false end) dump.
Definition tw_case := (kind * kind * list (twop val val) * list outcome * list (val * list val) * list (val * list val))%type.
Definition tw_check (c : tw_case) : bool :=
  let '(lk, rk, ops, outs, fd, bd) := c in
  let '(t, res) := tw_run val_eqb val_eqb hashable hashable val_fmt_fails val_fmt_fails lk rk (mkTwm [] []) ops in
  leqb out_eqb res outs && dict_same val_eqb val_eqb rk (fwd t) fd && dict_same val_eqb val_eqb lk (bwd t) bd.

Definition opt_spec_eqb (a b : option sortspec) :=
  match a, b with None, None => true | Some x, Some y => spec_eqb x y | _, _ => false end.
Definition ss_case := (sarg * sarg * bool * option sortspec)%type.
Definition ss_check (c : ss_case) : bool :=
  let '(ob, sb, ms, r) := c in opt_spec_eqb (make_sort_spec ob sb ms) r.

Inductive obs := ObsKeys (l : list key) | ObsRes (r : lres) | ObsErr.
Definition lres_eqb (a b : lres) := match a, b with LError, LError => true | LRows x, LRows y => leqb Z.eqb x y | _, _ => false end.
Definition obs_eqb (a b : obs) :=
  match a, b with
  | ObsKeys x, ObsKeys y => sameset vals_eqb x y
  | ObsRes x, ObsRes y => lres_eqb x y
  | ObsErr, ObsErr => true
  | _, _ => false end.
Definition op_obs (cols : list colspec) (m : lmap) (o : op) : lmap * obs :=
  match o with
  | OUpdate r cells => let '(m', ks) := update_record cols m r cells in (m', ObsKeys ks)
  | ORemove r => let '(m', ks) := remove_row_id cols m r in (m', ObsKeys ks)
  | OReset cells s => match reset_sorted cols m cells s with
                      | Some m' => (m', ObsKeys (new_keys cols cells)) | None => (m, ObsErr) end
  | OLookup k s t => let '(m', r) := do_lookup m t k s in (m', ObsRes r)
  end.
Fixpoint run_obs (cols : list colspec) (m : lmap) (ops : list op) : lmap * list obs :=
  match ops with
  | [] => (m, [])
  | o :: ops' => let '(m1, x) := op_obs cols m o in let '(m2, xs) := run_obs cols m1 ops' in (m2, x :: xs)
  end.
Definition cache_same (c : list (sortspec * list Z)) (dump : list (sortspec * list Z)) :=
  Nat.eqb (List.length c) (List.length dump) &&
  forallb (fun e => match cache_get c (fst e) with Some l => leqb Z.eqb l (snd e) | None => false end) dump.
Definition bwd_same (m : dict key (bin Z)) (dump : list (key * list Z * list (sortspec * list Z))) :=
  Nat.eqb (List.length m) (List.length dump) &&
  forallb (fun e => let '(k, rows, c) := e in
                    match dget vals_eqb m k with
                    | Some b => sameset Z.eqb (items b) rows && cache_same (cache b) c
                    | None => false end) dump.
(* the affected-keys result of update_record is only compared as a set; the remove_row_id of a simple
   mapping reports {None} for an unmapped row, which the harness drops *)
Definition lm_case := (list colspec * list op * list obs * list (Z * list key) * list (key * list Z * list (sortspec * list Z)))%type.
Definition lm_check (c : lm_case) : bool :=
  let '(cols, ops, expected, fd, bd) := c in
  let '(m, got) := run_obs cols lm_empty ops in
  leqb obs_eqb got expected &&
  dict_same Z.eqb vals_eqb (right_kind cols) (fwd m) fd && bwd_same (bwd m) bd.
(* same, for traces recorded in the engine: only lookup results are observed, then the final index *)
Definition tr_check (c : lm_case) : bool :=
  let '(cols, ops, expected, fd, bd) := c in
  let '(m, got) := run_ops cols lm_empty ops in
  leqb lres_eqb got (flat_map (fun o => match o with ObsRes r => [r] | _ => [] end) expected) &&
  dict_same Z.eqb vals_eqb (right_kind cols) (fwd m) fd && bwd_same (bwd m) bd.
Definition cell_case := (list colspec * list str * table * key * sarg * sarg * bool * bool * lres)%type.
Definition cell_check (c : cell_case) : bool :=
  let '(cols, colids, t, k, ob, sb, ms, one, expected) := c in
  let got := match make_sort_spec ob sb ms with
             | None => LError
             | Some s => if negb (key_hashable k) then LError else
                         match spec_lookup cols colids t k s with Some l => LRows l | None => LError end
             end in
  lres_eqb (if one then match got with LRows l => LRows [get_one l] | e => e end else got) expected.
'''
GEN_DEFS = r'''
Require Import Grist.Lib.LkMonad Grist.Model.LookupRt GristGen.Lookup_gen.
(* the same cases through the functions TRANSLATED from the source (validates harness/lk2v.py) *)
Definition ss_check_gen (c : ss_case) : bool :=
  let '(ob, sb, ms, r) := c in
  opt_spec_eqb (match gen_make_sort_spec ob sb ms tt with Ok s _ => Some s | Exc _ _ => None end) r.
Definition gen_step {L R} leq req lhash rhash lfmt rfmt lk rk (t : twm L R) (o : twop L R) : twm L R * outcome :=
  let r := match o with
           | TInsert l r => gen_tw_insert leq req lhash rhash lfmt rfmt lk rk l r t
           | TRemove l r => gen_tw_remove leq req lhash rhash lfmt rfmt lk rk l r t
           | TRemoveLeft l => gen_tw_remove_left leq req lhash rhash lfmt rfmt lk rk l t
           | TRemoveRight r => gen_tw_remove_right leq req lhash rhash lfmt rfmt lk rk r t
           | TClear => gen_tw_clear leq req lhash rhash lfmt rfmt lk rk t
           end in
  match r with Ok _ t' => (t', Done) | Exc e t' => (t', Raise e) end.
Fixpoint gen_run {L R} leq req lhash rhash lfmt rfmt lk rk (t : twm L R) (ops : list (twop L R)) : twm L R * list outcome :=
  match ops with
  | [] => (t, [])
  | o :: ops' => let '(t1, r) := gen_step leq req lhash rhash lfmt rfmt lk rk t o in
                 let '(t2, rs) := gen_run leq req lhash rhash lfmt rfmt lk rk t1 ops' in (t2, r :: rs)
  end.
Definition tw_check_gen (c : tw_case) : bool :=
  let '(lk, rk, ops, outs, fd, bd) := c in
  let '(t, res) := gen_run val_eqb val_eqb hashable hashable val_fmt_fails val_fmt_fails lk rk (mkTwm [] []) ops in
  leqb out_eqb res outs && dict_same val_eqb val_eqb rk (fwd t) fd && dict_same val_eqb val_eqb lk (bwd t) bd.
Inductive binop := BAdd (k v : val) | BRem (k v : val) | BPop (k : val).
Inductive bout := OAdd (r a : option val) | OUnit | OList (l : list val) | OExc (e : exn).
Definition oval_eqb (a b : option val) := match a, b with Some x, Some y => val_eqb x y | None, None => true | _, _ => false end.
Definition bout_eqb (kd : kind) (a b : bout) :=
  match a, b with
  | OAdd r1 a1, OAdd r2 a2 => oval_eqb r1 r2 && oval_eqb a1 a2
  | OUnit, OUnit => true
  | OList l1, OList l2 => bin_same val_eqb kd l1 l2
  | OExc e1, OExc e2 => exn_eqb e1 e2
  | _, _ => false end.
Definition bin_step_model (kd : kind) (m : dict val (bin val)) (o : binop) : dict val (bin val) * bout :=
  match o with
  | BAdd k v => match add_item val_eqb val_eqb hashable hashable val_fmt_fails kd m k v with
                | AOk m' r a => (m', OAdd r a) | ARaise e => (m, OExc e) end
  | BRem k v => match remove_item val_eqb val_eqb hashable hashable kd m k v with Some m' => (m', OUnit) | None => (m, OExc TypeErr) end
  | BPop k => match remove_key val_eqb hashable kd m k with Some (m', l) => (m', OList l) | None => (m, OExc TypeErr) end
  end.
Definition bin_step_gen (kd : kind) (m : dict val (bin val)) (o : binop) : dict val (bin val) * bout :=
  match o with
  | BAdd k v => match gen_bin_add_item val_eqb val_eqb hashable hashable val_fmt_fails kd k v m with
                | Ok (r, a) m' => (m', OAdd r a) | Exc e m' => (m', OExc e) end
  | BRem k v => match gen_bin_remove_item val_eqb val_eqb hashable hashable val_fmt_fails kd k v m with
                | Ok _ m' => (m', OUnit) | Exc e m' => (m', OExc e) end
  | BPop k => match gen_bin_remove_key val_eqb val_eqb hashable hashable val_fmt_fails kd k m with
              | Ok l m' => (m', OList l) | Exc e m' => (m', OExc e) end
  end.
Fixpoint bin_run (step : dict val (bin val) -> binop -> dict val (bin val) * bout) (m : dict val (bin val)) (ops : list binop) :=
  match ops with
  | [] => (m, [])
  | o :: ops' => let '(m1, x) := step m o in let '(m2, xs) := bin_run step m1 ops' in (m2, x :: xs)
  end.
Definition bin_case := (kind * list binop * list bout * list (val * list val))%type.
Definition bin_check (c : bin_case) : bool :=
  let '(kd, ops, outs, dump) := c in
  let '(m1, o1) := bin_run (bin_step_model kd) [] ops in
  let '(m2, o2) := bin_run (bin_step_gen kd) [] ops in
  leqb (bout_eqb kd) o1 outs && dict_same val_eqb val_eqb kd m1 dump &&
  leqb (bout_eqb kd) o2 outs && dict_same val_eqb val_eqb kd m2 dump.
Definition obool_eqb (a b : option bool) := match a, b with Some x, Some y => Bool.eqb x y | None, None => true | _, _ => false end.
Definition sk_case := (list val * list val * list bool * Z * Z * option bool)%type.
Definition sk_check (c : sk_case) : bool :=
  let '(va, vb, ascs, ra, rb, r) := c in
  obool_eqb (sortkey_lt va vb ascs ra rb) r &&
  obool_eqb (match gen_sortkey_lt va vb ascs ra rb tt with Ok b _ => Some b | Exc _ _ => None end) r.
Definition somes {A} (l : list (option A)) : list A := flat_map (fun x => match x with Some a => [a] | None => [] end) l.
Definition op_obs_gen (cols : list colspec) (m : lmap) (o : op) : lmap * obs :=
  match o with
  | OUpdate r cells =>
      match (if uses_contains cols then gen_contains_update_record cols r cells m else gen_simple_update_record cols r cells m) with
      | Ok ks m' => (m', ObsKeys ks) | Exc _ m' => (m', ObsErr) end
  | ORemove r =>
      if uses_contains cols then
        match gen_contains_remove_row_id r m with Ok ks m' => (m', ObsKeys ks) | Exc _ m' => (m', ObsErr) end
      else match gen_simple_remove_row_id r m with Ok ks m' => (m', ObsKeys (somes ks)) | Exc _ m' => (m', ObsErr) end
  | OReset cells s =>
      (* the reported keys are set(get_new_keys_iter(rec)): taken here from the translated get_new_keys_iter *)
      let it := if uses_contains cols
                then match gen_contains_get_new_keys_iter cols 0 cells [] with Ok ks _ => ks | Exc _ _ => [] end
                else match gen_simple_get_new_keys_iter cols 0 cells tt with Ok ks _ => ks | Exc _ _ => [] end in
      match gen_reset_sorted_versions cols 0 cells s m with
      | Ok _ m' => (m', ObsKeys (dedup vals_eqb it)) | Exc _ m' => (m', ObsErr) end
  | OLookup k s t =>
      match gen_do_lookup_with_sort t k s m with Ok (l, _) m' => (m', ObsRes (LRows l)) | Exc _ m' => (m', ObsRes LError) end
  end.
Fixpoint run_obs_gen (cols : list colspec) (m : lmap) (ops : list op) : lmap * list obs :=
  match ops with
  | [] => (m, [])
  | o :: ops' => let '(m1, x) := op_obs_gen cols m o in let '(m2, xs) := run_obs_gen cols m1 ops' in (m2, x :: xs)
  end.
Definition lm_check_gen (c : lm_case) : bool :=
  let '(cols, ops, expected, fd, bd) := c in
  let '(m, got) := run_obs_gen cols lm_empty ops in
  leqb obs_eqb got expected &&
  dict_same Z.eqb vals_eqb (right_kind cols) (fwd m) fd && bwd_same (bwd m) bd.
Definition is_res (o : obs) := match o with ObsRes _ => true | _ => false end.
Definition tr_check_gen (c : lm_case * bool) : bool :=
  let '((cols, ops, expected, fd, bd), live) := c in
  let '(m, got) := run_obs_gen cols lm_empty ops in
  leqb obs_eqb (filter is_res got) (filter is_res expected) &&
  (negb live || (dict_same Z.eqb vals_eqb (right_kind cols) (fwd m) fd && bwd_same (bwd m) bd)).
'''
IMPORTS = []


BATCH_DEFS = r'''
Inductive anycase := CS (c : ss_case) | CT (c : tw_case) | CM (c : lm_case) | CR (c : lm_case * bool) | CC (c : cell_case) | CB (c : bin_case) | CK (c : sk_case).
Definition any_check (c : anycase) : bool :=
  match c with
  | CS c => ss_check c && ss_check_gen c
  | CT c => tw_check c && tw_check_gen c
  | CM c => lm_check c && lm_check_gen c
  | CR c => tr_check2 c && tr_check_gen c
  | CC c => cell_check c
  | CB c => bin_check c
  | CK c => sk_check c
  end.
'''
WRAP = {'sortspec': 'CS', 'twoway': 'CT', 'mapping': 'CM', 'trace': 'CR', 'cells': 'CC', 'bins': 'CB', 'sortkey': 'CK'}


def queue_cases(ctx, name, lits, on_fail):
  """on_fail(i) is called for every failing case index i of this group."""
  q = ctx.__dict__.setdefault('_c13_queue', [])
  for i, l in enumerate(lits):
    q.append(('(%s %s)' % (WRAP[name], l.replace('%Z', '')), on_fail, i))


def flush_cases(ctx):
  q = ctx.__dict__.pop('_c13_queue', [])
  if not q:
    return
  # balance the shards: big (trace) cases are spread round-robin
  order = sorted(range(len(q)), key=lambda i: -len(q[i][0]))
  nshard = 8 if len(q) <= 2400 else (len(q) + 299) // 300
  shards = [order[k::nshard] for k in range(nshard)]
  flat = [i for sh in shards for i in sh]
  size = max(len(sh) for sh in shards)
  # run_cases cuts consecutive slices of `size`: pad the shorter shards with a trivially true case
  lits, index = [], []
  for sh in shards:
    for i in sh:
      lits.append(q[i][0])
      index.append(i)
    for _ in range(size - len(sh)):
      lits.append('(CS (SNone, SNone, false, Some []))')
      index.append(None)
  bad = ctx.run_cases('all', IMPORTS, 'any_check', lits, shard=size, extra_defs=EXTRA_DEFS + TRACE_DEFS + GEN_DEFS + BATCH_DEFS)
  for b in bad:
    i = index[b]
    if i is None:
      raise core.TieBroken('the padding case fails: the check functions themselves are broken')
    q[i][1](q[i][2])


# ---------------------------------------------------------------------------------------------
# A. make_sort_spec

def sarg_lit(a):
  if a is None:
    return 'SNone'
  if isinstance(a, str):
    return '(SStr %s)' % core.strlit(a)
  if isinstance(a, tuple) and all(isinstance(x, str) for x in a):
    return '(STuple %s)' % speclit(a)
  return '(SOther %s)' % core.boollit(bool(a))


def sortspec_cases(ctx):
  im = _impl()
  cols = ['id', 'A', '-A', 'B', '-B', 'manualSort', '-manualSort', '-id', '']
  obs = [None, 5, 0, ['A'], [], 1.5] + cols + [()]
  for n in ((1, 2, 3) if ctx.tier == 'thorough' else (2,)):
    obs.extend(itertools.product(['id', 'A', '-B', 'manualSort', '-id'] if ctx.tier == 'thorough' else ['id', 'A', 'manualSort'], repeat=n))
  sbs = [None, '', 'A', '-A', 'id', 'manualSort', ('A',), (), 5, 0, ['A'], []] if ctx.tier == 'thorough' else [None, '', '-A', ('A',), 5, 0]
  out = []
  for ob in obs:
    for sb in sbs:
      for ms in (False, True):
        try:
          r = im.table.make_sort_spec(ob, sb, ms)
          if not (isinstance(r, tuple) and all(isinstance(x, str) for x in r)):
            raise core.TieBroken('make_sort_spec returned %r' % (r,))
          rl = '(Some %s)' % speclit(r)
        except TypeError:
          r, rl = 'TypeError', 'None'
        out.append(((ob, sb, ms, r), '(%s, %s, %s, %s)' % (sarg_lit(ob), sarg_lit(sb), core.boollit(ms), rl)))
  return out


def correspond_sortspec(ctx):
  cs = sortspec_cases(ctx)
  for (case, _l) in cs:
    ctx.count(('ss',) + tuple(map(repr, case)), nontrivial=True, kind='A:make_sort_spec')
  queue_cases(ctx, 'sortspec', [l for _c, l in cs], lambda i: ctx.broken(
    'correspondence:make_sort_spec differs from the model or from the translated function', 'case %r' % (cs[i][0],)))


# ---------------------------------------------------------------------------------------------
# B. TwoWayMap

TW_VALUES = [0, 1, 2, 3, 1.0, True, 'a', 'b', None, (1, 2), ('a',), 2.5]
TW_UNHASHABLE = [[1], [], (1, [2])]


def run_twoway(im, lkind, rkind, ops):
  """ops: list of tuples; returns (outcomes, fwd dump, bwd dump) of the REAL TwoWayMap."""
  m = im.twowaymap.TwoWayMap(left=(im.twowaymap.LookupSet if lkind == 'LookupSet' else lkind),
                             right=(im.twowaymap.LookupSet if rkind == 'LookupSet' else rkind))
  outs = []
  for o in ops:
    try:
      if o[0] == 'insert':
        m.insert(o[1], o[2])
      elif o[0] == 'remove':
        m.remove(o[1], o[2])
      elif o[0] == 'remove_left':
        m.remove_left(o[1])
      elif o[0] == 'remove_right':
        m.remove_right(o[1])
      else:
        m.clear()
      outs.append('Done')
    except TypeError:
      outs.append('(Raise TypeErr)')
    except ValueError:
      outs.append('(Raise ValueErr)')
  def dump(d, kind):
    out = []
    for k, b in d.items():
      out.append((k, [b] if kind in ('single', 'strict') else list(b)))
    return out
  return outs, dump(m._fwd, rkind), dump(m._bwd, lkind)


def twop_lit(o):
  if o[0] == 'insert':
    return '(TInsert %s %s)' % (vlit(o[1]), vlit(o[2]))
  if o[0] == 'remove':
    return '(TRemove %s %s)' % (vlit(o[1]), vlit(o[2]))
  if o[0] == 'remove_left':
    return '(TRemoveLeft %s)' % vlit(o[1])
  if o[0] == 'remove_right':
    return '(TRemoveRight %s)' % vlit(o[1])
  return 'TClear'


def gen_twops(rng, failing):
  n = rng.choice([1, 2, 3, 4, 6, 8, 12])
  lv = rng.sample(TW_VALUES, rng.randint(1, 4))
  rv = rng.sample(TW_VALUES, rng.randint(1, 4))
  ops = []
  for _ in range(n):
    l, r = rng.choice(lv), rng.choice(rv)
    if failing and rng.random() < 0.15:
      if rng.random() < 0.5:
        l = rng.choice(TW_UNHASHABLE)
      else:
        r = rng.choice(TW_UNHASHABLE)
    x = rng.random()
    if x < 0.6:
      ops.append(('insert', l, r))
    elif x < 0.8:
      ops.append(('remove', l, r))
    elif x < 0.88:
      ops.append(('remove_left', l))
    elif x < 0.96:
      ops.append(('remove_right', r))
    else:
      ops.append(('clear',))
  return ops


def dump_lit(d):
  return core.coq_list(['(%s, %s)' % (vlit(k), vlist(v)) for k, v in d])


def correspond_twoway(ctx):
  im = _impl()
  cases, lits = [], []
  per_pair = ctx.n(4, 200)
  for (lk, lkc) in KINDS:
    for (rk, rkc) in KINDS:
      for i in range(per_pair):
        failing = i % 2 == 1
        ops = gen_twops(ctx.rng, failing)
        outs, fd, bd = run_twoway(im, lk, rk, ops)
        raised = any(o != 'Done' for o in outs)
        cases.append((str(lk), str(rk), ops))
        lits.append('(%s, %s, %s, %s, %s, %s)' % (lkc, rkc, core.coq_list([twop_lit(o) for o in ops]),
                                                  core.coq_list(outs), dump_lit(fd), dump_lit(bd)))
        ctx.count(('tw', str(lk), str(rk), repr(ops)), nontrivial=bool(fd) or raised,
                  kind='B:twoway %s' % ('raised' if raised else 'ok'),
                  sample=({'left': str(lk), 'right': str(rk), 'ops': repr(ops), 'outcomes': outs}
                          if raised and len(ops) <= 4 else None))
  if ctx.tier == 'thorough':
    # exhaustive small scope: every op sequence of length <= 2 over 2 left / 2 right values (one unhashable) for all
    # 25 kind pairs, and of length 3 for the pairs the engine uses plus the strict ones
    lv, rv = [1, 2], ['a', []]
    alpha = [('insert', l, r) for l in lv for r in rv] + [('remove', l, r) for l in lv for r in rv] + \
            [('remove_left', l) for l in lv] + [('remove_right', r) for r in rv] + [('clear',)]
    used = {('LookupSet', 'single'), ('LookupSet', str(set)), (str(set), str(set)), ('strict', 'single'), ('single', 'strict')}
    n_ex = 0
    for (lk, lkc) in KINDS:
      for (rk, rkc) in KINDS:
        for n in (1, 2, 3):
          if n == 3 and (str(lk), str(rk)) not in used:
            continue
          for ops in itertools.product(alpha, repeat=n):
            ops = list(ops)
            outs, fd, bd = run_twoway(im, lk, rk, ops)
            cases.append((str(lk), str(rk), ops))
            lits.append('(%s, %s, %s, %s, %s, %s)' % (lkc, rkc, core.coq_list([twop_lit(o) for o in ops]),
                                                      core.coq_list(outs), dump_lit(fd), dump_lit(bd)))
            if not twoway_same_pairs(fd, bd):
              ctx.violation('twoway-inconsistent', 'TwoWayMap(left=%s, right=%s) forward and backward maps disagree' % (lk, rk),
                            {'level': 'twoway', 'left': str(lk), 'right': str(rk), 'ops': repr(ops)})
            n_ex += 1
    ctx.bump('B:twoway exhaustive small scope', n_ex)
    ctx.evaluations += n_ex
    ctx.extra['exhaustive'] = True
    ctx.extra['exhaustive_space'] = ('TwoWayMap: all op sequences of length <= 2 over {1,2} x {"a", []} for all 25 bin-kind '
                                     'pairs, length 3 for the 5 pairs in use / strict')
  queue_cases(ctx, 'twoway', lits, lambda i: ctx.broken(
    'correspondence:TwoWayMap differs from the model or from the translated function', 'case %r' % (cases[i],)))
  # consistency oracle on the implementation (the property's own statement for this mechanism)
  for (lk, _), (rk, _) in itertools.product(KINDS, KINDS):
    for i in range(ctx.n(4, 200)):
      ops = gen_twops(ctx.rng, i % 2 == 1)
      _outs, fd, bd = run_twoway(im, lk, rk, ops)
      pairs_f = sorted(((repr(k), repr(v)) for k, vs in fd for v in vs))
      pairs_b = sorted(((repr(v), repr(k)) for k, vs in bd for v in vs))
      if not twoway_same_pairs(fd, bd):
        ctx.violation('twoway-inconsistent', 'TwoWayMap(left=%s, right=%s) forward and backward maps disagree' % (lk, rk),
                      {'level': 'twoway', 'left': str(lk), 'right': str(rk), 'ops': repr(ops),
                       'fwd': pairs_f, 'bwd': pairs_b})


def correspond_bins(ctx):
  """The bin objects of twowaymap._mapper_types against the model's add_item / remove_item / remove_key and against the
  translated bin classes."""
  im = _impl()
  tw = im.twowaymap
  lits, cases = [], []
  vals = [0, 1, 1.0, 'a', (1, 2), None, 2]
  for (k, kc) in KINDS:
    b = tw._mapper_types[tw.LookupSet if k == 'LookupSet' else k]
    for i in range(ctx.n(6, 400)):
      mapping, ops, outs = {}, [], []
      ks, vs = ctx.rng.sample(vals, 2), ctx.rng.sample(vals, 3)
      for _ in range(ctx.rng.choice([1, 2, 4, 7])):
        key, v = ctx.rng.choice(ks), ctx.rng.choice(vs)
        if ctx.rng.random() < 0.12:
          key = [1]
        if ctx.rng.random() < 0.12:
          v = [2]
        x = ctx.rng.random()
        try:
          if x < 0.55:
            ops.append('(BAdd %s %s)' % (vlit(key), vlit(v)))
            r, a = b.add_item(mapping, key, v)
            outs.append('(OAdd %s %s)' % tuple('None' if y is tw._NIL else '(Some %s)' % vlit(y) for y in (r, a)))
          elif x < 0.85:
            ops.append('(BRem %s %s)' % (vlit(key), vlit(v)))
            b.remove_item(mapping, key, v)
            outs.append('OUnit')
          else:
            ops.append('(BPop %s)' % vlit(key))
            outs.append('(OList %s)' % vlist(list(b.remove_key(mapping, key))))
        except TypeError:
          outs.append('(OExc TypeErr)')
        except ValueError:
          outs.append('(OExc ValueErr)')
      dump = [(kk, [vv] if k in ('single', 'strict') else list(vv)) for kk, vv in mapping.items()]
      cases.append((str(k), ops))
      lits.append('(%s, %s, %s, %s)' % (kc, core.coq_list(ops), core.coq_list(outs), dump_lit(dump)))
      ctx.count(('bin', str(k), tuple(ops)), nontrivial=bool(mapping) or any('OExc' in o for o in outs), kind='B:bin objects')
  queue_cases(ctx, 'bins', lits, lambda i: ctx.broken(
    'correspondence:a bin class differs from the model or from the translated class', 'case %r' % (cases[i],)))


def correspond_sortkey(ctx):
  """SortKey.__lt__ of the real make_sort_key against the model and the translated function, on pairs of value tuples."""
  im = _impl()
  tbl = StubTable('T')
  other = StubTable('U')
  RecT, RecU = stub_record_class(im, tbl), stub_record_class(im, other)
  alt = im.objtypes.AltText
  pool = [None, 0, 1, 1.0, True, 2.5, -3, 'a', 'b', 'B', '', alt('x'), alt('y'), datetime.date(2020, 1, 2), datetime.date(2021, 5, 6),
          (1, 2), (1, 'a'), ('a',), [1], [2, 1], RecT(1), RecT(2), RecU(1), 10 ** 20, 0.1]
  tbl.rows = {1: {'S': 0, 'T': 0, 'V': 0}}
  lits, cases = [], []
  for _ in range(ctx.n(120, 6000)):
    n = ctx.rng.choice([1, 1, 2, 3])
    spec = tuple(ctx.rng.choice(['', '-']) + c for c in ['S', 'T', 'V'][:n])
    SK = im.sort_key.make_sort_key(tbl, spec)
    va = tuple(ctx.rng.choice(pool) for _ in range(n))
    vb = tuple(ctx.rng.choice(pool) if ctx.rng.random() < 0.6 else x for x in va)
    ra, rb = ctx.rng.choice([1, 2, 3]), ctx.rng.choice([1, 2, 3])
    try:
      r = bool(SK(ra, va) < SK(rb, vb))
      rl = '(Some %s)' % core.boollit(r)
    except Exception as e:
      r, rl = type(e).__name__, 'None'
    try:
      lits.append('(%s, %s, %s, %s, %s, %s)' % (vlist(va), vlist(vb), core.coq_list([core.boollit(not c.startswith('-')) for c in spec]),
                                              core.zlit(ra), core.zlit(rb), rl))
    except Unsupported:
      continue
    cases.append((spec, repr(va), repr(vb), ra, rb, r))
    ctx.count(('sk', spec, repr(va), repr(vb), ra, rb), nontrivial=(va != vb), kind='C:SortKey pairs%s' % (' (raised)' if rl == 'None' else ''))
  queue_cases(ctx, 'sortkey', lits, lambda i: ctx.broken(
    'correspondence:SortKey.__lt__ differs from the model or from the translated function', 'case %r' % (cases[i],)))


def twoway_same_pairs(fd, bd):
  f = [(k, v) for k, vs in fd for v in vs]
  b = [(v, k) for k, vs in bd for v in vs]
  return len(f) == len(b) and all(p in b for p in f) and all(p in f for p in b)


# ---------------------------------------------------------------------------------------------
# C. the real lookup mappings, sorted versions and SortKey on stub records / columns

class StubTable(object):
  """Just enough of a Table for records.Record, make_sort_key and our stub lookup column."""
  def __init__(self, table_id):
    self.table_id = table_id
    self._identity_relation = None
    self.rows = {}            # row_id -> {col: value}

  def get_column(self, col_id):
    tbl = self
    class Col(object):
      def get_cell_value(self, row_id):
        return tbl.rows[row_id][col_id]
    if not any(col_id in d for d in self.rows.values()) and self.rows:
      raise KeyError(col_id)
    return Col()


class StubRec(object):
  def __init__(self, row_id, d):
    self._row_id = row_id
    self.__dict__.update(d)


def make_stub_column(im, col_ids_tuple):
  class NoTracker(object):
    def update_relation_from_current_node(self, key):
      return None
    def invalidate_affected_keys(self, keys):
      pass
  L = im.lookup.LookupMapColumn
  class StubLookupColumn(object):
    _do_fast_lookup = L._do_fast_lookup
    _do_lookup_with_sort = L._do_lookup_with_sort
    _reset_sorted_versions = L._reset_sorted_versions
    def __init__(self):
      if any(isinstance(c, im.Contains) for c in col_ids_tuple):      # as LookupMapColumn.__init__
        self._mapping = im.lookup.ContainsLookupMapping(col_ids_tuple)
      else:
        self._mapping = im.lookup.SimpleLookupMapping(col_ids_tuple)
      self._relation_tracker = NoTracker()
  return StubLookupColumn()


def stub_record_class(im, table):
  class R(im.records.Record):
    __slots__ = ()
    _table = table
  R.__name__ = 'Record'
  return R


def dump_index(mapping, simple):
  rk = mapping._row_key_map
  fd = [(r, [ks] if simple else list(ks)) for r, ks in rk._fwd.items()]
  bd = [(k, list(rows), [(s, list(l)) for s, l in rows.sorted_versions.items()]) for k, rows in rk._bwd.items()]
  return fd, bd


def keylit(k):
  return vlist(list(k))


def index_lits(fd, bd):
  f = core.coq_list(['(%s, %s)' % (core.zlit(r), core.coq_list([keylit(k) for k in ks])) for r, ks in fd])
  b = core.coq_list(['(%s, %s, %s)' % (keylit(k), core.zlist(rows), core.coq_list(
    ['(%s, %s)' % (speclit(s), core.zlist(l)) for s, l in c])) for k, rows, c in bd])
  return f, b


SCALARS = [None, 0, 1, 1.0, True, False, 2, 2.5, -1, 'a', 'b', '', 'ab']
SORT_NUM = [None, 0, 1, 1.0, 2, 2.5, -3, True, 10 ** 20, 0.1]
SORT_MIXED = [None, 1, 2.5, 'a', 'b', 'B', '', True, 3]
SPECS = [(), ('S',), ('-S',), ('S', '-T'), ('-T', 'S'), ('T',), ('-T',)]


def gen_mapping_case(rng, im):
  """Random op sequence on a real lookup mapping through the real LookupMapColumn methods."""
  tbl = StubTable('T')
  other = StubTable('U')
  RecT, RecU = stub_record_class(im, tbl), stub_record_class(im, other)
  alt = im.objtypes.AltText
  ncols = rng.choice([0, 1, 1, 1, 2, 2])
  colids = ['A', 'B'][:ncols]
  contains = rng.random() < 0.55 and ncols > 0
  col_ids_tuple, gens = [], []
  match_empties = [im.Contains.no_match_empty, None, '', 0, 'x', 1.0]
  for i, c in enumerate(colids):
    if contains and (i == 0 or rng.random() < 0.5):
      me = rng.choice(match_empties)
      col_ids_tuple.append(im.Contains(c, me))
      pool = [(), ('a',), ('a', 'b'), ('b', 'a', 'a'), [1, 2], [], (1, 1.0, True), ([1], 2), None, 'ab', '', 0, 5,
              (2,), ['a'], (RecU(2), RecU(3)), [RecU(2)], (None,), ('',), alt('x'), (1, 'a'), 2.5]
    else:
      col_ids_tuple.append(c)
      pool = SCALARS + [(1, 2), ('a',), [1], alt('x'), alt('y'), RecU(1), RecU(2), RecT(2), datetime.date(2020, 1, 2)]
    gens.append(rng.sample(pool, rng.randint(2, min(6, len(pool)))))
  col_ids_tuple = tuple(col_ids_tuple)
  col = make_stub_column(im, col_ids_tuple)
  simple = isinstance(col._mapping, im.lookup.SimpleLookupMapping)
  mixed_sort = rng.random() < 0.4
  def new_row():
    d = {c: rng.choice(g) for c, g in zip(colids, gens)}
    d['S'] = rng.choice(SORT_NUM)
    d['T'] = rng.choice(SORT_MIXED if mixed_sort else ['a', 'b', '', 'ab', 'B'])
    return d
  def probe_key():
    k = []
    for c, g in zip(col_ids_tuple, gens):
      v = rng.choice(g)
      if isinstance(c, im.Contains):
        # look for an element of a container cell, the match_empty value, or something absent
        if isinstance(v, (tuple, list)) and v and rng.random() < 0.8:
          v = rng.choice(list(v))
        elif rng.random() < 0.4 and c.match_empty is not im.Contains.no_match_empty:
          v = c.match_empty
      k.append(im.lookup._extract(v))
    return tuple(k)
  discipline = rng.random() < 0.5     # engine-like order (update after write) vs. arbitrary order
  ops, lits, expected = [], [], []
  rows_alive = []
  nontrivial = False
  for _ in range(rng.choice([3, 6, 10, 16, 24])):
    x = rng.random()
    if x < 0.35 or not tbl.rows:
      r = rng.choice([1, 2, 3, 4, 5, 6])
      tbl.rows[r] = new_row()
      steps = ['update'] if discipline else rng.choice([['update'], [], ['update'], ['reset']])
      if discipline:
        steps += ['reset:%d' % i for i in range(len(SPECS))]
    elif x < 0.45:
      r = rng.choice(sorted(tbl.rows))
      steps = ['unset'] if (discipline or rng.random() < 0.7) else []
      del tbl.rows[r]
    elif x < 0.55 and not discipline:
      r = rng.choice(sorted(tbl.rows))
      steps = [rng.choice(['update', 'unset', 'reset'])]
    else:
      r = None
      steps = ['lookup']
    for st in steps:
      if st == 'update':
        rec = StubRec(r, tbl.rows[r])
        cells = [tbl.rows[r][c] for c in colids]
        ops.append(('update', r, cells))
        lits.append('(OUpdate %s %s)' % (core.zlit(r), vlist(cells)))
        aff = col._mapping.update_record(rec)
        expected.append('(ObsKeys %s)' % core.coq_list([keylit(k) for k in aff]))
      elif st == 'unset':
        ops.append(('unset', r))
        lits.append('(ORemove %s)' % core.zlit(r))
        aff = col._mapping.remove_row_id(r)
        expected.append('(ObsKeys %s)' % core.coq_list([keylit(k) for k in aff if k is not None]))
      elif st.startswith('reset'):
        if r not in tbl.rows:
          continue
        spec = SPECS[int(st.split(':')[1])] if ':' in st else rng.choice(SPECS)
        rec = StubRec(r, tbl.rows[r])
        cells = [tbl.rows[r][c] for c in colids]
        ops.append(('reset', r, cells, spec))
        lits.append('(OReset %s %s)' % (vlist(cells), speclit(spec)))
        try:
          ks = col._reset_sorted_versions(rec, spec)
          expected.append('(ObsKeys %s)' % core.coq_list([keylit(k) for k in ks]))
        except TypeError:
          expected.append('ObsErr')
      else:
        k = probe_key()
        spec = rng.choice(SPECS)
        ops.append(('lookup', k, spec))
        snap = {rr: {c: d[c] for c in ('S', 'T')} for rr, d in tbl.rows.items()}
        # rows still in the index but gone from the table cannot be read by SortKey: keep the model's table total
        lits.append('(OLookup %s %s %s)' % (keylit(k), speclit(spec), tablelit(snap)))
        try:
          sk = im.sort_key.make_sort_key(tbl, spec) if spec else None
          res, _rel = col._do_lookup_with_sort(k, spec, sk)
          res = list(res)
          if res and len(res) < len(col._mapping._row_key_map._fwd):
            nontrivial = True
        except (TypeError, KeyError) as e:
          ops[-1] = ops[-1] + ('raised %r' % (e,),)
          res = None
        expected.append('(ObsRes %s)' % reslit(res))
  fd, bd = dump_index(col._mapping, simple)
  f, b = index_lits(fd, bd)
  lit = '(%s, %s, %s, %s, %s)' % (core.coq_list([collit(c) for c in col_ids_tuple]), core.coq_list(lits),
                                  core.coq_list(expected), f, b)
  return {'cols': repr(col_ids_tuple), 'ops': repr(ops), 'discipline': discipline}, lit, nontrivial, contains


def correspond_mappings(ctx):
  im = _impl()
  cases, lits = [], []
  for _ in range(ctx.n(100, 3000)):
    try:
      case, lit, nontrivial, contains = gen_mapping_case(ctx.rng, im)
    except Unsupported as e:
      ctx.bump('C:skipped %s' % e)
      continue
    cases.append(case)
    lits.append(lit)
    ctx.count(('lm', case['cols'], case['ops']), nontrivial=nontrivial,
              kind='C:%s mapping%s' % ('contains' if contains else 'simple', ', engine order' if case['discipline'] else ''))
  queue_cases(ctx, 'mapping', lits, lambda i: ctx.broken(
    'correspondence:lookup mapping / sorted versions differ from the model or from the translated functions', 'case %r' % (cases[i],)))


# ---------------------------------------------------------------------------------------------
# D. the real engine, with the calls on every LookupMapColumn recorded

class Recorder(object):
  """Wraps LookupMapColumn methods (class-wide, restored on exit) and logs, per column object, the calls the
  engine makes: update_record / unset / _reset_sorted_versions / _do_lookup_with_sort with arguments, the
  cell values read, and results."""
  def __init__(self, im, engine):
    self.im, self.engine = im, engine
    self.logs = collections.OrderedDict()     # id(col) -> {'col': col, 'events': [...]}
    self.saved = {}
    self.problems = []

  def log_for(self, col):
    ent = self.logs.get(id(col))
    if ent is None or ent['col'] is not col:
      ent = {'col': col, 'events': [], 'bad': None}
      self.logs[id(col)] = ent
    return ent

  def cells_of(self, col, rec):
    return [getattr(rec, self.im.lookup.extract_column_id(c)) for c in col._mapping._col_ids_tuple]

  def __enter__(self):
    L = self.im.lookup.LookupMapColumn
    rec_self = self
    for name in ('_recalc_rec_method', 'unset', '_reset_sorted_versions', '_do_lookup_with_sort'):
      self.saved[name] = getattr(L, name)
    saved = self.saved

    def _recalc_rec_method(col, rec, table):
      cells = rec_self.cells_of(col, rec)          # raises what the real method would raise first
      rec_self.log_for(col)['events'].append(('update', rec._row_id, cells))
      return saved['_recalc_rec_method'](col, rec, table)

    def unset(col, row_id):
      rec_self.log_for(col)['events'].append(('unset', row_id))
      return saved['unset'](col, row_id)

    def _reset_sorted_versions(col, rec, sort_spec):
      cells = rec_self.cells_of(col, rec)
      rec_self.log_for(col)['events'].append(('reset', cells, sort_spec))
      return saved['_reset_sorted_versions'](col, rec, sort_spec)

    def _do_lookup_with_sort(col, key, sort_spec, sort_key):
      import depend
      try:
        res = saved['_do_lookup_with_sort'](col, key, sort_spec, sort_key)
      except Exception as e:
        if type(e).__name__ in ('OrderError', 'RequestingError'):
          raise                                     # the engine re-runs the formula later
        rec_self.log_for(col)['events'].append(('lookup', key, sort_spec, rec_self.snapshot(col, sort_spec, None),
                                                None, repr(e)))
        raise
      rows = list(res[0])
      rec_self.log_for(col)['events'].append(('lookup', key, sort_spec, rec_self.snapshot(col, sort_spec, rows),
                                              rows, None))
      return res

    L._recalc_rec_method = _recalc_rec_method
    L.unset = unset
    L._reset_sorted_versions = _reset_sorted_versions
    L._do_lookup_with_sort = _do_lookup_with_sort
    return self

  def __exit__(self, *a):
    L = self.im.lookup.LookupMapColumn
    for name, fn in self.saved.items():
      setattr(L, name, fn)

  def snapshot(self, col, sort_spec, rows):
    t = self.engine.tables[col.table_id]
    cols = [(c[1:] if c.startswith('-') else c) for c in sort_spec]
    out = {}
    for r in (rows if rows is not None else t.row_ids):
      d = {}
      for c in cols:
        try:
          d[c] = t.get_column(c).get_cell_value(r)
        except Exception as e:
          d[c] = ValueError('unreadable')          # makes the case Unsupported
      out[r] = d
    return out


def new_engine():
  core.setup_impl_path()
  logging.disable(logging.CRITICAL)
  import engine
  import useractions
  e = engine.Engine()
  e.load_empty()
  e.apply_user_actions([useractions.from_repr(['InitNewDoc'])])
  return e


def apply(e, bundle):
  import useractions
  import copy
  return e.apply_user_actions([useractions.from_repr(copy.deepcopy(a)) for a in bundle])


KEY_TYPES = ['Any', 'Any', 'Text', 'Int', 'Numeric', 'Ref:U', 'Bool', 'Date']
LIST_TYPES = ['ChoiceList', 'RefList:U', 'Any']
SORT_TYPES = ['Numeric', 'Text', 'Any', 'Int', 'Date', 'Ref:U']

POOL = {
  'Any': [None, 0, 1, 1.0, True, 2, 2.5, 'a', 'b', '', -1],
  'Text': ['a', 'b', '', 'ab', 'B', None, 'a'],
  'Int': [0, 1, 2, 3, -1, None, 1, 'x'],
  'Numeric': [0.0, 1.0, 2.5, -1.5, 3.0, None, 1.0, 'x', 10.0 ** 20],
  'Ref:U': [0, 1, 2, 3, 1, 2],
  'Bool': [True, False, None, True],
  'Date': [None, 86400.0 * 18000, 86400.0 * 18001, 86400.0 * 17000, 86400.0 * 18000],
  'ChoiceList': [None, ['L', 'a'], ['L', 'a', 'b'], ['L', 'b', 'c'], ['L', 'c'], ['L', 'b', 'a', 'a'], ['L']],
  'RefList:U': [None, ['L', 1], ['L', 1, 2], ['L', 3, 2], ['L', 2]],
  'AnyList': [None, ['L', 1, 2], ['L', 'a'], ['L'], 'ab', 5, ['L', 1, 1.0], ['L', 'a', 2]],
}
QUERY_POOL = {
  'Any': [None, 0, 1, 1.0, True, 2, 'a', 'b', '', 5],
  'Text': ['a', 'b', '', 'ab', None, 'zz'],
  'Int': [0, 1, 2, 3, None, 1.0, '2', 7],
  'Numeric': [0, 1, 2.5, -1.5, None, '3', 1.0],
  'Ref:U': [0, 1, 2, 3, 4],
  'Bool': [True, False, None, 1],
  'Date': [None, 86400.0 * 18000, 86400.0 * 18001],
  'ChoiceList': ['a', 'b', 'c', '', None, 'zz'],
  'RefList:U': [1, 2, 3, 0, None],
  'AnyList': [1, 2, 'a', None, '', 1.0],
}
ROBUST_POOL = [float('nan'), float('inf'), float('-inf'), ['L', 1], 'x', None, 1, {'a': 1}]


def pool_for(ty, islist=False, iskey=False):
  if islist and ty == 'Any':
    return POOL['AnyList']
  if iskey and ty == 'Any':
    # a plain lookup column may hold unhashable cells (lists): such rows must drop out of the index
    return POOL['Any'] + [['L', 1], ['L', 'a'], 1, 'a']
  return POOL[ty]


def gen_doc_spec(rng, robust=False):
  """The shape of a document: column types of T and the lookup formulas of Q."""
  spec = {
    'K': rng.choice(KEY_TYPES), 'K2': rng.choice(['Text', 'Int', 'Any']),
    'L': rng.choice(LIST_TYPES),
    'S1': rng.choice(['Numeric', 'Numeric', 'Int', 'Any']), 'S2': rng.choice(SORT_TYPES), 'S3': rng.choice(SORT_TYPES),
    'manualSort': rng.random() < 0.6,
    'robust': robust,
  }
  def scol():
    return rng.choice(['', '-']) + rng.choice(['S1', 'S2', 'S3'])
  def order():
    x = rng.random()
    cols = [scol() for _ in range(rng.choice([1, 1, 2, 3]))]
    if x < 0.3:
      return repr(cols[0])
    if x < 0.4:
      return 'None'
    if x < 0.5:
      pos = rng.randint(0, len(cols))
      return repr(tuple(cols[:pos] + ['id'] + cols[pos:]))
    if x < 0.6 and spec['manualSort']:
      return repr(tuple(cols[:1] + [rng.choice(['manualSort', '-manualSort'])]))
    if x < 0.65:
      return repr('id')
    return repr(tuple(cols))
  mes = ['', 'None', repr(''), repr('a'), '0', repr('zz')]
  def contains():
    me = rng.choice(mes)
    return 'CONTAINS($q1%s)' % (', match_empty=%s' % me if me else '')
  shapes = []
  fixed = [
    ('lookupRecords', 'K=$q1', ''),
    ('lookupRecords', 'K=$q1', 'order_by=%s' % order()),
    ('lookupRecords', 'K=$q1, K2=$q2', 'order_by=%s' % order()),
    ('lookupRecords', 'L=%s' % contains(), ''),
    ('lookupRecords', 'L=%s' % contains(), 'order_by=%s' % order()),
    ('lookupRecords', 'K=$q1', 'sort_by=%r' % scol()),
    ('lookupOne', 'K=$q1', 'order_by=%s' % order()),
    ('lookupRecords', 'K2=$q2', 'order_by=None'),
    ('lookupRecords', '', 'order_by=%s' % order()),
    ('lookupRecords', 'L=%s, K2=$q2' % contains(), 'order_by=%s' % order()),
    ('lookupOne', 'L=%s' % contains(), 'sort_by=%r' % scol()),
    ('lookupOne', 'K2=$q2', ''),
    ('lookupRecords', 'K=$q1', 'order_by=%s, sort_by=%r' % (order(), scol())),
  ]
  rng.shuffle(fixed)
  spec['shapes'] = fixed[:rng.choice([10, 11, 13])]
  return spec


def build_doc(e, spec):
  apply(e, [['AddTable', 'U', [{'id': 'N', 'type': 'Text', 'isFormula': False}]]])
  apply(e, [['BulkAddRecord', 'U', [None] * 3, {'N': ['x', 'y', 'z']}]])
  tcols = [{'id': c, 'type': spec[c], 'isFormula': False} for c in ('K', 'K2', 'L', 'S1', 'S2', 'S3')]
  apply(e, [['AddTable', 'T', tcols]])
  if not spec['manualSort']:
    apply(e, [['RemoveColumn', 'T', 'manualSort']])
  qcols = [{'id': 'q1', 'type': 'Any', 'isFormula': False}, {'id': 'q2', 'type': 'Any', 'isFormula': False}]
  for i, (fn, keys, extra) in enumerate(spec['shapes']):
    args = ', '.join(x for x in (keys, extra) if x)
    qcols.append({'id': 'F%d' % i, 'type': 'Any', 'isFormula': True, 'formula': 'T.%s(%s)' % (fn, args)})
  apply(e, [['AddTable', 'Q', qcols]])


def t_values(rng, spec, cols):
  d = {}
  for c in cols:
    if c == 'manualSort':
      d[c] = float(rng.choice([1, 2, 3, 4, 5, 6, 2.5, 0.5]))
      continue
    pool = pool_for(spec[c], islist=(c == 'L'), iskey=(c in ('K', 'K2')))
    if spec['robust'] and rng.random() < 0.25 and c != 'L':
      pool = ROBUST_POOL
    d[c] = rng.choice(pool)
  return d


def encodable_cell(v):
  if isinstance(v, (tuple, list)):
    return ['L'] + list(v)
  return v


def q_values(rng, spec, cols, e=None):
  """Values for the lookup keys of a Q row; mostly values that occur in T now, so that lookups match."""
  d = {}
  present = {}
  if e is not None and 'T' in e.tables:
    data = e.fetch_table('T')
    for c in ('K', 'K2', 'L'):
      vals = []
      for v in data.columns.get(c, []):
        if c == 'L' and isinstance(v, (tuple, list)):
          vals.extend(v)
        else:
          vals.append(v)
      present[c] = [v for v in vals if not isinstance(v, (tuple, list, dict))]
  for c in cols:
    if c == 'q1':
      src = rng.choice(['K', 'L'])
      ty = spec['K'] if src == 'K' else ('AnyList' if spec['L'] == 'Any' else spec['L'])
      if present.get(src) and rng.random() < 0.65:
        d[c] = rng.choice(present[src])
      else:
        d[c] = rng.choice(QUERY_POOL[ty])
      if spec['robust'] and rng.random() < 0.2:
        d[c] = rng.choice([float('nan'), ['L', 1], float('inf')])
    else:
      if present.get('K2') and rng.random() < 0.65:
        d[c] = rng.choice(present['K2'])
      else:
        d[c] = rng.choice(QUERY_POOL[spec['K2']])
  return d


def gen_bundle(rng, spec, e):
  """One user bundle against the current document (row ids taken from the engine)."""
  t_rows = list(e.tables['T'].row_ids)
  q_rows = list(e.tables['Q'].row_ids)
  u_rows = list(e.tables['U'].row_ids)
  tcols = ['K', 'K2', 'L', 'S1', 'S2', 'S3'] + (['manualSort'] if spec['manualSort'] else [])
  x = rng.random()
  if len(q_rows) < 2 or (x < 0.08 and len(q_rows) < 5):
    return [['AddRecord', 'Q', None, q_values(rng, spec, ['q1', 'q2'], e)]]
  if len(t_rows) < 3 or (x < 0.25 and len(t_rows) < 8):
    if rng.random() < 0.3:
      n = rng.randint(2, 3)
      vals = [t_values(rng, spec, tcols[:6]) for _ in range(n)]
      return [['BulkAddRecord', 'T', [None] * n, {c: [v[c] for v in vals] for c in tcols[:6]}]]
    return [['AddRecord', 'T', None, t_values(rng, spec, tcols[:6])]]
  if x < 0.55:
    cols = rng.sample(tcols, rng.choice([1, 1, 2, 3]))
    if rng.random() < 0.25 and len(t_rows) >= 2:
      rows = rng.sample(t_rows, 2)
      vals = [t_values(rng, spec, cols) for _ in rows]
      return [['BulkUpdateRecord', 'T', rows, {c: [v[c] for v in vals] for c in cols}]]
    return [['UpdateRecord', 'T', rng.choice(t_rows), t_values(rng, spec, cols)]]
  if x < 0.67:
    if rng.random() < 0.2 and len(t_rows) >= 2:
      return [['BulkRemoveRecord', 'T', rng.sample(t_rows, 2)]]
    return [['RemoveRecord', 'T', rng.choice(t_rows)]]
  if x < 0.87:
    return [['UpdateRecord', 'Q', rng.choice(q_rows), q_values(rng, spec, rng.choice([['q1'], ['q2'], ['q1', 'q2']]), e)]]
  if x < 0.9 and len(q_rows) > 2:
    return [['RemoveRecord', 'Q', rng.choice(q_rows)]]
  if x < 0.93 and len(u_rows) > 1:
    return [['RemoveRecord', 'U', rng.choice(u_rows)]]
  if x < 0.96:
    return [['AddRecord', 'U', None, {'N': 'w'}]]
  # two edits in one bundle: a key change and a removal / sort change
  r1, r2 = rng.choice(t_rows), rng.choice(t_rows)
  b = [['UpdateRecord', 'T', r1, t_values(rng, spec, ['K', 'S1'])]]
  if r2 != r1:
    b.append(rng.choice([['RemoveRecord', 'T', r2], ['UpdateRecord', 'T', r2, t_values(rng, spec, ['L', 'S2'])]]))
  return b


# ---- the property's own oracle: naive filter + sort over fetch_table -------------------------

def parse_shape(im, shape):
  """(fn, keys, extra) -> dict with col specs, order_by / sort_by python values."""
  fn, keys, extra = shape
  env = {'CONTAINS': im.CONTAINS}
  class Dollar(object):
    def __init__(self, n):
      self.n = n
  # evaluate the argument text with $q1/$q2 replaced by markers
  kw = eval('dict(%s)' % ', '.join(x for x in (keys, extra) if x).replace('$q1', 'Q1').replace('$q2', 'Q2'),
            dict(env, Q1=Dollar('q1'), Q2=Dollar('q2')))
  out = {'one': fn == 'lookupOne', 'sort_by': kw.pop('sort_by', None), 'order_by': kw.pop('order_by', 'id'), 'cols': []}
  for c in sorted(kw):
    v = kw[c]
    if isinstance(v, im.Contains):
      out['cols'].append((c, v.value.n, True, v.match_empty))
    else:
      out['cols'].append((c, v.n, False, None))
  return out


def hashable_py(v):
  try:
    hash(v)
    return True
  except TypeError:
    return False


def documented_order(ps, has_manual_sort):
  """The documented rule, written independently of table.make_sort_spec: returns [(col, ascending)]."""
  if ps['sort_by']:
    cols = [ps['sort_by']]
  else:
    ob = ps['order_by']
    cols = [] if ob is None else [ob] if isinstance(ob, str) else list(ob)
    if 'id' in cols:
      cols = cols[:cols.index('id')]
    elif has_manual_sort and 'manualSort' not in cols:
      cols = cols + ['manualSort']
  return [(c[1:], False) if c.startswith('-') else (c, True) for c in cols]


def rank_value(v):
  """None first, then numbers by value, then other types by type name and value."""
  import numbers
  if v is None:
    return (0, '', None)
  if isinstance(v, numbers.Number):
    return (1, '', v)
  return (2, type(v).__name__, v)


def cmp_values(a, b):
  ra, rb = rank_value(a), rank_value(b)
  if ra[:2] != rb[:2]:
    return -1 if ra[:2] < rb[:2] else 1
  if ra[0] == 0:
    return 0
  try:
    return -1 if ra[2] < rb[2] else 1 if rb[2] < ra[2] else 0
  except TypeError:
    return 0


def naive_lookup(im, e, ps, qrow):
  """Expected row ids for one formula cell, from fetch_table data only (plus the columns' value conversion)."""
  import functools
  T = e.tables['T']
  data = e.fetch_table('T')
  rich = {}
  for c, vals in data.columns.items():
    col = T.get_column(c)
    rich[c] = {r: col._convert_raw_value(v) for r, v in zip(data.row_ids, vals)}
  ext = im.lookup._extract
  key = []
  for (c, qn, contains, me) in ps['cols']:
    v = qrow[qn]
    if not contains:
      col = T.get_column(c)
      v = col._convert_raw_value(col.convert(v))
    key.append(ext(v))
  if not all(hashable_py(k) for k in key):
    return 'error', tuple(key)
  rows = []
  for r in data.row_ids:
    ok = True
    for (c, _qn, contains, me), k in zip(ps['cols'], key):
      cell = rich[c][r]
      if not contains:
        ok = hashable_py(cell) and ext(cell) == k
      elif isinstance(cell, (str, bytes)):
        ok = False
      elif not cell and me is not im.Contains.no_match_empty:
        ok = (me == k)
      else:
        try:
          elems = list(cell)
          ok = all(hashable_py(x) for x in elems) and any(ext(x) == k for x in elems)
        except TypeError:
          ok = False
      if not ok:
        break
    if ok:
      rows.append(r)
  order = documented_order(ps, 'manualSort' in data.columns)
  def cmp_rows(r1, r2):
    for c, asc in order:
      x = cmp_values(rich[c][r1], rich[c][r2])
      if x:
        return x if asc else -x
    return -1 if r1 < r2 else 1 if r2 < r1 else 0
  rows.sort(key=functools.cmp_to_key(cmp_rows))
  return ([rows[0] if rows else 0] if ps['one'] else rows), tuple(key)


def cell_rows(im, v, one):
  """The row ids a formula cell holds, or 'error'."""
  if one and isinstance(v, im.records.Record):
    return [v._row_id]
  if not one and isinstance(v, im.records.RecordSet):
    return list(v._row_ids)
  if isinstance(v, im.objtypes.RaisedException):
    return 'error'
  return ('unexpected', repr(v))


def jsonable(b):
  def f(x):
    if isinstance(x, float) and (x != x or x in (float('inf'), float('-inf'))):
      return {'float': repr(x)}
    if isinstance(x, list):
      return [f(i) for i in x]
    if isinstance(x, dict):
      return {k: f(v) for k, v in x.items()}
    return x
  return f(b)


def unjson(b):
  def f(x):
    if isinstance(x, dict) and list(x) == ['float']:
      return float(x['float'])
    if isinstance(x, list):
      return [f(i) for i in x]
    if isinstance(x, dict):
      return {k: f(v) for k, v in x.items()}
    return x
  return f(b)


def check_cells(im, e, spec, parsed):
  """Compares every formula cell of Q with the naive oracle; returns list of (desc, detail) and counters."""
  out, stats = [], []
  q = e.fetch_table('Q')
  for i, ps in enumerate(parsed):
    for j, qr in enumerate(q.row_ids):
      qrow = {'q1': q.columns['q1'][j], 'q2': q.columns['q2'][j]}
      got = cell_rows(im, q.columns['F%d' % i][j], ps['one'])
      exp, key = naive_lookup(im, e, ps, qrow)
      n_t = len(list(e.tables['T'].row_ids))
      stats.append((i, key, exp, n_t))
      if got != exp:
        out.append(('formula F%d = T.%s(%s) in Q row %d holds %r, naive filter+sort over fetch_table gives %r'
                    % (i, spec['shapes'][i][0], ', '.join(x for x in spec['shapes'][i][1:] if x), qr, got, exp),
                    {'formula': i, 'q_row': qr}))
  return out, stats


def run_history(im, seed_rng, spec, bundles=None, n_bundles=20, record=True, on_bundle=None):
  """Builds the document, applies the history (generated on the fly when `bundles` is None).  Returns
  (engine, bundles applied, recorder, list of oracle failures, internal errors)."""
  e = new_engine()
  parsed = [parse_shape(im, s) for s in spec['shapes']]
  applied, failures, internal = [], [], []
  rec = Recorder(im, e)
  with rec:
    build_doc(e, spec)
    for step in range(len(bundles) if bundles is not None else n_bundles):
      b = bundles[step] if bundles is not None else gen_bundle(seed_rng, spec, e)
      applied.append(b)
      try:
        apply(e, b)
      except Exception as ex:
        internal.append((step, repr(ex), traceback.format_exc()[-1500:]))
        break
      if not spec['robust']:
        bad, stats = check_cells(im, e, spec, parsed)
        if on_bundle:
          on_bundle(step, stats)
        for desc, det in bad:
          failures.append((step, desc, det))
        if bad:
          break
  return e, applied, rec, failures, internal, parsed


# ---- traces and cells as Coq cases -------------------------------------------------------------

def trace_case(im, e, ent):
  """One recorded LookupMapColumn log -> Coq literal of type (lm_case * bool)."""
  col = ent['col']
  col_ids = col._mapping._col_ids_tuple
  ops, expected = [], []
  n_lookups = nontrivial = 0
  for ev in ent['events']:
    if ev[0] == 'update':
      ops.append('(OUpdate %s %s)' % (core.zlit(ev[1]), vlist(ev[2])))
    elif ev[0] == 'unset':
      ops.append('(ORemove %s)' % core.zlit(ev[1]))
    elif ev[0] == 'reset':
      ops.append('(OReset %s %s)' % (vlist(ev[1]), speclit(ev[2])))
    else:
      _, key, spec, snap, rows, err = ev
      ops.append('(OLookup %s %s %s)' % (keylit(key), speclit(spec), tablelit(snap)))
      expected.append('(ObsRes %s)' % reslit(rows))
      n_lookups += 1
      if rows and len(rows) >= 2:
        nontrivial += 1
  live = e.tables[col.table_id]._special_cols.get(col.col_id) is col
  simple = isinstance(col._mapping, im.lookup.SimpleLookupMapping)
  fd, bd = dump_index(col._mapping, simple) if live else ([], [])
  f, b = index_lits(fd, bd)
  lit = '((%s, %s, %s, %s, %s), %s)' % (core.coq_list([collit(c) for c in col_ids]), core.coq_list(ops),
                                        core.coq_list(expected), f, b, core.boollit(live))
  return lit, n_lookups, nontrivial


TRACE_DEFS = r'''
Definition tr_case := (lm_case * bool)%type.
Definition tr_check2 (c : tr_case) : bool :=
  let '((cols, ops, expected, fd, bd), live) := c in
  let '(m, got) := run_ops cols lm_empty ops in
  leqb lres_eqb got (flat_map (fun o => match o with ObsRes r => [r] | _ => [] end) expected) &&
  (negb live || (dict_same Z.eqb vals_eqb (right_kind cols) (fwd m) fd && bwd_same (bwd m) bd)).
'''


def cell_cases(im, e, spec, parsed):
  """Final formula cells vs the model's specification spec_lookup on the final table."""
  out = []
  T = e.tables['T']
  q = e.fetch_table('Q')
  has_ms = T.has_column('manualSort')
  for i, ps in enumerate(parsed):
    colids = [c for (c, _q, _c, _m) in ps['cols']]
    cols = [im.Contains(c, me) if contains else c for (c, _q, contains, me) in ps['cols']]
    try:
      real_spec = im.table.make_sort_spec(ps['order_by'], ps['sort_by'], has_ms)
    except TypeError:
      real_spec = ()
    need = set(colids) | set((c[1:] if c.startswith('-') else c) for c in real_spec)
    rows = {}
    for r in T.row_ids:
      rows[r] = {c: T.get_column(c).get_cell_value(r) for c in need}
    tl = tablelit(rows)
    for j, qr in enumerate(q.row_ids):
      qrow = {'q1': q.columns['q1'][j], 'q2': q.columns['q2'][j]}
      got = cell_rows(im, q.columns['F%d' % i][j], ps['one'])
      if isinstance(got, tuple):
        raise core.TieBroken('formula cell holds %r' % (got,))
      exp, key = naive_lookup(im, e, ps, qrow)
      lit = '(%s, %s, %s, %s, %s, %s, %s, %s, %s)' % (
        core.coq_list([collit(c) for c in cols]), core.coq_list([core.strlit(c) for c in colids]), tl,
        keylit(key), sarg_lit(ps['order_by']), sarg_lit(ps['sort_by']), core.boollit(has_ms),
        core.boollit(ps['one']), reslit(None if got == 'error' else got))
      nt = got != 'error' and got not in ([], [0]) and len(exp) < len(rows) if not ps['one'] else \
           (got != 'error' and got != [0] and len(rows) > 1)
      out.append(((i, qr, spec['shapes'][i], key), lit, nt))
  return out


def engine_seed(ctx, k):
  return (ctx.seed * 7919 + k * 104729 + 13) & 0x7fffffff


def correspond_engine(ctx):
  import random
  im = _impl()
  tr_lits, tr_info, cell_lits, cell_info = [], [], [], []
  ctx._c13_failures = []
  n_docs = ctx.n(6, 150)
  for k in range(n_docs):
    sd = engine_seed(ctx, k)
    rng = random.Random(sd)
    spec = gen_doc_spec(rng)
    e, applied, rec, failures, internal, parsed = run_history(im, rng, spec, n_bundles=ctx.n(20, 30))
    wit = {'level': 'engine', 'spec': spec, 'bundles': jsonable(applied)}
    for (step, what, tb) in internal:
      ctx.violation('internal-error', 'apply_user_actions raised %s at bundle %d' % (what, step), wit)
    for (step, desc, det) in failures[:1]:
      ctx.violation('oracle', desc, dict(wit, **det))
    if failures or internal:
      continue
    for ent in rec.logs.values():
      if ent['col'].table_id.startswith('_grist'):
        continue
      try:
        lit, n_lookups, nt = trace_case(im, e, ent)
      except Unsupported as ex:
        ctx.bump('D:trace skipped (%s)' % ex)
        continue
      tr_lits.append(lit)
      tr_info.append({'seed': sd, 'doc': k, 'lookup column': ent['col'].col_id, 'table': ent['col'].table_id,
                      'events': len(ent['events'])})
      ctx.count(('trace', sd, ent['col'].table_id, ent['col'].col_id, len(ent['events'])), nontrivial=nt > 0,
                kind='D:engine trace (%s)' % ('contains' if 'Contains' in ent['col'].col_id else 'simple'))
      ctx.bump('D:recorded lookups', n_lookups)
      ctx.bump('D:recorded index events', len(ent['events']) - n_lookups)
    try:
      for info, lit, nt in cell_cases(im, e, spec, parsed):
        cell_lits.append(lit)
        cell_info.append(dict(seed=sd, doc=k, cell=repr(info)))
        ctx.count(('cell', sd) + tuple(map(repr, info)), nontrivial=bool(nt), kind='D:final cell vs spec_lookup',
                  sample=({'doc_seed': sd, 'formula': info[2], 'key': repr(info[3]), 'q_row': info[1]}
                          if nt and len(ctx.samples) < 4 else None))
    except Unsupported as ex:
      ctx.bump('D:cells skipped (%s)' % ex)
  queue_cases(ctx, 'trace', tr_lits, lambda i: ctx.broken(
    'correspondence:recorded engine trace replayed in the model (or in the translated functions) gives different '
    'lookups or index', 'case %r' % (tr_info[i],)))
  queue_cases(ctx, 'cells', cell_lits, lambda i: ctx.broken(
    'correspondence:formula cell differs from the model specification spec_lookup', 'case %r' % (cell_info[i],)))


def correspond(ctx):
  for f in (correspond_sortspec, correspond_bins, correspond_twoway, correspond_sortkey, correspond_mappings, correspond_engine):
    f(ctx)
    ctx.log('%s: cases generated' % f.__name__)
  flush_cases(ctx)
  ctx.log('cases evaluated in Coq')


# ---------------------------------------------------------------------------------------------
# search: the naive oracle on the implementation (more documents, no recording), and the robustness stream

def search(ctx):
  import random
  im = _impl()
  n_docs = ctx.n(20, 600)
  cells = [0, 0]
  def on_bundle(step, stats):
    for (i, key, exp, n_t) in stats:
      cells[0] += 1
      if exp != 'error' and exp not in ([], [0]) and len(exp) < n_t:
        cells[1] += 1
  for k in range(n_docs):
    sd = engine_seed(ctx, 100000 + k)
    rng = random.Random(sd)
    spec = gen_doc_spec(rng)
    e, applied, rec, failures, internal, parsed = run_history(im, rng, spec, n_bundles=ctx.n(25, 40), on_bundle=on_bundle)
    wit = {'level': 'engine', 'spec': spec, 'bundles': jsonable(applied)}
    for (step, what, tb) in internal:
      ctx.violation('internal-error', 'apply_user_actions raised %s at bundle %d' % (what, step), wit)
    for (step, desc, det) in failures[:1]:
      ctx.violation('oracle', desc, dict(wit, **det))
    ctx.count(('search', sd), nontrivial=True, kind='search:documents')
    if len(ctx.violations) > 10:
      break
  ctx.bump('search:formula cells compared with naive filter+sort', cells[0])
  ctx.bump('search:... of which matched >=1 and missed >=1 row', cells[1])
  # robustness stream: NaN / inf / unhashable / incomparable values; only "no internal error"
  n_rob = ctx.n(8, 300)
  errs = 0
  for k in range(n_rob):
    sd = engine_seed(ctx, 200000 + k)
    rng = random.Random(sd)
    spec = gen_doc_spec(rng, robust=True)
    e, applied, rec, failures, internal, parsed = run_history(im, rng, spec, n_bundles=20)
    for (step, what, tb) in internal:
      errs += 1
      ctx.violation('internal-error', 'robustness stream: apply_user_actions raised %s at bundle %d' % (what, step),
                    {'level': 'engine', 'spec': spec, 'bundles': jsonable(applied)})
    ctx.bump('robustness:documents (NaN/inf/incomparable values, only no-internal-error required)')
  ctx.extra['robustness_stream'] = {'documents': n_rob, 'internal_errors': errs}


def replay(ctx, w):
  import ast
  im = _impl()
  if w.get('level') == 'twoway':
    ops = ast.literal_eval(w['ops'])
    kinds = {'single': 'single', 'strict': 'strict', "<class 'set'>": set, "<class 'list'>": list, 'LookupSet': 'LookupSet'}
    _outs, fd, bd = run_twoway(im, kinds[w['left']], kinds[w['right']], ops)
    return None if twoway_same_pairs(fd, bd) else 'TwoWayMap forward and backward maps disagree after %r' % (ops,)
  spec = w['spec']
  spec['shapes'] = [tuple(s) for s in spec['shapes']]
  e, applied, rec, failures, internal, parsed = run_history(im, None, spec, bundles=unjson(w['bundles']))
  if internal:
    return 'apply_user_actions raised %s' % internal[0][1]
  if failures:
    return failures[0][1]
  return None
