"""C12 -- Summary tables are exact group-bys of their source (kernel K5, Model/Summary.v)."""
import ast
import collections
import copy
import random
import traceback

from harness import core

ID = 'C12'
TITLE = 'Summary tables are exact group-bys of their source'
PROPS = ['Props/C12', 'Props/C12code']


def G():
  from harness import gristenv
  return gristenv


# ------------------------------------------------------------------------------------------------
# What the engine exposes (fetch_table of metadata, source and summary tables)

def summary_infos(e):
  """[(summary table id, source table id, [(summary col id, source col id, source col type)] sorted by summary
  col id, [other data columns])] from the metadata tables (the group-by columns are the columns with
  summarySourceCol)."""
  t = e.fetch_table('_grist_Tables')
  c = e.fetch_table('_grist_Tables_column')
  tid = {rid: t.columns['tableId'][i] for i, rid in enumerate(t.row_ids)}
  src = {rid: t.columns['summarySourceTable'][i] for i, rid in enumerate(t.row_ids)}
  col = {rid: {k: v[i] for k, v in c.columns.items()} for i, rid in enumerate(c.row_ids)}
  out = []
  for rid in t.row_ids:
    if not src[rid] or src[rid] not in tid:
      continue
    gb, leftover = [], []
    for cr in c.row_ids:
      ci = col[cr]
      if ci['parentId'] != rid:
        continue
      if ci['summarySourceCol']:
        sc = col.get(ci['summarySourceCol'])
        if sc is None:
          gb.append((ci['colId'], None, None))
        else:
          gb.append((ci['colId'], sc['colId'], sc['type']))
      elif not ci['isFormula']:
        leftover.append(ci['colId'])     # a data column of a summary table that is not a group-by column
    out.append((tid[rid], tid[src[rid]], sorted(gb), sorted(leftover)))
  return out


def is_list_type(t):
  return t == 'ChoiceList' or (t or '').startswith('RefList:')


def raw_rows(e, table_id, col_ids):
  """[(row id, [raw cell per col id])] in ascending row id order."""
  d = e.fetch_table(table_id)
  order = sorted(range(len(d.row_ids)), key=lambda i: d.row_ids[i])
  return [(d.row_ids[i], [d.columns[c][i] for c in col_ids]) for i in order]


def group_ids(v):
  """Row ids in a `group` cell as fetch_table returns it (a RecordList), or None if it is something else."""
  try:
    return [int(x) for x in v]
  except Exception:
    return None


# ------------------------------------------------------------------------------------------------
# The property's own oracle: recompute the group-by naively from fetch_table(source)

def is_error(v):
  """An error value stored in a cell (objtypes.RaisedException), as fetch_table returns it."""
  return type(v).__name__ == 'RaisedException'


def hashable(k):
  try:
    hash(k)
    return True
  except TypeError:
    return False


def _pyeq(a, b):
  try:
    return bool(a == b)
  except Exception:       # pylint: disable=broad-except
    return False


def norm_value(t, v):
  """The value of a cell as a key.  A Date cell is a calendar day: formulas see datetime.date, so a stored
  number that is not midnight (5, True...) is the same day as the midnight before it."""
  if t == 'Date' and isinstance(v, (int, float)) and not isinstance(v, bool) and v == v and abs(v) < 1e15:
    import math
    return math.floor(v / 86400.0) * 86400
  # A stored value that is not of the column's type (a float in a Ref column, left there by a doc action
  # that bypassed conversion) is text to formulas: AltText(str(value)).
  if v is not None and not isinstance(v, str) and not is_error(v) and hashable(v) and t:
    try:
      import usertypes
      pure = t.split(':', 1)[0]
      cls = getattr(usertypes, {'Ref': 'Reference', 'RefList': 'ReferenceList'}.get(pure, pure))
      if not cls.is_right_type(v):
        # ... and a looked-up text is converted by the column type (an Int column turns '0.0' into 0, a Ref
        # column keeps it as text)
        try:
          w = (cls(t.split(':', 1)[1]) if ':' in t else cls()).convert(str(v))
        except Exception:   # pylint: disable=broad-except
          return str(v)
        return str(w) if type(w).__name__ == 'AltText' else w
    except Exception:       # pylint: disable=broad-except
      pass
  return v


def naive_keys(types, cells):
  """Distinct key tuples one source row contributes (the property text): a list-valued cell of a list-typed
  column gives one key per distinct element, an empty one ''/0, a non-list value none."""
  import itertools
  per_col = []
  for t, v in zip(types, cells):
    if is_list_type(t):
      if v is None:
        v = ()
      if isinstance(v, (list, tuple)):
        elems = []
        for x in v:
          if not any(_pyeq(x, y) for y in elems):
            elems.append(x)
        if not elems:
          elems = [''] if t == 'ChoiceList' else [0]
        per_col.append(elems)
      else:
        return []          # a non-list value contributes no key
    else:
      per_col.append([norm_value(t, v)])
  return [tuple(k) for k in itertools.product(*per_col)]


def row_defect(types, cells):
  """Why the helper formula cannot give this source row a proper key (the two known findings), or None:
  'raises'  a scalar group-by cell is unhashable (list, dict) or a group-by cell holds an error value,
  'tuple'   a scalar group-by cell is a tuple (e.g. left behind by ChoiceList -> Any)."""
  out = None
  for t, v in zip(types, cells):
    if is_error(v):
      return 'raises' if not is_list_type(t) else 'raises-list'
    if (t or '').startswith(('Ref:', 'RefList:')):
      vals = v if isinstance(v, (list, tuple)) else [v]
      if any(isinstance(x, int) and not isinstance(x, bool) and x < 0 for x in vals):
        return 'negref'
    if not is_list_type(t):
      if not hashable(v):
        return 'raises'
      if isinstance(v, tuple):
        out = 'tuple'
  return out


def oracle_table(e, info):
  """Returns a list of (kind, description) for one summary table; empty when it is an exact group-by."""
  sid, src_id, gb, leftover = info
  if leftover:
    # finding C12-stale-groupby-column (fixed in /repo by cda1c6e): the table kept the data column of a group-by
    # source column that was removed; its rows are still one per old value.  Everything else follows from that.
    return [('stale-groupby-column', '%s: data column(s) %r are not group-by columns any more (their source column '
             'is gone) but the table and its %d row(s) are still there, grouped by %r'
             % (sid, leftover, len(e.fetch_table(sid).row_ids), [c for (c, _s, _t) in gb]))]
  if any(sc is None for (_c, sc, _t) in gb):
    return [('dangling-groupby', '%s: a group-by column has no source column' % sid)]
  types = [t for (_c, _sc, t) in gb]
  for t in types:
    if (t or '').startswith(('Ref:', 'RefList:')) and t.split(':', 1)[1] not in e.tables:
      # not a well-formed column (AddColumn accepted a reference to a table that does not exist: C09's
      # subject); reading or converting such cells raises, the table is outside this property's quantifier
      return [('SKIP:group-by-column-refers-to-missing-table', '%s: %s' % (sid, t))]
  try:
    srows = raw_rows(e, src_id, [sc for (_c, sc, _t) in gb])
    mrows = raw_rows(e, sid, [c for (c, _sc, _t) in gb] + ['group'])
  except KeyError as ex:
    return [('missing-column', '%s: %r' % (sid, ex))]
  want = collections.OrderedDict()      # key -> ascending source row ids
  bad = {}                              # source row id -> defect
  for rid, cells in srows:
    d = row_defect(types, cells)
    if d:
      bad[rid] = d
      continue
    for k in naive_keys(types, cells):
      want.setdefault(k, []).append(rid)
  out = []
  seen = {}
  in_some_group = set()
  for rid, cells in mrows:
    k = tuple(norm_value(summary_type(t), v) for t, v in zip(types, cells[:-1]))
    g = group_ids(cells[-1])
    if g is None:
      out.append(('group-not-a-list', '%s row %d: group is %r' % (sid, rid, cells[-1])))
      continue
    if not g:
      out.append(('empty-group', '%s row %d (key %r) has an empty group' % (sid, rid, k)))
      continue
    in_some_group.update(g)
    good = [x for x in g if x not in bad]
    if not good:
      continue              # kept alive only by defective source rows: reported below, once per table
    if not hashable(k):
      out.append(('summary-key-unhashable', '%s row %d has key %r' % (sid, rid, k)))
      continue
    if k in seen:
      out.append(('duplicate-key', '%s rows %d and %d share the key %r' % (sid, seen[k], rid, k)))
      continue
    seen[k] = rid
    if k not in want:
      out.append(('extra-row', '%s row %d has key %r which no source row has (group %r)' % (sid, rid, k, g)))
    elif good != want[k]:
      out.append(('wrong-group', '%s row %d key %r: group %r, source rows with the key %r' % (sid, rid, k, g, want[k])))
  for k, rows in want.items():
    if k not in seen:
      out.append(('missing-row', '%s has no row for key %r of source rows %r' % (sid, k, rows)))
  raises = sorted(r for r, d in bad.items() if d == 'raises' or (d == 'raises-list' and r in in_some_group))
  tuples = sorted(r for r, d in bad.items() if d == 'tuple')
  negrefs = sorted(r for r, d in bad.items() if d == 'negref')
  if negrefs:
    out.append(('negative-ref-key', '%s: source rows %r have a negative row id in a Reference group-by cell; the record '
                'action the helper formula issues on the summary table takes it for a temporary row id ("Reference to '
                'unknown temporary row id") and the formula raises: the rows are in no group or in the group of their '
                'previous key' % (sid, negrefs)))
  if raises:
    out.append(('helper-raises', '%s: source rows %r have an unhashable or error-valued group-by cell; the helper '
                'formula raises for them, so they are in no group or still in the group of their previous key'
                % (sid, raises)))
  if tuples:
    out.append(('tuple-key', '%s: source rows %r have a tuple in a scalar group-by cell; the added summary rows '
                'get an error value as key, one row per evaluation instead of one per key' % (sid, tuples)))
  return out


def summary_type(t):
  """summary.summary_groupby_col_type: type of the summary column for a source column type."""
  if t == 'ChoiceList':
    return 'Choice'
  return (t or '').replace('RefList:', 'Ref:')


def oracle(e):
  out = []
  for info in summary_infos(e):
    out.extend(oracle_table(e, info))
  return out


# ------------------------------------------------------------------------------------------------
# Histories: the shared generator with summary operations over-represented

WEIGHTS = {
  'addrec': 10, 'updrec': 12, 'rmrec': 5, 'tempids': 1,
  'addcol': 2, 'addformula': 1, 'rmcol': 3, 'rencol': 3, 'modtype': 2, 'modformula': 1,
  'toformula': 0, 'todata': 0,
  'addtable': 1, 'rmtable': 1, 'rentable': 2, 'addref': 3, 'addreverse': 0,
  'summary': 6, 'summaryformula': 2, 'updsummary': 5, 'label': 1, 'renamechoices': 2, 'upsert': 1,
  'invalid': 1,
  # kinds added by SummaryGen
  'listflip': 4, 'gbupdate': 10, 'summary0': 1, 'chainref': 2, 'movesort': 5,
}

GB_TYPES = ['Text', 'Int', 'Choice', 'ChoiceList', 'ChoiceList', 'Any', 'Bool', 'Date', 'Numeric']


def make_gen(rng, direct=False):
  from harness import histgen
  Meta = histgen.Meta

  class SummaryGen(histgen.HistGen):
    """Adds: type flips between Choice<->ChoiceList and Ref<->RefList on group-by source columns, updates aimed
    at group-by source columns, summaries by 0 columns, and (direct=True only) AddRecord on a summary table."""

    def gen_addtable(self, meta):
      r = self.r
      name = r.choice(histgen.TABLE_NAMES)
      cols, used = [], set()
      for _ in range(r.randint(2, 4)):
        cid = r.choice(histgen.COL_NAMES)
        if cid in used:
          continue
        used.add(cid)
        cols.append({'id': cid, 'type': r.choice(GB_TYPES), 'isFormula': False})
      return ['AddTable', name, cols]

    def value(self, ctype, meta=None):
      r = self.r
      base = ctype.split(':')[0]
      if base == 'ChoiceList' and r.random() < 0.85:
        return r.choice([None, ['L'], ['L', 'red'], ['L', 'red', 'green'], ['L', 'blue', 'red'], ['L', 'red', 'red'],
                         ['L', 'green', 'blue', 'green'], 'red', ['L', '']])
      if base == 'Any' and r.random() < 0.3:
        return r.choice([1, True, 1.0, 0, False, '1', None, '', ['L', 'a'], 2.5])
      return super(SummaryGen, self).value(ctype, meta)

    def gb_source_cols(self, meta):
      refs = set(c['summarySourceCol'] for c in meta.cols.values() if c['summarySourceCol'])
      return [meta.cols[x] for x in sorted(refs) if x in meta.cols]

    def gen(self, kind, meta):
      r = self.r
      if kind == 'listflip':
        cs = [c for c in self.gb_source_cols(meta)
              if c['type'].split(':')[0] in ('Choice', 'ChoiceList', 'Ref', 'RefList')]
        if not cs:
          return None
        c = r.choice(cs)
        t = c['type']
        newt = {'Choice': 'ChoiceList', 'ChoiceList': 'Choice'}.get(t) or \
          (t.replace('RefList:', 'Ref:') if t.startswith('RefList:') else t.replace('Ref:', 'RefList:'))
        return ['ModifyColumn', meta.tables[c['parentId']]['tableId'], c['colId'], {'type': newt}]
      if kind == 'gbupdate':
        cs = [c for c in self.gb_source_cols(meta) if not c['isFormula']]
        if not cs:
          return None
        c = r.choice(cs)
        tid = meta.tables[c['parentId']]['tableId']
        rows = meta.rows(tid)
        if not rows:
          return None
        rs = r.sample(rows, min(len(rows), r.randint(1, 3)))
        return ['BulkUpdateRecord', tid, rs, {c['colId']: [self.value(c['type'], meta) for _ in rs]}]
      if kind == 'summary0':
        t = self.pick_table(meta)
        if t is None:
          return None
        return ['CreateViewSection', t['id'], 0, 'record', [], None]
      if kind == 'summary':
        t = self.pick_table(meta)
        if t is None:
          return None
        cols = meta.visible_cols(t['id']) if r.random() < 0.15 else meta.data_cols(t['id'])
        if not cols:
          return None
        gb = r.sample(cols, min(len(cols), r.choice([1, 1, 2, 2, 3])))
        return ['CreateViewSection', t['id'], 0, 'record', [c['id'] for c in gb], None]
      if kind == 'movesort':
        # display order != row id order: move a record (manualSort) or insert one between two others
        t = self.pick_table(meta)
        if t is None or not any(c['colId'] == 'manualSort' for c in meta.by_table[t['id']]):
          return None
        tid = t['tableId']
        rows = meta.rows(tid)
        if len(rows) < 2:
          return None
        d = meta.e.fetch_table(tid)
        pos = sorted(float(x) for x in d.columns['manualSort'] if isinstance(x, (int, float)))
        if len(pos) < 2:
          return None
        i = r.randrange(len(pos) - 1)
        where = r.choice([pos[0] - 1.0, (pos[i] + pos[i + 1]) / 2.0, pos[-1] + 1.0, (pos[0] + pos[1]) / 2.0])
        if r.random() < 0.6:
          return ['UpdateRecord', tid, r.choice(rows), {'manualSort': where}]
        gcols = [c for c in self.gb_source_cols(meta) if c['parentId'] == t['id'] and not c['isFormula']]
        vals = {'manualSort': where}
        for c in gcols:
          vals[c['colId']] = self.value(c['type'], meta)
        return ['AddRecord', tid, None, vals]
      if kind == 'chainref':
        # a Ref / RefList column into a SUMMARY table (later used as group-by of a second summary table)
        t, st = self.pick_table(meta), self.pick_table(meta, summary=True)
        if t is None or st is None:
          return None
        cid = r.choice(['sref', 'sref2', 'slinks'])
        self.pend(t['tableId'], cid, 0)
        return ['AddColumn', t['tableId'], cid,
                {'type': r.choice(['Ref:', 'Ref:', 'RefList:']) + st['tableId'], 'isFormula': False}]
      if kind == 'directadd':
        st = self.pick_table(meta, summary=True)
        if st is None:
          return None
        gcols = [c for c in meta.by_table[st['id']] if c['summarySourceCol']]
        vals = {}
        for c in gcols:
          src = meta.cols.get(c['summarySourceCol'])
          vals[c['colId']] = self.value(c['type'], meta) if src is None else self.value(c['type'], meta)
        return ['AddRecord', st['tableId'], None, vals]
      return super(SummaryGen, self).gen(kind, meta)

  w = dict(WEIGHTS)
  if direct == 'chain':
    w.update({'chainref': 5, 'gbupdate': 16, 'rmrec': 10, 'summary': 8, 'addtable': 0, 'rmtable': 0, 'rentable': 1,
              'addcol': 1, 'rmcol': 1, 'modtype': 1, 'listflip': 2})
  elif direct:
    w['directadd'] = 8
  return SummaryGen(rng, weights=w, max_tables=2 if direct == 'chain' else 3)


# ------------------------------------------------------------------------------------------------
# Instrumentation: the state handed to the settle loop of Engine.apply_user_actions

class Recorder(object):
  """Wraps Engine._bring_all_up_to_date (called only by apply_user_actions after all user actions have been
  applied, and once more after every successful apply_auto_removes): records the key cells of every summary
  table at each call."""
  def __init__(self):
    import engine, lookup, column
    self.engine, self.lookup, self.column = engine, lookup, column
    for cls, name in ((engine.Engine, '_bring_all_up_to_date'), (engine.Engine, 'apply_user_actions')):
      if not hasattr(cls, name):
        raise core.TieBroken('instrumentation point %s.%s is gone' % (cls.__name__, name))
    for name in ('_summary_source_table', '_summary_helper_col_id', '_summary_simple'):
      pass
    if not hasattr(engine.Engine, '_recompute_one_cell'):
      raise core.TieBroken('instrumentation point Engine._recompute_one_cell is gone')
    self.reft = {}           # summary table id -> per group-by column the table its source column refers to
    self.guard_calls = self.guard_true = 0
    self.samples = []        # recorded evaluations of helper cells: input and output of the running _updateSummary
    self.sample_cap = 400
    self.calls = []
    self.ends = []           # per round: the source cells at the end of the round
    self.evals = []          # (index of the round, source table id, helper col id, row id)
    self.on = False
    rec = self
    self.orig = engine.Engine._bring_all_up_to_date
    self.orig_cell = engine.Engine._recompute_one_cell

    def _bring_all_up_to_date(eng):
      if rec.on:
        try:
          rec.calls.append(rec.presnap(eng))
        except core.TieBroken:
          raise
        except Exception:      # pylint: disable=broad-except
          rec.calls.append({'error': traceback.format_exc()[-600:]})
      ret = rec.orig(eng)
      if rec.on:
        try:
          rec.ends.append(rec.endsnap(eng))
        except Exception:      # pylint: disable=broad-except
          rec.ends.append({'error': traceback.format_exc()[-600:]})
      return ret

    def _recompute_one_cell(eng, table, col, row_id, *args, **kwargs):
      sample = None
      if rec.on and col.col_id.startswith('#summary#'):
        rec.evals.append((len(rec.calls) - 1, table.table_id, col.col_id, row_id))
        if len(rec.samples) < rec.sample_cap:
          try:
            sample = rec.helper_sample_before(eng, table, col, row_id)
          except Exception:      # pylint: disable=broad-except
            sample = None
      ret = rec.orig_cell(eng, table, col, row_id, *args, **kwargs)
      if sample is not None:
        try:
          rec.helper_sample_after(eng, table, col, row_id, sample, ret)
        except Exception:        # pylint: disable=broad-except
          pass
      return ret
    if not hasattr(engine.Engine, 'is_triggered_by_table_action'):
      raise core.TieBroken('Engine.is_triggered_by_table_action is gone')
    self.orig_guard = engine.Engine.is_triggered_by_table_action

    def is_triggered_by_table_action(eng, table_id):
      ret = rec.orig_guard(eng, table_id)
      rec.guard_calls += 1
      if ret:
        rec.guard_true += 1
      return ret
    engine.Engine._bring_all_up_to_date = _bring_all_up_to_date
    engine.Engine._recompute_one_cell = _recompute_one_cell
    engine.Engine.is_triggered_by_table_action = is_triggered_by_table_action

  def uninstall(self):
    self.engine.Engine._bring_all_up_to_date = self.orig
    self.engine.Engine._recompute_one_cell = self.orig_cell
    self.engine.Engine.is_triggered_by_table_action = self.orig_guard

  def begin(self):
    self.calls, self.evals, self.ends, self.on = [], [], [], True

  def summary_tables(self, eng):
    """Engine-side view: {summary table id: (source table id, group-by col ids, kinds)} exactly as
    Table._rebuild_model / _add_update_summary_col determine them."""
    out = {}
    for tid, t in eng.tables.items():
      if not hasattr(t, '_summary_source_table'):
        raise core.TieBroken('Table._summary_source_table is gone')
      src = t._summary_source_table
      if src is None:
        continue
      helper = t._summary_helper_col_id
      if not src.has_column(helper):
        raise core.TieBroken('helper column %s missing in %s' % (helper, src.table_id))
      gcols = sorted(c for c, col in t.all_columns.items()
                     if not col.is_formula() and not c.startswith('#') and c != 'id')
      kinds = []
      for c in gcols:
        sc = src.all_columns.get(c)
        kinds.append('C' if isinstance(sc, self.column.ChoiceListColumn) else
                     'R' if isinstance(sc, self.column.ReferenceListColumn) else 'S')
      simple = not any(k in 'CR' for k in kinds)
      if bool(t._summary_simple) != simple:
        raise core.TieBroken('%s._summary_simple=%r but group-by kinds are %r' % (tid, t._summary_simple, kinds))
      reft = []
      for c in gcols:
        sc = src.all_columns.get(c)
        tt = getattr(sc, '_target_table', None) if isinstance(sc, self.column.BaseReferenceColumn) else None
        reft.append(tt.table_id if tt is not None else None)
      self.reft[tid] = reft
      out[tid] = (src.table_id, gcols, kinds)
    return out

  def key_of_row(self, t, gcols, rid):
    return [self.lookup._extract(t.get_column(c)._convert_raw_value(t.get_column(c).raw_get(rid))) for c in gcols]

  def helper_entries(self, eng, sid, src_id):
    """What the lookup map of the helper column `#summary#<sid>` of the source table holds: {source row id:
    sorted summary row ids}.  (A record whose helper formula raised keeps its previous entry there.)"""
    s = eng.tables[src_id]
    helper = eng.tables[sid]._summary_helper_col_id
    out = {}
    for col in list(s._special_cols.values()):
      if not isinstance(col, self.lookup.LookupMapColumn):
        continue
      mapping = getattr(col, '_mapping', None)
      if mapping is None or not hasattr(mapping, '_col_ids_tuple') or not hasattr(mapping, 'get_mapped_keys'):
        raise core.TieBroken('LookupMapColumn._mapping._col_ids_tuple/get_mapped_keys is gone')
      if tuple(self.lookup.extract_column_id(c) for c in mapping._col_ids_tuple) != (helper,):
        continue
      # getSummarySourceGroup looks the record up directly in simple mode and with CONTAINS in list mode:
      # two different lookup maps
      contains = isinstance(mapping._col_ids_tuple[0], self.lookup._Contains)
      if contains == bool(eng.tables[sid]._summary_simple):
        continue
      for rid in s.row_ids:
        ids = set()
        for k in mapping.get_mapped_keys(rid):
          if isinstance(k, tuple) and len(k) == 1 and isinstance(k[0], int) and not isinstance(k[0], bool):
            ids.add(k[0])
        if ids:
          out[rid] = sorted(set(out.get(rid, [])) | ids)
    return out

  def presnap(self, eng):
    snap = {}
    for sid, (src_id, gcols, kinds) in self.summary_tables(eng).items():
      t = eng.tables[sid]
      snap[sid] = {'src': src_id, 'gcols': gcols, 'kinds': kinds,
                   'rows': [(rid, self.key_of_row(t, gcols, rid)) for rid in sorted(t.row_ids)],
                   'prev': self.helper_entries(eng, sid, src_id), 'reft': list(self.reft.get(sid, []))}
    return snap

  def helper_sample_before(self, eng, table, col, row_id):
    sid = col.col_id[len('#summary#'):]
    info = self.summary_tables(eng).get(sid)
    if info is None or info[0] != table.table_id or row_id not in table.row_ids:
      return None
    _src, gcols, kinds = info
    t = eng.tables[sid]
    if any((not table.has_column(c)) or table.get_column(c).is_formula() for c in gcols):
      return None            # formula group-by cells are computed on demand by the formula itself
    conv = [t.get_column(c) for c in gcols]
    cells = [preclassify(k, read_cell(table, c, row_id), co, self.lookup) for k, c, co in zip(kinds, gcols, conv)]
    return {'sid': sid, 'kinds': kinds, 'gcols': gcols, 'cells': cells,
            'before': [(rid, self.key_of_row(t, gcols, rid)) for rid in sorted(t.row_ids)]}

  def helper_sample_after(self, eng, table, col, row_id, sample, v):
    t = eng.tables.get(sample['sid'])
    if t is None:
      return
    raised = type(v).__name__ == 'RaisedException'
    ids = [] if raised or v is None else [int(v._row_id)] if hasattr(v, '_row_id') else \
      [int(v)] if isinstance(v, int) else [int(x) for x in v]
    sample.update(raised=raised, ids=ids, after=[(rid, self.key_of_row(t, sample['gcols'], rid)) for rid in sorted(t.row_ids)])
    self.samples.append(sample)

  def endsnap(self, eng):
    """At the end of a round: per summary table the source rows with the cells the helper formulas read."""
    snap = {}
    for sid, (src_id, gcols, kinds) in self.summary_tables(eng).items():
      s = eng.tables[src_id]
      conv = [eng.tables[sid].get_column(c) for c in gcols]
      snap[sid] = {'src': src_id, 'gcols': gcols, 'kinds': kinds, 'ids': sorted(eng.tables[sid].row_ids),
                   'srows': [(rid, [preclassify(k, read_cell(s, c, rid), co, self.lookup)
                                    for k, c, co in zip(kinds, gcols, conv)]) for rid in sorted(s.row_ids)]}
    return snap

  def postsnap(self, eng):
    """After the bundle: per summary table the rows with keys and groups, and the source rows with the cells
    as the helper formula reads them (rich values), converted by the summary column as lookup_records does."""
    snap = {}
    for sid, (src_id, gcols, kinds) in self.summary_tables(eng).items():
      t, s = eng.tables[sid], eng.tables[src_id]
      rows = []
      gcol = t.get_column('group') if t.has_column('group') else None
      for rid in sorted(t.row_ids):
        g = group_ids(gcol.raw_get(rid)) if gcol is not None else None
        rows.append((rid, self.key_of_row(t, gcols, rid), g))
      srows = []
      for rid in sorted(s.row_ids):
        srows.append((rid, [read_cell(s, c, rid) for c in gcols]))
      cols = [t.get_column(c) for c in gcols] + [s.get_column(c) for c in gcols if s.has_column(c)]
      snap[sid] = {'src': src_id, 'gcols': gcols, 'kinds': kinds, 'rows': rows, 'srows': srows,
                   'conv': [t.get_column(c) for c in gcols],
                   'dangling': any(isinstance(c, self.column.BaseReferenceColumn) and c._target_table is None
                                   for c in cols)}
    return snap


# ------------------------------------------------------------------------------------------------
# Engine values -> model cells (Model/Summary.v: atom, cell)

class CellError(object):
  """Reading the cell raises (it holds an error value)."""
  def __init__(self, ex):
    self.ex = ex


def read_cell(table, col_id, rid):
  """The value a formula gets from rec.<col_id> (BaseColumn.get_cell_value), or CellError."""
  if not table.has_column(col_id):
    return KeyError(col_id)
  try:
    return table.get_column(col_id).get_cell_value(rid)
  except Exception as ex:       # pylint: disable=broad-except
    return CellError(ex)


class SkipCase(Exception):
  """The state is outside the domain of the model (reason in args[0]); counted, never hidden."""


class Interner(object):
  def __init__(self):
    self.d = {}

  def tok(self, v):
    return self.d.setdefault(v, len(self.d))


def atom(v, intern):
  """Canonical representative of a hashable Python value under ==/hash: numbers with an integral value are one
  class (True == 1 == 1.0), strings and bytes are kept, everything else is interned through a dict."""
  if v is None:
    return ('N',)
  if isinstance(v, (bool, int)):
    return ('I', int(v))
  if isinstance(v, float):
    if v != v:
      raise SkipCase('nan')
    if v not in (float('inf'), float('-inf')) and v == int(v):
      return ('I', int(v))
    return ('O', intern.tok(v))
  if isinstance(v, str):
    return ('S', v)
  if isinstance(v, bytes):
    return ('B', v)
  return ('O', intern.tok(v))


ATOM_RANK = {'N': 0, 'I': 1, 'S': 2, 'B': 3, 'O': 4}


def atom_sort_key(a):
  """The order Model/Summary.v sorts atoms by (atom_leb)."""
  if a[0] == 'S':
    return (2, [ord(c) for c in a[1]])
  if a[0] == 'B':
    return (3, list(a[1]))
  return (ATOM_RANK[a[0]], a[1] if len(a) > 1 else 0)


def conv_key(colobj, v, lookup_mod):
  """What Table.lookup_records turns a looked-up value into before it is used as a key."""
  return lookup_mod._extract(colobj._convert_raw_value(colobj.convert(v)))


def preclassify(kind, v, colobj, lookup_mod):
  """First half of the cell mapping, done when the snapshot is taken (the summary column object `colobj` of that
  moment converts the looked-up value): ('E',) | ('U',) | ('A', key object) | ('Q', [key objects]) |
  ('SKIP', reason)."""
  if isinstance(v, (KeyError, CellError)):
    return ('E',)          # getattr(rec, col) raises: no such column in the source table, or an error value
  try:
    if kind == 'S':
      if isinstance(v, tuple):
        return ('SKIP', 'tuple-in-scalar-column')      # domain of the known finding C12-tuple-key
      k = conv_key(colobj, v, lookup_mod)
      if hasattr(colobj, '_target_table') and isinstance(k, int) and not isinstance(k, bool) and k < 0:
        return ('SKIP', 'negative-ref-key')          # domain of the known finding C12-negative-ref-key
      return ('A', k) if hashable(k) else ('U',)
    if isinstance(v, (bytes, str)):
      return ('A', v)
    try:
      elems = list(iter(v))
    except TypeError:
      return ('A', v) if hashable(v) else ('U',)
    if not all(hashable(x) for x in elems):
      return ('U',)
    ks = [conv_key(colobj, x, lookup_mod) for x in elems]
    if not all(hashable(k) for k in ks):
      return ('SKIP', 'element-converts-to-unhashable')
    if hasattr(colobj, '_target_table') and any(isinstance(k, int) and not isinstance(k, bool) and k < 0 for k in ks):
      return ('SKIP', 'negative-ref-key')
    try:
      raw_sorted = sorted(set(elems))
    except TypeError:
      return ('SKIP', 'elements-not-mutually-comparable')
    return ('Q', ks, [conv_key(colobj, x, lookup_mod) for x in raw_sorted])
  except Exception as ex:      # pylint: disable=broad-except
    return ('SKIP', 'conversion-raises:%s' % type(ex).__name__)


def classify(pre, intern):
  """Second half: key objects -> atoms (one Interner per case).  Raises SkipCase."""
  if pre[0] == 'SKIP':
    raise SkipCase(pre[1])
  if pre[0] in 'EU':
    return pre
  if pre[0] == 'A':
    return ('A', atom(pre[1], intern))
  atoms = [atom(k, intern) for k in pre[1]]
  # monitor: sorted() on the raw elements agrees with the model's order on the converted atoms, and set()
  # on the raw elements with the model's dedup
  via_raw = [atom(k, intern) for k in pre[2]]
  dedup = []
  for a in atoms:
    if a not in dedup:
      dedup.append(a)
  if via_raw != sorted(dedup, key=atom_sort_key):
    raise SkipCase('order-or-equality-changed-by-conversion')
  return ('Q', atoms)


# Coq literals
def atom_lit(a):
  if a[0] == 'N':
    return 'ANone'
  if a[0] == 'I':
    return '(AInt %s)' % core.zlit(a[1])
  if a[0] == 'S':
    return '(AStr %s)' % core.strlit(a[1])
  if a[0] == 'B':
    return '(ABytes %s)' % core.zlist(list(a[1]))
  return '(AOther %s)' % core.zlit(a[1])


def cell_lit(c):
  if c[0] == 'A':
    return '(CAtom %s)' % atom_lit(c[1])
  if c[0] == 'Q':
    return '(CSeq %s)' % core.coq_list([atom_lit(a) for a in c[1]])
  return 'CError' if c[0] == 'E' else 'CUnhashable'


KIND_LIT = {'S': 'KScalar', 'C': 'KChoiceList', 'R': 'KRefList'}


def case_lit(kinds, prev, rounds, expect):
  """((kinds, helper lookup entries, rounds), summary rows after settle with groups)"""
  def srows(src):
    return core.coq_list(['(%s, %s)' % (core.zlit(rid), core.coq_list([cell_lit(c) for c in cells]))
                          for rid, cells in src])
  def mrows(summ):
    return core.coq_list(['(%s, %s)' % (core.zlit(rid), core.coq_list([atom_lit(a) for a in key]))
                          for rid, key in summ])
  p = core.coq_list(['(%s, %s)' % (core.zlit(rid), core.zlist(ids)) for rid, ids in prev])
  k = core.coq_list([KIND_LIT[x] for x in kinds])
  r = core.coq_list(['(%s, %s, %s)' % (core.zlist(d), srows(src), mrows(start)) for d, src, start in rounds])
  x = core.coq_list(['(%s, %s, %s)' % (core.zlit(rid), core.coq_list([atom_lit(a) for a in key]), core.zlist(g))
                     for rid, key, g in expect])
  return '((%s, %s, %s), %s)' % (k, p, r, x)


# ------------------------------------------------------------------------------------------------
# Running histories

def dirty_sets(ncalls, evals, sid, src_id):
  """Per round of the settle loop: the source row ids whose helper cell for `sid` was evaluated, in the order of
  evaluation (an immediate repetition counts once)."""
  out = [[] for _ in range(ncalls)]
  for (rnd, tid, cid, rid) in evals:
    if rnd >= 0 and tid == src_id and cid == '#summary#' + sid and (not out[rnd] or out[rnd][-1] != rid):
      out[rnd].append(rid)
  return out


def cases_of_step(st, lookup_mod):
  """[(summary table id, case tuple | None, skip reason | None)] for one successful bundle."""
  out = []
  if st['failed'] or not st['calls'] or st['post'] is None:
    return out
  pre = st['calls'][0]
  if 'error' in pre:
    raise core.TieBroken('snapshot before the settle loop failed: ' + pre['error'])
  for sid, post in sorted(st['post'].items()):
    if any('error' in c for c in st['calls'] + st['ends']):
      raise core.TieBroken('snapshot of a round failed')
    if any(sid not in c for c in st['calls']) or any(sid not in c for c in st['ends']) or \
       len(st['ends']) != len(st['calls']):
      out.append((sid, None, 'table-appeared-during-settle', None))
      continue
    try:
      d = dirty_sets(len(st['calls']), st['evals'], sid, post['src'])
      case = build_case([c[sid] for c in st['calls']], [c[sid] for c in st['ends']], post, lookup_mod, d)
      out.append((sid, case, None, chain_case(st, sid, case)))
    except SkipCase as ex:
      out.append((sid, None, ex.args[0], None))
  return out


def chain_case(st, sid, case):
  """For a table whose group-by source columns refer to ONE other summary table S1: the same bundle as input of
  SummaryChain.settle_chain_trace - the cells of later rounds are not taken from the record but recomputed from
  the ids S1 lost between the rounds (cleanup_src / cleanup_keys).  None when not applicable."""
  kinds, prev, rounds, expect = case
  reft = st['calls'][0][sid].get('reft') or []
  if any(c[sid].get('reft') != reft for c in st['calls']) or len(reft) != len(kinds):
    return None
  targets = set(t for t in reft if t is not None and t in st['calls'][0] and t != sid)
  if len(targets) != 1:
    return None
  s1 = targets.pop()
  if any(s1 not in c for c in st['calls']) or any(s1 not in c for c in st['ends']):
    return None
  rems = []
  for r in range(len(rounds)):
    if r + 1 < len(rounds):
      nxt = set(rid for rid, _k in st['calls'][r + 1][s1]['rows'])
      rems.append(sorted(set(st['ends'][r][s1]['ids']) - nxt))
    else:
      rems.append([])
  refs = [t == s1 for t in reft]
  return (kinds, refs, prev, rounds[0][1], rounds[0][2], [(rounds[r][0], rems[r]) for r in range(len(rounds))], expect)


def chain_case_lit(kinds, refs, prev, src, summ, rounds, expect):
  srows = core.coq_list(['(%s, %s)' % (core.zlit(rid), core.coq_list([cell_lit(c) for c in cells])) for rid, cells in src])
  mrows = core.coq_list(['(%s, %s)' % (core.zlit(rid), core.coq_list([atom_lit(a) for a in key])) for rid, key in summ])
  p = core.coq_list(['(%s, %s)' % (core.zlit(rid), core.zlist(ids)) for rid, ids in prev])
  r = core.coq_list(['(%s, %s)' % (core.zlist(o), core.zlist(rem)) for o, rem in rounds])
  x = core.coq_list(['(%s, %s, %s)' % (core.zlit(rid), core.coq_list([atom_lit(a) for a in key]), core.zlist(g))
                     for rid, key, g in expect])
  return '((%s, %s, %s, %s, %s, %s), %s)' % (core.coq_list([KIND_LIT[k] for k in kinds]),
                                             core.coq_list([core.boollit(b) for b in refs]), p, srows, mrows, r, x)


def build_case(starts, ends, post, lookup_mod, dirties):
  """Model input and expected output for one summary table and one bundle: per round of the settle loop the
  re-evaluated helper cells, the source cells at the end of the round and the summary rows at its start.
  Raises SkipCase."""
  for snap in starts + ends:
    if snap['gcols'] != post['gcols'] or snap['kinds'] != post['kinds'] or snap['src'] != post['src']:
      raise SkipCase('group-by-changed-during-settle')
  if post.get('dangling'):
    raise SkipCase('group-by-column-refers-to-missing-table')
  intern = Interner()
  kinds = post['kinds']
  def keyatoms(key):
    if not all(hashable(x) for x in key):
      raise SkipCase('summary-key-unhashable')
    return [atom(x, intern) for x in key]
  rounds = []
  for d, st, en in zip(dirties, starts, ends):
    src = [(rid, [classify(pre, intern) for pre in pres]) for rid, pres in en['srows']]
    rounds.append((d, src, [(rid, keyatoms(key)) for rid, key in st['rows']]))
  expect = []
  for rid, key, g in post['rows']:
    if g is None:
      raise SkipCase('group-cell-not-a-list')
    expect.append((rid, keyatoms(key), g))
  prev = sorted((rid, ids) for rid, ids in starts[0].get('prev', {}).items())
  return kinds, prev, rounds, expect


def run_history(seed, nb, direct=False, rec=None, undo_rate=0.15, script=None):
  """Generator of steps: dict(history, bundle, failed, calls, evals, post, issues, touched).
  With `script` (a list of bundles; the string 'UNDO' stands for the undo of the previous successful bundle)
  the bundles come from the script instead of the random generator."""
  g = G()
  rng = random.Random(seed)
  e, _ = g.new_doc()
  history = []
  if script is None:
    from harness import histgen
    gen = make_gen(rng, direct)
    if direct == 'chain':
      setup = copy.deepcopy(CHAIN_PREFIX)
    else:
      setup = [[gen.gen_addtable(histgen.Meta(e))] for _ in range(rng.randint(1, 2))]
    total = len(setup) + nb
  else:
    gen, setup, total = None, [], len(script)
  last_undo = None
  last_issues = []
  for step in range(total):
    if script is not None:
      bundle = script[step]
      if bundle == 'UNDO':
        if last_undo is None:
          continue
        bundle = [['ApplyUndoActions', last_undo]]
    elif step < len(setup):
      bundle = setup[step]
    elif last_undo is not None and rng.random() < undo_rate:
      bundle = [['ApplyUndoActions', last_undo]]
    else:
      bundle = gen.bundle(e)
    is_undo = bundle[0][0] == 'ApplyUndoActions'
    last_undo = None
    if rec is not None:
      rec.begin()
    try:
      out = g.apply(e, copy.deepcopy(bundle))
      failed = None
    except Exception as ex:      # pylint: disable=broad-except
      failed = '%s: %s' % (type(ex).__name__, str(ex)[:200])
    finally:
      if rec is not None:
        rec.on = False
    if failed:
      g.clean(e)
      after = oracle(e)
      # A failed bundle is rolled back: the summaries must be what they were.  If they are not, the failure
      # left a trace (C04's subject, not a statement about successful bundles): the history ends here.
      abandoned = sorted(after) != sorted(last_issues)
      yield {'history': copy.deepcopy(history), 'bundle': bundle, 'failed': failed, 'engine': e, 'abandoned': abandoned,
             'issues': [], 'calls': [], 'evals': [], 'ends': [], 'post': None, 'touched': [], 'undo': is_undo}
      if abandoned:
        return
      continue
    if gen is not None:
      gen.after_bundle(e)
    if not is_undo:
      last_undo = g.reprs(out.undo)
    last_issues = oracle(e)
    yield {'history': copy.deepcopy(history), 'bundle': bundle, 'failed': None, 'engine': e,
           'issues': last_issues, 'calls': list(rec.calls) if rec is not None else [],
           'evals': list(rec.evals) if rec is not None else [],
           'ends': list(rec.ends) if rec is not None else [],
           'post': rec.postsnap(e) if rec is not None else None, 'undo': is_undo,
           'touched': sorted(set(a[1] for a in g.reprs(out.stored) if len(a) > 1 and isinstance(a[1], str)))}
    history.append(bundle)


# ------------------------------------------------------------------------------------------------
# Replay and minimisation

def replay_issues(history, bundle):
  """Applies the bundles of `history` to a fresh document (failing ones are rolled back by the engine and
  skipped), then `bundle`; returns (error text or None, oracle issues after it)."""
  g = G()
  e, _ = g.new_doc()
  for b in history:
    try:
      g.apply(e, copy.deepcopy(b))
    except Exception:          # pylint: disable=broad-except
      g.clean(e)
  failed = None
  try:
    g.apply(e, copy.deepcopy(bundle))
  except Exception as ex:      # pylint: disable=broad-except
    failed = '%s: %s' % (type(ex).__name__, str(ex)[:200])
    g.clean(e)
  return failed, oracle(e)


def minimise(history, bundle, kind, budget=120):
  """Smallest history/bundle (greedy) after which the oracle still reports an issue of this kind."""
  from harness import histgen
  def fails_h(h):
    return any(k == kind for k, _ in replay_issues(h, bundle)[1])
  if not fails_h(history):
    return history, bundle
  h = histgen.shrink_list(history, fails_h, max_steps=budget) if len(history) > 1 else history
  if len(h) == 1 and fails_h([]):
    h = []
  def fails_b(b):
    return any(k == kind for k, _ in replay_issues(h, b)[1])
  b = histgen.shrink_list(bundle, fails_b, max_steps=20) if len(bundle) > 1 else bundle
  return h, b


# ------------------------------------------------------------------------------------------------
# Scripted scenarios (the edge cases the property names), run through the same oracle and correspondence

def _t(cols):
  return [{'id': c, 'type': t, 'isFormula': False} for c, t in cols]


# T summarised by A; U has R: Ref and RL: RefList into T_summary_A and is summarised by R, by RL and by (R, N);
# U rows with empty R / RL exist, so the key-0 rows of the second-level summaries exist.
CHAIN_PREFIX = [
  [['AddTable', 'T', _t([('A', 'Text'), ('B', 'Int')])]],
  [['BulkAddRecord', 'T', [None] * 3, {'A': ['x', 'y', 'y'], 'B': [1, 2, 3]}]],
  [['CreateViewSection', 1, 0, 'record', [2], None]],
  [['AddTable', 'U', _t([('R', 'Ref:T_summary_A'), ('N', 'Int'), ('RL', 'RefList:T_summary_A')])]],
  [['BulkAddRecord', 'U', [None] * 5, {'R': [0, 1, 2, 1, 2], 'N': [1, 2, 3, 4, 1],
                                       'RL': [None, ['L', 1], ['L', 1, 2], ['L', 2], None]}]],
  [['CreateViewSection', 3, 0, 'record', [9], None]],
  [['CreateViewSection', 3, 0, 'record', [11], None]],
  [['CreateViewSection', 3, 0, 'record', [9, 10], None]],
]

SCRIPTS = collections.OrderedDict([
  ('by-0-1-2-columns', [
    [['AddTable', 'T', _t([('A', 'Text'), ('B', 'Int'), ('C', 'Numeric')])]],
    [['BulkAddRecord', 'T', [None] * 5, {'A': ['a', 'b', 'a', '', None], 'B': [1, 2, 1, 1, True], 'C': [1, 2.5, 3, 4, 5]}]],
    [['CreateViewSection', 1, 0, 'record', [], None]],
    [['CreateViewSection', 1, 0, 'record', [2], None]],
    [['CreateViewSection', 1, 0, 'record', [2, 3], None]], 'UNDO',
    [['CreateViewSection', 1, 0, 'record', [3, 2], None]],
    [['UpdateRecord', 'T', 1, {'A': 'b'}]], 'UNDO',
    [['BulkUpdateRecord', 'T', [1, 3], {'A': ['z', 'z'], 'B': [7, 8]}]],
    [['BulkRemoveRecord', 'T', [1, 3]]], 'UNDO',
    [['BulkRemoveRecord', 'T', [1, 2, 3, 4, 5]]],
    [['AddRecord', 'T', None, {'A': 'q', 'B': 0}]],
    [['RenameColumn', 'T', 'A', 'A2'], ['UpdateRecord', 'T', 1, {'A2': 'w'}]],
    [['RenameTable', 'T', 'U']],
    [['AddRecord', 'U', None, {'A2': 'w', 'B': 0}], ['AddRecord', 'U', None, {'A2': 'w', 'B': 1}]],
    [['RemoveColumn', 'U', 'B']],
    [['RemoveColumn', 'U', 'A2']],
  ]),
  ('choice-list', [
    [['AddTable', 'T', _t([('A', 'Text'), ('L', 'ChoiceList')])]],
    [['BulkAddRecord', 'T', [None] * 6, {'A': ['a', 'a', 'b', 'b', 'a', 'a'],
                                         'L': [['L', 'x', 'y'], None, ['L', 'y', 'y', 'x'], 'str', ['L'], ['L', '']]}]],
    [['CreateViewSection', 1, 0, 'record', [3], None]],
    [['CreateViewSection', 1, 0, 'record', [2, 3], None]],
    [['UpdateRecord', 'T', 2, {'L': ['L', 'z']}]], 'UNDO',
    [['UpdateRecord', 'T', 1, {'L': None}], ['UpdateRecord', 'T', 3, {'L': ['L', 'x']}]],
    [['ModifyColumn', 'T', 'L', {'type': 'Choice'}]], 'UNDO',
    [['ModifyColumn', 'T', 'L', {'type': 'Choice'}]],
    [['UpdateRecord', 'T', 1, {'L': 'x'}]],
    [['ModifyColumn', 'T', 'L', {'type': 'ChoiceList'}]],
    [['RenameChoices', 'T', 'L', {'x': 'y'}]],
    [['BulkRemoveRecord', 'T', [1, 2]]],
  ]),
  ('ref-list', [
    [['AddTable', 'T', _t([('R', 'Ref:T'), ('RL', 'RefList:T'), ('B', 'Bool')])]],
    [['BulkAddRecord', 'T', [None] * 5, {'R': [1, 1, 0, 2, 9], 'RL': [['L', 1, 2], None, ['L', 2, 2], ['L', 9], 'alt'],
                                         'B': [True, False, True, None, 1]}]],
    [['CreateViewSection', 1, 0, 'record', [2], None]],
    [['CreateViewSection', 1, 0, 'record', [3], None]],
    [['CreateViewSection', 1, 0, 'record', [4, 3], None]],
    [['RemoveRecord', 'T', 1]], 'UNDO',
    [['RemoveRecord', 'T', 2]],
    [['ModifyColumn', 'T', 'RL', {'type': 'Ref:T'}]], 'UNDO',
    [['ModifyColumn', 'T', 'R', {'type': 'RefList:T'}]],
    [['UpdateRecord', 'T', 3, {'R': ['L', 3, 4, 3]}]],
  ]),
  ('regroup-and-undo', [
    [['AddTable', 'Items', _t([('A', 'Text'), ('B', 'Int'), ('L', 'ChoiceList')])]],
    [['BulkAddRecord', 'Items', [None] * 3, {'A': ['a', 'b', 'a'], 'B': [1, 1, 2], 'L': [['L', 'x'], ['L', 'x', 'y'], None]}]],
    [['CreateViewSection', 1, 0, 'record', [2], None]],
    [['UpdateSummaryViewSection', 5, [3, 2]], ['BulkUpdateRecord', 'Items', [1], {'A': ['c'], 'B': [5]}]], 'UNDO',
    [['UpdateSummaryViewSection', 5, [3, 2]]],
    [['UpdateSummaryViewSection', 5, [4]]], 'UNDO',
    [['UpdateSummaryViewSection', 5, []]],
    [['UpdateSummaryViewSection', 5, [4, 2]]],
    [['AddRecord', 'Items', None, {'A': 'a', 'L': ['L', 'y', 'z']}]],
    [['RemoveColumn', 'Items', 'A']],
  ]),
  ('direct-edits-of-a-summary-table', [
    [['AddTable', 'T', _t([('A', 'Text')])]],
    [['BulkAddRecord', 'T', [None] * 2, {'A': ['a', 'b']}]],
    [['CreateViewSection', 1, 0, 'record', [2], None]],
    [['AddRecord', 'T_summary_A', None, {'A': 'a'}]], 'UNDO',
    [['AddRecord', 'T_summary_A', None, {'A': 'zz'}]],
    [['BulkAddRecord', 'T_summary_A', [None, None], {'A': ['b', 'b']}], ['AddRecord', 'T', None, {'A': 'b'}]],
    [['UpdateRecord', 'T_summary_A', 1, {'A': 'q'}]],
    [['RemoveRecord', 'T_summary_A', 1]],
  ]),
  ('display-order', [
    [['AddTable', 'T', _t([('A', 'Text'), ('L', 'ChoiceList')])]],
    [['BulkAddRecord', 'T', [None] * 4, {'A': ['a', 'b', 'a', 'a'], 'L': [['L', 'x'], ['L', 'x', 'y'], ['L', 'y'], ['L', 'x']]}]],
    [['CreateViewSection', 1, 0, 'record', [2], None]],
    [['CreateViewSection', 1, 0, 'record', [3], None]],
    [['CreateViewSection', 1, 0, 'record', [], None]],
    [['UpdateRecord', 'T', 1, {'manualSort': 3.5}]],            # record 1 is displayed after record 3
    [['UpdateRecord', 'T', 2, {'A': 'a'}]],
    [['AddRecord', 'T', None, {'A': 'a', 'L': ['L', 'x', 'y'], 'manualSort': 0.5}]],   # inserted in front
    'UNDO',
    [['BulkUpdateRecord', 'T', [3, 4], {'manualSort': [0.25, 0.125]}]],
    [['UpdateRecord', 'T', 4, {'L': ['L', 'y']}]],
    [['RemoveRecord', 'T', 1]],
  ]),
  ('chained-summaries', CHAIN_PREFIX + [
    [['RemoveRecord', 'T', 1]],                       # empties group 'x': second-round removal in U_summary_R
    'UNDO',
    [['UpdateRecord', 'T', 1, {'A': 'y'}]],           # the same by re-keying
    [['AddRecord', 'T', None, {'A': 'w'}], ['UpdateRecord', 'U', 1, {'R': 3, 'RL': ['L', 3]}]],
    [['BulkRemoveRecord', 'T', [2, 3]]],              # empties 'y'
    [['BulkUpdateRecord', 'T', [1, 4], {'A': ['q', 'q']}]],
    [['BulkRemoveRecord', 'T', [1, 4]]],
  ]),
])

# the minimal witnesses of the known and fixed findings (also entries of known_findings.json)
WITNESSES = {
  'helper-raises': {'history': [
    [['AddTable', 'T', _t([('A', 'Any')])]],
    [['BulkAddRecord', 'T', [None, None], {'A': [2, 3]}]],
    [['CreateViewSection', 1, 0, 'record', [2], None]]],
    'bundle': [['UpdateRecord', 'T', 1, {'A': ['L', 'a', 'b']}]], 'kind': 'helper-raises'},
  'tuple-key': {'history': [
    [['AddTable', 'T', _t([('B', 'ChoiceList')])]],
    [['BulkAddRecord', 'T', [None, None], {'B': [['L', 'x', 'y'], ['L', 'x', 'y']]}]],
    [['ModifyColumn', 'T', 'B', {'type': 'Any'}]]],
    'bundle': [['CreateViewSection', 1, 0, 'record', [2], None]], 'kind': 'tuple-key'},
  'negative-ref-key': {'history': [
    [['AddTable', 'T', _t([('Y', 'Int'), ('A', 'Text')])]],
    [['BulkAddRecord', 'T', [None, None], {'Y': [-1, 0], 'A': ['a', 'b']}]],
    [['ModifyColumn', 'T', 'Y', {'type': 'Ref:T'}]]],
    'bundle': [['CreateViewSection', 1, 0, 'record', [2], None]], 'kind': 'negative-ref-key'},
  'stale-groupby-column': {'history': [
    [['AddTable', 'T', _t([('A', 'Int'), ('D', 'Int')])]],
    [['BulkAddRecord', 'T', [None, None], {'A': [1, 2], 'D': [5, 6]}]],
    [['CreateViewSection', 1, 0, 'record', [3], None]]],
    'bundle': [['RemoveColumn', 'T', 'D'], ['UpdateSummaryViewSection', 5, []]], 'kind': 'stale-groupby-column'},
}


# ------------------------------------------------------------------------------------------------
# The check

RULE = ('histories of user-action bundles on 1-3 tables (harness/histgen.py, summary operations over-represented: '
        'CreateViewSection with 0-3 group-by columns incl. Choice List / Reference List / formula columns, '
        'UpdateSummaryViewSection, Choice<->ChoiceList and Ref<->RefList type flips, updates aimed at group-by source '
        'cells incl. duplicate list elements, empty lists, strings in list-typed cells, True/1/1.0, renames, removal of '
        'source rows and columns, several summary tables of one source, undo of the previous bundle), a separate stream '
        'with AddRecord directly on summary tables, a stream with CHAINED summaries (Ref/RefList columns into a summary '
        'table used as group-by of a second summary table, existing key-0 rows, edits that empty first-level groups so '
        'that removals cascade over several rounds of the settle loop), records moved or inserted between others (manualSort '
        'differs from row id order), and scripted scenarios; one case = one summary table after one '
        'successful bundle; non-trivial when the bundle touched the source or the summary table (stored actions)')
TRUSTED = ['coq/gen/Summary_gen.v is REGENERATED from /repo on every run by harness/sum2v.py (fail closed): both _updateSummary '
           'helper formulas of Table._add_update_summary_col, Table.lookupOrAddDerived, Table.getSummarySourceGroup, '
           'column._raw_get_without; bridged pointwise to Model/Summary*.v (Props/C12code.v); the translator and its prelude '
           'Lib/SmPrelude.v are validated differentially on every run against recorded evaluations of the running helper '
           'formula (translator_differential_cases/fails); the glue is pinned by AST hash (PINS: the settle loop at the end of '
           'Engine.apply_user_actions, DocModel.setAutoRemove/apply_auto_removes, UserActions.doBulkRemoveRecord, '
           'get_updates_for_removed_target_rows, lookup_one_record, RecordSet.get_one, the order_by default of lookup_records)',
           'Model/Summary.v is hand-written; tied on every run: for every successful bundle and every summary table the '
           'summary rows before the settle loop, the entries of the helper column\'s lookup map, the helper cells the engine '
           're-evaluated in each round, and the source cells are read from the running engine; the model (settle_rounds, '
           'vm_compute) must produce exactly the rows, keys, row ids and groups the engine ends with',
           'harness-side value mapping (classify/atom in harness/props/c12.py): Python values -> atoms modulo ==/hash, after '
           'the conversion Table.lookup_records applies (column.convert of the summary column, Record -> row id); monitored: '
           'set()/sorted() on the raw elements agree with the model\'s dedup/order on the atoms',
           'Model/SummaryChain.v (chained summary tables): cleanup_src / cleanup_keys are compared on every run with the '
           'rewriting the engine performs between two rounds (check_chain_case: the later rounds of a recorded bundle are '
           'recomputed from the ids the lower summary table lost)',
           'instrumentation points Engine._bring_all_up_to_date, Engine._recompute_one_cell, '
           'Engine.is_triggered_by_table_action, Table._summary_source_table/'
           '_summary_helper_col_id/_summary_simple, LookupMapColumn._mapping (harness-side wrappers)']
ASSUMPTIONS = ['C12_settle_terminates is about one summary table with fixed source cells; chained summary tables (reference '
               'clean-up rewrites the next level between two rounds) are covered by C12_chain_terminates / C12_chain_exact '
               '(at most k+1 rounds for k levels, full re-evaluation per round) for a linear chain whose group-by columns '
               'refer to one lower summary table',
               'C12_bundle_keeps_settled / C12_history_exact use one fact about the dependency tracking: the first round '
               're-evaluates the helper cells of changed and new source records; its consequence clean_valid is evaluated on '
               'the first round of every recorded bundle (clean_valid_fails in the evidence)',
               'C12_undo_restores_table assumes the undo\'s doc actions put source cells and summary rows of the restored '
               'state back (K1/C01) and that the restored state was settled; Engine.is_triggered_by_table_action is modelled '
               '(helper_guarded) but is never true while a helper cell is evaluated in this tree (guard_true in the evidence)',
               'exactness (C12_settled_exact_partial) assumes that no helper formula raises (no_raise: every group-by cell '
               'readable, scalar ones hashable); the two refuted statements are the known finding C12-helper-raises',
               'the model assumes a row added by the helper formula stores the key that was looked up (fails for tuples in a '
               'scalar column: known finding C12-tuple-key, and for negative numbers in a Reference cell, which the record '
               'action takes for temporary row ids: known finding C12-negative-ref-key; such cases are skipped and counted) and that the group-by columns '
               'of the summary table exist in the source (otherwise: finding C12-stale-groupby-column, fixed by cda1c6e; its '
               'witness stays in the corpus and the oracle kind stale-groupby-column is an ordinary violation)',
               'the engine re-evaluates only dirty helper cells: the theorems are about full re-evaluation (settle_loop); '
               'C12_incremental_is_full carries them over when the entries that are not re-evaluated are up to date '
               '(clean_valid); the number of recorded cases where full re-evaluation gives another table is reported '
               '(full_recompute_differs)',
               'Engine.is_triggered_by_table_action is false during the settle loop (it is true only inside '
               '_bring_mlookups_up_to_date); keys containing NaN are outside the model and the generators',
               'row ids of the source and of the summary table are distinct (hypotheses of the theorems)']
TECHNIQUE = ('Coq proof over a hand-written executable model of the helper formula / lookupOrAddDerived / group lookup / '
             'auto-removal / settle loop + event-trace tie on real histories (vm_compute) + implementation oracle')
LEVEL_TEXT = ('Kernel-checked: whenever the settle loop of apply_user_actions ends, the summary table has exactly the keys '
              'of the source records (one key per combination of distinct list elements, \'\'/0 for empty lists, none for '
              'non-list values: C12_keys_characterised), no two rows share a key, every group is the ascending list of the '
              'records with that key and no group is empty, for all source data, group-by kinds and prior summary tables '
              '(incl. tables with duplicate keys); the loop ends after at most two rounds and the result is stable; simple '
              'mode and list mode agree; the engine\'s incremental re-evaluation is carried over by C12_incremental_is_full; '
              '"settled" is an inductive invariant of histories of bundles and implies exactness (C12_history_exact); an '
              'undo ends with exactly the table of the restored state (C12_undo_restores_table); k chained levels settle '
              'within k+1 rounds and are exact at the end (C12_chain_terminates, C12_chain_exact; bound attained), also '
              'when every level re-evaluates only dirty cells (C12_chain_incremental_*, hypothesis chain_cv monitored). '
              'The model is replayed against the engine on every run and a naive group-by oracle is evaluated after every '
              'bundle.')
LEVEL_NOTE = ('Kernel strength: metadata handling of summary.py (update_summary_section, table naming), the lookup '
              'invalidation machinery that decides which helper cells are dirty, and value conversion are environment; their '
              'effects are taken from the run.  Two defects of the tree are known findings (helper formula raises; tuple '
              'keys); a third (stale summary table after removing a group-by source column and regrouping in one bundle) was '
              'repaired in /repo by cda1c6e and its witness is replayed on every run.')


def plan(ctx):
  """[(label, seed, bundles, direct)]"""
  base = ctx.rng.randrange(1 << 30)
  n_main, nb_main = ctx.n(10, 150), ctx.n(20, 30)
  n_dir, nb_dir = ctx.n(3, 40), ctx.n(14, 25)
  n_ch, nb_ch = ctx.n(4, 40), ctx.n(14, 25)
  return ([('main', base + i, nb_main, False) for i in range(n_main)] +
          [('direct', base + 100000 + i, nb_dir, True) for i in range(n_dir)] +
          [('chain', base + 200000 + i, nb_ch, 'chain') for i in range(n_ch)])


def collect(ctx):
  """Runs all histories and scripts once; returns (cases, issues): cases = [(meta, case tuple)],
  issues = [(kind, what, replay dict)]."""
  if getattr(ctx, '_c12', None) is not None:
    return ctx._c12
  import lookup as lookup_mod
  try:
    rec = Recorder()
  except core.TieBroken as ex:
    ctx.broken('correspondence:C12 instrumentation', str(ex))
    rec = None
  tie_ok = [rec is not None]
  cases, issues = [], []
  try:
    # the witnesses of the known and of the fixed findings run first (a fixed one that fails again is a VIOLATION)
    runs = [('witness:' + name, 0, 0, False, w['history'] + [w['bundle']]) for name, w in WITNESSES.items()]
    runs += [('script:' + name, 0, 0, False, script) for name, script in SCRIPTS.items()]
    runs += [(label, seed, nb, direct, None) for (label, seed, nb, direct) in plan(ctx)]
    for (label, seed, nb, direct, script) in runs:
      stream = label.split(':')[0]
      try:
        for st in run_history(seed, nb, direct, rec, script=script):
          ctx.bump('bundles:%s:%s' % (stream, 'failed' if st['failed'] else ('undo' if st['undo'] else 'ok')))
          if st.get('abandoned'):
            ctx.bump('history-ended:summaries-changed-by-a-failed-bundle(C04)')
          for a in (st['bundle'] if not st['failed'] and not st['undo'] else []):
            ctx.bump('action:' + str(a[0]))
          for kind, what in st['issues']:
            if kind.startswith('SKIP:'):
              ctx.bump('oracle-skipped:' + kind[5:])
              continue
            issues.append((kind, what,
                           {'history': st['history'], 'bundle': st['bundle'], 'kind': kind, 'seed': seed,
                            'stream': label}))
          try:
            step_cases = cases_of_step(st, lookup_mod) if tie_ok[0] else []
          except core.TieBroken as ex:
            ctx.broken('correspondence:C12 instrumentation', str(ex))
            tie_ok[0] = False
            step_cases = []
          early = [x for x in st['evals'] if x[0] < 0]
          if early:
            ctx.bump('helper-cells-evaluated-before-the-settle-loop:' + ('undo' if st['undo'] else 'other'), len(early))
          for sid, case, skip, chain in step_cases:
            if skip:
              ctx.bump('skipped:' + skip)
              continue
            touched = st['post'][sid]['src'] in st['touched'] or sid in st['touched']
            cases.append(({'stream': label, 'seed': seed, 'table': sid, 'bundle': st['bundle'], 'undo': st['undo'],
                           'nhistory': len(st['history']), 'touched': touched, 'chain': chain}, case))
      except core.TieBroken as ex:
        ctx.broken('correspondence:C12 instrumentation', str(ex))
        tie_ok[0] = False
      except Exception:        # pylint: disable=broad-except
        ctx.broken('harness:C12 history %s seed %s' % (label, seed), traceback.format_exc())
  finally:
    if rec is not None:
      rec.uninstall()
      # Engine.is_triggered_by_table_action (the guard of lookupOrAddDerived): how often it was asked and true
      ctx._c12_samples = list(rec.samples)
      ctx.extra['guard_calls'] = rec.guard_calls
      ctx.extra['guard_true'] = rec.guard_true
  ctx.log('engine: %d cases from %d runs, %d oracle issues' % (len(cases), len(runs), len(issues)))
  ctx._c12 = (cases, issues)
  return ctx._c12


def correspond(ctx):
  cases, _issues = collect(ctx)
  lits = []
  for meta, case in cases:
    kinds, prev, rounds, expect = case
    dirties, src, summ = [r[0] for r in rounds], rounds[-1][1], rounds[0][2]
    key0 = dict((rid, key) for rid, key in rounds[0][2])
    if any(r[1] != rounds[0][1] for r in rounds) or \
       any(rid in key0 and key0[rid] != key for r in rounds[1:] for rid, key in r[2]):
      ctx.bump('cells-rewritten-between-rounds')
    nontrivial = meta['touched'] or [r[:2] for r in expect] != [tuple(r) for r in summ]
    changed = [(r[0], r[1]) for r in expect] != [(r[0], r[1]) for r in summ]
    ctx.count((meta['stream'], meta['seed'], meta['nhistory'], meta['table']), nontrivial=bool(nontrivial),
              sample={'table': meta['table'], 'bundle': meta['bundle'], 'kinds': kinds, 'rows_before': len(summ),
                      'rows_after': len(expect), 'reevaluated': dirties},
              kind='kinds:' + (''.join(kinds) or '-'))
    if changed:
      ctx.bump('rows-added-or-removed')
    if len(dirties) > 1:
      ctx.bump('settle-rounds>1')
    if len(dirties) > 2:
      ctx.bump('settle-rounds>2')
    if any(d != sorted(set(d)) for d in dirties):
      ctx.bump('evaluated-out-of-ascending-order')
    if any(c[0] in 'UE' for _rid, cells in src for c in cells):
      ctx.bump('with-raising-helper')
    lits.append(case_lit(*case))
  bad = ctx.run_cases('settle', ['Grist.Model.Summary'], 'check_case', lits, shard=300)
  for i in bad[:5]:
    meta, case = cases[i]
    ctx.broken('correspondence:Model/Summary.v settle_rounds differs from the engine',
               'table %s after bundle %r (stream %s seed %s, after %d bundles); model input %r'
               % (meta['table'], meta['bundle'], meta['stream'], meta['seed'], meta['nhistory'], case[:3]))
  # how often does the engine's incremental evaluation differ from full re-evaluation (not an error: the
  # theorem C12_incremental_is_full has the hypothesis clean_valid)
  sub = list(range(len(lits))) if ctx.tier == 'thorough' else list(range(0, len(lits), 3))
  diff = ctx.run_cases('full', ['Grist.Model.Summary'], 'check_case_full', [lits[i] for i in sub], shard=300)
  diff = [sub[i] for i in diff if sub[i] not in set(bad)]
  ctx.extra['full_recompute_checked'] = len(sub)
  ctx.extra['full_recompute_differs'] = len(diff)
  if diff:
    meta, case = cases[diff[0]]
    ctx.extra['full_recompute_differs_example'] = {'table': meta['table'], 'bundle': meta['bundle'],
                                                   'stream': meta['stream'], 'seed': meta['seed']}
  # differential validation of the translator (harness/sum2v.py): the generated helper formula on the recorded
  # inputs of the running one
  glits = []
  for smp in getattr(ctx, '_c12_samples', []):
    try:
      intern = Interner()
      cells = [classify(pre, intern) for pre in smp['cells']]
      def ka(rows):
        return core.coq_list(['(%s, %s)' % (core.zlit(rid), core.coq_list([atom_lit(atom(x, intern)) for x in key]))
                              for rid, key in rows])
      if not all(hashable(x) for _r, key in smp['before'] + smp['after'] for x in key):
        continue
      glits.append('((%s, %s, %s), (%s, %s, %s))' % (
        core.coq_list([KIND_LIT[k] for k in smp['kinds']]), core.coq_list([cell_lit(c) for c in cells]),
        ka(smp['before']), core.boollit(smp['raised']), core.zlist(smp['ids']), ka(smp['after'])))
    except SkipCase:
      continue
  gbad = ctx.run_cases('gen', ['Grist.Model.Summary', 'Grist.Lib.SmPrelude', 'GristGen.Summary_gen',
                               'Grist.Proofs.Summary_bridge'], 'check_gen_helper', glits, shard=400)
  ctx.extra['translator_differential_cases'] = len(glits)
  ctx.extra['translator_differential_fails'] = len(gbad)
  for j in gbad[:3]:
    ctx.broken('translation:generated _updateSummary differs from the running formula', glits[j][:1500])
  # chained summary tables: the rewriting between rounds recomputed by SummaryChain.cleanup_src / cleanup_keys
  chains = [(i, m['chain']) for i, (m, _c) in enumerate(cases) if m.get('chain') is not None]
  for _i, ch in chains:
    if any(rem for _o, rem in ch[5]):
      ctx.bump('chain:lower-table-lost-rows-between-rounds')
  cbad = ctx.run_cases('chain', ['Grist.Model.Summary', 'Grist.Model.SummaryChain'], 'check_chain_case',
                       [chain_case_lit(*ch) for _i, ch in chains], shard=300)
  for j in cbad[:5]:
    meta = cases[chains[j][0]][0]
    ctx.broken('correspondence:Model/SummaryChain.v cleanup_src/cleanup_keys differ from the engine',
               'table %s after bundle %r (stream %s seed %s, after %d bundles); model input %r'
               % (meta['table'], meta['bundle'], meta['stream'], meta['seed'], meta['nhistory'], chains[j][1][:6]))
  ctx.extra['chain_cases'] = len(chains)
  # monitor of the hypothesis of C12_incremental_is_full (clean_valid on the first round)
  cv = ctx.run_cases('cv', ['Grist.Model.Summary'], 'check_clean_valid', [lits[i] for i in sub], shard=300)
  cv = [sub[i] for i in cv]
  ctx.extra['clean_valid_checked'] = len(sub)
  ctx.extra['clean_valid_fails'] = len(cv)
  ctx.extra['clean_valid_fails_in_undo_bundles'] = len([i for i in cv if cases[i][0].get('undo')])
  multi = [i for i in sub if len(cases[i][1][2]) > 1]
  cva = ctx.run_cases('cva', ['Grist.Model.Summary'], 'check_clean_valid_all', [lits[i] for i in multi], shard=300)
  cva = [multi[i] for i in cva]
  ctx.extra['clean_valid_all_rounds_checked'] = len(multi)
  ctx.extra['clean_valid_fails_in_a_later_round'] = len([i for i in cva if i not in set(cv)])
  if cva:
    meta = cases[cva[0]][0]
    ctx.extra['clean_valid_later_round_example'] = {'table': meta['table'], 'bundle': meta['bundle'],
                                                    'stream': meta['stream'], 'seed': meta['seed']}
  if cv:
    meta = cases[cv[0]][0]
    ctx.extra['clean_valid_fails_example'] = {'table': meta['table'], 'bundle': meta['bundle'],
                                              'stream': meta['stream'], 'seed': meta['seed']}
  ctx.log('correspondence: %d cases, %d differ; full re-evaluation differs on %d of %d; clean_valid fails on %d; '
          '(later rounds: %d of %d); %d chain cases, %d differ; guard true %s of %s calls'
          % (len(lits), len(bad), len(diff), len(sub), len(cv), len(cva), len(multi), len(chains), len(cbad),
             ctx.extra.get('guard_true'), ctx.extra.get('guard_calls')))


def known_kinds():
  return set(k.get('violation_kind') for k in core.load_known()
             if k.get('property') == ID and k.get('kind') == 'known')


def search(ctx):
  _cases, issues = collect(ctx)
  known = known_kinds()
  reported = collections.Counter()
  for kind, what, rep in issues:
    ctx.bump('oracle:' + kind)
    if reported[kind] >= (1 if kind in known else 3):
      continue
    reported[kind] += 1
    if kind not in known:
      try:
        h, b = minimise(rep['history'], rep['bundle'], rep['kind'], budget=ctx.n(60, 200))
        rep = dict(rep, history=h, bundle=b)
      except Exception:        # pylint: disable=broad-except
        pass
    ctx.violation(kind, what, rep)


def replay(ctx, w):
  failed, issues = replay_issues(w['history'], w['bundle'])
  for kind, what in issues:
    if kind == w.get('kind'):
      return what
  return None


# ------------------------------------------------------------------------------------------------
# Source pins: the two small functions the model follows literally (fail closed when they change)

# Not translated, pinned by the hash of their AST (docstrings and comments ignored): the glue around the translated
# functions.  (file, class, function) -> sha1; filled from the tree the model was written from.
PINS = {
  "table.py:Table._add_update_summary_col:glue": "dc81edecf32dbb02",
  "table.py:Table.lookup_one_record": "408bbc385b66855e",
  "docmodel.py:DocModel.setAutoRemove": "6d74f3e92e8ddbeb",
  "docmodel.py:DocModel.apply_auto_removes": "d81c334b9428fbb0",
  "useractions.py:UserActions.doBulkRemoveRecord": "641a9570fae321f3",
  "column.py:BaseReferenceColumn.get_updates_for_removed_target_rows": "f7d97ddea1c86e43",
  "records.py:RecordSet.get_one": "f70608e2883cf50a",
  "engine.py:Engine.apply_user_actions:settle-loop": "63bf6ee9b087f243",
  "table.py:Table.lookup_records:order_by-default-id": "True",
}


def _body_hash(fn):
  import hashlib
  body = [b for b in fn.body if not (isinstance(b, ast.Expr) and isinstance(getattr(b, 'value', None), ast.Constant)
                                      and isinstance(b.value.value, str))]
  return hashlib.sha1(ast.dump(ast.Module(body=body, type_ignores=[])).encode()).hexdigest()[:16]


PINNED = [('table.py', 'Table', '_add_update_summary_col'), ('table.py', 'Table', 'lookup_one_record'),
          ('docmodel.py', 'DocModel', 'setAutoRemove'), ('docmodel.py', 'DocModel', 'apply_auto_removes'),
          ('useractions.py', 'UserActions', 'doBulkRemoveRecord'),
          ('column.py', 'BaseReferenceColumn', 'get_updates_for_removed_target_rows'),
          ('records.py', 'RecordSet', 'get_one')]


def _func_hashes():
  import os
  out = {}
  trees = {}
  for (fname, cls, fn) in PINNED + [('engine.py', 'Engine', 'apply_user_actions'), ('table.py', 'Table', 'lookup_records')]:
    if fname not in trees:
      with open(os.path.join(core.GRIST, fname)) as f:
        trees[fname] = ast.parse(f.read())
    node = None
    for c in ast.walk(trees[fname]):
      if isinstance(c, ast.ClassDef) and c.name == cls:
        for x in c.body:
          if isinstance(x, ast.FunctionDef) and x.name == fn:
            node = x
    if node is None:
      out['%s:%s.%s' % (fname, cls, fn)] = 'missing'
      continue
    if fn == 'apply_user_actions':
      # the end of the bundle: everything from the first _bring_all_up_to_date() on (the settle loop)
      idx = [i for i, st in enumerate(node.body) if ast.unparse(st) == 'self._bring_all_up_to_date()']
      tail = node.body[idx[0]:] if idx else []
      import hashlib
      out['engine.py:Engine.apply_user_actions:settle-loop'] = hashlib.sha1(
        ast.dump(ast.Module(body=tail, type_ignores=[])).encode()).hexdigest()[:16] if tail else 'missing'
    elif fn == 'lookup_records':
      out['table.py:Table.lookup_records:order_by-default-id'] = str(any(
        isinstance(b, ast.Assign) and ast.unparse(b.value) == "kwargs.pop('order_by', 'id')" for b in ast.walk(node)))
    elif fn == '_add_update_summary_col':
      # the two formulas are translated; pin the rest (which formula is installed when, under which column id)
      import copy
      n2 = copy.deepcopy(node)
      for st in ast.walk(n2):
        if isinstance(st, ast.FunctionDef) and st.name == '_updateSummary':
          st.body = [ast.Pass()]
      out['table.py:Table._add_update_summary_col:glue'] = _body_hash(n2)
    else:
      out['%s:%s.%s' % (fname, cls, fn)] = _body_hash(node)
  return out


def regenerate(ctx):
  import os
  from harness import sum2v
  try:
    text = sum2v.translate(os.path.join(core.GRIST, 'table.py'), os.path.join(core.GRIST, 'column.py'))
  except sum2v.Untranslatable as e:
    raise core.TieBroken('summary maintenance code is outside the translated subset: %s' % e)
  core.write_if_changed(os.path.join(core.COQ, 'gen', 'Summary_gen.v'), text)
  got = _func_hashes()
  for name, want in sorted(PINS.items()):
    if got.get(name) != want:
      raise core.TieBroken('%s is not the code Model/Summary*.v follows (pin %s, found %s): re-read it, adjust the '
                           'model and the pin' % (name, want, got.get(name)))
