"""C39 -- RenameChoices renames exactly the mapped choices (useractions.RenameChoices, column.rename_choices)."""
import json
import copy
import logging

from harness import core
from harness.pyval import enc, enc_list, Unencodable, strict_eq
from harness.props import c39_gen

ID = 'C39'
TITLE = 'RenameChoices renames exactly the mapped choices'
PROPS = ['Props/C39']
RULE = ('documents built through the real engine: table T with Choice columns Ch and X, ChoiceList column CL, an Any '
        'column, formula columns FCh=$Ch (Choice) and FCL=$CL (ChoiceList) as control, DATA columns DCh (Choice, default '
        'formula) and DCL (ChoiceList, trigger formula with recalcWhen=never), a second table U with a Choice column; 1-8 '
        'rows of choices x,y,z,w,"",e-acute, None, alt-text and numbers, ChoiceList cells with 0-3 elements; random row '
        'removals; 0-5 saved filters on Ch/CL/X/A/FCh in by-value form (included/excluded lists with strings, numbers, '
        'null, nested lists and objects), empty text, {} ; rename maps of 0-3 entries incl. swaps (30%), 3-cycles, '
        'chains x->y,y->z, identity, the empty-string key, unused keys; target column Ch, CL, DCh, DCL, FCh or FCL. Separate '
        'streams: range filters ({"min":..}) and relative-date bounds on the column, malformed filters (string '
        'entries, non-object JSON; model only), non-string rename targets (frame only), and the witnesses of the three '
        'repaired defects (run first). A case is non-trivial when the '
        'action changed a cell or a filter, or raised')
TRUSTED = ['harness/imp2v.py (fail-closed translator Python subset -> monadic Gallina, Lib/PyImp.v): '
           'ChoiceColumn.rename_choices, both _rename_cell_choice methods, the only-records filter and the filter loop of '
           'RenameChoices are translated from column.py/useractions.py into coq/gen/Choices_gen.v on every run, proved '
           'equal to the pieces of the hand model (C39_source_*), and evaluated against the running code on every case; '
           'the statements of RenameChoices around the translated fragments must match their expected text exactly',
           'Model/ChoicesPy.v: the typed primitives the library calls map to (dict.get, is_right_type, row_ids membership, '
           'json.loads(...).items()/AttributeError, encode_object as identity)',
           'Model/Choices.v is hand-written; tied to the running RenameChoices by evaluating both on the same generated '
           'column contents, filters and rename maps on every run (vm_compute inside Coq)',
           'json.loads/json.dumps: the model works on parsed filters; the harness parses the stored text before and '
           'after (a rewritten filter must parse to the model\'s content; an untouched one must keep its text)',
           'conversion of the renamed values on their way through BulkUpdateRecord (encode_object, ChoiceList.do_convert) '
           'is the identity on strings / tuples of strings (part of the correspondence)']
ASSUMPTIONS = ['rename maps are dicts str -> str (a non-string target is converted by the column type: None becomes '
               "'None' in a ChoiceList and is ignored in a Choice column; checked only against the frame part)",
               'the saved filter text of the column is empty or a JSON object (hypothesis filters_are_objects of '
               'C39_full_statement; other JSON makes .items() raise AttributeError, C39_non_object_filter_raises)',
               'formula columns are not renamed by design (they recalculate); their filters are']
TECHNIQUE = ('Coq proof over a hand-written model bridged to the code as translated from source on every run (imp2v) '
             '+ differential cases through the real engine + naive substitution oracle')
LEVEL_TEXT = ('Kernel-checked theorem C39_full_statement, for all table states, column contents, saved filters and rename '
              'maps (only hypothesis: the filters of the column are empty or JSON objects): RenameChoices succeeds, every '
              "record's cell of the target column is the simultaneous substitution (Choice cells, every element of "
              'ChoiceList cells; swaps and cycles work), other storage slots and every other column are identical, the '
              'by-value lists of the saved filters of the column are the same substitution (range bounds kept, text '
              'rewritten only when changed), filters of other columns are not touched; plus frame theorems per cell, '
              'element, column and filter value. The model follows the code as repaired by commits 789e828 and '
              '9e0465d; it is compared with the running engine each run, the naive oracle runs on the implementation, '
              'and the witnesses of the three repaired defects are replayed first.')
LEVEL_NOTE = ('Trusted: Coq kernel, json parser/serializer, value encoder. Repaired findings (kept as regression '
              'witnesses): empty-string key on a Choice column raised AssertionError (789e828); a range filter raised '
              'TypeError and a relative-date bound was replaced by its keys (9e0465d).')

logging.disable(logging.CRITICAL)


def regenerate(ctx):
  c39_gen.regenerate(ctx)

CHOICES = ['x', 'y', 'z', 'w']
COLS = [
  {'id': 'Ch', 'type': 'Choice', 'isFormula': False},
  {'id': 'CL', 'type': 'ChoiceList', 'isFormula': False},
  {'id': 'A', 'type': 'Any', 'isFormula': False},
  {'id': 'X', 'type': 'Choice', 'isFormula': False},
  {'id': 'FCh', 'type': 'Choice', 'isFormula': True, 'formula': '$Ch'},
  {'id': 'FCL', 'type': 'ChoiceList', 'isFormula': True, 'formula': '$CL'},
  # DATA columns (isFormula False) that carry a default-value formula / a trigger formula: has_formula() is true for
  # them, is_formula() is not; their cells must be renamed like those of any data column
  {'id': 'DCh', 'type': 'Choice', 'isFormula': False, 'formula': "'x'"},
  {'id': 'DCL', 'type': 'ChoiceList', 'isFormula': False, 'formula': "['x', 'y']", 'recalcWhen': 1},
]
TARGETS = ['Ch', 'Ch', 'Ch', 'CL', 'CL', 'CL', 'FCh', 'FCL', 'DCh', 'DCh', 'DCL', 'DCL']
FILTER_COLS = ['Ch', 'CL', 'X', 'A', 'FCh', 'FCL', 'DCh', 'DCL']


def ua(*a):
  import useractions
  return useractions.from_repr(list(a))


def new_engine():
  import engine
  e = engine.Engine()
  e.load_empty()
  e.apply_user_actions([ua('InitNewDoc')])
  return e


# ---------------------------------------------------------------------------------------------
# generators

def gen_choice_cell(rng):
  r = rng.random()
  if r < 0.7:
    return rng.choice(CHOICES)
  return rng.choice(['', None, 5, u'é', 'q', 'xy', 1.5, True, 'x ', 'X', ' y'])


def gen_list_cell(rng):
  r = rng.random()
  if r < 0.7:
    n = rng.choice([1, 1, 2, 2, 3])
    pool = CHOICES + ['', u'é', 'q', 'x ', 'X']
    items = [rng.choice(pool) for _ in range(n)] if rng.random() < 0.3 else rng.sample(pool, n)
    return ['L'] + items
  return rng.choice([None, 'alt', '', ['L'], ['L', 'x', 5], 'x', 7])


def gen_filter_values(rng):
  pool = CHOICES + ['', u'é', 'q', 1, 0, None, True, 1.5, ['x'], ['L', 'x', 'y'], {'x': 'y'}, 'xy', 'x ', 'X', ' y']
  return [rng.choice(pool) for _ in range(rng.choice([0, 1, 2, 3, 4, 5]))]


def gen_filter_text(rng, stream):
  """stream: 'byvalue' (valid by-value FilterSpec), 'range' (valid range FilterSpec), 'malformed'"""
  if stream == 'range':
    return rng.choice(['{"min": 5}', '{"max": 3}', '{"min": 1, "max": 3.5}',
                       '{"min": {"quantity": -1, "unit": "day", "endOf": false}}',
                       '{"min": 2, "max": {"quantity": 0, "unit": "x"}}',
                       '{"max": {"quantity": 1, "unit": "month"}, "min": {"quantity": 0, "unit": "day"}}'])
  if stream == 'malformed':
    return rng.choice(['{"included": "xy"}', '[1, 2]', 'null', '5', '"x"', '{"included": ["x"], "excluded": "zx"}',
                       '{"included": {"x": 1, "q": 2}}', '{"included": true}', 'true'])
  r = rng.random()
  if r < 0.1:
    return ''
  if r < 0.15:
    return '{}'
  key = rng.choice(['included', 'excluded'])
  d = {key: gen_filter_values(rng)}
  if rng.random() < 0.15:
    d['excluded' if key == 'included' else 'included'] = gen_filter_values(rng)
  if rng.random() < 0.5:
    return json.dumps(d)
  return json.dumps(d, ensure_ascii=False, separators=(',', ':'))


def gen_renames(rng):
  r = rng.random()
  pool = CHOICES + ['new', '', u'é', 'xy']
  if r < 0.3:
    a, b = rng.sample(CHOICES + [u'é'], 2)
    ren = [[a, b], [b, a]]
  elif r < 0.4:
    a, b, c = rng.sample(CHOICES, 3)
    ren = [[a, b], [b, c], [c, a]]
  elif r < 0.5:
    a, b, c = rng.sample(CHOICES, 3)
    ren = [[a, b], [b, c]]
  elif r < 0.55:
    ren = []
  else:
    keys = rng.sample(CHOICES + ['q', u'é', 'nokey', 'xy'], rng.choice([1, 1, 2, 3]))
    ren = [[k, rng.choice(pool)] for k in keys]
  if rng.random() < 0.06:
    ren.insert(rng.randint(0, len(ren)), ['', rng.choice(['none', 'x'])])
  if rng.random() < 0.1 and ren:
    ren[0][1] = ren[0][0]           # identity entry
  return ren


def gen_doc(rng, stream):
  k = rng.choice([1, 2, 3, 4, 5, 6, 8])
  doc = {'n': k,
         'data': {'Ch': [gen_choice_cell(rng) for _ in range(k)], 'CL': [gen_list_cell(rng) for _ in range(k)],
                  'A': [rng.choice(['x', 'y', 1, None, ['L', 'x', 'y']]) for _ in range(k)],
                  'X': [gen_choice_cell(rng) for _ in range(k)],
                  'DCh': [gen_choice_cell(rng) for _ in range(k)], 'DCL': [gen_list_cell(rng) for _ in range(k)]},
         'udata': [rng.choice(CHOICES) for _ in range(rng.randint(0, 3))],
         'remove': [], 'filters': []}
  if k > 1 and rng.random() < 0.5:
    doc['remove'] = sorted(rng.sample(range(1, k + 1), rng.randint(1, max(1, k // 3))))
  for _ in range(rng.choice([0, 1, 2, 3, 5])):
    doc['filters'].append([rng.choice(FILTER_COLS + ['Ch', 'CL']), gen_filter_text(rng, 'byvalue')])
  return doc


def build_doc(doc):
  e = new_engine()
  e.apply_user_actions([ua('AddTable', 'T', copy.deepcopy(COLS))])   # AddTable mutates its argument
  e.apply_user_actions([ua('AddTable', 'U', [{'id': 'Y', 'type': 'Choice', 'isFormula': False}])])
  e.apply_user_actions([ua('BulkAddRecord', 'T', [None] * doc['n'], copy.deepcopy(doc['data']))])
  if doc['udata']:
    e.apply_user_actions([ua('BulkAddRecord', 'U', [None] * len(doc['udata']), {'Y': doc['udata']})])
  if doc['remove']:
    e.apply_user_actions([ua('BulkRemoveRecord', 'T', doc['remove'])])
  refs = colrefs(e)
  for cid, text in doc['filters']:
    e.apply_user_actions([ua('AddRecord', '_grist_Filters', None,
                             {'viewSectionRef': 1, 'colRef': refs[cid], 'filter': text})])
  return e


def colrefs(e):
  return {c.colId: c.id for c in e.docmodel.columns.all if c.tableId == 'T'}


# ---------------------------------------------------------------------------------------------
# snapshots

def slots(e, table_id):
  t = e.tables[table_id]
  size = t._id_column.size()
  return {c.col_id: [c.raw_get(i) for i in range(size)] for c in t.all_columns.values()}


def filters_of(e):
  f = e.fetch_table('_grist_Filters')
  return [(r, cr, txt) for r, cr, txt in zip(f.row_ids, f.columns['colRef'], f.columns['filter'])]


def snapshot(e):
  snap = {}
  for tid in sorted(e.tables):
    d = e.fetch_table(tid, formulas=True)
    snap[tid] = (list(d.row_ids), {c: list(v) for c, v in d.columns.items()})
  return snap


def classify_filter(text):
  """'empty' | 'byvalue' | 'range' (valid FilterSpec with min/max) | 'malformed'"""
  if not text:
    return 'empty'
  try:
    j = json.loads(text)
  except ValueError:
    return 'malformed'
  if not isinstance(j, dict):
    return 'malformed'
  kind = 'byvalue'
  for k, v in j.items():
    if k in ('included', 'excluded'):
      if not isinstance(v, list):
        return 'malformed'
    elif k in ('min', 'max'):
      if isinstance(v, bool) or not isinstance(v, (int, float, dict)):
        return 'malformed'
      kind = 'range'
    else:
      return 'malformed'
  return kind


def run_action(e, col, ren):
  """returns None or the exception"""
  try:
    e.apply_user_actions([ua('RenameChoices', 'T', col, dict((k, v) for k, v in ren))])
    return None
  except Exception as ex:        # pylint: disable=broad-except
    return ex


# ---------------------------------------------------------------------------------------------
# the property's own oracle on the implementation

def naive_cell(kind, ren, v):
  if kind == 'Choice':
    return ren.get(v, v) if isinstance(v, str) else v
  if isinstance(v, (tuple, list)) and all(isinstance(x, str) for x in v):
    new = tuple(ren.get(x, x) for x in v)
    return new if (isinstance(v, tuple) or new != tuple(v)) else v
  return v


def oracle(e_before_snap, slots_before, filters_before, e, col, ren_pairs, exc, judge_targets=True):
  """returns (kind, description) or None"""
  ren = dict((k, v) for k, v in ren_pairs)
  t = e.tables['T']
  c = t.get_column(col)
  kind = type(c.type_obj).__name__
  refs = colrefs(e)
  mine = [(r, txt) for (r, cr, txt) in filters_before if cr == refs[col]]
  classes = [classify_filter(txt) for _, txt in mine]
  if 'malformed' in classes:
    return None                       # not a saved filter the application can produce: not judged
  if exc is not None:
    msg = '%s: %s' % (type(exc).__name__, exc)
    if isinstance(exc, AssertionError) and 'non-existent record' in str(exc) and '' in ren \
        and kind == 'Choice' and not c.is_formula():
      return ('empty-choice-raises', 'renaming the empty-string choice of a Choice column raises ' + msg)
    if isinstance(exc, TypeError) and 'range' in classes:
      return ('range-filter-raises', 'RenameChoices on a column with a saved range filter raises ' + msg)
    return ('exception', 'RenameChoices raised ' + msg)
  after = slots(e, 'T')
  live = list(t.row_ids)
  formula_of = {'FCh': 'Ch', 'FCL': 'CL'}
  for cid, old in slots_before.items():
    new = after[cid]
    for r in live:
      vb, va = old[r], new[r]
      src = cid
      if cid in formula_of and formula_of[cid] == col and not c.is_formula():
        src = col                                     # =$col recalculates to the renamed value
        vb = slots_before[col][r]
      if src == col and not c.is_formula():
        if not judge_targets:
          touched = (kind == 'Choice' and isinstance(vb, str) and vb in ren) or \
                    (kind != 'Choice' and isinstance(vb, (tuple, list)) and any(isinstance(x, str) and x in ren for x in vb))
          if touched:
            continue
        exp = naive_cell(kind, ren, vb)
      else:
        exp = vb
      if not strict_eq(exp, va):
        if src == col:
          return ('oracle', 'T.%s[%d]: %r became %r, expected %r' % (cid, r, vb, va, exp))
        return ('oracle', 'T.%s[%d] is not the renamed column but changed from %r to %r' % (cid, r, vb, va))
  fa = filters_of(e)
  if [(r, cr) for r, cr, _ in fa] != [(r, cr) for r, cr, _ in filters_before]:
    return ('oracle', 'filter records added, removed or re-pointed')
  for (r, cr, tb), (_, _, ta) in zip(filters_before, fa):
    if cr != refs[col]:
      if ta != tb:
        return ('oracle', 'filter #%d of another column changed' % r)
      continue
    cls = classify_filter(tb)
    if cls == 'empty':
      if ta != tb:
        return ('oracle', 'empty filter #%d changed' % r)
      continue
    jb = json.loads(tb)
    # by-value lists are substituted, range bounds (min/max) are kept
    exp = {k: ([(ren.get(x, x) if isinstance(x, str) else x) for x in v] if isinstance(v, list) else v)
           for k, v in jb.items()}
    if cls == 'range' and strict_eq(exp, jb) and ta != tb:
      return ('range-filter-rewritten', 'range filter %s of the column was rewritten to %s' % (tb, ta))
    if not judge_targets:
      continue
    if strict_eq(exp, jb):
      if ta != tb:
        return ('oracle', 'filter #%d (%s) needs no change but was rewritten to %s' % (r, tb, ta))
      continue
    try:
      ja = json.loads(ta)
    except ValueError:
      return ('oracle', 'filter #%d is no longer JSON: %r' % (r, ta))
    if not strict_eq(ja, exp):
      return ('oracle', 'filter #%d: %s became %s, expected %s' % (r, tb, ta, json.dumps(exp)))
  # nothing else in the document
  snap = snapshot(e)
  for tid, (rows, cols) in e_before_snap.items():
    if tid in ('T', '_grist_Filters'):
      continue
    rows2, cols2 = snap.get(tid, (None, None))
    if rows2 != rows or not strict_eq(cols, cols2):
      return ('oracle', 'table %s changed' % tid)
  if sorted(snap) != sorted(e_before_snap):
    return ('oracle', 'tables added or removed')
  return None


# ---------------------------------------------------------------------------------------------
# Coq form

FTOKENS = {}


def enc_entry(v):
  if isinstance(v, list):
    return '(FList %s)' % enc_list(v)
  tok = FTOKENS.setdefault(json.dumps(v, sort_keys=True), len(FTOKENS))
  return '(FOther %s)' % core.zlit(tok)


def enc_filter(text):
  if not text:
    return 'FEmpty'
  j = json.loads(text)
  if not isinstance(j, dict):
    return 'FNotObj'
  return '(FObj %s)' % core.coq_list(['(%s, %s)' % (core.strlit(k), enc_entry(v)) for k, v in j.items()])


def enc_cols(slotmap, names):
  return core.coq_list(['(%s, %s)' % (core.strlit(n), enc_list(slotmap[n])) for n in names])


def enc_outcome(e, names, filters_before, exc):
  if exc is not None:
    return {'AssertionError': '(Err ErrAssertion)', 'TypeError': '(Err ErrTypeError)',
            'AttributeError': '(Err ErrAttributeError)'}.get(type(exc).__name__)
  fl = []
  for (r, cr, tb), (_, _, ta) in zip(filters_before, filters_of(e)):
    if ta == tb:
      fl.append('None')
    else:
      j = json.loads(ta)
      fl.append('(Some %s)' % core.coq_list(['(%s, %s)' % (core.strlit(k), enc_entry(v)) for k, v in j.items()]))
  return '(Ok (%s, %s))' % (enc_cols(slots(e, 'T'), names), core.coq_list(fl))


GEN_CASES = []


def one_case(ctx, doc, col, ren, judge=True, judge_targets=True, model=True):
  """runs one RenameChoices on a fresh document; returns (coq case or None, witness, violation or None, changed)"""
  e = build_doc(doc)
  w = {'doc': doc, 'col': col, 'ren': ren, 'judge_targets': judge_targets}
  t = e.tables['T']
  c = t.get_column(col)
  before_snap = snapshot(e)
  sb = slots(e, 'T')
  fb = filters_of(e)
  ids = [t._id_column.raw_get(i) for i in range(t._id_column.size())]
  names = [x.col_id for x in t.all_columns.values() if (not x.is_formula() or x.col_id == col)]
  try:
    scan = c.rename_choices(dict((k, v) for k, v in ren)) if (model and hasattr(c, 'rename_choices')) else None
  except Exception:           # pylint: disable=broad-except
    scan = None
  exc = run_action(e, col, ren)
  viol = oracle(before_snap, sb, fb, e, col, ren, exc, judge_targets) if judge else None
  changed = exc is not None or not strict_eq(sb, slots(e, 'T')) or fb != filters_of(e)
  coq = None
  if model:
    out = enc_outcome(e, names, fb, exc)
    if out is None:
      viol = viol or ('exception', 'RenameChoices raised %s: %s' % (type(exc).__name__, exc))
    else:
      kind = type(c.type_obj).__name__
      state = '(mkState %s %s %s)' % (core.zlist(ids), enc_cols(sb, names),
                                     core.coq_list(['(%s, %s)' % (core.zlit(cr), enc_filter(txt)) for _, cr, txt in fb]))
      rens = core.coq_list(['(%s, %s)' % (core.strlit(k), core.strlit(v)) for k, v in ren])
      if scan is not None and (exc is None or isinstance(exc, AttributeError)):
        mine = [(r, txt) for r, cr, txt in fb if cr == colrefs(e)[col]]
        if exc is None:
          after = {r: txt for r, _cr, txt in filters_of(e)}
          ch = [(r, json.loads(after[r])) for r, txt in mine if after[r] != txt]
          fexp = '(Some (%s, %s))' % (core.zlist([r for r, _ in ch]), core.coq_list(
            [core.coq_list(['(%s, %s)' % (core.strlit(k2), enc_entry(v2)) for k2, v2 in j.items()]) for _, j in ch]))
        else:
          fexp = 'None'
        GEN_CASES.append('(mk_gen %s %s %s (%s, %s) %s %s)' % (
          kind, enc_list(sb[col]), rens, core.zlist(list(scan[0])), enc_list(list(scan[1])),
          core.coq_list(['(%s, %s)' % (core.zlit(r), enc_filter(txt)) for r, txt in mine]), fexp))
      coq = '(mk_case %s %s %s %s %s %s %s)' % (state, core.strlit(col), kind, core.boollit(c.is_formula()),
                                              core.zlit(colrefs(e)[col]), rens, out)
  return coq, w, viol, changed, exc


def correspond(ctx):
  coq, info = [], []
  del GEN_CASES[:]

  def run(doc, col, ren, stream, judge=True):
    try:
      c, w, viol, changed, exc = one_case(ctx, doc, col, ren, judge=judge)
    except Unencodable:
      ctx.bump('skipped:unencodable')
      return
    ctx.count((doc, col, ren), nontrivial=changed,
              sample={'col': col, 'ren': ren, 'filters': doc['filters'], 'raised': type(exc).__name__ if exc else None}
              if changed else None, kind='stream:' + stream)
    ctx.bump('target:' + col)
    if exc is not None:
      ctx.bump('raised:' + type(exc).__name__)
    if len(ren) >= 2 and all([b, a] in ren for a, b in ren[:2]):
      ctx.bump('swap')
    if viol:
      ctx.violation(viol[0], viol[1], w)
    if c is not None:
      coq.append(c)
      info.append(w)

  # witnesses of repaired findings stay in the corpus and are run first, so a regression is re-found at once
  for k in core.load_known():
    if k['property'] == ID and k.get('kind') == 'fixed' and k.get('witness'):
      w = k['witness']
      run(w['doc'], w['col'], w['ren'], 'regression:' + k['id'])
  for _ in range(ctx.n(150, 2500)):
    doc = gen_doc(ctx.rng, 'byvalue')
    run(doc, ctx.rng.choice(TARGETS), gen_renames(ctx.rng), 'main')
  for _ in range(ctx.n(16, 200)):
    doc = gen_doc(ctx.rng, 'byvalue')
    col = ctx.rng.choice(TARGETS)
    doc['filters'].insert(ctx.rng.randint(0, len(doc['filters'])), [col, gen_filter_text(ctx.rng, 'range')])
    run(doc, col, gen_renames(ctx.rng), 'range-filter')
  for _ in range(ctx.n(14, 150)):
    doc = gen_doc(ctx.rng, 'byvalue')
    col = ctx.rng.choice(TARGETS)
    doc['filters'].insert(ctx.rng.randint(0, len(doc['filters'])), [col, gen_filter_text(ctx.rng, 'malformed')])
    run(doc, col, gen_renames(ctx.rng), 'malformed-filter', judge=False)
  ctx.log('cases: %d' % len(coq))
  bad = ctx.run_cases('rename', ['Grist.Lib.PyVal', 'Grist.Model.Choices'],
                      "fun c => let '(st, cid, k, f, cr, ren, out) := c in outcome_eqb (rename_action st cid k f cr ren) out",
                      coq, shard=40,
                      # typed constructor: every component gets its type from here, so all-None / empty lists
                      # inside a case never leave an implicit argument undetermined
                      extra_defs='Definition mk_case (st : state) (cid : str) (k : ckind) (f : bool) (cr : Z) '
                                 '(ren : renames) (out : result outcome) := (st, cid, k, f, cr, ren, out).')
  for i in bad[:5]:
    ctx.broken('correspondence:model rename_action differs from RenameChoices', 'case %r' % (info[i],))
  # the functions translated from the source this run, on the same inputs: rename_choices against the real method,
  # the filter loop against the filter records the action rewrote
  badg = ctx.run_cases('gen', ['Grist.Lib.PyVal', 'Grist.Lib.PyImp', 'Grist.Model.Choices', 'Grist.Model.ChoicesPy',
                               'GristGen.Choices_gen'],
                       "fun c => let '(k, data, ren, sc, recs, fexp) := c in scan_ok (rename_choices k data ren) sc && "
                       "filters_ok (rename_filter_records ren recs) fexp",
                       GEN_CASES, shard=70,
                       extra_defs='Definition mk_gen (k : ckind) (data : list val) (ren : renames) (sc : list Z * list val) '
                                  '(recs : list frec) (fexp : option (list Z * list (list (str * fentry)))) := '
                                  '(k, data, ren, sc, recs, fexp).')
  ctx.extra['translated_function_cases'] = len(GEN_CASES)
  for i in badg[:3]:
    ctx.broken('correspondence:translated rename_choices / filter loop differs from the running code', GEN_CASES[i][:600])


def search(ctx):
  # (a) non-string rename targets: only the frame is judged (cells/elements/filter values outside the mapping,
  #     other columns, other filters, other tables)
  n = 0
  for _ in range(ctx.n(12, 150)):
    doc = gen_doc(ctx.rng, 'byvalue')
    ren = gen_renames(ctx.rng) or [['x', 'y']]
    ren[ctx.rng.randrange(len(ren))][1] = ctx.rng.choice([None, 5, True, 1.5])
    col = ctx.rng.choice(['Ch', 'CL'])
    _c, w, viol, changed, exc = one_case(ctx, doc, col, ren, judge=True, judge_targets=False, model=False)
    ctx.count((doc, col, ren), nontrivial=changed, kind='stream:non-string-target')
    n += 1
    if viol:
      ctx.violation(viol[0], viol[1], w)
  # (b) exhaustive small scope (thorough): one Choice cell / one 2-element ChoiceList cell / one filter list over
  #     {x, y, q} against every map over keys {x, y} with targets {x, y, z}
  if ctx.tier == 'thorough':
    import itertools
    maps = []
    for tx in [None, 'x', 'y', 'z']:
      for ty in [None, 'x', 'y', 'z']:
        maps.append([[k, v] for k, v in (('x', tx), ('y', ty)) if v is not None])
    data = {'Ch': ['x', 'y', 'q'], 'CL': [['L', 'x', 'y'], ['L', 'y', 'x'], ['L', 'q', 'x']], 'A': ['x', 'y', 'q'],
            'X': ['x', 'y', 'q']}
    for ren in maps:
      for col in ['Ch', 'CL']:
        doc = {'n': 3, 'data': data, 'udata': ['x', 'y'], 'remove': [],
               'filters': [[col, '{"included": ["x", "y", "q"]}'], ['X', '{"excluded": ["y", "x"]}']]}
        _c, w, viol, changed, exc = one_case(ctx, doc, col, ren, model=False)
        ctx.count(('exh', col, ren), nontrivial=changed, kind='stream:exhaustive-small')
        n += 1
        if viol:
          ctx.violation(viol[0], viol[1], w)
    ctx.extra['exhaustive'] = True
    ctx.extra['exhaustive_space'] = 'all 16 maps over keys {x,y} with targets {x,y,z} on fixed Choice/ChoiceList cells and filters'
  ctx.log('search: %d extra cases' % n)


def replay(ctx, w):
  _c, _w, viol, _changed, _exc = one_case(ctx, w['doc'], w['col'], w['ren'], judge=True,
                                          judge_targets=w.get('judge_targets', True), model=False)
  return viol[1] if viol else None
