"""C35 -- SCHEDULE yields exactly the scheduled occurrences (functions/schedule.py).

Model: coq/theories/Model/Schedule.v (the loop of Schedule.series with fuel), hand-written and compared on
every run with the running generator: the period starts and slot instants the real code computes are
written as tables of Z timestamps, the model is run on them inside Coq and must yield what SCHEDULE
yielded, in exactly as many passes of the outer loop.  The property's own oracle is an independent
enumeration {unit boundary + k * interval + slot} computed with this file's own calendar arithmetic
from the structured meaning of a generated schedule string.

The real generator does not terminate on a zero interval.  It is therefore never run bare: `run_real`
replaces the schedule's slot list by a list that counts the passes of the outer loop and raises after a
limit, and a SIGALRM deadline backs that up.
"""
import datetime
import json
import re
import signal
import threading

from harness import core

ID = 'C35'
TITLE = 'SCHEDULE yields exactly the scheduled occurrences'
PROPS = ['Props/C35']
RULE = ('schedule strings are generated from a structured meaning (unit in all 7 units, multiple 1-48, 1-4 slots '
        'made of date/mday/weekday/time/minute/delta parts, random spelling); starts are random instants, DST '
        'transitions, month/year ends and exact occurrences +-1us in 8 zones (and naive); end is absent, an exact '
        'occurrence +-1us, before start, or random; count in -3..25 or omitted.  A schedule is in the premise when '
        'the reference instants of the enumerated periods are strictly increasing (slots in order, within one '
        'interval); the others, shuffled slot lists and ends in another zone form the robustness stream.  Further '
        'streams: ~80 malformed strings (ValueError and nothing else), zero intervals, the docstring examples, '
        'extreme magnitudes.  A schedule case is non-trivial when at least one occurrence is returned; a malformed '
        'case when the parser is reached.  thorough adds every unit x multiple 1..48 with fixed slot lists.')
TRUSTED = ['sch2v translator (harness/sch2v.py, sch2v_stmt.py, sch2v_bind.py): functions/schedule.py -> Gallina; validated '
           'on every run by evaluating each generated function under concrete primitives (Lib/SchedDiff.v) against the '
           'running Python function: Schedule.series on tables computed by the real code, Delta.__init__/add_interval/'
           'add_to on recording mocks of datetime/timedelta/DATEADD, _parse_interval and _parse_slot (with the six slot '
           'parsers) on the real regex matches',
           'opaque primitives (record `prims` of Model/ScheduleCode.v): functions.date.DATEADD/DTIME, datetime.combine / '
           'timetz / + timedelta, the timedelta constructor, _round_down_to_unit, str.lower/strip/split, int(), '
           '_INTERVAL_RE.match and _SLOT_RE.match with m.group; datetime comparison as a strict total order',
           'pinned by AST equality (not translated): the pattern of _INTERVAL_RE (two mandatory groups), the body of '
           'SCHEDULE (Schedule(schedule).series(start or NOW(), end, count=count)) and Schedule.__init__; error messages '
           'of raise statements are not modelled; a datetime is always true in `end_dtime and DTIME(end_dtime)`',
           "harness reference arithmetic (ref_add/ref_round in harness/props/c35.py) for the property's oracle"]
ASSUMPTIONS = ['time is a strict total order decided by datetime.__lt__ (same tzinfo object: wall-clock order); '
               'monitored: Python order = order of the Z timestamps on every compared pair',
               'premise (hypotheses of section Premise in Props/C35.v): at least one slot; on the visited periods '
               'slot_1 t < ... < slot_n t < slot_1 (next t); base <= start; for the fuel bound start <= slot_1 of the '
               'second period; for completeness below the base every slot < next period start.  Each is monitored on '
               'the tables computed by the real code for every in-premise case',
               'hypotheses of C35_code_parse_slot_errors (monitored on the implementation): int() of a str raises only '
               'ValueError; timedelta(unit=n) raises only OverflowError for weeks..seconds; a slot-type group of '
               '_SLOT_RE that took part implies the groups its parser reads',
               'count is an int; start/end are datetimes (or dates) in one time zone']
TECHNIQUE = ('Coq proofs over code translated from functions/schedule.py on every run (Schedule.series, Delta methods, '
             '_parse_interval, _parse_slot, slot parsers, tables) with pointwise bridging lemmas to a hand model + '
             'translator differential + hypothesis monitors + independent brute-force oracle')
LEVEL_TEXT = ('Kernel-checked theorems for every strict total order of time and every calendar/regex primitives: the '
              'generated Schedule.series equals the generator model (C35_bridge_*), which returns exactly the first count '
              'scheduled instants within [start, end] under the premise (C35_code_series_eq_spec, strictly increasing, '
              'fuel bound, [] for count <= 0); Delta.add_to applies months then the timedelta; an accepted interval is a '
              'positive multiple of a known unit (C35_code_parse_interval_positive: no zero interval reaches series); '
              '_parse_interval raises only ValueError and _parse_slot only ValueError or timedelta\'s OverflowError.')
LEVEL_NOTE = ('Kernel strength: calendar arithmetic, string primitives and the two regular expressions are opaque '
              'parameters (tables + monitors + reference enumeration).  The three earlier findings (zero interval, two '
              'rejected docstring examples) are fixed in /repo (a74e0d8, 312eef7); observation: extreme magnitudes raise '
              'OverflowError from timedelta/date, now explicit in C35_code_parse_slot_errors.')

EPOCH = datetime.datetime(1970, 1, 1)
US = datetime.timedelta(microseconds=1)
UNITS = ('years', 'months', 'weeks', 'days', 'hours', 'minutes', 'seconds')
SINGULAR = dict(zip(UNITS, ('year', 'month', 'week', 'day', 'hour', 'minute', 'second')))
ALIASES = {'years': 'annual', 'months': 'monthly', 'weeks': 'weekly', 'days': 'daily', 'hours': 'hourly'}
LETTER = dict(zip(UNITS, ('y', 'm', 'w', 'd', 'H', 'M', 'S')))
MONTHS = ['january', 'february', 'march', 'april', 'may', 'june', 'july', 'august', 'september', 'october',
          'november', 'december']
DAYS = ['sunday', 'monday', 'tuesday', 'wednesday', 'thursday', 'friday', 'saturday']
ZONES = [None, 'UTC', 'America/New_York', 'Europe/London', 'Asia/Tehran', 'Australia/Lord_Howe', 'Pacific/Apia',
         'America/Sao_Paulo', 'Asia/Kolkata']


def regenerate(ctx):
  """coq/gen/Schedule_gen.v from the current source (fail closed)."""
  import os
  from harness import sch2v, sch2v_bind
  try:
    text = sch2v_bind.generate(os.path.join(core.GRIST, 'functions', 'schedule.py'), impl())
  except sch2v.Untranslatable as e:
    raise core.TieBroken('functions/schedule.py is outside the translated subset or differs from a pinned text: %s' % e)
  core.write_if_changed(os.path.join(core.COQ, 'gen', 'Schedule_gen.v'), text)


class StepLimit(BaseException):
  pass


class HardTimeout(BaseException):
  pass


# ---------------------------------------------------------------------------------------------
# running the real generator safely

class _CountingSlots(list):
  """The schedule's slot list; counts how often the outer loop starts its `for slot in self._slots`."""
  def __init__(self, items, limit):
    list.__init__(self, items)
    self.passes = 0
    self.limit = limit

  def __iter__(self):
    if self.passes >= self.limit:
      raise StepLimit()
    self.passes += 1
    return list.__iter__(self)


class deadline(object):
  """SIGALRM backstop around calls into the implementation (main thread only)."""
  def __init__(self, seconds):
    self.seconds = seconds
    self.on = threading.current_thread() is threading.main_thread()

  def __enter__(self):
    if self.on:
      def handler(signum, frame):
        raise HardTimeout()
      self.old = signal.signal(signal.SIGALRM, handler)
      signal.setitimer(signal.ITIMER_REAL, self.seconds)

  def __exit__(self, *a):
    if self.on:
      signal.setitimer(signal.ITIMER_REAL, 0)
      signal.signal(signal.SIGALRM, self.old)
    return False


def impl():
  from functions import schedule
  return schedule


def tzinfo_of(name):
  import moment
  return moment.tzinfo(name) if name else None


def run_real(spec, start, end, count, limit):
  """
  Schedule(spec).series(start, end, count=count), as SCHEDULE does, but with the passes of the outer loop
  counted and limited.  Returns (status, outs, passes, sch): status 'ok' | 'steplimit' | 'timeout' |
  ('raise', exc); outs is what was yielded so far.
  """
  schedule = impl()
  outs = []
  sch = None
  try:
    with deadline(10):
      sch = schedule.Schedule(spec)
      if not isinstance(sch._slots, list):
        raise core.TieBroken('Schedule._slots is no longer a list: cannot count the passes of series()')
      slots = _CountingSlots(sch._slots, limit)
      sch._slots = slots
      try:
        kw = {} if count is None else {'count': count}
        for o in sch.series(start, end, **kw):
          outs.append(o)
      except StepLimit:
        return 'steplimit', outs, slots.passes, sch
      return 'ok', outs, slots.passes, sch
  except HardTimeout:
    return 'timeout', outs, -1, sch
  except core.TieBroken:
    raise
  except Exception as e:          # pylint: disable=broad-except
    return ('raise', e), outs, -1, sch


def call_schedule(spec, start, end, count):
  """The public entry point, only used once run_real has shown that the call terminates."""
  schedule = impl()
  with deadline(10):
    kw = {} if count is None else {'count': count}
    return list(schedule.SCHEDULE(spec, start=start, end=end, **kw))


# ---------------------------------------------------------------------------------------------
# reference arithmetic (independent of functions/schedule.py and functions/date.py); naive datetimes

def ref_add(dt, months, td):
  mi = dt.month - 1 + months
  y = dt.year + mi // 12
  m = mi % 12 + 1
  d = datetime.date(y, m, 1) + datetime.timedelta(days=dt.day - 1)    # days past the month's end roll over
  return datetime.datetime.combine(d, dt.time()) + td


def ref_round(dt, unit):
  if unit == 'years':
    return datetime.datetime(dt.year, 1, 1)
  if unit == 'months':
    return datetime.datetime(dt.year, dt.month, 1)
  if unit == 'weeks':
    d = dt.date() - datetime.timedelta(days=(dt.weekday() + 1) % 7)   # back to Sunday
    return datetime.datetime(d.year, d.month, d.day)
  if unit == 'days':
    return datetime.datetime(dt.year, dt.month, dt.day)
  if unit == 'hours':
    return datetime.datetime(dt.year, dt.month, dt.day, dt.hour)
  if unit == 'minutes':
    return datetime.datetime(dt.year, dt.month, dt.day, dt.hour, dt.minute)
  if unit == 'seconds':
    return datetime.datetime(dt.year, dt.month, dt.day, dt.hour, dt.minute, dt.second)
  raise AssertionError(unit)


def unit_step(unit, n):
  """(months, timedelta) of n units."""
  if unit == 'years':
    return 12 * n, datetime.timedelta(0)
  if unit == 'months':
    return n, datetime.timedelta(0)
  return 0, datetime.timedelta(**{unit: n})


def ref_periods(struct, start_naive, nperiods, first=0):
  """Periods first..nperiods-1 counted from the unit boundary at or before start: [(P_k, [instants])]."""
  base = ref_round(start_naive, struct['unit'])
  rows = []
  for k in range(first, nperiods):
    mo, td = unit_step(struct['unit'], struct['n'] * k)
    p = ref_add(base, mo, td)
    rows.append((p, [ref_add(p, s[0], datetime.timedelta(seconds=s[1])) for s in struct['slots']]))
  return rows


def strictly_increasing(xs):
  return all(a < b for a, b in zip(xs, xs[1:]))


def ref_expected(struct, start_naive, end_naive, count):
  """
  (in_premise, expected list) from the reference enumeration.  In the premise: on the period before the base
  and the enumerated ones, the instants are strictly increasing in slot order and across periods, and each
  lies inside its own period (slots in order, within one interval).
  """
  c = 10 if count is None else count
  nper = max(c, 0) + 3
  rows = ref_periods(struct, start_naive, nper, first=-1)
  flat = [x for _p, r in rows for x in r]
  in_premise = struct['n'] > 0 and strictly_increasing(flat) and \
      all(r[-1] < rows[k + 1][0] for k, (_p, r) in enumerate(rows[:-1])) and \
      all(p <= r[0] for p, r in rows)
  flat0 = [x for _p, r in rows[1:] for x in r]
  exp = [x for x in flat0 if x >= start_naive and (end_naive is None or x <= end_naive)][:max(c, 0)]
  return in_premise, exp


# ---------------------------------------------------------------------------------------------
# generators

def vary(rng, s):
  r = rng.random()
  return s if r < 0.7 else s.upper() if r < 0.8 else s.capitalize()


def gen_time(rng):
  style = rng.choice(['ampm', 'hmmampm', 'h24', 'h24'])
  mm = rng.choice([0, 0, 5, 15, 30, 45, 59])
  if style == 'ampm':
    h = rng.randint(1, 12)
    ap = rng.choice(['am', 'pm'])
    return '%d%s' % (h, vary(rng, ap)), (h % 12) + (12 if ap == 'pm' else 0), 0
  if style == 'hmmampm':
    h = rng.randint(1, 12)
    ap = rng.choice(['am', 'pm'])
    return '%d:%02d%s' % (h, mm, vary(rng, ap)), (h % 12) + (12 if ap == 'pm' else 0), mm
  h = rng.randint(0, 23)
  return (rng.choice(['%d:%02d', '%02d:%02d']) % (h, mm)), h, mm


def gen_slot(rng, unit, n, wild):
  """One slot: (text, months, seconds) with seconds the timedelta part."""
  parts = []
  months = 0
  secs = 0
  def delta(k, u):
    parts.append('+%d%s' % (k, LETTER[u]))
  idx = UNITS.index(unit)
  # multiple of the interval's own unit, below the interval
  if n > 1 and rng.random() < 0.5:
    k = rng.randint(0, n - 1)
    delta(k, unit)
    mo, td = unit_step(unit, k)
    months += mo
    secs += int(td.total_seconds())
  own_used = bool(parts)
  if unit == 'years':
    r = rng.random()
    if r < 0.55:
      mi = rng.randint(0, 11)
      d = rng.randint(1, 28) if rng.random() < 0.85 else rng.randint(29, 31)
      name = MONTHS[mi]
      form = rng.choice(['name3', 'name', 'num', 'num0'])
      parts.append({'name3': '%s-%d' % (vary(rng, name[:3]), d), 'name': '%s-%d' % (vary(rng, name), d),
                    'num': '%d/%d' % (mi + 1, d), 'num0': '%02d/%02d' % (mi + 1, d)}[form])
      months += mi
      secs += (d - 1) * 86400
    elif r < 0.8:
      if rng.random() < 0.7:
        k = rng.randint(0, 11)
        delta(k, 'months')
        months += k
      if rng.random() < 0.7:
        k = rng.randint(0, 27)
        delta(k, 'days')
        secs += k * 86400
  elif unit == 'months':
    r = rng.random()
    if r < 0.6:
      d = rng.randint(1, 28) if rng.random() < 0.85 else rng.randint(29, 31)
      parts.append('/%d' % d)
      secs += (d - 1) * 86400
    elif r < 0.8:
      k = rng.randint(0, 27)
      delta(k, 'days')
      secs += k * 86400
  elif unit == 'weeks':
    r = rng.random()
    if r < 0.6:
      wd = rng.randint(0, 6)
      name = DAYS[wd]
      parts.append(vary(rng, rng.choice([name, name[:3], name[:2]])))
      secs += wd * 86400
    elif r < 0.8:
      k = rng.randint(0, 6)
      delta(k, 'days')
      secs += k * 86400
  if idx <= UNITS.index('days'):
    r = rng.random()
    if r < 0.55:
      text, h, m = gen_time(rng)
      parts.append(text)
      secs += h * 3600 + m * 60
    elif r < 0.75 and not (unit == 'days' and False):
      if rng.random() < 0.7:
        k = rng.randint(0, 23)
        delta(k, 'hours')
        secs += k * 3600
      if rng.random() < 0.5:
        k = rng.randint(0, 59)
        delta(k, 'minutes')
        secs += k * 60
  elif unit == 'hours':
    r = rng.random()
    if r < 0.6:
      m = rng.choice([0, 15, 20, 30, 45, 59, rng.randint(0, 59)])
      parts.append(':%02d' % m)
      secs += m * 60
    elif r < 0.8:
      k = rng.randint(0, 59)
      delta(k, 'minutes')
      secs += k * 60
  if unit != 'seconds' and rng.random() < 0.2:
    k = rng.randint(0, 59)
    delta(k, 'seconds')
    secs += k
  if wild:
    # something that does not fit into one interval: a larger unit than the interval's, or many of its own
    u = rng.choice(UNITS)
    used = set(p[-1] for p in parts if p.startswith('+'))
    if LETTER[u] not in used and not _conflicts(u, parts, unit):
      k = rng.choice([1, 2, n, n + 1, 2 * n + 1, 40])
      delta(k, u)
      mo, td = unit_step(u, k)
      months += mo
      secs += int(td.total_seconds())
  if not parts:
    # an empty slot is malformed: say "+0<unit>" of some unit not larger than the interval's
    u = UNITS[rng.randint(idx, len(UNITS) - 1)]
    delta(0, u)
  rng.shuffle(parts)
  sep = rng.choice([' ', ' ', '  ', '\t'])
  return sep.join(parts), months, secs


def _conflicts(u, parts, unit):
  """Would a +K<u> delta repeat a unit already used by a non-delta part?"""
  for p in parts:
    if p.startswith('+'):
      continue
    if p.startswith(':'):
      used = {'minutes'}
    elif p.startswith('/'):
      used = {'days'}
    elif re.match(r'^\d+/\d+$', p) or re.match(r'^[A-Za-z]+-\d+$', p):
      used = {'months', 'days'}
    elif re.match(r'^[A-Za-z]+$', p):
      used = {'days'}
    else:
      used = {'hours', 'minutes'}
    if u in used:
      return True
  return False


def interval_text(rng, unit, n):
  if n == 1 and unit in ALIASES and rng.random() < 0.5:
    return vary(rng, ALIASES[unit])
  name = rng.choice([SINGULAR[unit], unit])
  sep = rng.choice(['-', '-', ' ', '  ', '- '])
  num = str(n) if rng.random() < 0.9 else '0' + str(n)
  return num + sep + vary(rng, name)


def gen_struct(rng, unit=None, n=None, wild_p=0.12, shuffle_p=0.1):
  unit = unit or rng.choice(UNITS)
  if n is None:
    n = rng.choice([1, 1, 1, 2, 2, 3, 4, 5, 6, 7, 10, 12, 24, 25, 48, rng.randint(1, 48), rng.randint(1, 48)])
  nslots = rng.choice([1, 1, 2, 2, 3, 4])
  slots = []
  for _ in range(nslots):
    for _try in range(20):
      text, mo, secs = gen_slot(rng, unit, n, rng.random() < wild_p)
      if not any((mo, secs) == (s[1], s[2]) for s in slots):
        break
    slots.append((text, mo, secs))
  slots.sort(key=lambda s: (s[1] * 31 * 86400 + s[2], s[1]))
  shuffled = False
  if len(slots) > 1 and rng.random() < shuffle_p:
    rng.shuffle(slots)
    shuffled = True
  itext = interval_text(rng, unit, n)
  comma = rng.choice([', ', ',', ' , ', ',  '])
  colon = rng.choice([': ', ':', ' : '])
  spec = itext + colon + comma.join(s[0] for s in slots)
  return {'unit': unit, 'n': n, 'slots': [[s[1], s[2]] for s in slots], 'shuffled': shuffled}, spec


SPECIAL_STARTS = [
  (2021, 3, 14, 1, 59, 59, 999999), (2021, 3, 14, 2, 0, 0, 0), (2021, 3, 14, 2, 30, 0, 0), (2021, 3, 14, 3, 0, 0, 0),
  (2021, 11, 7, 0, 59, 59, 0), (2021, 11, 7, 1, 0, 0, 0), (2021, 11, 7, 1, 30, 0, 0), (2021, 11, 7, 2, 0, 0, 1),
  (2021, 3, 28, 0, 59, 0, 0), (2021, 3, 28, 1, 30, 0, 0), (2021, 10, 31, 1, 30, 0, 0), (2021, 3, 22, 0, 0, 0, 0),
  (2021, 3, 21, 23, 59, 59, 0), (2011, 12, 29, 23, 0, 0, 0), (2011, 12, 30, 12, 0, 0, 0), (2021, 4, 4, 1, 45, 0, 0),
  (2020, 1, 31, 0, 0, 0, 0), (2020, 1, 31, 23, 59, 59, 999999), (2020, 2, 28, 23, 59, 59, 0), (2020, 2, 29, 0, 0, 0, 0),
  (2020, 2, 29, 12, 0, 0, 0), (2019, 2, 28, 12, 0, 0, 0), (2021, 2, 28, 23, 59, 59, 999999), (2020, 3, 31, 6, 0, 0, 0),
  (2022, 4, 30, 23, 59, 0, 0), (2022, 8, 31, 0, 0, 0, 0), (2020, 12, 31, 23, 59, 59, 999999), (2021, 1, 1, 0, 0, 0, 0),
  (2021, 1, 1, 0, 0, 0, 1), (2018, 9, 4, 14, 0, 0, 0), (2023, 12, 31, 0, 0, 0, 0), (2024, 2, 29, 23, 59, 59, 0),
  (2018, 1, 1, 0, 0, 0, 0), (2017, 12, 31, 23, 59, 59, 999999), (2023, 1, 29, 0, 0, 0, 0), (2022, 10, 30, 0, 0, 0, 0),
]


def gen_start(rng):
  r = rng.random()
  if r < 0.35:
    return datetime.datetime(*rng.choice(SPECIAL_STARTS))
  return datetime.datetime(rng.randint(2015, 2030), rng.randint(1, 12), rng.randint(1, 31) if False else rng.randint(1, 28),
                           rng.randint(0, 23), rng.choice([0, 0, 15, 30, 59, rng.randint(0, 59)]),
                           rng.choice([0, 0, 30, 59]), rng.choice([0, 0, 0, 1, 500000, 999999]))


def iso(dt):
  return None if dt is None else dt.isoformat()


def from_iso(s):
  if s is None:
    return None
  fmt = '%Y-%m-%dT%H:%M:%S.%f' if '.' in s else '%Y-%m-%dT%H:%M:%S'
  return datetime.datetime.strptime(s, fmt)


def gen_case(rng, unit=None, n=None):
  struct, spec = gen_struct(rng, unit, n)
  start = gen_start(rng)
  count = rng.choice([-3, 0, 1, 1, 2, 3, 3, 5, 10, 10, 25, None])
  c = 10 if count is None else count
  # occurrences of this schedule near start, for exact boundaries
  try:
    near = [x for _p, r in ref_periods(struct, start, min(max(c, 1), 6) + 2) for x in r]
  except (OverflowError, ValueError):
    near = []
  if near and rng.random() < 0.3:
    start = rng.choice(near[:6]) + rng.choice([0, 0, 1, -1, 1000000, -1000000]) * US
  end = None
  r = rng.random()
  if r < 0.4:
    end = None
  elif r < 0.65 and near:
    end = rng.choice(near) + rng.choice([0, 0, 1, -1]) * US
  elif r < 0.72:
    end = start - datetime.timedelta(seconds=rng.choice([1, 3600, 86400 * 40]))
  elif r < 0.77:
    end = start
  else:
    mo, td = unit_step(struct['unit'], struct['n'])
    span = td.total_seconds() + mo * 30.5 * 86400
    end = start + datetime.timedelta(seconds=int(span * rng.choice([0.3, 1, 2.5, 7, 30])) + rng.randint(0, 3600))
  tz = rng.choice(ZONES)
  end_tz = tz
  if end is not None and rng.random() < 0.05:
    end_tz = rng.choice([z for z in ZONES if z != tz])
  return {'stream': 'schedule', 'spec': spec, 'struct': struct, 'start': iso(start), 'tz': tz,
          'end': iso(end), 'end_tz': end_tz, 'count': count}


FIXED_SLOTS = {
  'years': [('Jan-15, Apr-15, Jul-15, Oct-15', [[0, 14 * 86400], [3, 14 * 86400], [6, 14 * 86400], [9, 14 * 86400]]),
            ('2/29 11pm', [[1, 28 * 86400 + 23 * 3600]])],
  'months': [('/1 2pm, /15 5pm', [[0, 14 * 3600], [0, 14 * 86400 + 17 * 3600]]), ('/28 23:59', [[0, 27 * 86400 + 86340]])],
  'weeks': [('Mo 9am, Tu 9am, Fr 2pm', [[0, 86400 + 32400], [0, 2 * 86400 + 32400], [0, 5 * 86400 + 50400]]),
            ('Su, Sa 11:59pm', [[0, 0], [0, 6 * 86400 + 86340]])],
  'days': [('07:30, 21:00', [[0, 27000], [0, 75600]]), ('12am', [[0, 0]])],
  'hours': [(':15, :45', [[0, 900], [0, 2700]]), (':00', [[0, 0]])],
  'minutes': [('+0S, +30S', [[0, 0], [0, 30]]), ('+59S', [[0, 59]])],
  'seconds': [('+0S', [[0, 0]])],
}


def exhaustive_cases(rng):
  out = []
  for unit in UNITS:
    for n in range(1, 49):
      for text, slots in FIXED_SLOTS[unit]:
        spec = '%d-%s: %s' % (n, SINGULAR[unit], text)
        struct = {'unit': unit, 'n': n, 'slots': slots, 'shuffled': False}
        for _ in range(3):
          start = gen_start(rng)
          near = [x for _p, r in ref_periods(struct, start, 4) for x in r]
          end = rng.choice([None, near[-1], near[1 % len(near)] - US])
          out.append({'stream': 'schedule', 'spec': spec, 'struct': struct, 'start': iso(start),
                      'tz': rng.choice(ZONES), 'end': iso(end), 'end_tz': None, 'count': rng.choice([1, 3, 7])})
          out[-1]['end_tz'] = out[-1]['tz']
  return out


MALFORMED = [
  '', ' ', 'daily', 'daily:', 'daily: ', ':', ': 9am', 'foo: 1', 'weekly: Xx', 'daily: 9am 10am', 'monthly: Jan-1',
  'hourly: 9am', '2-fortnight: Mo', 'daily: +1d +2d', 'annual: Foo-1', 'daily: ,', 'daily: 9am,', 'daily: ,9am',
  '-1-day: 1am', '1.5-day: 1am', '1day: 1am', '1y: 1/1', '1-daily: 9am', 'dayly: 9am', 'every day: 9am', '1-: 9am',
  '-day: 9am', 'one-day: 9am', '2_day: 9am', 'weekly: Feb-1', 'monthly: Monday', 'hourly: 4/15', 'annual: /1',
  'weekly: Feb:1', 'monthly: /1d', 'hourly: 10', 'annual: H1', 'annual: februarium-1', 'weekly: snu', 'hourly: +1t',
  'daily: 9:30am +2H', 'monthly: /15 +1d', 'annual: Feb-1 12:30pm +20M', 'minute: +0S', '10-minute: :30',
  '5-second: :05', 'daily: 9:5', 'daily: 9:005', 'daily: 9am pm', 'daily: am', 'daily: 9 am', 'daily: +d',
  'daily: +1', 'daily: 1+d', 'daily: ++1d', 'daily: +-1d', 'daily: -1d', 'daily: +1.5d', 'daily: 9am; 10am',
  'daily 9am', 'weekly: Mo-1', 'weekly: Mo/1', 'annual: 1-15', 'annual: Jan/15', 'annual: Jan 15',
  'annual: 1/15/2020', 'monthly: 15', 'monthly: /', 'monthly: //1', 'hourly: :5', 'hourly: :123', 'hourly: 15:',
  'daily: 9:30:15', 'daily: 9h', 'weekly: Mon Tue', 'annual: Jan-1 Feb-1', 'daily: 9am 9:30', '3-weeks: +1w +1w',
  'daily: :9am', 'weekly: Mo,, Tu', 'hourly: +1h', 'daily: +1D', 'monthly: +1Y', '2-hours: 1:20', 'daily: 9am, , 5pm',
  'weekly; Mo', 'daily: 9am: 10am', '1-1-day: 9am', 'annual: Jan-', 'annual: -15', 'weekly: 9am Mo Tu',
]
ZERO_INTERVAL = ['0-day: 1am', '0-month: /1', '00-hour: :00', '0 weeks: Mo 9am', '0-year: Jan-1', '0-minute: +0S',
                 '0-second: +0S', '0-days: 12am, 1am']
# grammatical, with values outside the usual range: accepted (and then terminating) or ValueError/OverflowError
LENIENT = ['daily: 25:00', 'daily: 13pm', 'monthly: /0', 'annual: 13/1', 'annual: Feb-31', 'annual: 0/1', 'hourly: :75',
           'weekly: +9d', 'annual: +1y +12m', '3-weeks: +1w +7d', 'daily: +1000000000d', '1000000000-day: 1am',
           '99999999999999999999-day: 1am', '999999999-day: 1am', '10000-year: 1/1', 'annual: +99999999y',
           'daily: 99999999999999999999am', 'DAILY: 9AM', ' daily : 9am ', 'daily:\t9am', 'daily:9am', '1  day: 9am',
           'daily: 9am\n', 'daily\n: 9am', '5000-month: /1', '48-week: +47w Sa 23:59']


def is_zero_interval_text(spec):
  """The harness's own reading of the interval part: N-unit with N = 0."""
  head = spec.split(':', 1)[0].strip()
  return bool(re.match(r'^0+[-\s]+[A-Za-z]+$', head))


def doc_examples():
  """The schedule strings of the "For example:" block of SCHEDULE's docstring, read from the running source."""
  doc = impl().SCHEDULE.__doc__ or ''
  if 'For example:' not in doc or 'INTERVAL must be' not in doc:
    raise core.TieBroken("SCHEDULE's docstring no longer has the 'For example:' block")
  blk = doc.split('For example:', 1)[1].split('INTERVAL must be', 1)[0]
  out = [line.split('--')[0].strip() for line in blk.splitlines() if '--' in line]
  if len(out) < 5:
    raise core.TieBroken("cannot read the examples of SCHEDULE's docstring")
  return out


def all_cases(ctx):
  if getattr(ctx, '_c35_cases', None) is not None:
    return ctx._c35_cases
  rng = ctx.rng
  cases = [gen_case(rng) for _ in range(ctx.n(2500, 40000))]
  for unit in UNITS:                      # every unit x a spread of multiples in every run
    for n in (1, 2, 3, 7, 12, 24, 47, 48):
      cases.append(gen_case(rng, unit, n))
  if ctx.tier == 'thorough':
    cases.extend(exhaustive_cases(rng))
    ctx.extra['exhaustive'] = False
    ctx.extra['exhaustive_space'] = ('every unit x multiple 1..48 x fixed slot lists x 3 sampled starts '
                                     '(the schedule space itself is unbounded)')
  fixed_start = '2020-01-01T02:00:00'
  for s in MALFORMED:
    cases.append({'stream': 'malformed', 'spec': s, 'start': fixed_start, 'tz': None, 'end': None, 'end_tz': None,
                  'count': 2})
  for s in ZERO_INTERVAL:
    for st in (fixed_start, '2020-01-01T00:00:00'):
      cases.append({'stream': 'zero-interval', 'spec': s, 'start': st, 'tz': None, 'end': None, 'end_tz': None,
                    'count': 2})
  for s in LENIENT:
    cases.append({'stream': 'lenient', 'spec': s, 'start': fixed_start, 'tz': None, 'end': None, 'end_tz': None,
                  'count': 2})
  for s in doc_examples():
    cases.append({'stream': 'docexample', 'spec': s, 'start': '2018-09-04T14:00:00', 'tz': None, 'end': None,
                  'end_tz': None, 'count': 4})
  ctx._c35_cases = cases
  return cases


# ---------------------------------------------------------------------------------------------
# evaluating one case on the implementation

def case_args(case):
  tz = tzinfo_of(case.get('tz'))
  start_naive = from_iso(case['start'])
  end_naive = from_iso(case.get('end'))
  start = start_naive.replace(tzinfo=tz) if tz else start_naive
  end = end_naive
  if end is not None:
    etz = tzinfo_of(case.get('end_tz'))
    end = end.replace(tzinfo=etz) if etz else end
  return start, end, start_naive, end_naive


def step_limit(case):
  c = case.get('count')
  return max(10 if c is None else c, 0) + 8


def naive(dt):
  return dt.replace(tzinfo=None)


def evaluate(case):
  """
  Runs the case on the implementation and applies the stream's oracle.
  Returns (kind, what) for a failure or None, plus info for accounting.
  """
  import moment
  stream = case['stream']
  spec = case['spec']
  start, end, start_naive, end_naive = case_args(case)
  count = case.get('count')
  status, outs, passes, sch = run_real(spec, start, end, count, step_limit(case))
  info = {'status': status if isinstance(status, str) else 'raise', 'nout': len(outs), 'passes': passes}
  raised = status[1] if isinstance(status, tuple) else None

  if stream == 'malformed' or stream == 'zero-interval':
    zero = is_zero_interval_text(spec)
    if raised is not None:
      if isinstance(raised, ValueError):
        return None, info
      return ('malformed-other-exception', 'SCHEDULE(%r) raises %s instead of ValueError: %s'
              % (spec, type(raised).__name__, raised)), info
    if zero:
      if status == 'ok':
        how = 'returns %r' % ([str(naive(o)) for o in outs],)
      else:
        how = 'does not return (%d passes of the loop in series(), %d values yielded)' % (passes, len(outs))
      return ('zero-interval-accepted',
              'SCHEDULE(%r, start=%s, count=%r): the zero interval is accepted instead of ValueError and the call %s'
              % (spec, case['start'], count, how)), info
    return ('malformed-accepted', 'SCHEDULE(%r) is accepted (%s, %d values) instead of ValueError'
            % (spec, status, len(outs))), info

  if stream == 'docexample':
    if spec not in doc_examples():
      return None, info             # no longer a documented example
    if raised is not None:
      return ('documented-example-rejected', "the docstring's example %r raises %s: %s"
              % (spec, type(raised).__name__, raised)), info
    if status != 'ok':
      return ('no-termination', 'SCHEDULE(%r) from the docstring: %s' % (spec, status)), info
    return None, info

  if stream == 'lenient':
    if raised is not None:
      if isinstance(raised, (ValueError, OverflowError)):
        info['lenient'] = type(raised).__name__
        return None, info
      return ('lenient-other-exception', 'SCHEDULE(%r) raises %s: %s' % (spec, type(raised).__name__, raised)), info
    if status != 'ok':
      return ('no-termination', 'SCHEDULE(%r): %s after %d passes' % (spec, status, passes)), info
    info['lenient'] = 'accepted'
    return None, info

  # stream 'schedule'
  struct = case['struct']
  robust = case.get('end_tz') != case.get('tz')
  in_premise, exp = ref_expected(struct, start_naive, end_naive, count)
  info['in_premise'] = in_premise and not robust
  if raised is not None:
    return ('valid-schedule-raises', 'SCHEDULE(%r, start=%s, end=%s, count=%r) raises %s: %s'
            % (spec, case['start'], case.get('end'), count, type(raised).__name__, raised)), info
  if status != 'ok':
    return ('no-termination', 'SCHEDULE(%r, start=%s, end=%s, count=%r): %s after %d passes, %d values'
            % (spec, case['start'], case.get('end'), count, status, passes, len(outs))), info
  # the instrumented run is the public function
  pub = call_schedule(spec, start, end, count)
  if pub != outs:
    # the public function is the one the property speaks about; the instrumented run only gave the passes
    if not (robust or not in_premise) and [naive(o) for o in pub] == exp:
      raise core.TieBroken('the instrumented Schedule(...).series(...) differs from SCHEDULE(...) on %r' % (case,))
    return ('public-differs-from-series',
            'SCHEDULE(%r, start=%s, end=%s, count=%r) = %r but Schedule(spec).series(start, end%s) = %r; expected %r'
            % (spec, case['start'], case.get('end'), count, [str(naive(o)) for o in pub[:12]],
               '' if count is None else ', count=count', [str(naive(o)) for o in outs[:12]],
               [str(e) for e in exp[:12]])), info
  want_tz = start.tzinfo or moment.TZ_UTC
  if any(o.tzinfo is not want_tz for o in outs):
    return ('wrong-timezone', 'SCHEDULE(%r, start=%s %s): a result is not in the time zone of start'
            % (spec, case['start'], case.get('tz'))), info
  got = [naive(o) for o in outs]
  c = 10 if count is None else count
  if robust or not in_premise:
    # outside the premise: terminates, at most count values, each within [start, end]
    from functions.date import DTIME
    start_dt = DTIME(start)
    end_dt = None if end is None else DTIME(end)
    if len(outs) > max(c, 0) or any(o < start_dt for o in outs) or \
        (end_dt is not None and any(o > end_dt for o in outs)):
      return ('robustness', 'SCHEDULE(%r, start=%s, end=%s, count=%r) returns a value outside [start, end] or more '
              'than count values: %r' % (spec, case['start'], case.get('end'), count, [str(g) for g in got])), info
    return None, info
  if got != exp:
    return ('differs-from-reference',
            'SCHEDULE(%r, start=%s, end=%s, count=%r, tz=%s) = %r but the scheduled occurrences are %r'
            % (spec, case['start'], case.get('end'), count, case.get('tz'), [str(g) for g in got[:8]],
               [str(e) for e in exp[:8]])), info
  bound = max(c, 0) // len(struct['slots']) + 2
  if passes > bound:
    return ('fuel-bound', 'SCHEDULE(%r, start=%s, count=%r) needs %d passes, the proved bound is %d'
            % (spec, case['start'], count, passes, bound)), info
  return None, info


# ---------------------------------------------------------------------------------------------
# pipeline entry points

def ts(dt):
  return (naive(dt) - EPOCH) // US


def real_table(sch, start, nrows):
  """Period starts and slot instants as the real code computes them: [(P_k, [slot_i(P_k)])]."""
  schedule = impl()
  from functions.date import DTIME
  slots = list.__iter__(sch._slots)
  slots = list(slots)
  p = schedule._round_down_to_unit(DTIME(start), sch._interval_unit)
  rows = []
  for _ in range(nrows):
    rows.append((p, [s.add_to(p) for s in slots]))
    p = sch._interval.add_to(p)
  return rows


def monitors(case, sch, start, rows):
  """The premise of the theorems, evaluated on what the real code computed (in-premise cases only)."""
  from functions.date import DTIME
  schedule = impl()
  start = DTIME(start)
  bad = []
  base = rows[0][0]
  if not base <= start:
    bad.append('base<=start')
  if not all(a[0] < b[0] for a, b in zip(rows, rows[1:])):
    bad.append('t<next t (and next monotone on the visited periods)')
  flat = [x for _p, r in rows for x in r]
  if not strictly_increasing(flat):
    bad.append('slot_1 t<...<slot_n t<slot_1 (next t) (slot chain; each slot monotone on the visited periods)')
  if len(rows) > 1 and not start <= rows[1][1][0]:
    bad.append('start<=slot_1 (next base) (k0=1 of the fuel bound)')
  if not all(r[-1] < rows[k + 1][0] for k, (_p, r) in enumerate(rows[:-1])):
    bad.append('slot_n t<next t (slots inside their interval)')
  # the period before the base
  try:
    struct = case['struct']
    back = schedule.Delta().add_interval(-struct['n'], struct['unit'])
    prev = back.add_to(base)
    if not (sch._interval.add_to(prev) <= base and all(s.add_to(prev) < sch._interval.add_to(prev)
                                                       for s in list.__iter__(sch._slots))):
      bad.append('slots of the period before the base end before the base')
  except (OverflowError, ValueError):
    pass
  # the order used by the model is the order Python uses
  xs = flat[:12] + [start]
  if any((a < b) != (ts(a) < ts(b)) for a in xs for b in xs):
    bad.append('datetime order = timestamp order')
  return bad


CHECK_DEF = '''
(* monomorphic constructors: cheaper to elaborate than nested polymorphic pairs *)
Record c35case := K { k_tb : table; k_n : nat; k_base : Z; k_start : Z; k_end : option Z; k_count : Z;
                      k_fuel : nat; k_done : bool; k_outs : list Z }.
Definition R (p : Z) (r : list Z) : Z * list Z := (p, r).
(* the hand model (tbl_series) and the function generated from the source (Schedule_series) on the same tables *)
Definition c35_check (c : c35case) : bool :=
  let run := fun fuel => tbl_series (k_tb c) (k_n c) (k_base c) fuel (k_start c) (k_end c) (k_count c) in
  let gen := fun fuel => Schedule_series (tbl_prims (k_tb c) (k_base c)) (tbl_schedule (k_n c)) fuel
                           (k_start c) (k_end c) (k_count c) in
  if k_done c then
    result_eqb (run (k_fuel c)) (Done (k_outs c)) && result_eqb (gen (k_fuel c)) (Done (k_outs c)) &&
    match k_fuel c with O => false | S f => is_out_of_fuel (run f) && is_out_of_fuel (gen f) end
  else result_eqb (run (k_fuel c)) (OutOfFuel (k_outs c)) && result_eqb (gen (k_fuel c)) (OutOfFuel (k_outs c)).
'''


def zl(n):
  """Z literal; hexadecimal for large values (16-digit decimal literals are slow to parse in Coq 8.16)."""
  if -10**6 < n < 10**6:
    return core.zlit(n)
  return '(-0x%x)%%Z' % -n if n < 0 else '0x%x%%Z' % n


def zls(ns):
  return '[' + '; '.join(zl(n) for n in ns) + ']'


def correspond(ctx):
  cases = all_cases(ctx)
  want = ctx.n(450, 6000)
  sched = [c for c in cases if c['stream'] == 'schedule' and c.get('end_tz') == c.get('tz')]
  stride = max(1, len(sched) // want)
  picked = sched[::stride] + [c for c in cases if c['stream'] in ('zero-interval', 'lenient', 'docexample')]
  coq = []
  used = []
  nmon = 0
  for case in picked:
    start, end, start_naive, end_naive = case_args(case)
    count = case.get('count')
    c = 10 if count is None else count
    limit = step_limit(case)
    status, outs, passes, sch = run_real(case['spec'], start, end, count, limit)
    if status not in ('ok', 'steplimit'):
      continue
    try:
      rows = real_table(sch, start, passes + 1)
    except (OverflowError, ValueError):
      continue
    seen = {}
    for p, r in rows:
      key = ts(p)
      val = [ts(x) for x in r]
      if seen.setdefault(key, val) != val:
        ctx.broken('correspondence:period start %s has two different slot rows' % p, repr(case))
    in_premise = False
    if case['stream'] == 'schedule':
      in_premise, _exp = ref_expected(case['struct'], start_naive, end_naive, count)
    if in_premise:
      nmon += 1
      for m in monitors(case, sch, start, rows):
        ctx.bump('monitor-failed')
        ctx.broken('monitor:%s' % m, 'the hypothesis does not hold for what the implementation computes on %r' % (case,))
    tb = core.coq_list(['R %s %s' % (zl(ts(p)), zls([ts(x) for x in r])) for p, r in rows])
    from functions.date import DTIME
    coq.append('K %s %d%%nat %s %s %s %s %d%%nat %s %s' % (
      tb, len(rows[0][1]), zl(ts(rows[0][0])), zl(ts(DTIME(start))),
      core.optlit(None if end is None else ts(DTIME(end)), zl), zl(c), passes,
      core.boollit(status == 'ok'), zls([ts(o) for o in outs])))
    used.append(case)
    ctx.bump('corr:%s' % ('diverging' if status == 'steplimit' else case['stream']))
  ctx.extra['correspondence_cases'] = len(coq)
  ctx.extra['monitored_cases'] = nmon
  from harness import c35diff
  rc, out = core.coq_make(['theories/Lib/SchedDiff.vo'], timeout=600)
  if rc != 0:
    raise core.TieBroken('Lib/SchedDiff.v does not build against the regenerated code: %s' % out[-1200:])
  bad = ctx.run_cases('series', c35diff.IMPORTS, 'c35_check', coq, shard=150, extra_defs=CHECK_DEF)
  for i in bad[:5]:
    ctx.broken('correspondence:the model / the generated code of Schedule.series differs from the running generator '
               '(outputs or number of passes)', 'case %r' % (used[i],))
  ctx.log('correspondence: %d cases (%d monitored), %d differ' % (len(coq), nmon, len(bad)))
  # differential validation of the translator on the other generated functions
  schedule = impl()
  sym = c35diff.sym_cases(schedule, ctx.rng, ctx.n(100, 1500))
  intervals, slots = c35diff.parser_inputs(schedule, ctx.rng, [c['spec'] for c in cases])
  intervals = list(dict.fromkeys(intervals))[:ctx.n(200, 5000)]
  slots = list(dict.fromkeys(slots))[:ctx.n(250, 7000)]
  icases = [c35diff.interval_case(schedule, x) for x in intervals]
  scases = [c35diff.slot_case(schedule, t, u) for t, u in slots]
  allc = [('Delta methods', 'AY (%s)' % c, None) for c in sym] + \
         [('_parse_interval', 'AI (%s)' % c, x) for c, x in zip(icases, intervals)] + \
         [('_parse_slot', 'AS (%s)' % c, x) for c, x in zip(scases, slots)]
  bad = ctx.run_cases('translator', c35diff.IMPORTS, 'any_check', [c[1] for c in allc], shard=150,
                      extra_defs=c35diff.DEFS)
  for i in bad[:5]:
    ctx.broken('translation:the generated code of %s differs from the running function' % allc[i][0],
               'input %r; case %s' % (allc[i][2], allc[i][1][:600]))
  extra_parts = ['Jan-15', '1/15', '/15', 'Mon', '10am', '1:30pm', '15:45', ':45', '+1d', '+15w', '+1x', 'x-1', '/', ':5',
                 '9:5', '+d', 'am', '12AM', 'FEB-3', '0/0', '+0S', 'a-1', '1-1', '+1', 'pm', '9pm', '09:00am']
  nmonp, badm = c35diff.monitor_parse_hypotheses(
    schedule, list(dict.fromkeys([p for t, _u in slots for p in t.split()] + extra_parts)))
  for name, what in badm[:5]:
    ctx.broken('monitor:%s' % name, 'hypothesis of C35_code_parse_slot_errors fails on the implementation: %r' % (what,))
  ctx.extra['parse_hypotheses_monitored'] = nmonp
  ctx.extra['translator_differential'] = {'Schedule.series (on tables)': len(coq), 'Delta methods (symbolic)': len(sym),
                                          '_parse_interval': len(icases), '_parse_slot + slot parsers': len(scases)}
  ctx.log('translator differential: sym %d, interval %d, slot %d' % (len(sym), len(icases), len(scases)))


def replay_dict(case):
  return {k: case.get(k) for k in ('stream', 'spec', 'struct', 'start', 'tz', 'end', 'end_tz', 'count')
          if case.get(k) is not None or k in ('end', 'tz', 'count')}


def search(ctx):
  nviol = 0
  for case in all_cases(ctx):
    res, info = evaluate(case)
    stream = case['stream']
    if stream == 'schedule':
      kind = ('sched:' + case['struct']['unit']) if info.get('in_premise') else 'robustness'
      nontrivial = info['nout'] > 0
      if info.get('in_premise'):
        ctx.bump('outputs:%s' % ('0' if info['nout'] == 0 else '1-3' if info['nout'] <= 3 else '4+'))
        ctx.bump('end:%s' % ('none' if case.get('end') is None else 'given'))
        ctx.bump('tz:%s' % (case.get('tz') or 'naive'))
    else:
      kind = stream
      nontrivial = info['status'] in ('raise', 'steplimit') or info['nout'] > 0
      if 'lenient' in info:
        ctx.bump('lenient:' + info['lenient'])
    sample = None
    if stream == 'schedule' and info.get('in_premise') and info['nout'] >= 2:
      sample = {'spec': case['spec'], 'start': case['start'], 'end': case.get('end'), 'count': case.get('count'),
                'tz': case.get('tz'), 'values': info['nout'], 'passes': info['passes']}
    ctx.count(json.dumps(replay_dict(case), sort_keys=True), nontrivial=nontrivial, sample=sample, kind=kind)
    if res is not None:
      ctx.violation(res[0], res[1], replay_dict(case))
      nviol += 1
      if nviol > 40:
        break


def replay(ctx, w):
  case = dict(w)
  case.setdefault('stream', 'zero-interval' if is_zero_interval_text(case['spec']) else 'malformed')
  case.setdefault('end_tz', case.get('tz'))
  res, _info = evaluate(case)
  return res[1] if res else None


def _same_kind_and_spec(violation, entry):
  return violation.get('kind') == entry.get('violation_kind') and \
      violation.get('replay', {}).get('spec') == entry.get('witness', {}).get('spec')


MATCHERS = {'c35_same_kind_and_spec': _same_kind_and_spec}

