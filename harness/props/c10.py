"""C10 -- Removing rows leaves no references to them (K4: Model/RefIndex.v)."""
import copy
import logging
import random

from harness import core

ID = 'C10'
TITLE = 'Removing rows leaves no references to them'
PROPS = ['Props/C10', 'Props/C10_code']
RULE = ('(L0) relation.ReferenceRelation.{get_affected_rows,add_reference,remove_reference,clear}, column.BaseReferenceColumn.'
        '{_update_references,set,clear,copy_from_column,get_updates_for_removed_target_rows,_raw_get_without}, BaseColumn.unset, '
        'ReferenceListColumn._raw_get_without and the skip condition of the clean-up loop of doBulkRemoveRecord are REGENERATED from '
        'source on every run (harness/k4tr.py -> coq/gen/K4_gen.v), proved equal to the hand model (Props/C10_code.v), and evaluated '
        'against the running methods; the remaining glue is pinned by AST hash (harness/k4pins.json); '
        '(L1) random op sequences (set/unset/growto/copy_from_column/clear; right-type, wrong-type, out-of-range, '
        'string-hack values, RefList cells holding the same target id more than once: adjacent, non-adjacent, all equal) '
        'on REAL ReferenceColumn/ReferenceListColumn objects vs the model, and (L1b) get_updates_for_removed_target_rows '
        'of the real column after such a sequence (the repeated id removed alone and with others) vs the model; '
        'histories also write repeated ids into user RefLists and into metadata RefLists (_grist_Tables_column.recalcDeps, '
        '.rules) and then remove the repeated target (record, column, metadata record); (L2) every call the live '
        'reference-column objects receive during random user-action histories (recorded by wrapping the column classes) '
        'replayed by the model; (L3) every single-action record removal of those histories on a user table: the world '
        'of columns of/targeting the table before, and the engine result after, vs the model of doBulkRemoveRecord; '
        '(S) after every bundle: no data Ref/RefList cell of any table (metadata included) mentions a row removed by '
        'the bundle, single removals filter exactly the removed ids in order, the reverse index of every live '
        'column is exact.  Histories: documents with one-way, two-way and self references, DATA Ref/RefList columns '
        'that carry a default or trigger formula (recalcWhen DEFAULT with/without recalcDeps, NEVER, MANUAL_UPDATES) '
        'filled by new records and by explicit updates, record/column/table '
        'removals (also through the metadata tables), Ref<->RefList switches; a separate stream adds ReplaceTableData. '
        'A case is non-trivial when references exist / a removal hits a referenced row')
TRUSTED = ['harness/k4tr.py + k4tr_specs.py: fail-closed translator of the methods listed under (L0) and its primitives '
           'Model/K4Support.v; validated on every run against the running methods; glue not translated (BaseColumn.set/clear/'
           'growto/raw_get/safe_get, is_right_type, the rest of doBulkRemoveRecord, docactions) is pinned by AST equality',
           'Model/RefIndex.v is hand-written; it is compared with the running code on every run at three levels '
           '(column objects, recorded call traces of real histories, whole record removals), evaluated by vm_compute',
           'ReferenceListColumn._clean_up_value on strings (json.loads / RecordList.from_repr) is an uninterpreted '
           'function of the model (theorems hold for every such function); the harness tabulates it from the running code',
           'that every removal path of useractions.py reaches doBulkRemoveRecord is established by the history oracle, '
           'not by proof']
ASSUMPTIONS = ['cell values are None, ints, lists of ints or strings (what column.convert yields for user-action input)',
               'C10_removal assumes an exact reverse index for every column of the world (proved for every history of '
               'set/unset/copy_from_column/growto/clear on a new column: inverse_map_exact)']
TECHNIQUE = ('Coq invariant proof over an executable model of the reference columns and their reverse index + three '
             'levels of differential correspondence with the running code (vm_compute) + implementation oracles on histories')
LEVEL_TEXT = ('Kernel-checked theorems, for all op sequences, worlds and removal histories: the reverse index '
              '(ReferenceRelation.inverse_map) equals the reverse of the cells after ANY sequence of column operations '
              '(set, unset, copy_from_column, growto, clear); with exact indexes doBulkRemoveRecord never fails and leaves '
              'every referring cell equal to the old cell with exactly the removed ids filtered out in order ([] -> None, '
              'Ref -> 0), so no cell refers to a removed row, and the hypotheses hold again afterwards. The old clear '
              '(repaired by 474dc3f) survives as regression examples; that ReplaceTableData removes rows without the '
              'cleanup is proved as a counterexample and reported as a known finding.')
LEVEL_NOTE = ('Trusted: Coq kernel, the hand-written model (validated differentially on every run), the string hack '
              'as an uninterpreted function. The glue in useractions.py (which paths call the cleanup) is covered by the '
              'history oracle only.')

logging.disable(logging.CRITICAL)

IMPORTS = ['Grist.Model.RefIndex', 'Grist.Model.K4Support', 'GristGen.K4_gen', 'Grist.Proofs.K4_bridge']
# Which model of clear the correspondence uses: 'true' = BaseReferenceColumn.clear also clears the relation (the code
# since /repo commit 474dc3f; Model `run`), 'false' = the old BaseColumn.clear that kept it (Model `run_old`, finding
# C10-clear-keeps-reverse-index, now 'fixed'; only the regression Examples of Props/C10.v still speak about it).
CLEAR_FIXED = 'true'


def K():
  from harness import k4env
  return k4env


# ---------------------------------------------------------------------------------------------
# (L1) op sequences on REAL ReferenceColumn / ReferenceListColumn objects vs the model's `run`

def ops_cases(ctx):
  k4 = K()
  r = ctx.rng
  fx = k4.Fixture()
  cases, metas = [], []
  n = ctx.n(400, 6000)
  for i in range(n):
    kind = r.choice(['KRef', 'KRefList'])
    ops = k4.gen_ops(r, kind, r.choice([1, 2, 3, 4, 6, 8, 12]), with_clear=(i % 4 == 0))
    try:
      status, out = k4.run_real_ops(fx, kind, ops)
      strs = [o[2] for o in ops if o[0] == 'set' and isinstance(o[2], str)]
      hack = k4.hack_table(strs, fx.col('KRefList'))
      expected = '(Ok %s)' % k4.enc_col(out) if status == 'ok' else '(Err %s)' % out
      term = '(%s, %s, %s, %s)' % (kind, hack, core.coq_list([k4.enc_op(o) for o in ops]), expected)
    except k4.Unrepresentable:
      ctx.bump('ops:unrepresentable')
      continue
    cases.append(term)
    metas.append((kind, ops))
    nontrivial = status == 'ok' and any(out._relation.inverse_map.values())
    ctx.count(('ops', kind, repr(ops)), nontrivial=nontrivial, kind='ops:%s:%s' % (kind, status),
              sample={'kind': kind, 'ops': repr(ops)[:300]} if i < 2 else None)
  check = ('fun c => match c with (k, tbl, ops, expected) => '
           'res_eqb col_eqb (run_from (hack_of tbl) %s (col_new k) ops) expected && '
           'res_eqb col_eqb (gen_run (hack_of tbl) k ops) expected end' % CLEAR_FIXED)     # hand model AND generated code
  bad = ctx.run_cases('ops', IMPORTS, check, cases, shard=100)
  for i in bad[:5]:
    ctx.broken('correspondence:RefIndex.run differs from the real column on an op sequence',
               'kind=%s ops=%r' % metas[i])


def updates_cases(ctx):
  """(L1b) get_updates_for_removed_target_rows / _raw_get_without on REAL column objects (after an op sequence)
  vs the model's get_updates; cells with repeated target ids, removal of the repeated id alone and with others."""
  k4 = K()
  r = ctx.rng
  fx = k4.Fixture()
  cases, metas = [], []
  for i in range(ctx.n(300, 5000)):
    kind = r.choice(['KRef', 'KRefList', 'KRefList'])
    ops = k4.gen_ops(r, kind, r.choice([2, 3, 4, 6, 8]), with_clear=(i % 5 == 0))
    targets = r.sample([0, 1, 2, 3, 4, 5, -1, 7], r.choice([1, 1, 2, 3]))
    try:
      status, col = k4.run_real_ops(fx, kind, ops)
      if status != 'ok':
        continue
      try:
        ups = col.get_updates_for_removed_target_rows(set(targets))
        expected = '(Ok %s)' % core.coq_list(['(%s, %s)' % (k4.natlit(row), k4.enc_cell(v)) for row, v in ups])
      except Exception as ex:      # pylint: disable=broad-except
        name = k4.enc_err(ex)
        if name is None:
          raise
        ups, expected = None, '(Err %s)' % name
      strs = [o[2] for o in ops if o[0] == 'set' and isinstance(o[2], str)]
      term = '(%s, %s, %s, %s, (%s : res (list (nat * cell))))' % (
        kind, k4.hack_table(strs, fx.col('KRefList')), core.coq_list([k4.enc_op(o) for o in ops]),
        core.zlist(targets), expected)
    except k4.Unrepresentable:
      ctx.bump('updates:unrepresentable')
      continue
    cases.append(term)
    metas.append((kind, ops, targets))
    repeated = any(isinstance(v, list) and len(set(v)) != len(v) and set(v) & set(targets)
                   for v in col._data)
    ctx.count(('updates', kind, repr(ops), repr(targets)), nontrivial=bool(ups),
              kind='updates:%s:%s' % (kind, 'repeated-id-removed' if repeated else ('hit' if ups else 'nohit')))
  check = ('fun c => match c with (k, tbl, ops, targets, expected) => '
           'res_eqb (list_eqb (fun x y => Nat.eqb (fst x) (fst y) && cell_eqb (snd x) (snd y))) '
           '(bind (run_from (hack_of tbl) %s (col_new k) ops) (fun col => get_updates col targets)) expected && '
           'res_eqb (list_eqb (fun x y => Nat.eqb (fst x) (fst y) && cell_eqb (snd x) (snd y))) '
           '(bind (gen_run (hack_of tbl) k ops) (fun col => gen_get_updates col targets)) expected end'
           % CLEAR_FIXED)
  bad = ctx.run_cases('updates', IMPORTS, check, cases, shard=100)
  for i in bad[:5]:
    ctx.broken('correspondence:RefIndex.get_updates differs from get_updates_for_removed_target_rows of the real column',
               'kind=%s ops=%r targets=%r' % metas[i])


# ---------------------------------------------------------------------------------------------
# histories: (L2) call traces, (L3) removal worlds, (S) oracles

def single_removal(bundle):
  """(table, rows) when the bundle is one [Bulk]RemoveRecord with plain positive ids, else None."""
  if len(bundle) != 1:
    return None
  a = bundle[0]
  if a[0] == 'RemoveRecord':
    rows = [a[2]]
  elif a[0] == 'BulkRemoveRecord':
    rows = list(a[2])
  else:
    return None
  if not all(type(x) is int and 0 <= x < 100000 for x in rows):
    return None
  return a[1], rows


def explicit_ids(bundle, table_id, col_id):
  """Row ids a user action of the bundle writes into table.col itself (a dangling id the user asked for)."""
  out = set()

  def walk(v):
    if isinstance(v, (list, tuple)):
      for x in v:
        walk(x)
    elif type(v) is int:
      out.add(v)
    elif isinstance(v, str):
      out.update(int(tok) for tok in v.replace('[', ' ').replace(']', ' ').replace(',', ' ').split() if tok.isdigit())
  for a in bundle:
    if a[0] in ('AddRecord', 'UpdateRecord') and a[1] == table_id and col_id in (a[3] or {}):
      walk(a[3][col_id])
    elif a[0] in ('BulkAddRecord', 'BulkUpdateRecord', 'ReplaceTableData') and a[1] == table_id and col_id in (a[3] or {}):
      walk(a[3][col_id])
    elif a[0] in ('AddOrUpdateRecord', 'BulkAddOrUpdateRecord'):
      walk(a[2:])
    elif a[0] in ('AddColumn', 'ModifyColumn', 'AddVisibleColumn') and table_id == '_grist_Tables_column' \
         and isinstance(a[3], dict) and col_id in a[3]:
      walk(a[3][col_id])        # col_info fields (recalcDeps, rules, ...) are written into the column's metadata record
  return out


def cells_of(e):
  """{(table, col): (target table id, kind, {row: value})} for every data Ref/RefList column (all tables)."""
  k4 = K()
  out = {}
  for tid, cid, c in k4.ref_columns(e):
    rows = e.tables[tid].row_ids
    out[(tid, cid)] = (k4.target_id(c), k4.kind_of(c), {r: copy.copy(c.raw_get(r)) for r in rows})
  return out


def has_summary_tables(e):
  col = e.tables['_grist_Tables'].get_column('summarySourceTable')
  return any(col.raw_get(r) for r in e.tables['_grist_Tables'].row_ids)


def has_dependent_triggers(e):
  """Some column has a trigger formula with recalcDeps: the clean-up of a referring cell may then legitimately make the
  engine recalculate other cells of that row, so the cell-by-cell comparison of a removal does not apply (oracle (i)
  still does)."""
  t = e.tables['_grist_Tables_column']
  deps, formula = t.get_column('recalcDeps'), t.get_column('formula')
  return any(deps.raw_get(r) and formula.raw_get(r) for r in t.row_ids)


def want_without(kind, v, removed):
  if kind == 'KRef':
    return 0 if (type(v) is int and v in removed) else v
  if isinstance(v, list) and v and all(type(x) is int for x in v):
    return [x for x in v if x not in removed] or None
  return v


class Oracle(object):
  """The property's own checks on the IMPLEMENTATION, evaluated around every bundle of a history."""
  def __init__(self, collect_worlds=False, internal=True):
    self.issues = []          # (kind, what)
    self.worlds = []          # (coq term, description) for (L3)
    self.collect_worlds = collect_worlds
    self.internal = internal  # also look at the reverse index of the live column objects
    self.stats = {}

  def bump(self, k):
    self.stats[k] = self.stats.get(k, 0) + 1

  def before(self, e, bundle):
    k4 = K()
    tok = {'rows': {t: set(e.tables[t].row_ids) for t in e.tables}, 'single': None, 'world': None}
    if self.internal:
      tok['stale'] = {(tid, cid) for tid, cid, c in k4.ref_columns(e, data_only=False) if k4.index_exact(c)}
    sr = single_removal(bundle)
    # the exact comparison is for documents without summary tables: their upkeep (regrouping, auto-removal of
    # empty groups) legitimately rewrites other rows; oracle (i) below still covers those documents
    if sr and sr[0] in e.tables and not sr[0].startswith('_grist_') and not has_summary_tables(e) \
       and not has_dependent_triggers(e):
      tok['single'] = sr
      tok['cells'] = cells_of(e)
      if self.collect_worlds:
        try:
          tok['world'] = k4.world_snapshot(e, sr[0])
        except k4.Unrepresentable:
          self.bump('world:unrepresentable')
    return tok

  def after(self, e, bundle, out, tok, history, exc):
    k4 = K()
    self.bump('bundles')
    if tok['world'] is not None:
      self.world_case(e, bundle, out, tok, exc)
    if out is None:
      self.bump('bundles_failed')
      # the rollback of a ReplaceTableData is a ReplaceTableData: the same clear() that keeps the relation
      for tid, cid, c in (k4.ref_columns(e, data_only=False) if self.internal else []):
        d = k4.index_exact(c)
        if d and (tid, cid) not in tok['stale']:
          replaced = any(a[0] == 'ReplaceTableData' and a[1] == tid for a in bundle)
          self.issues.append(('stale_index_after_replace_table_data' if replaced else 'stale_index_after_failed_bundle',
                              'after the failed bundle %r the reverse index of %s.%s is not the reverse of its cells: %s'
                              % (bundle, tid, cid, d)))
          return 'stop'
      return None
    replaced = {a[1]: set(a[2]) for a in bundle if a[0] == 'ReplaceTableData'}
    now = {t: set(e.tables[t].row_ids) for t in e.tables}
    # a table that disappeared because it was RENAMED has not lost its rows
    renamed = {a[1] for a in bundle if a[0] == 'RenameTable'} | \
              ({t for t in tok['rows'] if t not in now}
               if any(a[0] in ('UpdateRecord', 'BulkUpdateRecord') and a[1] == '_grist_Tables' and 'tableId' in (a[3] or {})
                      for a in bundle) else set())
    removed = {t: rows - now.get(t, set()) for t, rows in tok['rows'].items() if t in now or t not in renamed}
    cols = k4.ref_columns(e)
    # (i) no cell mentions a row removed by this bundle.  An undo is exempt: it re-creates the state before the
    # undone bundle exactly (C01), including references that were dangling then.
    is_undo = bool(bundle) and bundle[0][0] == '@UndoPrevious'
    for tid, cid, c in ([] if is_undo else cols):
      rm = removed.get(k4.target_id(c))
      if not rm:
        continue
      self.bump('removal_seen_by_refcol')
      if c.has_formula():
        self.bump('removal_seen_by_data_refcol_with_formula')
      expl = None
      for r in e.tables[tid].row_ids:
        for t in c._value_iterable(c.raw_get(r)):
          if t in rm:
            if expl is None:
              expl = explicit_ids(bundle, tid, cid)
            if t in expl:
              continue
            tgt = k4.target_id(c)
            kind = ('replace_table_data_leaves_references'
                    if tgt in replaced and t not in replaced[tgt] else 'dangling_reference')
            self.issues.append((kind, '%s.%s[%d] still refers to %s row %d removed by %r' % (
              tid, cid, r, tgt, t, bundle)))
            return 'stop'
    # (ii) a single record removal filters exactly the removed ids, in order, and touches nothing else
    if tok['single']:
      table_id, rows = tok['single']
      rmset = set(rows)
      hit = False
      for (tid, cid), (tgt, kind, old) in tok['cells'].items():
        if not (tid in e.tables and e.tables[tid].has_column(cid)):
          continue
        c = e.tables[tid].get_column(cid)
        for r in e.tables[tid].row_ids:
          want = want_without(kind, old.get(r), rmset) if tgt == table_id else old.get(r)
          hit = hit or want != old.get(r)
          got = c.raw_get(r)
          same_type = type(got) is type(want) or (isinstance(got, list) and isinstance(want, list))
          if got != want or not same_type:      # (a RecordList from a lookup formula is a list of ids like any other)
            self.issues.append(('removal_wrong_cell', 'after %r: %s.%s[%d] was %r, is %r, expected %r' % (
              bundle, tid, cid, r, old.get(r), c.raw_get(r), want)))
            return 'stop'
      self.bump('single_removal_hit' if hit else 'single_removal_nohit')
    # (iii) the reverse index of every live column is exact
    if self.internal:
      for tid, cid, c in k4.ref_columns(e, data_only=False):
        d = k4.index_exact(c)
        if d and (tid, cid) not in tok['stale']:
          kind = 'stale_index_after_replace_table_data' if tid in replaced else 'stale_index'
          self.issues.append((kind, 'after %r the reverse index of %s.%s is not the reverse of its cells: %s' % (
            bundle, tid, cid, d)))
          return 'stop'
    return None

  def world_case(self, e, bundle, out, tok, exc):
    k4 = K()
    before, names = tok['world']
    table_id, rows = tok['single']
    try:
      if out is not None:
        after, _ = k4.world_snapshot(e, table_id, names=names)
        expected = '(Ok %s)' % after
      else:
        name = k4.enc_err(exc)
        if name is None:
          self.bump('world:other_exception')
          return
        expected = '(Err %s)' % name
      self.worlds.append(('(%s, %s, %s)' % (before, k4.natlist(rows), expected),
                          '%r on columns %r' % (bundle, names)))
      self.bump('world:%s' % ('ok' if out is not None else 'err'))
    except k4.Unrepresentable:
      self.bump('world:unrepresentable')


STREAMS = {
  'main': dict(weights={'summary': 1}, undo_prob=0.12),     # summary tables: auto-removal of empty groups
  'replace': dict(weights={'replacedata': 9, 'rmrec': 12, 'refupd': 8}, undo_prob=0.0),
}
KNOWN_KINDS = ('replace_table_data_leaves_references',)


def run_pass(ctx, stream, n_hist, nb):
  """Histories of one stream with the recorder and the oracle on; returns trace cases, world cases, issues."""
  k4 = K()
  from harness import k4hist
  rec = k4.Recorder()
  traces, worlds, issues = [], [], []
  stats = {}
  try:
    for h in range(n_hist):
      seed = ctx.rng.getrandbits(32)
      orc = Oracle(collect_worlds=True)
      e, history, gen = k4hist.run_history(random.Random(seed), nb, before_bundle=orc.before,
                                           after_bundle=orc.after, **STREAMS[stream])
      for k, v in list(orc.stats.items()) + [('gen:' + k, v) for k, v in gen.stats.items()]:
        stats[k] = stats.get(k, 0) + v
      for kind, what in orc.issues:
        issues.append({'kind': kind, 'what': what, 'stream': stream, 'seed': seed, 'history': history})
      worlds.extend(orc.worlds)
      # (L2) the calls every live reference column received, replayed by the model
      live = [(tid, cid, c) for tid, cid, c in k4.ref_columns(e, data_only=False) if hasattr(c, '_k4_ops')]
      ctx.rng.shuffle(live)
      for tid, cid, c in live[:ctx.n(4, 8)]:
        ops = c._k4_ops
        if len(ops) > 500:
          stats['trace:too_long'] = stats.get('trace:too_long', 0) + 1
          continue
        try:
          strs = [o[2] for o in ops if o[0] == 'set' and isinstance(o[2], str)]
          term = '(%s, %s, %s, %s)' % (k4.kind_of(c), k4.hack_table(strs, k4.any_rl_column()),
                                       core.coq_list([k4.enc_op(o) for o in ops]), k4.enc_col(c))
        except k4.Unrepresentable:
          stats['trace:unrepresentable'] = stats.get('trace:unrepresentable', 0) + 1
          continue
        traces.append((term, '%s.%s after %d calls (stream %s seed %d)' % (tid, cid, len(ops), stream, seed),
                       any(c._relation.inverse_map.values()), len(ops)))
  finally:
    rec.close()
  return {'traces': traces, 'worlds': worlds, 'issues': issues, 'stats': stats}


def passes(ctx):
  if not hasattr(ctx, '_c10_passes'):
    ctx._c10_passes = {
      'main': run_pass(ctx, 'main', ctx.n(30, 500), ctx.n(12, 16)),
      'replace': run_pass(ctx, 'replace', ctx.n(8, 120), ctx.n(10, 12)),
    }
    ctx.log('histories done')
    for name, p in ctx._c10_passes.items():
      for k, v in sorted(p['stats'].items()):
        ctx.bump('%s:%s' % (name, k), v)
  return ctx._c10_passes


def regenerate(ctx):
  from harness import k4diff
  k4diff.regenerate(ctx)


def correspond(ctx):
  from harness import k4diff
  k4diff.relation_cases(ctx)
  k4diff.cleanup_condition_cases(ctx)
  ops_cases(ctx)
  updates_cases(ctx)
  ps = passes(ctx)
  traces = ps['main']['traces'] + ps['replace']['traces']
  for term, what, nontrivial, n in traces:
    ctx.count(('trace', what), nontrivial=nontrivial, kind='trace:calls<=%d' % (10 if n <= 10 else 50 if n <= 50 else 500))
  check = ('fun c => match c with (k, tbl, ops, expected) => '
           'res_eqb col_eqb (run_from (hack_of tbl) %s (col_new k) ops) (Ok expected) end' % CLEAR_FIXED)
  bad = ctx.run_cases('traces', IMPORTS, check, [t[0] for t in traces], shard=60, timeout=600)
  ctx.log("traces done")
  for i in bad[:5]:
    ctx.broken('correspondence:the calls a real column received, replayed by RefIndex.run, give another state',
               traces[i][1])
  worlds = ps['main']['worlds'] + ps['replace']['worlds']
  for term, what in worlds:
    ctx.count(('world', term), nontrivial=True, kind='world')
  check = ('fun c => match c with (wd, removed, expected) => '
           'res_eqb world_eqb (remove_rows (hack_of []) wd removed) expected end')
  bad = ctx.run_cases('worlds', IMPORTS, check, [w[0] for w in worlds], shard=300, timeout=600)
  for i in bad[:5]:
    ctx.broken('correspondence:RefIndex.remove_rows differs from the engine on a record removal', worlds[i][1])


def fixed_corpus(ctx):
  """Witnesses of repaired defects stay in the corpus and are run first: a regression is a violation again."""
  for k in core.load_known():
    if k['property'] == ID and k.get('kind') == 'fixed' and k.get('witness'):
      try:
        d = replay(ctx, k['witness'])
      except Exception as ex:      # pylint: disable=broad-except
        d = 'replay raised %r' % (ex,)
      ctx.count(('fixed', k['id']), nontrivial=True, kind='fixed-witness:' + ('fails-again' if d else 'holds'))
      if d:
        ctx.violation(k.get('violation_kind') or 'regression',
                      'repaired by %s, fails again: %s' % (k.get('commit'), d), k['witness'])


def search(ctx):
  fixed_corpus(ctx)
  ps = passes(ctx)
  seen = set()
  for name in ('main', 'replace'):
    for iss in ps[name]['issues']:
      if iss['kind'] in seen and iss['kind'] in KNOWN_KINDS:
        continue
      seen.add(iss['kind'])
      hist = shrink(iss['history'], iss['kind']) if iss['kind'] not in KNOWN_KINDS else iss['history']
      ctx.violation(iss['kind'], iss['what'], {'history': hist, 'kind': iss['kind'], 'seed': iss['seed'],
                                               'stream': iss['stream']})


def first_issue(history, kind=None, internal=True):
  from harness import k4hist
  orc = Oracle(collect_worlds=False, internal=internal)
  k4hist.replay_history(history, before_bundle=orc.before, after_bundle=orc.after)
  for k, what in orc.issues:
    if kind is None or k == kind:
      return k, what
  return None


def shrink(history, kind):
  from harness import histgen
  try:
    return histgen.shrink_list(history, lambda h: first_issue(h, kind) is not None, max_steps=60)
  except Exception:      # pylint: disable=broad-except
    return history


def replay(ctx, w):
  got = first_issue(w['history'], w.get('kind'), internal=not w.get('visible_only'))
  return got[1] if got else None
