"""C10 -- Removing rows leaves no references to them (K4: RefIndex.v)."""
import copy
import itertools
import logging

from harness import core

ID = 'C10'
TITLE = 'Removing rows leaves no references to them'
PROPS = ['Props/C10']
DISABLED = True
RULE = 'under construction'
TRUSTED = []
ASSUMPTIONS = []
TECHNIQUE = ''
LEVEL_TEXT = ''
LEVEL_NOTE = ''

logging.disable(logging.CRITICAL)

IMPORTS = ['Grist.Model.RefIndex']


def K():
  from harness import k4env
  return k4env


# ---------------------------------------------------------------------------------------------
# (L1) op sequences on REAL ReferenceColumn / ReferenceListColumn objects vs the model's `run`

def ops_cases(ctx):
  k4 = K()
  r = ctx.rng
  fx = k4.Fixture()
  cases, metas = [], []
  n = ctx.n(500, 6000)
  for i in range(n):
    kind = r.choice(['KRef', 'KRefList'])
    ops = k4.gen_ops(r, kind, r.choice([1, 2, 3, 4, 6, 8, 12]), with_clear=(i % 4 == 0))
    try:
      status, out = k4.run_real_ops(fx, kind, ops)
      strs = [o[2] for o in ops if o[0] == 'set' and isinstance(o[2], str)]
      hack = k4.hack_table(strs, fx.col('KRefList'))
      expected = '(Ok %s)' % k4.enc_col(out) if status == 'ok' else '(Err %s)' % out
      term = '(%s, %s, %s, %s)' % (kind, hack, core.coq_list([k4.enc_op(o) for o in ops]), expected)
    except k4.Unrepresentable:
      ctx.bump('ops:unrepresentable')
      continue
    cases.append(term)
    metas.append((kind, ops))
    nontrivial = status == 'ok' and any(out._relation.inverse_map.values())
    ctx.count(('ops', kind, repr(ops)), nontrivial=nontrivial, kind='ops:%s:%s' % (kind, status),
              sample={'kind': kind, 'ops': repr(ops)[:300]} if i < 2 else None)
  check = ('fun c => match c with (k, tbl, ops, expected) => '
           'res_eqb col_eqb (run (hack_of tbl) k ops) expected end')
  bad = ctx.run_cases('ops', IMPORTS, check, cases, shard=1500)
  for i in bad[:5]:
    ctx.broken('correspondence:RefIndex.run differs from the real column on an op sequence',
               'kind=%s ops=%r' % metas[i])


def correspond(ctx):
  ops_cases(ctx)


def search(ctx):
  pass


def replay(ctx, w):
  return None
