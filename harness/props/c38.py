"""C38 -- Node and the engine agree on metadata schema and type defaults.

Python side:  sandbox/grist/schema.py (SCHEMA_VERSION, schema_create_actions), sandbox/gen_js_schema.py (the
generator), usertypes._type_defaults / get_type_default.
Node side:    app/common/schema.ts (generated text), app/common/gristTypes.ts _defaultValues / getDefaultForType.

regenerate   writes from the current files, on every run:
             DATA  coq/gen/PySchema_gen.v (schema, _ts_types, _type_defaults), TsSchema_gen.v (text of schema.ts, _defaultValues)
             CODE  coq/gen/JsGen_gen.v = gen_js_schema.py get_ts_type/main + usertypes get_pure_type/get_type_default
                   (harness/js2v.py), coq/gen/TsGen_gen.v = gristTypes.ts extractTypeFromColType/getDefaultForType
                   (harness/ts2v.py); both translators are fail closed.
Props/C38.v  bridging obligations (translated function = hand model, pointwise, Proofs/JsSchema_bridge.v), and the property
             theorems stated about the translated functions (C38_code_*): main(schema) = Some(text of schema.ts), equal
             defaults, injectivity of the generated text.
correspond   translator validation: translated main (vm_compute) vs the running gen_js_schema.main() on mutated schemas;
             translated get_type_default vs the running one on mutated tables; translated TS functions vs node running the
             real (de-typed) functions on mutated _defaultValues literals; _defaultValues parser vs node; prototype names.
search       the same comparisons done directly on the implementation files, with a precise diff.
"""
import contextlib
import difflib
import importlib.util
import io
import json
import os
import re
import shutil
import struct
import subprocess
import sys
import types

from harness import core

ID = 'C38'
TITLE = 'Node and the engine agree on metadata schema and type defaults'
PROPS = ['Props/C38']
RULE = ('search: exhaustive over the current tree - every metadata table (both blocks of schema.ts) and every type name '
        'listed in usertypes._type_defaults or gristTypes._defaultValues plus an unlisted name and ":suffix" forms; '
        'correspondence: randomly mutated schemas (plus the whole real schema in the thorough tier; subsets of real tables, extra tables/columns, '
        'every _ts_types key with and without suffix, unknown types, ids of length 0/19/20/21/40, quotes, colons, '
        'spaces, newlines, %, non-BMP characters, odd versions, mutated _ts_types) fed to the real gen_js_schema.main(), '
        'and mutated _type_defaults tables fed to the real get_type_default; a schema case is non-trivial when it has at '
        'least one table with at least one column, a default case when the type is listed in the (mutated) table or '
        'carries a suffix; a TS-function case (mutated _defaultValues literal, column type incl. Object.prototype names, sqlFormatted flag) always')
TRUSTED = ['harness data extraction: schema.py / _ts_types / _type_defaults imported and written as Coq data; '
           'app/common/schema.ts read as code points',
           'harness parser of the gristTypes.ts _defaultValues literal (strict, fail closed; cross-checked on every run '
           'against node evaluating the same literal when node is available)',
           'translators harness/js2v.py (Python subset incl. print/for/% formatting) and harness/ts2v.py (tokeniser + parser + '
           'typed translation of two TS functions): validated on every run against the running Python functions and against '
           'node running the de-typed TS functions',
           'Lib/JsPrelude.v: py_percent (the % operator: %s, %-Ns, %Ns, %d, %%), print/for combinators, split(c,1)[0], '
           'dict.get, JS indexOf/slice/!str, object-literal lookup through Object.prototype (name list compared with node)',
           'value-crossing map py_wire/ts_wire: Python int and float both reach Node as a binary64 number; None=null; '
           'undefined equals nothing']

ASSUMPTIONS = ['render_injective: table ids contain no double quote, column ids no space and no colon, types no double '
               'quote (schema_ok; checked on the real schema by C38_real_schema_ok) - the generator does no escaping',
               'isFormula/formula of metadata columns are not printed by the generator, so schema.ts cannot and does '
               'not carry them; agreement is on version, table ids, column ids and types (schema_core)',
               'defaults are compared as the value Node sees (binary64 bit pattern for numbers); -0.0 differs from 0',
               'C38_code_defaults_equal excludes the 12 property names of Object.prototype (constructor, toString, ...): for '
               'those getDefaultForType returns undefined (C38_defaults_refuted_on_prototype_names); none is a Grist type',
               'JS strings are modelled as code points (indexOf/slice are used only to cut at the first colon, where code '
               'units and code points give the same prefix)']

TECHNIQUE = ('Coq: deciding code of both sides (generator script, get_type_default, getDefaultForType) translated from source '
             'on every run and bridged pointwise to the hand model; data of both sides regenerated; equalities by vm_compute; '
             'render_injective for all schemas; differential validation of the translators; direct file comparison as oracle')

LEVEL_TEXT = ('Kernel-checked: main() of gen_js_schema.py as translated on this run, applied to the schema extracted from '
              'schema.py, writes exactly the text of app/common/schema.ts; for every column type (except the 12 names of '
              'Object.prototype members) getDefaultForType as translated from gristTypes.ts returns the value Node receives for '
              'get_type_default as translated from usertypes.py; for all schemas equal generated text implies equal version, '
              'tables, column ids and types. Code and data are re-extracted from /repo on every run; the translators are '
              'validated against the running Python functions and against node.')

LEVEL_NOTE = ('Trusted: Coq kernel, the data extractors, the strict _defaultValues parser (cross-checked with node), the '
              'translators js2v/ts2v and Lib/JsPrelude primitives (differentially validated each run). The two equalities are '
              'finite and exhaustive for the current tree; bridging lemmas and render_injective are for all inputs.')

GEN = os.path.join(core.COQ, 'gen')


# ---------------------------------------------------------------------------------------------
# the implementation side

def repo_path(*p):
  return os.path.join(core.REPO, *p)


_gen_mod = None


def gen_module():
  """sandbox/gen_js_schema.py imported as a module (its main() is guarded)."""
  global _gen_mod
  if _gen_mod is None:
    core.setup_impl_path()
    path = repo_path('sandbox', 'gen_js_schema.py')
    spec = importlib.util.spec_from_file_location('c38_gen_js_schema', path)
    mod = importlib.util.module_from_spec(spec)
    spec.loader.exec_module(mod)
    for name in ('main', '_ts_types', 'schema'):
      if not hasattr(mod, name):
        raise core.TieBroken('gen_js_schema.py has no %r any more' % name)
    _gen_mod = mod
  return _gen_mod


def real_schema():
  """(version, [(table_id, [(id, type, isFormula, formula)])]) from the imported schema.py; fail closed."""
  import schema
  v = schema.SCHEMA_VERSION
  if type(v) is not int:
    raise core.TieBroken('schema.SCHEMA_VERSION is %r, not an int' % (v,))
  tables = []
  for a in schema.schema_create_actions():
    if type(a).__name__ != 'AddTable' or not isinstance(a.table_id, str):
      raise core.TieBroken('schema_create_actions() yields %r' % (a,))
    cols = []
    for c in a.columns:
      if not (isinstance(c, dict) and set(c) == {'id', 'type', 'isFormula', 'formula'} and
              isinstance(c['id'], str) and isinstance(c['type'], str) and
              type(c['isFormula']) is bool and isinstance(c['formula'], str)):
        raise core.TieBroken('column record of unexpected shape in %s: %r' % (a.table_id, c))
      cols.append((c['id'], c['type'], c['isFormula'], c['formula']))
    tables.append((a.table_id, cols))
  return v, tables


def real_ts_types():
  tt = gen_module()._ts_types
  if not (isinstance(tt, dict) and all(isinstance(k, str) and isinstance(x, str) for k, x in tt.items())):
    raise core.TieBroken('gen_js_schema._ts_types is not a dict of strings')
  return list(tt.items())


def run_generator(version, tables, ts_types=None):
  """The real gen_js_schema.main() on the given schema (its `schema` global is swapped for the call)."""
  import actions
  import schema as real
  gen = gen_module()
  fake = types.SimpleNamespace(
    SCHEMA_VERSION=version,
    schema_create_actions=lambda: [
      actions.AddTable(tid, [real.make_column(cid, ctype, formula=f, isFormula=isf) for (cid, ctype, isf, f) in cols])
      for (tid, cols) in tables])
  saved = (gen.schema, gen._ts_types)
  buf = io.StringIO()
  try:
    gen.schema = fake
    if ts_types is not None:
      gen._ts_types = dict(ts_types)
    with contextlib.redirect_stdout(buf):
      gen.main()
  finally:
    gen.schema, gen._ts_types = saved
  return buf.getvalue()


def run_generator_real_inprocess():
  gen = gen_module()
  buf = io.StringIO()
  with contextlib.redirect_stdout(buf):
    gen.main()
  return buf.getvalue()


def run_generator_subprocess():
  """As buildtools/update_schema.sh does: python -B sandbox/gen_js_schema.py with sandbox/grist on the path."""
  env = dict(os.environ)
  env['PYTHONPATH'] = os.pathsep.join([os.path.join(core.VERIF, 'stubs'), core.GRIST])
  env['PYTHONIOENCODING'] = 'utf-8'
  p = subprocess.run([core.PY, '-B', repo_path('sandbox', 'gen_js_schema.py')], cwd=core.REPO, env=env,
                     stdout=subprocess.PIPE, stderr=subprocess.PIPE, timeout=120)
  if p.returncode != 0:
    raise core.TieBroken('gen_js_schema.py exits %d: %s' % (p.returncode, p.stderr.decode('utf8', 'replace')[-800:]))
  return p.stdout.decode('utf-8', 'surrogateescape')


def schema_ts_text():
  with open(repo_path('app', 'common', 'schema.ts'), 'rb') as f:
    return f.read().decode('utf-8', 'surrogateescape')


def float_bits(x):
  return struct.unpack('>Q', struct.pack('>d', x))[0]


def real_type_defaults():
  import usertypes
  d = usertypes._type_defaults
  if not isinstance(d, dict):
    raise core.TieBroken('usertypes._type_defaults is not a dict')
  out = []
  for k, v in d.items():
    if not isinstance(k, str):
      raise core.TieBroken('_type_defaults key %r' % (k,))
    out.append((k, py_val(v)))
  return out


def py_val(v):
  """A Python default as a tagged tuple; fail closed on anything but None/bool/int/float/str."""
  if v is None:
    return ('none',)
  if type(v) is bool:
    return ('bool', v)
  if type(v) is int:
    return ('int', v)
  if type(v) is float:
    return ('float', float_bits(v))
  if type(v) is str:
    return ('str', v)
  raise core.TieBroken('default value %r of type %s has no model' % (v, type(v).__name__))


# --- gristTypes.ts

_KEY = r'(?:[A-Za-z_$][A-Za-z0-9_$]*|"[^"\\\n]*"|\'[^\'\\\n]*\')'
_STR = r'(?:"[^"\\\n]*"|\'[^\'\\\n]*\')'
_LIT = (r'(?:null|true|false|-?(?:0|[1-9][0-9]*)(?:\.[0-9]+)?|Number\.POSITIVE_INFINITY|Number\.NEGATIVE_INFINITY|'
        r'-?Infinity|' + _STR + ')')
_ENTRY = re.compile(r'^\s*(%s)\s*:\s*\[\s*(%s)\s*,\s*(%s)\s*,?\s*\]\s*,?\s*(?://.*)?$' % (_KEY, _LIT, _STR))
_DECL = re.compile(r'^(?:export\s+)?const\s+_defaultValues\s*(?::[^=\n]*)?=\s*\{\s*$')


def gristtypes_text():
  with open(repo_path('app', 'common', 'gristTypes.ts'), 'rb') as f:
    return f.read().decode('utf-8')


def defaults_literal_lines(text):
  lines = text.split('\n')
  starts = [i for i, l in enumerate(lines) if _DECL.match(l)]
  if len(starts) != 1:
    raise core.TieBroken('expected exactly one "const _defaultValues ... = {" line in gristTypes.ts, found %d' % len(starts))
  body = []
  for l in lines[starts[0] + 1:]:
    if re.match(r'^\};\s*$', l):
      return body
    body.append(l)
  raise core.TieBroken('no closing "};" line after _defaultValues')


def parse_ts_literal(tok):
  if tok == 'null':
    return ('null',)
  if tok in ('true', 'false'):
    return ('bool', tok == 'true')
  if tok in ('Number.POSITIVE_INFINITY', 'Infinity'):
    return ('posinf',)
  if tok in ('Number.NEGATIVE_INFINITY', '-Infinity'):
    return ('neginf',)
  if tok[0] in '"\'':
    return ('str', tok[1:-1])
  if re.match(r'^-?[0-9]+$', tok):
    if tok.startswith('-') and int(tok) == 0:
      return ('float', float_bits(-0.0))       # the JS literal -0
    return ('int', int(tok))
  if re.match(r'^-?[0-9]+\.[0-9]+$', tok):
    return ('float', float_bits(float(tok)))   # nearest binary64, as in JS
  raise core.TieBroken('literal %r is outside the parsed forms' % tok)


def parse_default_pairs(text):
  """[(type name, literal, sql string)] from the _defaultValues object literal; anything unexpected aborts."""
  out = []
  seen = set()
  for l in defaults_literal_lines(text):
    if not l.strip() or re.match(r'^\s*//', l):
      continue
    m = _ENTRY.match(l)
    if not m:
      raise core.TieBroken('_defaultValues line is outside the parsed forms: %r' % l)
    key = m.group(1)
    if key[0] in '"\'':
      key = key[1:-1]
    if key in seen or key == '__proto__':
      raise core.TieBroken('_defaultValues key %r repeated/special' % key)
    seen.add(key)
    out.append((key, parse_ts_literal(m.group(2)), m.group(3)[1:-1]))
  if not out:
    raise core.TieBroken('_defaultValues is empty')
  return out


def parse_default_values(text):
  """[(type name, literal)]: the first components."""
  return [(k, v) for k, v, _ in parse_default_pairs(text)]


# --- the value Node sees (Python mirror of py_wire / ts_wire in the model; used by search and as expected outputs)

def int_wire(z):
  return ('num', float_bits(float(z))) if abs(z) < 2 ** 53 else ('bad',)


def py_wire(v):
  tag = v[0]
  if tag == 'none':
    return ('null',)
  if tag == 'int':
    return int_wire(v[1])
  if tag == 'float':
    return ('num', v[1])
  return v                      # bool, str


def ts_wire(v):
  tag = v[0]
  if tag == 'int':
    return int_wire(v[1])
  if tag == 'float':
    return ('num', v[1])
  if tag == 'posinf':
    return ('num', float_bits(float('inf')))
  if tag == 'neginf':
    return ('num', float_bits(float('-inf')))
  if tag == 'missing':
    return ('bad',)
  return v                      # null, bool, str


def show_wire(w):
  if w[0] == 'num':
    return 'number %r' % struct.unpack('>d', struct.pack('>Q', w[1]))[0]
  if w[0] == 'null':
    return 'null/None'
  if w[0] == 'bad':
    return '<no value>'
  return '%s %r' % (w[0], w[1])


def pure_type(t):
  return t.split(':', 1)[0]


# ---------------------------------------------------------------------------------------------
# Coq literals

def _plain(c):
  return c == '\n' or (' ' <= c <= '~')


def S(s):
  """A Python str as a Coq term of type list Z (code points): runs of printable ASCII and newlines are written as
  `str "..."` (Model.JsSchema.str: Coq string literal -> code points; a double quote is written twice), everything
  else as numerals.  Much faster for coqc to read than one numeral per character."""
  parts = []
  i = 0
  while i < len(s):
    j = i
    plain = _plain(s[i])
    while j < len(s) and _plain(s[j]) == plain:
      j += 1
    run = s[i:j]
    if plain:
      # short literals: coqc's string notation is superlinear in the length of a literal
      parts.extend('str "%s"%%string' % run[k:k + 100].replace('"', '""') for k in range(0, len(run), 100))
    else:
      parts.append(core.zlist([ord(c) for c in run]))
    i = j
  if not parts:
    return '[]'
  return '(' + ' ++ '.join(parts) + ')'


def coq_schema(version, tables):
  ts = []
  for tid, cols in tables:
    cs = ['mkColumn %s %s %s %s' % (S(cid), S(ctype), core.boollit(isf), S(f)) for (cid, ctype, isf, f) in cols]
    ts.append('mkTable %s %s' % (S(tid), core.coq_list(cs)))
  return '(mkSchema %s %s)' % (core.zlit(version), core.coq_list(ts))


def coq_pairs(pairs, f=S):
  return core.coq_list(['(%s, %s)' % (S(k), f(v)) for k, v in pairs])


def coq_py_val(v):
  return {'none': lambda: 'PyNone', 'bool': lambda: '(PyBool %s)' % core.boollit(v[1]),
          'int': lambda: '(PyInt %s)' % core.zlit(v[1]), 'float': lambda: '(PyFloat %s)' % core.zlit(v[1]),
          'str': lambda: '(PyStr %s)' % S(v[1])}[v[0]]()


def coq_ts_lit(v):
  return {'null': lambda: 'TsNull', 'bool': lambda: '(TsBool %s)' % core.boollit(v[1]),
          'int': lambda: '(TsInt %s)' % core.zlit(v[1]), 'float': lambda: '(TsFloat %s)' % core.zlit(v[1]),
          'str': lambda: '(TsStr %s)' % S(v[1]), 'posinf': lambda: 'TsPosInf', 'neginf': lambda: 'TsNegInf'}[v[0]]()


def coq_wire(w):
  return {'null': lambda: 'WNull', 'bool': lambda: '(WBool %s)' % core.boollit(w[1]),
          'num': lambda: '(WNum %s)' % core.zlit(w[1]), 'str': lambda: '(WStr %s)' % S(w[1]),
          'bad': lambda: 'WBad'}[w[0]]()


def coq_text_chunks(name, text, chunk=2000):
  """A long text as `name : list Z` = concat of chunk definitions (keeps every literal short)."""
  parts = [text[i:i + chunk] for i in range(0, len(text), chunk)]
  lines = ['Definition %s_chunk_%d : list Z := %s.' % (name, i, S(p)) for i, p in enumerate(parts)]
  lines.append('Definition %s : list Z := concat %s.' %
               (name, core.coq_list(['%s_chunk_%d' % (name, i) for i in range(len(parts))])))
  return '\n'.join(lines)


HEAD = ('(* GENERATED by harness/props/c38.py from %s on every run -- do not edit *)\n'
        'From Coq Require Import String ZArith List Bool.\nImport ListNotations.\n'
        'Require Import Grist.Model.JsSchema.\nOpen Scope Z_scope.\n\n')


def regenerate(ctx):
  os.makedirs(GEN, exist_ok=True)
  try:
    _regenerate(ctx)
  except Exception as e:
    # never leave data of an earlier run behind: the theorems must not be checked against stale files
    for name in ('PySchema_gen.v', 'TsSchema_gen.v', 'JsGen_gen.v', 'TsGen_gen.v'):
      if name not in ctx.extra.get('regenerated', []):
        core.write_if_changed(os.path.join(GEN, name),
                              '(* regeneration failed on this run: the data could not be extracted *)\n'
                              'Definition regeneration_failed_%s := tt.\n' % name[:-2])
    raise


def _regenerate(ctx):
  version, tables = real_schema()
  tt = real_ts_types()
  pyd = real_type_defaults()
  py_text = (HEAD % 'sandbox/grist/schema.py, sandbox/gen_js_schema.py (_ts_types), sandbox/grist/usertypes.py' +
             '(* schema.SCHEMA_VERSION and schema.schema_create_actions() *)\n'
             'Definition py_schema : schema :=\n  %s.\n\n' % coq_schema(version, tables).replace('; mkTable', ';\n   mkTable') +
             '(* gen_js_schema._ts_types *)\n'
             'Definition js_ts_types : list (list Z * list Z) :=\n  %s.\n\n' % coq_pairs(tt) +
             '(* usertypes._type_defaults (floats as binary64 bit patterns) *)\n'
             'Definition py_type_defaults : list (list Z * py_val) :=\n  %s.\n' % coq_pairs(pyd, coq_py_val))
  core.write_if_changed(os.path.join(GEN, 'PySchema_gen.v'), py_text)
  ctx.extra.setdefault('regenerated', []).append('PySchema_gen.v')

  tsp = parse_default_pairs(gristtypes_text())
  tsd = [(k, v) for k, v, _ in tsp]
  ts_text = (HEAD % 'app/common/schema.ts, app/common/gristTypes.ts (_defaultValues)' +
             '(* the text of app/common/schema.ts, as code points *)\n' +
             coq_text_chunks('schema_ts_text', schema_ts_text()) + '\n\n' +
             '(* gristTypes.ts _defaultValues: name -> [default, its SQLite representation] *)\n'
             'Definition ts_default_pairs : list (list Z * (ts_lit * ts_lit)) :=\n  %s.\n\n' %
             core.coq_list(['(%s, (%s, TsStr %s))' % (S(k), coq_ts_lit(v), S(q)) for k, v, q in tsp]) +
             '(* the first components *)\n'
             'Definition ts_default_values : list (list Z * ts_lit) := first_components ts_default_pairs.\n')
  core.write_if_changed(os.path.join(GEN, 'TsSchema_gen.v'), ts_text)
  ctx.extra['regenerated'].append('TsSchema_gen.v')

  # the deciding CODE of both sides, translated on every run (fail closed)
  from harness import js2v, ts2v
  try:
    core.write_if_changed(os.path.join(GEN, 'JsGen_gen.v'),
                          js2v.translate_all(repo_path('sandbox', 'gen_js_schema.py'), os.path.join(core.GRIST, 'usertypes.py')))
    ctx.extra['regenerated'].append('JsGen_gen.v')
    core.write_if_changed(os.path.join(GEN, 'TsGen_gen.v'), ts2v.translate(gristtypes_text()))
    ctx.extra['regenerated'].append('TsGen_gen.v')
  except js2v.Untranslatable as e:
    raise core.TieBroken('outside the translated subset: %s' % e)
  ctx.extra['data'] = {'schema_version': version, 'tables': len(tables),
                       'columns': sum(len(c) for _, c in tables), 'schema_ts_chars': len(schema_ts_text()),
                       'py_default_types': len(pyd), 'ts_default_types': len(tsd), 'ts_types': len(tt)}


# ---------------------------------------------------------------------------------------------
# correspondence: model vs implementation

ODD = ['"', ':', ' ', '\n', '%', '%s', '\\', '\t', '\u00e9', '\u00a0', '\u2028', '\U0001F600', "'", '}', '{', ',', ';', '/*', '0']
WORDS = ['tableId', 'colRef', 'parentId', 'x', 'A', 'recordCardViewSectionRef', 'a_b', 'manualSort', 'id', 'type']


def gen_ident(rng, odd):
  r = rng.random()
  if r < 0.08:
    return ''
  if r < 0.30:
    n = rng.choice([19, 20, 21, 40])
    s = ''.join(rng.choice('abcdefXYZ_09') for _ in range(n))
  else:
    s = rng.choice(WORDS) + (str(rng.randint(0, 99)) if rng.random() < 0.5 else '')
  if odd:
    for _ in range(rng.randint(1, 3)):
      k = rng.randint(0, len(s))
      s = s[:k] + rng.choice(ODD) + s[k:]
  return s


def gen_type(rng, tt_keys, odd):
  r = rng.random()
  if r < 0.55:
    t = rng.choice(tt_keys)
  elif r < 0.8:
    t = rng.choice(['Numeric', 'Any', 'Choice', 'Date', 'Attachments', 'Blob', 'Id', 'ManualSortPos', 'text', 'ref', ''])
  else:
    t = gen_ident(rng, False)
  r = rng.random()
  if r < 0.35:
    t = t + ':' + rng.choice(['_grist_Tables', 'UTC', '', 'a:b', 'Ref', 'X"Y'] if odd else ['_grist_Tables', 'UTC', '', 'a:b', 'Ref'])
  elif r < 0.40:
    t = ':' + t
  if odd and rng.random() < 0.3:
    k = rng.randint(0, len(t))
    t = t[:k] + rng.choice(ODD) + t[k:]
  return t


def gen_schema_case(rng, real, tt):
  """-> (kind, ts_types, version, tables)"""
  version, rtables = real
  tt_keys = [k for k, _ in tt]
  kind = rng.choice(['subset', 'subset', 'extra', 'extra', 'odd', 'odd', 'tstypes', 'tiny'])
  odd = kind == 'odd'
  if kind == 'tiny':
    tables = [] if rng.random() < 0.4 else [(gen_ident(rng, False), [])]
  else:
    tables = []
    for tid, cols in rng.sample(rtables, min(len(rtables), rng.randint(0, 3))):
      cols = [c for c in cols if rng.random() < 0.6]
      if kind != 'subset' and cols and rng.random() < 0.7:
        k = rng.randrange(len(cols))
        c = cols[k]
        cols[k] = (c[0], gen_type(rng, tt_keys, odd), c[2], c[3])          # a changed type
      if kind != 'subset' and rng.random() < 0.7:
        for _ in range(rng.randint(1, 3)):
          cols.insert(rng.randint(0, len(cols)),
                      (gen_ident(rng, odd), gen_type(rng, tt_keys, odd), rng.random() < 0.3,
                       rng.choice(['', '1', "'x'", 'rec.a + "\\n"'])))
      tables.append((tid, cols))
    if kind != 'subset':
      for _ in range(rng.randint(0, 2)):
        cols = [(gen_ident(rng, odd), gen_type(rng, tt_keys, odd), rng.random() < 0.3, '')
                for _ in range(rng.randint(0, 4))]
        tables.insert(rng.randint(0, len(tables)), ('_grist_' + gen_ident(rng, odd) if rng.random() < 0.7 else gen_ident(rng, odd), cols))
    if rng.random() < 0.3:
      rng.shuffle(tables)
  ts_types = list(tt)
  if kind == 'tstypes':
    rng.shuffle(ts_types)
    if ts_types and rng.random() < 0.7:
      ts_types.pop()
    ts_types.append((rng.choice(['Numeric', 'Any', 'text', '']), rng.choice(['number', 'unknown', 'A|"b"', ''])))
    if rng.random() < 0.5:
      k = rng.randrange(len(ts_types))
      ts_types[k] = (ts_types[k][0], rng.choice(['bigint', 'string[]', '']))
  v = rng.choice([version, version, version + 1, 0, 7, -3, 10 ** 25, 120034])
  return kind, ts_types, v, tables


PY_VALUES = [None, True, False, 0, 1, -1, 7, 2 ** 53 - 1, 2 ** 53, -(2 ** 53), 2 ** 60, -5, 1 << 31,
             0.0, -0.0, 1.5, -2.25, float('inf'), float('-inf'), float('nan'), 1e300, 5e-324, 3.0,
             '', 'x', '0', 'None', 'é"']
TYPE_NAMES = ['Any', 'Attachments', 'Blob', 'Bool', 'Choice', 'ChoiceList', 'Date', 'DateTime', 'Id', 'Int',
              'ManualSortPos', 'Numeric', 'PositionNumber', 'Ref', 'RefList', 'Text', 'Foo', '', 'text']


def gen_default_case(rng, real_pyd):
  """-> (table as [(name, python value)], col_type)"""
  if rng.random() < 0.3:
    import usertypes
    table = list(usertypes._type_defaults.items())
  else:
    names = rng.sample(TYPE_NAMES, rng.randint(0, 8))
    table = [(n, rng.choice(PY_VALUES)) for n in names]
  t = rng.choice(TYPE_NAMES) if rng.random() < 0.5 or not table else rng.choice(table)[0]
  r = rng.random()
  if r < 0.3:
    t = t + ':' + rng.choice(['Table1', 'America/New_York', '', 'a:b'])
  elif r < 0.35:
    t = ':' + t
  return table, t


def call_get_type_default(table, col_type):
  import usertypes
  saved = usertypes._type_defaults
  try:
    usertypes._type_defaults = dict(table)
    return usertypes.get_type_default(col_type)
  finally:
    usertypes._type_defaults = saved


NODE_SCRIPT = r'''
const body = require('fs').readFileSync(0, 'utf8');
const obj = eval('({\n' + body + '\n})');
const out = [];
for (const k of Object.keys(obj)) {
  const v = obj[k][0];
  let w;
  if (v === null) { w = ['null']; }
  else if (typeof v === 'boolean') { w = ['bool', v]; }
  else if (typeof v === 'string') { w = ['str', v]; }
  else if (typeof v === 'number') { const b = Buffer.alloc(8); b.writeDoubleBE(v); w = ['num', b.toString('hex')]; }
  else { w = ['other', String(v)]; }
  out.push([k, w, obj[k].length]);
}
console.log(JSON.stringify(out));
'''


def node_eval_defaults(text):
  node = shutil.which('node')
  if not node:
    return None
  body = '\n'.join(defaults_literal_lines(text))
  p = subprocess.run([node, '-e', NODE_SCRIPT], input=body.encode('utf8'), stdout=subprocess.PIPE,
                     stderr=subprocess.PIPE, timeout=60)
  if p.returncode != 0:
    raise core.TieBroken('node cannot evaluate the _defaultValues literal: ' + p.stderr.decode('utf8', 'replace')[-600:])
  out = []
  for k, w, n in json.loads(p.stdout.decode('utf8')):
    if n != 2:
      raise core.TieBroken('_defaultValues[%s] has %d components' % (k, n))
    out.append((k, ('num', int(w[1], 16)) if w[0] == 'num' else tuple(w)))
  return out


TS_NAMES = ('extractTypeFromColType', 'getDefaultForType')
PROTO_NAMES = ['constructor', '__defineGetter__', '__defineSetter__', 'hasOwnProperty', '__lookupGetter__',
               '__lookupSetter__', 'isPrototypeOf', 'propertyIsEnumerable', 'toString', 'valueOf', '__proto__',
               'toLocaleString']          # = Lib.JsPrelude.js_object_prototype_names; compared with node's list


def detyped_ts_functions(text):
  """JavaScript source of the two gristTypes.ts functions: the type annotations are removed textually
  (independently of harness/ts2v.py's parser), so that node can run the real code."""
  out = []
  for name in TS_NAMES:
    ms = re.findall(r'^export (function %s\(.*?^\})' % name, text, re.S | re.M)
    if len(ms) != 1:
      raise core.TieBroken('gristTypes.ts: %s not found exactly once' % name)
    head, body = ms[0].split('\n', 1)
    head = re.sub(r':\s*\{[^}]*\}', '', head)          # `: { sqlFormatted?: boolean }`
    head = re.sub(r':\s*string\b', '', head)
    body = re.sub(r'\s+as\s+[A-Za-z_][A-Za-z0-9_]*', '', body)
    out.append(head + '\n' + body)
  return '\n'.join(out)


def js_literal(v):
  tag = v[0]
  return {'null': lambda: 'null', 'bool': lambda: 'true' if v[1] else 'false', 'int': lambda: str(v[1]),
          'float': lambda: 'B("%016x")' % v[1], 'str': lambda: json.dumps(v[1]), 'posinf': lambda: 'Infinity',
          'neginf': lambda: '-Infinity'}[tag]()


def js_table(pairs):
  return '{' + ', '.join('%s: [%s, %s]' % (json.dumps(k), js_literal(v), json.dumps(q)) for k, v, q in pairs) + '}'


NODE_FUNCS_SCRIPT = r'''
const inp = JSON.parse(require('fs').readFileSync(0, 'utf8'));
function B(hex) { return Buffer.from(hex, 'hex').readDoubleBE(0); }
function enc(v) {
  if (v === undefined) { return ['undefined']; }
  if (v === null) { return ['null']; }
  if (typeof v === 'boolean') { return ['bool', v]; }
  if (typeof v === 'string') { return ['str', v]; }
  if (typeof v === 'number') { const b = Buffer.alloc(8); b.writeDoubleBE(v); return ['num', b.toString('hex')]; }
  return ['other', String(v)];
}
const out = [];
for (const c of inp.cases) {
  let r;
  try {
    const table = eval('(' + inp.tables[c.table] + ')');
    const fns = new Function('_defaultValues', 'B', inp.fns + '\nreturn {getDefaultForType, extractTypeFromColType};')(table, B);
    r = [enc(c.sql === null ? fns.getDefaultForType(c.colType) : fns.getDefaultForType(c.colType, {sqlFormatted: c.sql})),
         fns.extractTypeFromColType(c.colType)];
  } catch (e) { r = [['throw', String(e)], null]; }
  out.push(r);
}
console.log(JSON.stringify({results: out, proto: Object.getOwnPropertyNames(Object.prototype)}));
'''


def node_run_ts_functions(fns_src, tables, cases):
  """tables: [js source]; cases: [(table index, colType, sql flag or None)] -> ([(result, extracted type)], proto names)."""
  node = shutil.which('node')
  if not node:
    return None
  inp = {'fns': fns_src, 'tables': tables, 'cases': [{'table': t, 'colType': c, 'sql': q} for t, c, q in cases]}
  p = subprocess.run([node, '-e', NODE_FUNCS_SCRIPT], input=json.dumps(inp).encode('utf8'), stdout=subprocess.PIPE,
                     stderr=subprocess.PIPE, timeout=120)
  if p.returncode != 0:
    raise core.TieBroken('node cannot run the de-typed gristTypes.ts functions: ' + p.stderr.decode('utf8', 'replace')[-600:])
  res = json.loads(p.stdout.decode('utf8'))
  out = []
  for w, ext in res['results']:
    out.append((('num', int(w[1], 16)) if w[0] == 'num' else (w[0],) if w[0] in ('undefined', 'throw', 'null') else tuple(w), ext))
  return out, res['proto']


TS_LITS = [('null',), ('bool', True), ('bool', False), ('int', 0), ('int', 1), ('int', -7), ('int', 2 ** 53 - 1),
           ('float', float_bits(0.5)), ('float', float_bits(-0.0)), ('str', ''), ('str', 'x'), ('posinf',), ('neginf',)]


def gen_ts_case(rng, real_pairs):
  """-> (table as [(name, literal, sql)], colType, sql flag or None)"""
  if rng.random() < 0.3:
    table = list(real_pairs)
  else:
    names = rng.sample(TYPE_NAMES + ['toString', 'constructor', 'valueOf'], rng.randint(0, 8))
    if rng.random() < 0.6 and 'Any' not in names:
      names.append('Any')
    table = [(n, rng.choice(TS_LITS), rng.choice(['NULL', '0', "''", '1e999'])) for n in names]
  r = rng.random()
  t = (rng.choice(PROTO_NAMES) if r < 0.15 else rng.choice(TYPE_NAMES) if r < 0.6 or not table else rng.choice(table)[0])
  r = rng.random()
  if r < 0.3:
    t = t + ':' + rng.choice(['Table1', 'America/New_York', '', 'a:b'])
  elif r < 0.35:
    t = ':' + t
  return table, t, rng.choice([None, None, False, True])


def stale_files():
  """Names of generated files whose .vo (or Props/C38.vo) is older than what it must have been built from."""
  def mt(p):
    try:
      return os.path.getmtime(p)
    except OSError:
      return None
  prop_vo = mt(os.path.join(core.COQ, 'theories', 'Props', 'C38.vo'))
  bad = []
  for name in ('PySchema_gen', 'TsSchema_gen', 'JsGen_gen', 'TsGen_gen'):
    v, vo = mt(os.path.join(GEN, name + '.v')), mt(os.path.join(GEN, name + '.vo'))
    if v is None or vo is None or vo < v or prop_vo is None or prop_vo < vo:
      bad.append('%s.v %r, %s.vo %r, Props/C38.vo %r' % (name, v, name, vo, prop_vo))
  return bad


def check_not_stale(ctx):
  """The compiled theorems must have been checked against the files written by THIS run.  Guards against a make that
  wrongly found everything up to date (seen when another make was rewriting the shared dependency file): build once
  more, then report."""
  if not stale_files() or any(b['name'].startswith('proof:') for b in ctx.brokens):
    return
  rc, out = core.coq_make(['theories/Props/C38.vo'])
  if rc != 0:
    ctx.broken('proof:Props/C38 (second build)', out[-1500:])
  elif stale_files():
    ctx.broken('proof:Props/C38 is not built from the files of this run', '; '.join(stale_files()))


def correspond(ctx):
  check_not_stale(ctx)
  real = real_schema()
  tt = real_ts_types()

  # (1) render vs the real generator: real schema, then mutated ones
  # The whole real schema goes through Coq in the thorough tier only (in every tier, C38_schema_text_equal together
  # with the search's "generator output = schema.ts" already pins render on the real schema).
  cases = [('real', tt, real[0], real[1])] if ctx.tier == 'thorough' else []
  if run_generator(real[0], real[1], tt) != run_generator_real_inprocess():
    ctx.broken('correspondence:harness wrapper', 'main() on the swapped-in copy of the real schema differs from main() itself')
  for _ in range(ctx.n(40, 800)):
    cases.append(gen_schema_case(ctx.rng, real, tt))
  coq = []
  kept = []
  nchars = 0
  for kind, ts_types, v, tables in cases:
    try:
      out = run_generator(v, tables, ts_types)
    except Exception as e:
      ctx.broken('correspondence:gen_js_schema.main() raised on a generated schema', '%r on %r' % (e, (v, tables)))
      continue
    ncols = sum(len(c) for _, c in tables)
    nchars += len(out)
    ctx.count(('schema', ts_types, v, tables), nontrivial=ncols > 0, kind='schema:' + kind,
              sample=None if kind == 'real' or len(out) > 900 else
              {'ts_types_mutated': ts_types != tt, 'version': v, 'tables': tables, 'generator_output': out})
    coq.append('(%s, %s, %s)' % (coq_pairs(ts_types), coq_schema(v, tables), S(out)))
    kept.append((kind, ts_types, v, tables))
  ctx.log('render cases: %d (%d characters of generator output)' % (len(coq), nchars))
  # the function TRANSLATED from gen_js_schema.py on this run (bridged to Model.JsSchema.render by gen_main_eq)
  bad = ctx.run_cases('render', ['Grist.Model.JsSchema', 'GristGen.JsGen_gen'],
                      'fun c => match JsGen_gen.main (fst (fst c)) (snd (fst c)) with Some t => zs_eqb t (snd c) | None => false end',
                      coq, shard=40, timeout=600)
  ctx.extra['translator_validation'] = {'js2v main vs gen_js_schema.main()': {'cases': len(coq), 'disagree': len(bad)}}
  for i in bad[:5]:
    ctx.broken('correspondence:translated gen_js_schema.main differs from the running main()', 'case %r' % (kept[i],))

  ctx.log('render cases evaluated: %d disagree' % len(bad))

  # (2) py_col_default vs the real usertypes.get_type_default on mutated _type_defaults tables
  dcases = []
  dkept = []
  import usertypes
  for k in list(usertypes._type_defaults) + ['Foo', 'Ref:Table1', 'DateTime:UTC', ':', '']:
    dkept.append((list(usertypes._type_defaults.items()), k))
  for _ in range(ctx.n(100, 3000)):
    dkept.append(gen_default_case(ctx.rng, None))
  for table, t in dkept:
    got = py_wire(py_val(call_get_type_default(table, t)))
    listed = pure_type(t) in dict(table)
    ctx.count(('default', repr(table), t), nontrivial=listed or ':' in t, kind='default:' + ('listed' if listed else 'unlisted'))
    dcases.append('(%s, %s, %s)' % (coq_pairs([(k, py_val(v)) for k, v in table], coq_py_val), S(t), coq_wire(got)))
  bad = ctx.run_cases('defaults', ['Grist.Model.JsSchema', 'GristGen.JsGen_gen'],
                      'fun c => wire_same (py_wire (JsGen_gen.get_type_default (fst (fst c)) (snd (fst c)))) (snd c)', dcases,
                      shard=60, extra_defs=
                      'Definition wire_same (a b : wire) : bool := match a, b with WBad, WBad => true | _, _ => wire_eqb a b end.')
  ctx.extra['translator_validation']['js2v get_type_default vs usertypes.get_type_default'] = \
      {'cases': len(dcases), 'disagree': len(bad)}
  for i in bad[:5]:
    ctx.broken('correspondence:translated get_type_default differs from usertypes.get_type_default', 'case %r' % (dkept[i],))

  ctx.log('default cases evaluated: %d of %d disagree' % (len(bad), len(dcases)))

  # (3) monitor on the Node side: the _defaultValues parser vs node evaluating the literal
  gt = gristtypes_text()
  parsed = parse_default_values(gt)
  ev = node_eval_defaults(gt)
  if ev is None:
    ctx.notes.append('node not found: the _defaultValues parser was not cross-checked on this run')
  else:
    mine = [(k, ts_wire(v)) for k, v in parsed]
    ctx.bump('monitor:node-evaluated-defaults', len(ev))
    if mine != ev:
      ctx.broken('monitor:_defaultValues parser disagrees with node', 'parser %r node %r' % (mine, ev))
  # (4) the functions translated from gristTypes.ts (ts2v) vs node running the real (de-typed) functions
  real_pairs = parse_default_pairs(gt)
  tkept = [(real_pairs, k, q) for k in [n for n, _, _ in real_pairs] + PROTO_NAMES + ['Foo', 'Ref:Table1', ':', '']
           for q in (None, True)]
  for _ in range(ctx.n(60, 2500)):
    tkept.append(gen_ts_case(ctx.rng, real_pairs))
  tables, index = [], {}
  for table, _, _ in tkept:
    src = js_table(table)
    if src not in index:
      index[src] = len(tables)
      tables.append(src)
  res = node_run_ts_functions(detyped_ts_functions(gt), tables, [(index[js_table(tb)], t, q) for tb, t, q in tkept])
  if res is None:
    ctx.notes.append('node not found: the translated gristTypes.ts functions were not run against the real ones')
    return
  results, proto = res
  ctx.bump('monitor:object-prototype-names')
  if proto != PROTO_NAMES:
    ctx.broken('monitor:Object.prototype property names', 'node has %r, Lib.JsPrelude assumes %r' % (proto, PROTO_NAMES))
  tcases = []
  for (table, t, q), (w, ext) in zip(tkept, results):
    exp = {'undefined': 'EUndef', 'throw': 'EThrow'}.get(w[0]) or '(EWire %s)' % coq_wire(w if w[0] != 'other' else ('bad',))
    inherited = pure_type(t) in PROTO_NAMES and pure_type(t) not in [k for k, _, _ in table]
    ctx.count(('tsfn', js_table(table), t, q), nontrivial=True,
              kind='tsfn:' + ('inherited-name' if inherited else 'listed' if pure_type(t) in [k for k, _, _ in table] else 'fallback'))
    tcases.append('(%s, %s, %s, %s, %s)' % (
      core.coq_list(['(%s, (%s, TsStr %s))' % (S(k), coq_ts_lit(v), S(sq)) for k, v, sq in table]), S(t),
      core.boollit(bool(q)), exp, 'None' if ext is None else '(Some %s)' % S(ext)))
  bad = ctx.run_cases(
    'tsfuncs', ['Grist.Model.JsSchema', 'GristGen.TsGen_gen'],
    'fun c => match c with (tbl, ct, q, e, ext) => exp_ok (TsGen_gen.getDefaultForType tbl ct q) e && '
    'match ext with Some x => zs_eqb (TsGen_gen.extractTypeFromColType ct) x | None => true end end', tcases, shard=60,
    extra_defs='Inductive exp := EUndef | EThrow | EWire (w : wire).\n'
               'Definition exp_ok (r : ts_lit) (e : exp) : bool := match e, r with EUndef, TsUndefined => true '
               '| EThrow, TsMissing => true | EWire w, TsUndefined => false | EWire w, TsMissing => false '
               '| EWire w, _ => wire_eqb (ts_wire r) w | _, _ => false end.')
  ctx.extra['translator_validation']['ts2v getDefaultForType/extractTypeFromColType vs node running gristTypes.ts'] = \
      {'cases': len(tcases), 'disagree': len(bad)}
  for i in bad[:5]:
    ctx.broken('correspondence:translated gristTypes.ts functions differ from node running them', 'case %r -> %r' % (tkept[i], results[i]))
  ctx.log('ts function cases evaluated: %d of %d disagree' % (len(bad), len(tcases)))


# ---------------------------------------------------------------------------------------------
# search: the property's own oracle, directly on the files

def parse_schema_ts(text):
  """Lenient reader of schema.ts for the diff message only: (version, {table: [(col, type)]}, {table: [(col, tstype)]})."""
  m = re.search(r'^export const SCHEMA_VERSION = (.*);$', text, re.M)
  version = m.group(1) if m else None
  blocks = [{}, {}]
  order = [[], []]
  which = None
  cur = None
  for line in text.split('\n'):
    if line.startswith('export const schema = {'):
      which = 0
    elif line.startswith('export interface SchemaTypes {'):
      which = 1
    elif which is not None:
      m = re.match(r'^  "(.*)": \{$', line)
      if m:
        cur = m.group(1)
        blocks[which][cur] = []
        order[which].append(cur)
        continue
      m = re.match(r'^    (.*?) *: "(.*)",$', line) if which == 0 else re.match(r'^    (.*?): (.*);$', line)
      if m and cur is not None:
        blocks[which][cur].append((m.group(1), m.group(2)))
  return version, blocks, order


def schema_diff(ctx=None):
  """None if schema.ts is exactly what the generator prints; else a description with the precise differences."""
  want = run_generator_subprocess()
  have = schema_ts_text()
  inproc = run_generator_real_inprocess()
  if inproc != want and ctx is not None:
    ctx.broken('search:generator in-process vs subprocess', 'gen_js_schema.main() prints different text in the two settings')
  version, tables = real_schema()
  tsv, blocks, order = parse_schema_ts(have)
  gen = gen_module()
  msgs = []
  if str(version) != tsv:
    msgs.append('SCHEMA_VERSION: schema.py %r, schema.ts %s' % (version, tsv))
  py_order = [t for t, _ in tables]
  for b, what in ((0, 'schema'), (1, 'SchemaTypes')):
    for t in py_order:
      if t not in blocks[b]:
        msgs.append('%s: table %s is in schema.py but not in schema.ts' % (what, t))
    for t in order[b]:
      if t not in py_order:
        msgs.append('%s: table %s is in schema.ts but not in schema.py' % (what, t))
    if not msgs and order[b] != py_order:
      msgs.append('%s: tables are in a different order' % what)
    for t, cols in tables:
      if ctx is not None:
        ctx.count(('table', what, t), nontrivial=True, kind='search:table-block')
      if t not in blocks[b]:
        continue
      pc = [(c[0], c[1] if b == 0 else gen.get_ts_type(c[1])) for c in cols]
      tc = blocks[b][t]
      if pc == tc:
        continue
      pd, td = dict(pc), dict(tc)
      for c, ty in pc:
        if c not in td:
          msgs.append('%s.%s.%s: in schema.py (%s), missing from schema.ts' % (what, t, c, ty))
        elif td[c] != ty:
          msgs.append('%s.%s.%s: %r from schema.py, %r in schema.ts' % (what, t, c, ty, td[c]))
      for c, ty in tc:
        if c not in pd:
          msgs.append('%s.%s.%s: in schema.ts (%s), not in schema.py' % (what, t, c, ty))
      if sorted(pc) == sorted(tc):
        msgs.append('%s.%s: columns are in a different order' % (what, t))
  if want == have:
    return None
  wl, hl = want.split('\n'), have.split('\n')
  first = next((i for i in range(min(len(wl), len(hl))) if wl[i] != hl[i]), min(len(wl), len(hl)))
  d = list(difflib.unified_diff(wl, hl, 'generator output', 'app/common/schema.ts', n=0, lineterm=''))
  return ('app/common/schema.ts is not what sandbox/gen_js_schema.py prints (first difference at line %d). %s\n%s' %
          (first + 1, '; '.join(msgs[:12]) or 'no structural difference: layout/whitespace only', '\n'.join(d[:40])))


def ts_wire_table():
  """[(type name, value Node sees)] for _defaultValues: by the strict parser; if the literal is outside the parsed
  forms, by node evaluating it (the search must still be able to find a failing type then)."""
  text = gristtypes_text()
  try:
    return [(k, ts_wire(v)) for k, v in parse_default_values(text)], 'parser'
  except core.TieBroken:
    ev = node_eval_defaults(text)
    if ev is None:
      raise
    return [(k, w if w[0] in ('null', 'bool', 'num', 'str') else ('bad',)) for k, w in ev], 'node'


def ts_default_wire(table, col_type):
  """getDefaultForType as read from its text: (_defaultValues[type] || _defaultValues.Any)[0]."""
  d = dict(table)
  t = pure_type(col_type)
  return d[t] if t in d else d.get('Any', ('bad',))


def node_real_defaults(types):
  """{col type: value Node gets} from node running the REAL getDefaultForType (type annotations removed) on the REAL
  _defaultValues literal; None when node is missing or cannot run them (the Python reading of the function is used then)."""
  try:
    text = gristtypes_text()
    literal = '{\n' + '\n'.join(defaults_literal_lines(text)) + '\n}'
    res = node_run_ts_functions(detyped_ts_functions(text), [literal], [(0, t, None) for t in types])
  except Exception:
    return None
  if res is None:
    return None
  out = {}
  for t, (w, _ext) in zip(types, res[0]):
    out[t] = w if w[0] in ('null', 'bool', 'num', 'str') else ('bad',) if w[0] != 'undefined' else ('undefined',)
  return out


def default_diff(t, table=None, node_vals=None):
  """None if Node's and Python's default for column type t agree; else a description."""
  import usertypes
  if table is None:
    table = ts_wire_table()[0]
  if node_vals is None:
    node_vals = node_real_defaults([t]) or {}
  p = py_wire(py_val(usertypes.get_type_default(t)))
  n = node_vals.get(t) or ts_default_wire(table, t)
  if p == n and p[0] != 'bad':
    return None
  return 'default of type %r: usertypes.get_type_default gives %s, gristTypes.ts gives %s' % (
    t, show_wire(p), 'undefined' if n[0] == 'undefined' else show_wire(n))


def search(ctx):
  d = schema_diff(ctx)
  if d:
    ctx.violation('schema-text-differs', d, {'check': 'schema_text'})
  import usertypes
  table, how = ts_wire_table()
  ctx.bump('search:ts-defaults-read-by-' + how)
  names = list(usertypes._type_defaults)
  names += [k for k, _ in table if k not in names]
  plain = names + ['NoSuchType', '']
  suffixed = [n + ':Table1' for n in names] + ['NoSuchType:x', ':Text']
  node_vals = node_real_defaults(plain + suffixed + PROTO_NAMES) or {}
  ctx.bump('search:node-ran-real-getDefaultForType' if node_vals else 'search:python-reading-of-getDefaultForType')
  for t in plain + suffixed:
    ctx.count(('default-search', t), nontrivial=True, kind='search:default')
    d = default_diff(t, table, node_vals)
    if d and (t in plain or not default_diff(pure_type(t), table, node_vals)):   # a suffixed form is reported only if it alone differs
      ctx.violation('default-differs', d, {'check': 'default', 'type': t})
  # outside the property (not Grist types), recorded as an observation: names found through Object.prototype
  odd = [t for t in PROTO_NAMES if t not in names and default_diff(t, table, node_vals)]
  if odd:
    ctx.extra['observation_outside_property'] = (
      'getDefaultForType(T) is undefined (Python: None) for T in %r: _defaultValues[T] finds a member of Object.prototype; '
      'none of these is a Grist type (theorem C38_defaults_refuted_on_prototype_names; C38_code_defaults_equal excludes them)' % odd)
  if set(usertypes._type_defaults) != {k for k, _ in table}:
    ctx.notes.append('type names listed on one side only (defaults still agree through the fallbacks): %s' %
                     sorted(set(usertypes._type_defaults) ^ {k for k, _ in table}))
  ctx.extra['exhaustive'] = True
  ctx.extra['exhaustive_space'] = ('every table of the current schema in both blocks of schema.ts (plus whole-text equality); '
                                   'every type name listed on either side, an unlisted one, and suffixed forms')


def replay(ctx, w):
  if w.get('check') == 'schema_text':
    return schema_diff(None)
  if w.get('check') == 'default':
    return default_diff(w['type'])
  return None
